import QP.Model.C11
/-! Helper lemmas for C11 (core Lean only). -/
namespace QP.C11

/-! ### stores -/
namespace Store

@[simp] theorem get_nil (i : Id) : get [] i = none := rfl

theorem get_cons (j : Id) (d : Data) (r : Store) (i : Id) :
    get ((j, d) :: r) i = if j = i then some d else get r i := rfl

theorem get_put (s : Store) (i : Id) (d : Data) (j : Id) :
    (s.put i d).get j = if j = i then some d else s.get j := by
  unfold put
  rw [get_cons]
  by_cases h : i = j
  · simp [h]
  · have : ¬ j = i := fun e => h e.symm
    simp [h, this]

theorem get_erase (s : Store) (i j : Id) :
    (s.erase i).get j = if j = i then none else s.get j := by
  induction s with
  | nil => simp [erase]
  | cons p r ih =>
    obtain ⟨k, d⟩ := p
    unfold erase at ih ⊢
    by_cases hk : k = i
    · subst hk
      simp only [List.filter, BEq.rfl, Bool.not_true]
      rw [ih, get_cons]
      by_cases hj : j = k
      · simp [hj]
      · have : ¬ k = j := fun e => hj e.symm
        simp [hj, this]
    · have hb : (!(k == i)) = true := by simp [hk]
      simp only [List.filter, hb]
      rw [get_cons, get_cons, ih]
      by_cases hkj : k = j
      · subst hkj
        simp [hk]
      · simp [hkj]

theorem put_get_fun (s : Store) (i : Id) (d : Data) : (s.put i d).get = gput s.get i d := by
  funext j
  simp [get_put, gput]

theorem erase_get_fun (s : Store) (i : Id) : (s.erase i).get = gerase s.get i := by
  funext j
  simp [get_erase, gerase]

theorem mem_ids (s : Store) (i : Id) : i ∈ s.ids ↔ s.get i ≠ none := by
  induction s with
  | nil => simp [ids]
  | cons p r ih =>
    obtain ⟨k, d⟩ := p
    simp only [ids, get_cons, List.mem_cons, List.mem_filter]
    by_cases hk : k = i
    · subst hk
      simp
    · have : ¬ i = k := fun e => hk e.symm
      simp [hk, this, ih]

theorem erase_length_lt (s : Store) (i : Id) (h : s.get i ≠ none) : (s.erase i).length < s.length := by
  induction s with
  | nil => simp at h
  | cons p r ih =>
    obtain ⟨k, d⟩ := p
    unfold erase at ih ⊢
    by_cases hk : k = i
    · subst hk
      simp only [List.filter, BEq.rfl, Bool.not_true, List.length_cons]
      have := List.length_filter_le (fun p : Id × Data => !(p.1 == k)) r
      omega
    · have hb : (!(k == i)) = true := by simp [hk]
      simp only [List.filter, hb, List.length_cons]
      rw [get_cons] at h
      simp only [hk, if_false] at h
      have := ih h
      omega

end Store

/-! ### loading -/

theorem Loads.mono {g g' : G} (h : ∀ j tok refs, g j = some (.doc tok refs) → g' j = some (.doc tok refs))
    {i : Id} (hl : Loads g i) : Loads g' i := by
  induction hl with
  | mk i tok refs hg _ ih => exact Loads.mk i tok refs (h i tok refs hg) ih

theorem Loads.of_erase {g : G} {a i : Id} (hl : Loads (gerase g a) i) : Loads g i := by
  refine Loads.mono ?_ hl
  intro j tok refs hj
  unfold gerase at hj
  by_cases h : j = a
  · simp [h] at hj
  · simpa [h] using hj

/-- writing a complete document whose references load without `i` keeps everything loading -/
theorem allLoad_put {g : G} {i : Id} {tok : Nat} {refs : List Id} (hg : AllLoad g)
    (hr : ∀ r, r ∈ refs → Loads (gerase g i) r) : AllLoad (gput g i (.doc tok refs)) := by
  have hmono : ∀ r, Loads (gerase g i) r → Loads (gput g i (.doc tok refs)) r := by
    intro r
    refine Loads.mono ?_
    intro j t rs hj
    unfold gerase at hj
    unfold gput
    by_cases h : j = i
    · simp [h] at hj
    · simpa [h] using hj
  have hi : Loads (gput g i (.doc tok refs)) i :=
    Loads.mk i tok refs (by simp [gput]) (fun r hr' => hmono r (hr r hr'))
  have hold : ∀ j, Loads g j → Loads (gput g i (.doc tok refs)) j := by
    intro j hj
    induction hj with
    | mk j t rs hgj _ ih =>
      by_cases h : j = i
      · subst h; exact hi
      · exact Loads.mk j t rs (by simp [gput, h, hgj]) ih
  intro j hj
  by_cases h : j = i
  · subst h; exact hi
  · apply hold
    apply hg
    simpa [gput, h] using hj

/-- deleting an entry no other entry refers to keeps everything else loading -/
theorem allLoad_erase {g : G} {i : Id} (hg : AllLoad g)
    (hr : ∀ j d, j ≠ i → g j = some d → ∀ tok refs, d = .doc tok refs → i ∉ refs) :
    AllLoad (gerase g i) := by
  have key : ∀ j, Loads g j → j ≠ i → Loads (gerase g i) j := by
    intro j hj
    induction hj with
    | mk j t rs hgj _ ih =>
      intro hne
      refine Loads.mk j t rs (by simp [gerase, hne, hgj]) ?_
      intro r hrm
      apply ih r hrm
      intro e
      subst e
      exact hr j _ hne hgj t rs rfl hrm
  intro j hj
  by_cases h : j = i
  · simp [gerase, h] at hj
  · apply key j _ h
    apply hg
    simpa [gerase, h] using hj

/-! ### depth-indexed loading and the pruning lemma (a minimal derivation never passes through the
identifier it derives) -/

def LoadsN (g : G) : Nat → Id → Prop
  | 0, _ => False
  | n + 1, i => ∃ tok refs, g i = some (.doc tok refs) ∧ ∀ r, r ∈ refs → LoadsN g n r

theorem LoadsN.mono_fuel {g : G} : ∀ {n m : Nat} {i : Id}, n ≤ m → LoadsN g n i → LoadsN g m i := by
  intro n
  induction n with
  | zero => intro m i _ h; exact h.elim
  | succ n ih =>
    intro m i hnm h
    cases m with
    | zero => omega
    | succ m =>
      obtain ⟨t, rs, hg, hr⟩ := h
      exact ⟨t, rs, hg, fun r hrm => ih (by omega) (hr r hrm)⟩

theorem LoadsN.loads {g : G} : ∀ {n : Nat} {i : Id}, LoadsN g n i → Loads g i := by
  intro n
  induction n with
  | zero => intro i h; exact h.elim
  | succ n ih =>
    intro i h
    obtain ⟨t, rs, hg, hr⟩ := h
    exact Loads.mk i t rs hg (fun r hrm => ih (hr r hrm))

theorem exists_fuel_all {g : G} (refs : List Id) (h : ∀ r, r ∈ refs → ∃ n, LoadsN g n r) :
    ∃ n, ∀ r, r ∈ refs → LoadsN g n r := by
  induction refs with
  | nil => exact ⟨0, fun r hr => by simp at hr⟩
  | cons a rs ih =>
    obtain ⟨n1, h1⟩ := h a (by simp)
    obtain ⟨n2, h2⟩ := ih (fun r hr => h r (by simp [hr]))
    refine ⟨max n1 n2, ?_⟩
    intro r hr
    rcases List.mem_cons.mp hr with e | e
    · subst e; exact LoadsN.mono_fuel (Nat.le_max_left _ _) h1
    · exact LoadsN.mono_fuel (Nat.le_max_right _ _) (h2 r e)

theorem Loads.loadsN {g : G} {i : Id} (h : Loads g i) : ∃ n, LoadsN g n i := by
  induction h with
  | mk i t rs hg _ ih =>
    obtain ⟨n, hn⟩ := exists_fuel_all rs ih
    exact ⟨n + 1, t, rs, hg, hn⟩

/-- either a depth-`m` derivation avoids `a` altogether or it contains a derivation for `a` of depth ≤ m -/
theorem LoadsN.avoid_or {g : G} (a : Id) : ∀ (m : Nat) (j : Id), LoadsN g m j →
    LoadsN (gerase g a) m j ∨ ∃ m', m' ≤ m ∧ LoadsN g m' a := by
  intro m
  induction m with
  | zero => intro j h; exact h.elim
  | succ m ih =>
    intro j h
    by_cases hja : j = a
    · subst hja; exact Or.inr ⟨m + 1, Nat.le_refl _, h⟩
    · obtain ⟨t, rs, hg, hr⟩ := h
      by_cases hall : ∀ r, r ∈ rs → LoadsN (gerase g a) m r
      · exact Or.inl ⟨t, rs, by simp [gerase, hja, hg], hall⟩
      · have : ∃ r, r ∈ rs ∧ ¬ LoadsN (gerase g a) m r := by
          apply Classical.byContradiction
          intro hne
          apply hall
          intro r hrm
          apply Classical.byContradiction
          intro hn
          exact hne ⟨r, hrm, hn⟩
        obtain ⟨r, hrm, hn⟩ := this
        rcases ih r (hr r hrm) with h1 | ⟨m', hm', h2⟩
        · exact (hn h1).elim
        · exact Or.inr ⟨m', by omega, h2⟩

/-- the references of a loading identifier load without it -/
theorem LoadsN.refs_avoid {g : G} : ∀ (n : Nat) (a : Id) (tok : Nat) (refs : List Id),
    g a = some (.doc tok refs) → LoadsN g n a → ∀ r, r ∈ refs → LoadsN (gerase g a) n r := by
  intro n
  induction n using Nat.strongRecOn with
  | _ n ih =>
    intro a tok refs hga h r hrm
    cases n with
    | zero => exact h.elim
    | succ n =>
      obtain ⟨t, rs, hg, hr⟩ := h
      rw [hga] at hg
      injection hg with hg
      injection hg with ht hrs
      subst hrs
      rcases LoadsN.avoid_or a n r (hr r hrm) with h1 | ⟨m', hm', h2⟩
      · exact LoadsN.mono_fuel (by omega) h1
      · have := ih m' (by omega) a tok refs hga h2 r hrm
        exact LoadsN.mono_fuel (by omega) this

theorem Loads.refs_avoid {g : G} {a : Id} {tok : Nat} {refs : List Id} (hga : g a = some (.doc tok refs))
    (h : Loads g a) : ∀ r, r ∈ refs → Loads (gerase g a) r := by
  obtain ⟨n, hn⟩ := h.loadsN
  intro r hrm
  exact (LoadsN.refs_avoid n a tok refs hga hn r hrm).loads

/-- `Loads` unfolds through the erased view -/
theorem loads_iff_erase (g : G) (i : Id) :
    Loads g i ↔ ∃ tok refs, g i = some (.doc tok refs) ∧ ∀ r, r ∈ refs → Loads (gerase g i) r := by
  constructor
  · intro h
    cases h with
    | mk _ t rs hg hr =>
      exact ⟨t, rs, hg, Loads.refs_avoid hg (Loads.mk i t rs hg hr)⟩
  · rintro ⟨t, rs, hg, hr⟩
    exact Loads.mk i t rs hg (fun r hrm => (hr r hrm).of_erase)

/-! ### the executable loader decides `Loads` -/

theorem loadsE_iff : ∀ (n : Nat) (s : Store) (i : Id), s.length ≤ n →
    (loadsE n s i = true ↔ Loads s.get i) := by
  intro n
  induction n with
  | zero =>
    intro s i hn
    have : s = [] := List.eq_nil_of_length_eq_zero (by omega)
    subst this
    simp only [loadsE, Bool.false_eq_true, false_iff]
    intro h
    cases h with
    | mk _ t rs hg _ => simp at hg
  | succ n ih =>
    intro s i hn
    rw [loads_iff_erase]
    unfold loadsE
    cases hgi : s.get i with
    | none => simp
    | some d =>
      cases d with
      | garbage => simp
      | doc t rs =>
        have hlen : (s.erase i).length ≤ n := by
          have := Store.erase_length_lt s i (by simp [hgi])
          omega
        simp only [List.all_eq_true]
        constructor
        · intro h
          refine ⟨t, rs, rfl, ?_⟩
          intro r hrm
          have := (ih (s.erase i) r hlen).mp (h r hrm)
          rwa [Store.erase_get_fun] at this
        · rintro ⟨t', rs', he, h⟩
          injection he with he
          injection he with _ hrs
          subst hrs
          intro r hrm
          apply (ih (s.erase i) r hlen).mpr
          rw [Store.erase_get_fun]
          exact h r hrm

theorem loadsB_iff' (s : Store) (i : Id) : loadsB s i = true ↔ Loads s.get i :=
  loadsE_iff s.length s i (Nat.le_refl _)

theorem allLoadB_iff' (s : Store) : allLoadB s = true ↔ AllLoad s.get := by
  unfold allLoadB AllLoad
  simp only [List.all_eq_true]
  constructor
  · intro h i hi
    exact (loadsB_iff' s i).mp (h i ((Store.mem_ids s i).mpr hi))
  · intro h i hi
    exact (loadsB_iff' s i).mpr (h i ((Store.mem_ids s i).mp hi))

theorem oldOrNewB_iff' (s pre fin : Store) : oldOrNewB s pre fin = true ↔ OldOrNew s.get pre.get fin.get := by
  unfold oldOrNewB OldOrNew
  simp only [List.all_eq_true, Bool.or_eq_true, beq_iff_eq]
  constructor
  · intro h i
    by_cases hm : i ∈ s.ids ++ pre.ids ++ fin.ids
    · exact h i hm
    · simp only [List.mem_append, not_or, Store.mem_ids, ne_eq, Decidable.not_not] at hm
      left
      rw [hm.1.1, hm.1.2]
  · intro h i _
    exact h i

/-! ### sequences of backend calls on the view -/

theorem applyOpsG_cons (g : G) (op : Op) (ops : List Op) :
    applyOpsG g (op :: ops) = applyOpsG (applyOpG g op) ops := rfl

theorem allLoad_applyOp {g : G} {op : Op} (hg : AllLoad g) (hw : WFop g op) : AllLoad (applyOpG g op) := by
  cases op with
  | put i d ow =>
    obtain ⟨t, rs, hd, hr⟩ := hw
    subst hd
    exact allLoad_put hg hr
  | delete i => exact allLoad_erase hg hw

theorem allLoad_take : ∀ (ops : List Op) (g : G), AllLoad g → WFops g ops →
    ∀ j, AllLoad (applyOpsG g (ops.take j)) := by
  intro ops
  induction ops with
  | nil => intro g hg _ j; simpa [applyOpsG] using hg
  | cons op ops ih =>
    intro g hg hw j
    cases j with
    | zero => simpa [applyOpsG] using hg
    | succ j =>
      rw [List.take_succ_cons, applyOpsG_cons]
      exact ih _ (allLoad_applyOp hg hw.1) hw.2 j

theorem applyOpG_ne (g : G) (op : Op) (i : Id) (h : i ≠ op.id) : applyOpG g op i = g i := by
  cases op with
  | put k d ow => simp [applyOpG, gput, Op.id] at h ⊢; simp [h]
  | delete k => simp [applyOpG, gerase, Op.id] at h ⊢; simp [h]

theorem applyOpsG_not_mem : ∀ (ops : List Op) (g : G) (i : Id), i ∉ ops.map Op.id →
    applyOpsG g ops i = g i := by
  intro ops
  induction ops with
  | nil => intro g i _; rfl
  | cons op ops ih =>
    intro g i h
    simp only [List.map_cons, List.mem_cons, not_or] at h
    rw [applyOpsG_cons, ih _ _ h.2, applyOpG_ne _ _ _ h.1]

theorem oldOrNew_take : ∀ (ops : List Op) (g : G), (ops.map Op.id).Nodup →
    ∀ j i, applyOpsG g (ops.take j) i = g i ∨ applyOpsG g (ops.take j) i = applyOpsG g ops i := by
  intro ops
  induction ops with
  | nil => intro g _ j i; left; simp [applyOpsG]
  | cons op ops ih =>
    intro g hnd j i
    simp only [List.map_cons, List.nodup_cons] at hnd
    cases j with
    | zero => left; simp [applyOpsG]
    | succ j =>
      rw [List.take_succ_cons, applyOpsG_cons, applyOpsG_cons]
      rcases ih (applyOpG g op) hnd.2 j i with h | h
      · by_cases hi : i = op.id
        · right
          rw [h, applyOpsG_not_mem ops _ i (by rw [hi]; exact hnd.1)]
        · left
          rw [h, applyOpG_ne _ _ _ hi]
      · right; exact h

/-! ### running steps -/

theorem run_append (a b : List Step) (fs : FS) : run (a ++ b) fs = run b (run a fs) := by
  induction a generalizing fs with
  | nil => rfl
  | cons s a ih => simp [run, ih]

/-- the view of backend `b` is the function `g` -/
def ViewIs (b : Backend) (fs : FS) (g : G) : Prop := ∃ s, view b fs = some s ∧ s.get = g

/-- steps that only touch the temporary file / temporary archive -/
def Step.tmpOnly : Step → Bool
  | .tmpCreate | .tmpWrite _ | .zTmpCreate | .zCopy _ | .zTmpAppend _ _ => true
  | _ => false

/-- everything a backend object or a PulseStorage can observe (all but the temporary files) -/
def FS.durable (fs : FS) : Store × Option Store × Store × Store := (fs.entries, fs.archive, fs.dict, fs.cache)

theorem step_tmpOnly (fs : FS) (s : Step) (h : s.tmpOnly = true) : (step fs s).durable = fs.durable := by
  cases s <;> simp [Step.tmpOnly] at h <;> simp only [step, FS.durable]
  · -- zCopy
    split
    · split <;> rfl
    · rfl
  · split <;> rfl

theorem run_tmpOnly : ∀ (ss : List Step) (fs : FS), (∀ s, s ∈ ss → s.tmpOnly = true) →
    (run ss fs).durable = fs.durable := by
  intro ss
  induction ss with
  | nil => intro fs _; rfl
  | cons s ss ih =>
    intro fs h
    simp only [run]
    rw [ih _ (fun x hx => h x (by simp [hx])), step_tmpOnly _ _ (h s (by simp))]

theorem view_of_durable (b : Backend) {fs fs' : FS} (h : fs'.durable = fs.durable) : view b fs' = view b fs := by
  simp only [FS.durable, Prod.mk.injEq] at h
  cases b <;> simp [view, h.1, h.2.1, h.2.2.1]

theorem ViewIs.of_durable {b : Backend} {fs fs' : FS} {g : G} (h : fs'.durable = fs.durable)
    (hv : ViewIs b fs g) : ViewIs b fs' g := by
  obtain ⟨s, hs, hg⟩ := hv
  exact ⟨s, by rw [view_of_durable b h]; exact hs, hg⟩

/-- a proper prefix of `pre ++ [last]` is a prefix of `pre` -/
theorem take_lt_append_singleton {α} (pre : List α) (last : α) (k : Nat) (hk : k < (pre ++ [last]).length) :
    (pre ++ [last]).take k = pre.take k := by
  have : k ≤ pre.length := by simp at hk; omega
  rw [List.take_append_of_le_length this]

theorem mem_take {α} {l : List α} {k : Nat} {x : α} (h : x ∈ l.take k) : x ∈ l :=
  List.mem_of_mem_take h

/-! ### the copy loop of `ZipFileBackend._update` -/

theorem run_zCopy (a : Store) : ∀ (L : List Id) (fs : FS) (t : Store), fs.archive = some a → fs.tmpZip = some t →
    ∃ t', run (L.map Step.zCopy) fs = { fs with tmpZip := some t' } ∧
      ∀ j, t'.get j = if j ∈ L ∧ a.get j ≠ none then a.get j else t.get j := by
  intro L
  induction L with
  | nil =>
    intro fs t _ ht
    refine ⟨t, ?_, by simp⟩
    cases fs
    simp_all [run]
  | cons l L ih =>
    intro fs t ha ht
    simp only [List.map_cons, run]
    cases hd : a.get l with
    | none =>
      have hs : step fs (.zCopy l) = fs := by simp [step, ha, ht, hd]
      rw [hs]
      obtain ⟨t', h1, h2⟩ := ih fs t ha ht
      refine ⟨t', h1, ?_⟩
      intro j
      rw [h2 j]
      by_cases hj : j = l
      · subst hj; simp [hd]
      · simp [hj]
    | some d =>
      have hs : step fs (.zCopy l) = { fs with tmpZip := some (t.put l d) } := by simp [step, ha, ht, hd]
      rw [hs]
      obtain ⟨t', h1, h2⟩ := ih { fs with tmpZip := some (t.put l d) } (t.put l d) ha rfl
      refine ⟨t', h1, ?_⟩
      intro j
      rw [h2 j, Store.get_put]
      by_cases hj : j = l
      · subst hj; simp [hd]
      · simp [hj]

/-- after `mkstemp` and the copy loop the temporary archive is the archive without `i` -/
theorem run_copyWithout (fs : FS) (a : Store) (i : Id) (ha : fs.archive = some a) :
    ∃ t', run (.zTmpCreate :: copyArchiveWithout i a) fs = { fs with tmpZip := some t' } ∧
      t'.get = gerase a.get i := by
  simp only [run]
  have hs : step fs .zTmpCreate = { fs with tmpZip := some [] } := rfl
  rw [hs]
  obtain ⟨t', h1, h2⟩ := run_zCopy a (a.ids.filter (fun k => !(k == i))) { fs with tmpZip := some [] } [] ha rfl
  refine ⟨t', h1, ?_⟩
  funext j
  rw [h2 j]
  simp only [List.mem_filter, Store.mem_ids, Store.get_nil, gerase]
  by_cases hj : j = i
  · simp [hj]
  · by_cases hn : a.get j = none
    · simp [hj, hn]
    · simp [hj, hn]

theorem gput_gerase (g : G) (i : Id) (d : Data) : gput (gerase g i) i d = gput g i d := by
  funext j
  by_cases h : j = i <;> simp [gput, gerase, h]

/-! ### one backend call of a repaired backend has a single commit point -/

theorem ViewIs.zip_archive {fs : FS} {g : G} (hv : ViewIs .zip fs g) : ∃ a, fs.archive = some a ∧ a.get = g := by
  obtain ⟨s, hs, hg⟩ := hv
  exact ⟨s, hs, hg⟩

/-- shape: all steps but the last only touch temporary files -/
theorem compileOp_shape (b : Backend) (hb : b.fixed = true) (fs : FS) (op : Op) (ss : List Step)
    (hc : compileOp b fs op = .ok ss) :
    ∃ pre last, ss = pre ++ [last] ∧ ∀ s, s ∈ pre → s.tmpOnly = true := by
  cases op with
  | put i d ow =>
    simp only [compileOp] at hc
    split at hc
    · cases hc
    · injection hc with hc
      subst hc
      cases b <;> simp [Backend.fixed] at hb
      · exact ⟨[.tmpCreate, .tmpWrite d], .tmpRename i, rfl, by simp [Step.tmpOnly]⟩
      · refine ⟨.zTmpCreate :: copyArchiveWithout i (members fs) ++ [.zTmpAppend i d], .zRename, by simp, ?_⟩
        intro s hs
        simp only [List.cons_append, List.mem_cons, List.mem_append, copyArchiveWithout, List.mem_map,
          List.not_mem_nil, or_false] at hs
        rcases hs with h | ⟨_, _, h⟩ | h <;> subst h <;> rfl
      · exact ⟨[], .dictPut i d, rfl, by simp⟩
  | delete i =>
    simp only [compileOp] at hc
    split at hc
    · cases hc
    · injection hc with hc
      subst hc
      cases b <;> simp [Backend.fixed] at hb
      · exact ⟨[], .remove i, rfl, by simp⟩
      · refine ⟨.zTmpCreate :: copyArchiveWithout i (members fs), .zRename, by simp, ?_⟩
        intro s hs
        simp only [List.mem_cons, copyArchiveWithout, List.mem_map] at hs
        rcases hs with h | ⟨_, _, h⟩ <;> subst h <;> rfl
      · exact ⟨[], .dictDel i, rfl, by simp⟩

/-- effect: after all its steps the view is the view with the call applied; the cache is untouched -/
theorem compileOp_final (b : Backend) (hb : b.fixed = true) (fs : FS) (op : Op) (ss : List Step) (g : G)
    (hc : compileOp b fs op = .ok ss) (hv : ViewIs b fs g) :
    ViewIs b (run ss fs) (applyOpG g op) ∧ (run ss fs).cache = fs.cache := by
  cases op with
  | put i d ow =>
    simp only [compileOp] at hc
    split at hc
    · cases hc
    · injection hc with hc
      subst hc
      cases b <;> simp [Backend.fixed] at hb
      · -- dir
        obtain ⟨s, hs, hg⟩ := hv
        simp only [view, Option.some.injEq] at hs
        subst hs; subst hg
        refine ⟨⟨_, rfl, ?_⟩, rfl⟩
        simp [run, step, applyOpG, Store.put_get_fun]
      · -- zip
        obtain ⟨a, ha, hg⟩ := hv.zip_archive
        subst hg
        have hm : members fs = a := by simp [members, ha]
        rw [hm]
        obtain ⟨t', h1, h2⟩ := run_copyWithout fs a i ha
        have : (Step.zTmpCreate :: copyArchiveWithout i a ++ [.zTmpAppend i d, .zRename])
            = (Step.zTmpCreate :: copyArchiveWithout i a) ++ [.zTmpAppend i d, .zRename] := by simp
        rw [this, run_append, h1]
        refine ⟨⟨t'.put i d, by simp [run, step, view], ?_⟩, by simp [run, step]⟩
        rw [Store.put_get_fun, h2, gput_gerase]
        rfl
      · -- dict
        obtain ⟨s, hs, hg⟩ := hv
        simp only [view, Option.some.injEq] at hs
        subst hs; subst hg
        refine ⟨⟨_, rfl, ?_⟩, rfl⟩
        simp [run, step, applyOpG, Store.put_get_fun]
  | delete i =>
    simp only [compileOp] at hc
    split at hc
    · cases hc
    · injection hc with hc
      subst hc
      cases b <;> simp [Backend.fixed] at hb
      · obtain ⟨s, hs, hg⟩ := hv
        simp only [view, Option.some.injEq] at hs
        subst hs; subst hg
        refine ⟨⟨_, rfl, ?_⟩, rfl⟩
        simp [run, step, applyOpG, Store.erase_get_fun]
      · obtain ⟨a, ha, hg⟩ := hv.zip_archive
        subst hg
        have hm : members fs = a := by simp [members, ha]
        rw [hm]
        obtain ⟨t', h1, h2⟩ := run_copyWithout fs a i ha
        have : (Step.zTmpCreate :: copyArchiveWithout i a ++ [.zRename])
            = (Step.zTmpCreate :: copyArchiveWithout i a) ++ [.zRename] := by simp
        rw [this, run_append, h1]
        refine ⟨⟨t', by simp [run, step, view], ?_⟩, by simp [run, step]⟩
        rw [h2]
        rfl
      · obtain ⟨s, hs, hg⟩ := hv
        simp only [view, Option.some.injEq] at hs
        subst hs; subst hg
        refine ⟨⟨_, rfl, ?_⟩, rfl⟩
        simp [run, step, applyOpG, Store.erase_get_fun]

/-- a failure strictly inside one backend call leaves no trace of it -/
theorem compileOp_prefix (b : Backend) (hb : b.fixed = true) (fs : FS) (op : Op) (ss : List Step)
    (hc : compileOp b fs op = .ok ss) (k : Nat) (hk : k < ss.length) :
    (run (ss.take k) fs).durable = fs.durable := by
  obtain ⟨pre, last, hss, hpre⟩ := compileOp_shape b hb fs op ss hc
  subst hss
  rw [take_lt_append_singleton pre last k hk]
  exact run_tmpOnly _ _ (fun s hs => hpre s (mem_take hs))

/-- every prefix of the steps of a sequence of backend calls shows the view after some prefix of the calls,
and the cache it started with -/
theorem compileOps_prefix (b : Backend) (hb : b.fixed = true) : ∀ (ops : List Op) (fs : FS) (g : G),
    ViewIs b fs g → ∀ k, ∃ j, ViewIs b (run ((compileOps b fs ops).1.take k) fs) (applyOpsG g (ops.take j)) ∧
      (run ((compileOps b fs ops).1.take k) fs).cache = fs.cache := by
  intro ops
  induction ops with
  | nil => intro fs g hv k; exact ⟨0, by simpa [compileOps, run, applyOpsG] using hv, by simp [compileOps, run]⟩
  | cons op ops ih =>
    intro fs g hv k
    simp only [compileOps]
    cases hc : compileOp b fs op with
    | error e => exact ⟨0, by simpa [run, applyOpsG] using hv, by simp [run]⟩
    | ok ss =>
      simp only
      by_cases hk : k < ss.length
      · refine ⟨0, ?_, ?_⟩
        · rw [List.take_append_of_le_length (by omega)]
          have := compileOp_prefix b hb fs op ss hc k hk
          simpa [applyOpsG] using hv.of_durable this
        · rw [List.take_append_of_le_length (by omega)]
          have := compileOp_prefix b hb fs op ss hc k hk
          simp only [FS.durable, Prod.mk.injEq] at this
          exact this.2.2.2
      · have hk' : ss.length ≤ k := by omega
        rw [List.take_append]
        rw [List.take_of_length_le hk', run_append]
        obtain ⟨hf, hcache⟩ := compileOp_final b hb fs op ss g hc hv
        obtain ⟨j, h1, h2⟩ := ih (run ss fs) (applyOpG g op) hf (k - ss.length)
        refine ⟨j + 1, ?_, ?_⟩
        · rw [List.take_succ_cons, applyOpsG_cons]; exact h1
        · rw [h2, hcache]

/-- when no call raised, the complete run shows the view with all calls applied -/
theorem compileOps_final (b : Backend) (hb : b.fixed = true) : ∀ (ops : List Op) (fs : FS) (g : G),
    ViewIs b fs g → (compileOps b fs ops).2 = none →
    ViewIs b (run (compileOps b fs ops).1 fs) (applyOpsG g ops) := by
  intro ops
  induction ops with
  | nil => intro fs g hv _; simpa [compileOps, run, applyOpsG] using hv
  | cons op ops ih =>
    intro fs g hv hn
    simp only [compileOps] at hn ⊢
    cases hc : compileOp b fs op with
    | error e => simp [hc] at hn
    | ok ss =>
      simp only [hc] at hn
      simp only
      rw [run_append, applyOpsG_cons]
      exact ih _ _ (compileOp_final b hb fs op ss g hc hv).1 hn

/-! ### whole transactions -/

theorem applyOps_get (s : Store) (ops : List Op) : (applyOps s ops).get = applyOpsG s.get ops := by
  induction ops generalizing s with
  | nil => rfl
  | cons op ops ih =>
    simp only [applyOps, applyOpsG, List.foldl_cons] at ih ⊢
    rw [ih]
    congr 1
    cases op <;> simp [applyOp, applyOpG, Store.put_get_fun, Store.erase_get_fun]

theorem epilogue_view (b : Backend) (p : Plan) (fs : FS) : view b (run p.epilogue fs) = view b fs := by
  cases p <;> cases b <;> simp [Plan.epilogue, run, step, view]

/-- every prefix of the steps of a transaction shows the view after some prefix of its backend calls; the
cache is untouched by every proper prefix -/
theorem compileTxn_prefix (b : Backend) (hb : b.fixed = true) (fs : FS) (g : G) (txn : Txn)
    (hv : ViewIs b fs g) : ∀ k, ∃ j,
      ViewIs b (run ((compileTxn b fs txn).1.take k) fs) (applyOpsG g ((txnOps b fs txn).take j)) ∧
      (k < (compileTxn b fs txn).1.length → (run ((compileTxn b fs txn).1.take k) fs).cache = fs.cache) := by
  intro k
  unfold compileTxn txnOps
  cases hp : plan b fs txn with
  | error e => exact ⟨0, by simpa [run, applyOpsG] using hv, fun _ => by simp [run]⟩
  | ok p =>
    simp only [Plan.steps]
    cases he : (compileOps b fs p.ops).2 with
    | some e =>
      simp only
      obtain ⟨j, h1, h2⟩ := compileOps_prefix b hb p.ops fs g hv k
      exact ⟨j, h1, fun _ => h2⟩
    | none =>
      simp only
      by_cases hk : k ≤ (compileOps b fs p.ops).1.length
      · rw [List.take_append_of_le_length hk]
        obtain ⟨j, h1, h2⟩ := compileOps_prefix b hb p.ops fs g hv k
        exact ⟨j, h1, fun _ => h2⟩
      · refine ⟨p.ops.length, ?_, ?_⟩
        · rw [List.take_of_length_le (by simp; have := (show p.epilogue.length ≤ 1 by cases p <;> simp [Plan.epilogue]); omega)]
          rw [run_append, List.take_of_length_le (Nat.le_refl _)]
          obtain ⟨s, hs, hg⟩ := compileOps_final b hb p.ops fs g hv he
          exact ⟨s, by rw [epilogue_view]; exact hs, hg⟩
        · intro hlt
          have := (show p.epilogue.length ≤ 1 by cases p <;> simp [Plan.epilogue])
          simp only [List.length_append] at hlt
          omega

theorem compileTxn_final (b : Backend) (hb : b.fixed = true) (fs : FS) (g : G) (txn : Txn)
    (hv : ViewIs b fs g) (hok : (compileTxn b fs txn).2 = none) :
    ViewIs b (run (compileTxn b fs txn).1 fs) (applyOpsG g (txnOps b fs txn)) := by
  unfold compileTxn txnOps at *
  cases hp : plan b fs txn with
  | error e => simp [hp] at hok
  | ok p =>
    simp only [hp, Plan.steps] at hok ⊢
    cases he : (compileOps b fs p.ops).2 with
    | some e => simp [he] at hok
    | none =>
      simp only
      rw [run_append]
      obtain ⟨s, hs, hg⟩ := compileOps_final b hb p.ops fs g hv he
      exact ⟨s, by rw [epilogue_view]; exact hs, hg⟩

/-! ### the executable well-formedness check decides `WFops` -/

theorem wfOpB_iff (s : Store) (op : Op) : wfOpB s op = true ↔ WFop s.get op := by
  cases op with
  | put i d ow =>
    cases d with
    | garbage => simp [wfOpB, WFop]
    | doc t rs =>
      simp only [wfOpB, WFop, List.all_eq_true, loadsB_iff', Store.erase_get_fun]
      constructor
      · intro h; exact ⟨t, rs, rfl, h⟩
      · rintro ⟨t', rs', he, h⟩
        injection he with _ hrs
        subst hrs
        exact h
  | delete i =>
    simp only [wfOpB, WFop, List.all_eq_true, Store.mem_ids, Bool.or_eq_true, beq_iff_eq]
    constructor
    · intro h j d hne hg t rs hd
      subst hd
      have := h j (by simp [hg])
      rcases this with e | e
      · exact (hne e).elim
      · simp only [hg, Bool.not_eq_true', List.contains_eq_mem, decide_eq_false_iff_not] at e
        exact e
    · intro h j hj
      by_cases hji : j = i
      · left; exact hji
      · right
        cases hg : s.get j with
        | none => rfl
        | some d =>
          cases d with
          | garbage => rfl
          | doc t rs =>
            simp only [Bool.not_eq_true', List.contains_eq_mem, decide_eq_false_iff_not]
            exact h j _ hji hg t rs rfl

theorem wfOpsB_iff : ∀ (ops : List Op) (s : Store), wfOpsB s ops = true ↔ WFops s.get ops := by
  intro ops
  induction ops with
  | nil => intro s; simp [wfOpsB, WFops]
  | cons op ops ih =>
    intro s
    simp only [wfOpsB, WFops, Bool.and_eq_true, wfOpB_iff, ih]
    have : (applyOp s op).get = applyOpG s.get op := by
      cases op <;> simp [applyOp, applyOpG, Store.put_get_fun, Store.erase_get_fun]
    rw [this]

theorem nodupB_iff (l : List Id) : nodupB l = true ↔ l.Nodup := by
  induction l with
  | nil => simp [nodupB]
  | cons a l ih => simp [nodupB, ih]

/-! ### the collected transaction is children-first and free of duplicates -/

def TxnStore.ids (t : TxnStore) : List Id := t.map (fun e => e.1)
def TxnStore.puts (t : TxnStore) : List Op := t.map (fun e => Op.put e.1 e.2.2 true)

theorem TxnStore.puts_ids (t : TxnStore) : t.puts.map Op.id = t.ids := by
  simp [TxnStore.puts, TxnStore.ids, Op.id, Function.comp_def]

theorem TxnStore.oid?_none (t : TxnStore) (i : Id) : t.oid? i = none ↔ i ∉ t.ids := by
  induction t with
  | nil => simp [TxnStore.oid?, TxnStore.ids]
  | cons e t ih =>
    obtain ⟨j, o, d⟩ := e
    simp only [TxnStore.oid?, TxnStore.ids, List.map_cons, List.mem_cons, not_or] at ih ⊢
    by_cases h : j = i
    · simp [h]
    · have : ¬ i = j := fun e => h e.symm
      simp [h, this, ih]

theorem TxnStore.oid?_some (t : TxnStore) (i : Id) (o : Nat) (h : t.oid? i = some o) : i ∈ t.ids := by
  apply Classical.byContradiction
  intro hn
  rw [← TxnStore.oid?_none] at hn
  rw [hn] at h
  cases h

theorem applyOpsG_append (g : G) (a b : List Op) : applyOpsG g (a ++ b) = applyOpsG (applyOpsG g a) b := by
  simp [applyOpsG, List.foldl_append]

theorem WFops_append : ∀ (a b : List Op) (g : G), WFops g (a ++ b) ↔ WFops g a ∧ WFops (applyOpsG g a) b := by
  intro a
  induction a with
  | nil => intro b g; simp [WFops, applyOpsG]
  | cons op a ih =>
    intro b g
    simp only [List.cons_append, WFops, ih, applyOpsG_cons, and_assoc]

/-- the value at an identifier the calls touch does not depend on the view they start from -/
theorem applyOpsG_mem_indep : ∀ (ops : List Op) (g g₂ : G) (k : Id), k ∈ ops.map Op.id →
    applyOpsG g ops k = applyOpsG g₂ ops k := by
  intro ops
  induction ops with
  | nil => intro g g₂ k h; simp at h
  | cons op ops ih =>
    intro g g₂ k h
    rw [applyOpsG_cons, applyOpsG_cons]
    by_cases hk : k ∈ ops.map Op.id
    · exact ih _ _ k hk
    · rw [applyOpsG_not_mem ops _ k hk, applyOpsG_not_mem ops _ k hk]
      simp only [List.map_cons, List.mem_cons] at h
      rcases h with h | h
      · subst h
        cases op <;> simp [applyOpG, gput, gerase, Op.id]
      · exact (hk h).elim

/-- view after the collected entries were put -/
def GT (g : G) (t : TxnStore) : G := applyOpsG g t.puts

theorem GT_not_mem (g : G) (t : TxnStore) (k : Id) (h : k ∉ t.ids) : GT g t k = g k := by
  unfold GT
  exact applyOpsG_not_mem _ _ _ (by rw [TxnStore.puts_ids]; exact h)

theorem GT_snoc (g : G) (t : TxnStore) (j : Id) (o : Nat) (d : Data) :
    GT g (t ++ [(j, o, d)]) = gput (GT g t) j d := by
  unfold GT
  simp [TxnStore.puts, applyOpsG, applyOpG]

theorem TxnStore.ids_snoc (t : TxnStore) (j : Id) (o : Nat) (d : Data) : (t ++ [(j, o, d)]).ids = t.ids ++ [j] := by
  simp [TxnStore.ids]

theorem TxnStore.puts_snoc (t : TxnStore) (j : Id) (o : Nat) (d : Data) :
    (t ++ [(j, o, d)]).puts = t.puts ++ [Op.put j d true] := by
  simp [TxnStore.puts]

/-- where the erased-base view holds a document, the real view holds the same one -/
theorem GT_erase_le (g : G) (top : Id) (t : TxnStore) (k : Id) (d : Data)
    (h : GT (gerase g top) t k = some d) : GT g t k = some d := by
  by_cases hk : k ∈ t.ids
  · unfold GT at h ⊢
    rw [applyOpsG_mem_indep _ g (gerase g top) k (by rw [TxnStore.puts_ids]; exact hk)]
    exact h
  · rw [GT_not_mem _ _ _ hk] at h
    rw [GT_not_mem _ _ _ hk]
    unfold gerase at h
    by_cases e : k = top
    · simp [e] at h
    · simpa [e] using h

theorem GT_erase_eq (g : G) (top : Id) (t : TxnStore) (h : top ∉ t.ids) :
    GT (gerase g top) t = gerase (GT g t) top := by
  funext k
  by_cases hk : k ∈ t.ids
  · have hne : k ≠ top := fun e => h (e ▸ hk)
    unfold GT
    rw [applyOpsG_mem_indep _ (gerase g top) g k (by rw [TxnStore.puts_ids]; exact hk)]
    simp [gerase, hne]
  · rw [GT_not_mem _ _ _ hk]
    unfold gerase
    by_cases e : k = top
    · simp [e]
    · simp [e, GT_not_mem _ _ _ hk]

structure Inv (g : G) (top : Id) (t : TxnStore) : Prop where
  new : ∀ i, i ∈ t.ids → g i = none
  nodup : t.ids.Nodup
  wf : WFops g t.puts
  loads : ∀ i, i ∈ t.ids → Loads (GT (gerase g top) t) i

def Ext (g : G) (top : Id) (t t' : TxnStore) : Prop :=
  (∀ i, i ∈ t.ids → i ∈ t'.ids) ∧ (∀ r, Loads (GT (gerase g top) t) r → Loads (GT (gerase g top) t') r)

theorem Ext.refl (g : G) (top : Id) (t : TxnStore) : Ext g top t t := ⟨fun _ h => h, fun _ h => h⟩

theorem Ext.trans {g : G} {top : Id} {a b c : TxnStore} (h1 : Ext g top a b) (h2 : Ext g top b c) : Ext g top a c :=
  ⟨fun i h => h2.1 i (h1.1 i h), fun r h => h2.2 r (h1.2 r h)⟩

theorem Inv.nil (g : G) (top : Id) : Inv g top [] :=
  ⟨by simp [TxnStore.ids], by simp [TxnStore.ids], by simp [TxnStore.puts, WFops], by simp [TxnStore.ids]⟩

/-- entries already stored load in the view extended by new entries -/
theorem loads_base {g : G} {top : Id} {t : TxnStore} (hI : Inv g top t) {i : Id}
    (h : Loads (gerase g top) i) : Loads (GT (gerase g top) t) i := by
  refine Loads.mono ?_ h
  intro k tok refs hk
  have hnot : k ∉ t.ids := by
    intro hm
    have := hI.new k hm
    unfold gerase at hk
    by_cases e : k = top
    · simp [e] at hk
    · simp [e, this] at hk
  rw [GT_not_mem _ _ _ hnot]
  exact hk

/-- appending a new entry whose references load keeps the invariant -/
theorem Inv.snoc {g : G} {top : Id} {t : TxnStore} (hI : Inv g top t) (j : Id) (o tok : Nat) (refs : List Id)
    (hnew : g j = none) (hj : j ∉ t.ids) (hrefs : ∀ r, r ∈ refs → Loads (GT (gerase g top) t) r) :
    Inv g top (t ++ [(j, o, .doc tok refs)]) ∧ Ext g top t (t ++ [(j, o, .doc tok refs)]) ∧
      Loads (GT (gerase g top) (t ++ [(j, o, .doc tok refs)])) j := by
  have hg'j : GT (gerase g top) t j = none := by
    rw [GT_not_mem _ _ _ hj]
    unfold gerase
    by_cases e : j = top <;> simp [e, hnew]
  have hgj : GT g t j = none := by rw [GT_not_mem _ _ _ hj]; exact hnew
  have hmono : ∀ r, Loads (GT (gerase g top) t) r → Loads (GT (gerase g top) (t ++ [(j, o, .doc tok refs)])) r := by
    intro r
    refine Loads.mono ?_
    intro k tk rs hk
    rw [GT_snoc]
    unfold gput
    by_cases e : k = j
    · rw [e, hg'j] at hk; cases hk
    · simpa [e] using hk
  have hloadj : Loads (GT (gerase g top) (t ++ [(j, o, .doc tok refs)])) j :=
    Loads.mk j tok refs (by rw [GT_snoc]; simp [gput]) (fun r hr => hmono r (hrefs r hr))
  refine ⟨⟨?_, ?_, ?_, ?_⟩, ⟨?_, hmono⟩, hloadj⟩
  · intro i hi
    rw [TxnStore.ids_snoc, List.mem_append, List.mem_singleton] at hi
    rcases hi with hi | hi
    · exact hI.new i hi
    · rw [hi]; exact hnew
  · rw [TxnStore.ids_snoc]
    exact List.nodup_append.mpr ⟨hI.nodup, by simp, by
      intro a ha b hb
      simp only [List.mem_singleton] at hb
      subst hb
      intro e; subst e; exact hj ha⟩
  · rw [TxnStore.puts_snoc, WFops_append]
    refine ⟨hI.wf, ⟨tok, refs, rfl, ?_⟩, trivial⟩
    intro r hr
    refine Loads.mono ?_ (hrefs r hr)
    intro k tk rs hk
    have h1 := GT_erase_le g top t k _ hk
    unfold gerase
    by_cases e : k = j
    · rw [e] at h1; unfold GT at hgj h1; rw [hgj] at h1; cases h1
    · simpa [e, GT] using h1
  · intro i hi
    rw [TxnStore.ids_snoc, List.mem_append, List.mem_singleton] at hi
    rcases hi with hi | hi
    · exact hmono i (hI.loads i hi)
    · rw [hi]; exact hloadj
  · intro i hi
    rw [TxnStore.ids_snoc]
    exact List.mem_append_left _ hi

/-- statement proved by mutual induction over the tree -/
def EncOK (g : G) (top : Id) (res : Except Err (List Id × TxnStore)) (t : TxnStore) : Prop :=
  ∀ refs t', res = .ok (refs, t') →
    Inv g top t' ∧ Ext g top t t' ∧ ∀ r, r ∈ refs → Loads (GT (gerase g top) t') r

theorem encode_ok (g : G) (top : Id) (present : Id → Bool) (hpres : ∀ i, present i = true ↔ g i ≠ none) (c : Node) :
    ∀ t, Inv g top t → c.reusedOK (fun i => Loads (gerase g top) i) →
      EncOK g top (encodeChild present c t) t := by
  refine Node.rec
    (motive_1 := fun c => ∀ t, Inv g top t → c.reusedOK (fun i => Loads (gerase g top) i) →
      EncOK g top (encodeChild present c t) t)
    (motive_2 := fun cs => ∀ t, Inv g top t → reusedOKs (fun i => Loads (gerase g top) i) cs →
      EncOK g top (encodeChildren present cs t) t)
    ?_ ?_ ?_ c
  · -- a node
    intro id oid tok ser reused children ih t hI hre refs t' hres
    obtain ⟨hre1, hre2⟩ := hre
    cases id with
    | none =>
      simp only [encodeChild] at hres
      split at hres
      · cases hres
      · exact ih t hI hre2 refs t' hres
    | some i =>
      simp only [encodeChild] at hres
      split at hres
      · -- present in the storage
        split at hres
        · rename_i hp hr
          injection hres with hres
          injection hres with h1 h2
          subst h1; subst h2
          refine ⟨hI, Ext.refl _ _ _, ?_⟩
          intro r hr'
          simp only [List.mem_singleton] at hr'
          subst hr'
          exact loads_base hI (hre1 hr r rfl)
        · cases hres
      · rename_i hp
        have hnew : g i = none := by
          by_cases h : g i = none
          · exact h
          · exact absurd ((hpres i).mpr h) hp
        split at hres
        · -- already collected in this transaction
          rename_i o ho
          split at hres
          · injection hres with hres
            injection hres with h1 h2
            subst h1; subst h2
            refine ⟨hI, Ext.refl _ _ _, ?_⟩
            intro r hr'
            simp only [List.mem_singleton] at hr'
            subst hr'
            exact hI.loads r (TxnStore.oid?_some t r o ho)
          · cases hres
        · split at hres
          · cases hres
          · split at hres
            · cases hres
            · rename_i refs1 t1 henc
              split at hres
              · cases hres
              · rename_i hno
                injection hres with hres
                injection hres with h1 h2
                subst h1; subst h2
                obtain ⟨hI1, hE1, hR1⟩ := ih t hI hre2 refs1 t1 henc
                have hj : i ∉ t1.ids := by
                  rw [← TxnStore.oid?_none]
                  cases h : t1.oid? i with
                  | none => rfl
                  | some o => simp [h] at hno
                obtain ⟨hI2, hE2, hL⟩ := hI1.snoc i oid tok refs1 hnew hj hR1
                refine ⟨hI2, hE1.trans hE2, ?_⟩
                intro r hr'
                simp only [List.mem_singleton] at hr'
                subst hr'
                exact hL
  · -- no children
    intro t hI _ refs t' hres
    simp only [encodeChildren] at hres
    injection hres with hres
    injection hres with h1 h2
    subst h1; subst h2
    exact ⟨hI, Ext.refl _ _ _, by simp⟩
  · -- first child, then the others
    intro c cs ihc ihcs t hI hre refs t' hres
    obtain ⟨hre1, hre2⟩ := hre
    simp only [encodeChildren] at hres
    split at hres
    · cases hres
    · rename_i r1 t1 h1
      split at hres
      · cases hres
      · rename_i r2 t2 h2
        injection hres with hres
        injection hres with e1 e2
        subst e1; subst e2
        obtain ⟨hI1, hE1, hR1⟩ := ihc t hI hre1 r1 t1 h1
        obtain ⟨hI2, hE2, hR2⟩ := ihcs t1 hI1 hre2 r2 t2 h2
        refine ⟨hI2, hE1.trans hE2, ?_⟩
        intro r hr
        rcases List.mem_append.mp hr with h | h
        · exact hE2.2 r (hR1 r h)
        · exact hR2 r h

theorem encodeChildren_ok (g : G) (top : Id) (present : Id → Bool) (hpres : ∀ i, present i = true ↔ g i ≠ none) :
    ∀ (cs : List Node) t, Inv g top t → reusedOKs (fun i => Loads (gerase g top) i) cs →
      EncOK g top (encodeChildren present cs t) t := by
  intro cs
  induction cs with
  | nil =>
    intro t hI _ refs t' hres
    simp only [encodeChildren] at hres
    injection hres with hres
    injection hres with h1 h2
    subst h1; subst h2
    exact ⟨hI, Ext.refl _ _ _, by simp⟩
  | cons c cs ih =>
    intro t hI hre refs t' hres
    obtain ⟨hre1, hre2⟩ := hre
    simp only [encodeChildren] at hres
    split at hres
    · cases hres
    · rename_i r1 t1 h1
      split at hres
      · cases hres
      · rename_i r2 t2 h2
        injection hres with hres
        injection hres with e1 e2
        subst e1; subst e2
        obtain ⟨hI1, hE1, hR1⟩ := encode_ok g top present hpres c t hI hre1 r1 t1 h1
        obtain ⟨hI2, hE2, hR2⟩ := ih t1 hI1 hre2 r2 t2 h2
        refine ⟨hI2, hE1.trans hE2, ?_⟩
        intro r hr
        rcases List.mem_append.mp hr with h | h
        · exact hE2.2 r (hR1 r h)
        · exact hR2 r h

/-- the transaction collected by `PulseStorage.overwrite(top, n)` is well formed: every put is preceded by
the puts of the entries it refers to, no identifier occurs twice -/
theorem collect_wf' (g : G) (top : Id) (present : Id → Bool) (hpres : ∀ i, present i = true ↔ g i ≠ none)
    (n : Node) (hre : n.reusedOK (fun i => Loads (gerase g top) i)) (ws : List (Id × Data))
    (hc : collect present top n = .ok ws) :
    WFops g (ws.map (fun p => Op.put p.1 p.2 true)) ∧ ((ws.map (fun p => Op.put p.1 p.2 true)).map Op.id).Nodup := by
  have hre2 : reusedOKs (fun i => Loads (gerase g top) i) n.children := by
    cases n; exact hre.2
  unfold collect at hc
  by_cases hs : (!n.ser) = true
  · rw [if_pos hs] at hc; cases hc
  · rw [if_neg hs] at hc
    cases henc : encodeChildren present n.children [] with
    | error e => rw [henc] at hc; cases hc
    | ok res =>
      obtain ⟨refs, t⟩ := res
      rw [henc] at hc
      simp only at hc
      by_cases hno : (t.oid? top).isSome = true
      · rw [if_pos hno] at hc; cases hc
      · rw [if_neg hno] at hc
        injection hc with hc
        subst hc
        obtain ⟨hI, _, hR⟩ := encodeChildren_ok g top present hpres n.children [] (Inv.nil g top) hre2 refs t henc
        have htop : top ∉ t.ids := by
          rw [← TxnStore.oid?_none]
          cases h : t.oid? top with
          | none => rfl
          | some o => simp [h] at hno
        have hops : (t.writes ++ [(top, Data.doc n.tok refs)]).map (fun p => Op.put p.1 p.2 true)
            = t.puts ++ [Op.put top (.doc n.tok refs) true] := by
          simp [TxnStore.writes, TxnStore.puts, Function.comp_def]
        rw [hops]
        constructor
        · rw [WFops_append]
          refine ⟨hI.wf, ⟨n.tok, refs, rfl, ?_⟩, trivial⟩
          intro r hr
          have := hR r hr
          rw [GT_erase_eq g top t htop] at this
          exact this
        · rw [List.map_append, TxnStore.puts_ids]
          simp only [List.map_cons, List.map_nil, Op.id]
          exact List.nodup_append.mpr ⟨hI.nodup, by simp, by
            intro a ha b hb
            simp only [List.mem_singleton] at hb
            subst hb
            intro e; subst e; exact htop ha⟩

/-! ### the cache stays inside the stored content across stores / overwrites, whatever position fails -/

theorem applyOpsG_puts_mono : ∀ (ws : List (Id × Data)) (g : G) (i : Id), g i ≠ none →
    applyOpsG g (ws.map (fun p => Op.put p.1 p.2 true)) i ≠ none := by
  intro ws
  induction ws with
  | nil => intro g i h; exact h
  | cons w ws ih =>
    intro g i h
    simp only [List.map_cons, applyOpsG_cons]
    apply ih
    simp only [applyOpG, gput]
    by_cases e : i = w.1 <;> simp [e, h]

theorem applyOpsG_puts_take_mono (ws : List (Id × Data)) (g : G) (i : Id) (j : Nat) (h : g i ≠ none) :
    applyOpsG g ((ws.map (fun p => Op.put p.1 p.2 true)).take j) i ≠ none := by
  rw [← List.map_take]
  exact applyOpsG_puts_mono _ g i h

theorem applyOpsG_puts_mem : ∀ (ws : List (Id × Data)) (g : G) (i : Id), i ∈ ws.map (fun p => p.1) →
    applyOpsG g (ws.map (fun p => Op.put p.1 p.2 true)) i ≠ none := by
  intro ws
  induction ws with
  | nil => intro g i h; simp at h
  | cons w ws ih =>
    intro g i h
    simp only [List.map_cons, applyOpsG_cons]
    simp only [List.map_cons, List.mem_cons] at h
    by_cases hm : i ∈ ws.map (fun p => p.1)
    · exact ih _ i hm
    · rcases h with h | h
      · apply applyOpsG_puts_mono
        simp [applyOpG, gput, h]
      · exact (hm h).elim

theorem compileOps_puts_ok (b : Backend) : ∀ (ws : List (Id × Data)) (fs : FS),
    (compileOps b fs (ws.map (fun p => Op.put p.1 p.2 true))).2 = none := by
  intro ws
  induction ws with
  | nil => intro fs; rfl
  | cons w ws ih =>
    intro fs
    simp only [List.map_cons, compileOps, compileOp, Bool.not_true, Bool.and_false, Bool.false_eq_true, if_false]
    exact ih _

theorem publish_get : ∀ (ws : List (Id × Data)) (c : Store) (i : Id),
    (ws.foldl (fun c p => c.put p.1 p.2) c).get i ≠ none → c.get i ≠ none ∨ i ∈ ws.map (fun p => p.1) := by
  intro ws
  induction ws with
  | nil => intro c i h; left; exact h
  | cons w ws ih =>
    intro c i h
    simp only [List.foldl_cons] at h
    rcases ih _ i h with h' | h'
    · rw [Store.get_put] at h'
      by_cases e : i = w.1
      · right; simp [e]
      · left; simpa [e] using h'
    · right; simp [h']

/-- a store / overwrite (plan `puts`) keeps the cache inside the stored content at every failure position -/
theorem cacheOK_puts (b : Backend) (hb : b.fixed = true) (fs : FS) (txn : Txn) (ws : List (Id × Data))
    (hp : plan b fs txn = .ok (.puts ws)) (hc : CacheOK b fs) (pre : Store) (hview : view b fs = some pre)
    (k : Nat) : CacheOK b (runTxn b fs txn k) := by
  have hv : ViewIs b fs pre.get := ⟨pre, hview, rfl⟩
  have hops : txnOps b fs txn = ws.map (fun p => Op.put p.1 p.2 true) := by simp [txnOps, hp, Plan.ops]
  by_cases hk : k < (compileTxn b fs txn).1.length
  · obtain ⟨j, ⟨s, hs, hg⟩, hcache⟩ := compileTxn_prefix b hb fs pre.get txn hv k
    intro pre' hpre' i hi
    unfold runTxn at hpre' hi
    rw [hs] at hpre'
    injection hpre' with e
    subst e
    rw [hcache hk] at hi
    rw [hg, hops]
    exact applyOpsG_puts_take_mono ws _ i j (hc pre hview i hi)
  · have hall : (compileTxn b fs txn).1.take k = (compileTxn b fs txn).1 := List.take_of_length_le (by omega)
    have herr : (compileTxn b fs txn).2 = none := by
      simp [compileTxn, hp, Plan.steps, Plan.ops, compileOps_puts_ok]
    obtain ⟨s, hs, hg⟩ := compileTxn_final b hb fs pre.get txn hv herr
    have hsteps : (compileTxn b fs txn).1
        = (compileOps b fs (ws.map (fun p => Op.put p.1 p.2 true))).1 ++ [.publish ws] := by
      simp [compileTxn, hp, Plan.steps, Plan.ops, Plan.epilogue, compileOps_puts_ok]
    have hcache0 : (run (compileOps b fs (ws.map (fun p => Op.put p.1 p.2 true))).1 fs).cache = fs.cache := by
      obtain ⟨_, _, h⟩ := compileOps_prefix b hb (ws.map (fun p => Op.put p.1 p.2 true)) fs pre.get hv
        (compileOps b fs (ws.map (fun p => Op.put p.1 p.2 true))).1.length
      rw [List.take_of_length_le (Nat.le_refl _)] at h
      exact h
    intro pre' hpre' i hi
    unfold runTxn at hpre' hi
    rw [hall] at hpre' hi
    rw [hs] at hpre'
    injection hpre' with e
    subst e
    rw [hg, hops]
    rw [hsteps, run_append] at hi
    simp only [run, step] at hi
    rw [hcache0] at hi
    rcases publish_get ws fs.cache i hi with h | h
    · exact applyOpsG_puts_mono ws _ i (hc pre hview i h)
    · exact applyOpsG_puts_mem ws _ i h

theorem plan_tree_cases (b : Backend) (fs : FS) (top : Id) (n : Node) (txn : Txn)
    (ht : txn = .overwrite top n ∨ txn = .setitem top n) :
    (∃ e, plan b fs txn = .error e) ∨ (∃ ws, plan b fs txn = .ok (.puts ws)) ∨ plan b fs txn = .ok (.calls []) := by
  rcases ht with ht | ht <;> subst ht
  · simp only [plan]
    cases collect (presentB b fs) top n with
    | error e => left; exact ⟨e, rfl⟩
    | ok ws => right; left; exact ⟨ws, rfl⟩
  · simp only [plan]
    split
    · left; exact ⟨_, rfl⟩
    · split
      · split
        · right; right; rfl
        · left; exact ⟨_, rfl⟩
      · split
        · left; exact ⟨_, rfl⟩
        · cases collect (presentB b fs) top n with
          | error e => left; exact ⟨e, rfl⟩
          | ok ws => right; left; exact ⟨ws, rfl⟩

/-- … for every store / overwrite of a tree -/
theorem cacheOK_tree (b : Backend) (hb : b.fixed = true) (fs : FS) (top : Id) (n : Node) (txn : Txn)
    (ht : txn = .overwrite top n ∨ txn = .setitem top n) (hc : CacheOK b fs) (pre : Store)
    (hview : view b fs = some pre) (k : Nat) : CacheOK b (runTxn b fs txn k) := by
  rcases plan_tree_cases b fs top n txn ht with ⟨e, he⟩ | ⟨ws, hws⟩ | hcalls
  · have : runTxn b fs txn k = fs := by simp [runTxn, compileTxn, he, run]
    rw [this]; exact hc
  · exact cacheOK_puts b hb fs txn ws hws hc pre hview k
  · have : runTxn b fs txn k = fs := by
      simp [runTxn, compileTxn, hcalls, Plan.steps, Plan.ops, Plan.epilogue, compileOps, run]
    rw [this]; exact hc

end QP.C11
