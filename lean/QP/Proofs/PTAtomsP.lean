import QP.Model.PT
import QP.Proofs.PTDenoteND
import QP.Proofs.PTAtomsT
/-! From `BuildOKP` (waveforms of positive duration) to the appended leaf, with and without a global transformation;
the atom trees that include `ArithmeticAtomicPT`. -/
namespace QP.PT
open QP.C05 (Chain.chanF Chain.presF Trafo.chanF Trafo.presF pv)

theorem atomOK_of_buildOKP {pt : PT} (hb : BuildOKP pt) : AtomOK pt := by
  intro σ mm cm items P h1 h2 hpos
  rcases atomItems_shape' h1 with ⟨hw, rfl⟩ | ⟨w, ms, w', hw, hms, hw', rfl⟩
  · have := hb σ mm cm none P hw h2
    simp only at this
    subst this
    exact Rel.nil
  · have hw'dur : w'.duration = w.duration := by
      rcases hw' with ⟨rfl, _⟩ | ⟨cv, _, hcm⟩
      · rfl
      · exact (constFromMapping_spec hcm).1
    have hwpos : 0 < w.duration := by
      rw [nodesOf_append] at hpos
      have := (allPosList_append.mp hpos).2
      simp only [nodesOf] at this
      have := Loop.allPos_duration_pos _ (allPosList_cons.mp this).1
      rw [leaf_duration, hw'dur] at this
      exact this
    obtain ⟨_, hrel, hcol, hwin⟩ := hb σ mm cm (some w) P hw h2 hwpos
    have hrel' : WfRel w' P := by
      rcases hw' with ⟨rfl, _⟩ | ⟨cv, hcv, hcm⟩
      · exact hrel
      · exact hrel.collapse hcol hcv hcm
    have hP : P = { dur := P.dur, chans := P.chans, windows := ms } := by
      rw [← hwin ms hms]
    have hdpos : 0 < P.dur := by rw [← hrel.dur]; exact hwpos
    rw [hP]
    apply rel_single_leaf w' ms P.dur hdpos hrel'.dur P.chans hrel'.ne
    · intro x; rw [hrel'.chans]; simp [Pulse.chanNames]
    · intro c pl hc
      exact ⟨hrel'.plDur c pl hc, hrel'.plPos c pl hc, hrel'.sample c pl hc⟩

theorem atomOKT_of_buildOKP {pt : PT} (hb : BuildOKP pt) : AtomOKT pt := by
  intro σ mm cm T items P h1 h2 hpos
  rcases QP.C05.atomItems_ok pt (ctxT σ mm cm T) items h1 with ⟨hw, rfl⟩ | ⟨w, ms, wT, wF, hw, hms, hwT, hwF, rfl⟩
  · have := hb σ mm cm none P hw h2
    simp only at this
    subst this
    exact RelT.nil T
  · simp only [ctxT] at hw hms hwT
    have hcw := QP.C05.noRep_cst w (QP.C05.buildWaveform_noRep pt _ _ w hw)
    obtain ⟨a1, a2, a3, _⟩ := QP.C05.collapseWf_spec w wT _ hcw hwT
    obtain ⟨b1, _, b3, _⟩ := QP.C05.foldConst_spec wT wF a2 hwF
    have hwpos : 0 < w.duration := by
      unfold QP.C05.leafItems at hpos
      rw [nodesOf_append] at hpos
      have := (allPosList_append.mp hpos).2
      simp only [nodesOf] at this
      have := Loop.allPos_duration_pos _ (allPosList_cons.mp this).1
      rw [leaf_duration, b1, a1] at this
      exact this
    obtain ⟨_, hrel, _, hwin⟩ := hb σ mm cm (some w) P hw h2 hwpos
    unfold QP.C05.leafItems
    apply relT_single_leaf T wF ms P (by rw [← hrel.dur]; exact hwpos) (by rw [b1, a1, hrel.dur]) hrel.ne (hwin ms hms)
      hrel.plDur hrel.plPos
    · intro c t h0 h1
      rw [b3, a3, pv_of_wfRel hrel c t h0 h1]
    · intro x
      have h := QP.C05.pv_isSome wF x 0
      rw [b3, a3, QP.C05.Chain.chanF_isSome, QP.C05.pv_isSome, hrel.chans] at h
      exact h.symm

end QP.PT
