import QP.Proofs.C07Lemmas
/-!
# C07 helper lemmas: table templates

`TableEntry._sequence_integral` against the integral of the piecewise linear function the instantiated entries
denote; the padding `TablePulseTemplate.get_entries_instantiated` adds (entry at time 0, entry at the common
duration); which entry list of `tableInstantiate` ends up on which channel of the denoted pulse.
-/
namespace QP.C07
open QP.PT

theorem plIntegral_entriesToPL : ∀ (ws : List WEntry), sortedTimes ws = true →
    plIntegral (entriesToPL ws) = sequenceIntegral ws
  | [], _ => by simp [entriesToPL, sequenceIntegral, plIntegral]
  | [_], _ => by simp [entriesToPL, sequenceIntegral, plIntegral]
  | e1 :: e2 :: rest, h => by
    simp only [sortedTimes, Bool.and_eq_true, decide_eq_true_eq] at h
    have ih := plIntegral_entriesToPL (e2 :: rest) h.2
    rw [entriesToPL, sequenceIntegral, plIntegral_append, ih]
    by_cases hlt : e1.t < e2.t
    · simp only [hlt, if_true]
      cases hi : e2.interp <;> simp [plIntegral, interpIntegral] <;> grind
    · have heq : e1.t = e2.t := by grind
      simp only [hlt, if_false]
      cases hi : e2.interp <;> simp [plIntegral, interpIntegral, heq] <;> grind


def frontPad (ws : List WEntry) : List WEntry :=
  match ws with
  | w :: _ => if w.t > 0 then { t := 0, v := w.v, interp := .hold } :: ws else ws
  | [] => ws

def backPad (d : Rat) (ws : List WEntry) : List WEntry :=
  match lastEntry? ws with
  | some e => if e.t < d then ws ++ [{ t := d, v := e.v, interp := .hold }] else ws
  | none => ws

theorem lastEntry?_cons_cons (a b : WEntry) (r : List WEntry) : lastEntry? (a :: b :: r) = lastEntry? (b :: r) := rfl

theorem lastEntry?_eq_getLast? : ∀ (ws : List WEntry), lastEntry? ws = ws.getLast?
  | [] => rfl
  | [_] => rfl
  | a :: b :: r => by rw [lastEntry?_cons_cons, lastEntry?_eq_getLast? (b :: r)]; simp [List.getLast?_cons_cons]

theorem lastT_eq : ∀ (ws : List WEntry), lastT ws = match lastEntry? ws with | some e => e.t | none => 0
  | [] => rfl
  | [_] => rfl
  | a :: b :: r => by
      have : lastT (a :: b :: r) = lastT (b :: r) := rfl
      rw [this, lastEntry?_cons_cons, lastT_eq (b :: r)]

theorem lastEntry?_frontPad (ws : List WEntry) : lastEntry? (frontPad ws) = lastEntry? ws := by
  cases ws with
  | nil => rfl
  | cons w r =>
    simp only [frontPad]
    split
    · rfl
    · rfl

/-- `instEntries` maps entry by entry: the last instantiated entry is the instantiated last entry -/
theorem instEntries_last {σ : Scope} : ∀ (es : List TEntry) (ws : List WEntry), instEntries σ es = .ok ws →
    ∀ e, es.getLast? = some e → ∃ w, lastEntry? ws = some w ∧ σ.eval e.t = .ok w.t ∧ σ.eval e.v = .ok w.v
  | [], ws, h, e, he => by simp at he
  | [x], ws, h, e, he => by
    simp only [instEntries, List.mapM_cons, List.mapM_nil, bind_ok_iff, pure_ok_iff] at h
    obtain ⟨w, ⟨t, ht, v, hv, rfl⟩, _, rfl, rfl⟩ := h
    simp only [List.getLast?_singleton, Option.some.injEq] at he
    subst he
    exact ⟨_, rfl, ht, hv⟩
  | x :: y :: r, ws, h, e, he => by
    simp only [instEntries, List.mapM_cons, bind_ok_iff, pure_ok_iff] at h
    obtain ⟨w, _, ws', ⟨w2, hw2, ws'', hws'', rfl⟩, rfl⟩ := h
    rw [List.getLast?_cons_cons] at he
    have hrec : instEntries σ (y :: r) = .ok (w2 :: ws'') := by
      simp only [instEntries, List.mapM_cons, bind_ok_iff, pure_ok_iff]
      exact ⟨w2, hw2, ws'', hws'', rfl⟩
    obtain ⟨w', h1, h2, h3⟩ := instEntries_last (y :: r) (w2 :: ws'') hrec e he
    exact ⟨w', by rw [lastEntry?_cons_cons]; exact h1, h2, h3⟩

theorem instEntries_first {σ : Scope} (x : TEntry) (r : List TEntry) (ws : List WEntry)
    (h : instEntries σ (x :: r) = .ok ws) : ∃ w rest, ws = w :: rest ∧ σ.eval x.v = .ok w.v ∧ σ.eval x.t = .ok w.t := by
  simp only [instEntries, List.mapM_cons, bind_ok_iff, pure_ok_iff] at h
  obtain ⟨w, ⟨t, ht, v, hv, rfl⟩, ws', _, rfl⟩ := h
  exact ⟨_, ws', rfl, hv, ht⟩



def listMax? : List Rat → Option Rat
  | [] => none
  | t :: rest => some (rest.foldl (fun m x => if m ≤ x then x else m) t)

theorem inst0_spec {σ : Scope} : ∀ (entries : List (Chan × List TEntry)) (a : List (Chan × List WEntry)),
    entries.mapM (fun x => do
        let ws ← instEntries σ x.snd
        match ws with
          | [] => Except.error Err.valueError
          | w :: _ => pure (x.fst, if w.t > 0 then ({ t := 0, v := w.v, interp := Interp.hold } : WEntry) :: ws else ws)) = .ok a →
    (∀ c es, entries.lookup c = some es → ∃ ws, instEntries σ es = .ok ws ∧ ws ≠ [] ∧ a.lookup c = some (frontPad ws)) ∧
    (∀ x ∈ a, x.2 ≠ []) ∧
    (∀ ts, entries.mapM (fun (x : Chan × List TEntry) => match x.2.getLast? with
        | some e => σ.eval e.t
        | none => Except.error Err.valueError) = .ok ts → ts = a.map (fun x => lastT x.2))
  | [], a, h => by
    simp only [List.mapM_nil, pure_ok_iff] at h; subst h
    refine ⟨fun c es hl => by simp [List.lookup] at hl, fun x hx => (nomatch hx), fun ts hts => ?_⟩
    simp only [List.mapM_nil, pure_ok_iff] at hts; subst hts; rfl
  | (c0, es0) :: rest, a, h => by
    simp only [List.mapM_cons, bind_ok_iff, pure_ok_iff] at h
    obtain ⟨y, ⟨ws0, hws0, hy⟩, a', ha', rfl⟩ := h
    obtain ⟨i1, i2, i3⟩ := inst0_spec rest a' ha'
    cases ws0 with
    | nil => simp at hy
    | cons w0 r0 =>
      simp only [pure_ok_iff] at hy
      subst hy
      have hfp : (if w0.t > 0 then ({ t := 0, v := w0.v, interp := Interp.hold } : WEntry) :: w0 :: r0 else w0 :: r0) =
          frontPad (w0 :: r0) := rfl
      refine ⟨?_, ?_, ?_⟩
      · intro c es hl
        simp only [List.lookup] at hl ⊢
        cases hc : c == c0
        · rw [hc] at hl; exact i1 c es hl
        · rw [hc] at hl; cases hl
          exact ⟨w0 :: r0, hws0, by simp, by rw [hfp]⟩
      · intro x hx
        rcases List.mem_cons.mp hx with rfl | hx
        · simp only; split <;> simp
        · exact i2 x hx
      · intro ts hts
        simp only [List.mapM_cons, bind_ok_iff, pure_ok_iff] at hts
        obtain ⟨t0, ht0, ts', hts', rfl⟩ := hts
        rw [i3 ts' hts']
        simp only [List.map_cons, List.cons.injEq, and_true]
        rw [hfp, lastT_eq, lastEntry?_frontPad]
        cases hg : es0.getLast? with
        | none => rw [hg] at ht0; cases ht0
        | some e =>
          rw [hg] at ht0
          simp only at ht0
          obtain ⟨w, hw1, hw2, _⟩ := instEntries_last es0 (w0 :: r0) hws0 e hg
          rw [hw1]
          rw [hw2] at ht0; cases ht0; rfl

theorem fold_dur_some (a : List (Chan × List WEntry)) (hne : ∀ x ∈ a, x.2 ≠ []) (m : Rat) :
    a.foldl (fun m x => match lastEntry? x.snd, m with
        | some e, some x => some (if x ≤ e.t then e.t else x)
        | some e, none => some e.t
        | none, x => x) (some m) = some ((a.map (fun x => lastT x.2)).foldl (fun m x => if m ≤ x then x else m) m) := by
  induction a generalizing m with
  | nil => rfl
  | cons x rest ih =>
    simp only [List.foldl_cons, List.map_cons]
    have hx := hne x (List.mem_cons_self ..)
    have : ∃ e, lastEntry? x.2 = some e := by
      cases h : x.2 with
      | nil => exact absurd h hx
      | cons w r => rw [lastEntry?_eq_getLast?]; simp [List.getLast?_cons]
    obtain ⟨e, he⟩ := this
    rw [lastT_eq, he]
    simp only
    exact ih (fun y hy => hne y (List.mem_cons_of_mem _ hy)) _

theorem fold_dur (a : List (Chan × List WEntry)) (hne : ∀ x ∈ a, x.2 ≠ []) :
    a.foldl (fun m x => match lastEntry? x.snd, m with
        | some e, some x => some (if x ≤ e.t then e.t else x)
        | some e, none => some e.t
        | none, x => x) none =
      listMax? (a.map (fun x => lastT x.2)) := by
  cases a with
  | nil => rfl
  | cons x rest =>
    simp only [List.foldl_cons, List.map_cons, listMax?]
    have hx := hne x (List.mem_cons_self ..)
    have : ∃ e, lastEntry? x.2 = some e := by
      cases h : x.2 with
      | nil => exact absurd h hx
      | cons w r => rw [lastEntry?_eq_getLast?]; simp [List.getLast?_cons]
    obtain ⟨e, he⟩ := this
    rw [lastT_eq, he]
    simp only
    exact fold_dur_some rest (fun y hy => hne y (List.mem_cons_of_mem _ hy)) _



theorem foldl_max_ge_init (l : List Rat) (m : Rat) : m ≤ l.foldl (fun m x => if m ≤ x then x else m) m := by
  induction l generalizing m with
  | nil => exact Rat.le_refl
  | cons x rest ih =>
    simp only [List.foldl_cons]
    have := ih (if m ≤ x then x else m)
    split at this <;> grind

theorem foldl_max_ge_mem (l : List Rat) (m : Rat) (x : Rat) (hx : x ∈ l) :
    x ≤ l.foldl (fun m x => if m ≤ x then x else m) m := by
  induction l generalizing m with
  | nil => cases hx
  | cons y rest ih =>
    simp only [List.foldl_cons]
    rcases List.mem_cons.mp hx with rfl | hx
    · have := foldl_max_ge_init rest (if m ≤ x then x else m)
      split at this <;> grind
    · exact ih _ hx

theorem lastT_frontPad (ws : List WEntry) : lastT (frontPad ws) = lastT ws := by
  rw [lastT_eq, lastT_eq, lastEntry?_frontPad]

theorem backPad_map_eq (d : Rat) (a : List (Chan × List WEntry)) :
    a.map (fun x => match lastEntry? x.snd with
      | some e => (x.fst, if e.t < d then x.snd ++ [({ t := d, v := e.v, interp := Interp.hold } : WEntry)] else x.snd)
      | none => (x.fst, x.snd)) = a.map (fun x => (x.1, backPad d x.2)) := by
  apply List.map_congr_left
  intro x _
  unfold backPad
  cases lastEntry? x.snd <;> rfl

theorem tableInstantiate_spec {σ : Scope} {entries : List (Chan × List TEntry)} {inst : List (Chan × List WEntry)}
    (h : tableInstantiate σ entries = .ok inst) (id meas cons) (D : Rat)
    (hD : templateDuration (.table id entries meas cons) σ = .ok D) :
    ∀ c es, entries.lookup c = some es → ∃ ws, instEntries σ es = .ok ws ∧ ws ≠ [] ∧ lastT ws ≤ D ∧
      (D = 0 → inst = []) ∧ (D ≠ 0 → inst.lookup c = some (backPad D (frontPad ws))) := by
  unfold tableInstantiate at h
  simp only [bind_ok_iff] at h
  obtain ⟨a, ha, h⟩ := h
  obtain ⟨i1, i2, i3⟩ := inst0_spec entries a ha
  rw [templateDuration] at hD
  simp only [bind_ok_iff] at hD
  obtain ⟨ts, hts, hD⟩ := hD
  have hts' := i3 ts hts
  generalize hfold : List.foldl _ none a = dur at h
  have hdur : dur = listMax? ts := by
    rw [← hfold, hts']; exact fold_dur a i2
  rw [hdur] at h
  intro c es hl
  obtain ⟨ws, hws, hne, hlk⟩ := i1 c es hl
  refine ⟨ws, hws, hne, ?_⟩
  cases ts with
  | nil => simp at hD
  | cons t rest =>
    simp only [pure_ok_iff] at hD
    simp only [listMax?] at h
    rw [hD] at h
    have hmem : lastT ws ∈ t :: rest := by
      rw [hts', ← lastT_frontPad]
      exact List.mem_map.mpr ⟨(c, frontPad ws), mem_of_lookup a c _ hlk, rfl⟩
    have hle : lastT ws ≤ D := by
      rw [← hD]
      rcases List.mem_cons.mp hmem with h1 | h1
      · rw [h1]; exact foldl_max_ge_init rest t
      · exact foldl_max_ge_mem rest t _ h1
    refine ⟨hle, ?_, ?_⟩
    · intro h0
      simp only [h0, if_true, pure_ok_iff] at h
      exact h.symm
    · intro h0
      simp only [h0, if_false, pure_ok_iff] at h
      subst h
      refine Eq.trans (congrArg (List.lookup c) (backPad_map_eq D a)) ?_
      rw [lookup_map_snd a (backPad D) c, hlk]
      rfl



theorem tablePL_ok {ws : List WEntry} {pl : PL} (h : tablePL ws = .ok pl) :
    pl = entriesToPL ws ∧ sortedTimes ws = true := by
  unfold tablePL at h
  split at h
  · cases h
  · cases h
  · split at h
    · cases h
    · split at h
      · cases h
      · split at h
        · cases h
        · rename_i hs _
          cases h
          exact ⟨rfl, by simpa using hs⟩

theorem filterMapM_kept2 (cm : List (Chan × Option Chan)) :
    ∀ (inst : List (Chan × List WEntry)) (mapped : List (Chan × List WEntry)),
    inst.filterMapM (fun x => do
        let o ← chanLookup cm x.1
        pure (o.map (fun o => (o, x.2)))) = .ok mapped →
    ∀ x ∈ inst, ∀ o, cm.lookup x.1 = some (some o) → (o, x.2) ∈ mapped
  | [], mapped, h => fun x hx => nomatch hx
  | y :: rest, mapped, h => by
    rw [List.filterMapM_cons] at h
    simp only [bind_ok_iff, pure_ok_iff] at h
    obtain ⟨r, ⟨oo, hoo, rfl⟩, h⟩ := h
    rw [chanLookup_ok_iff] at hoo
    intro x hx o ho
    cases oo with
    | none =>
      simp only [Option.map] at h
      rcases List.mem_cons.mp hx with rfl | hx
      · rw [hoo] at ho; cases ho
      · exact filterMapM_kept2 cm rest mapped h x hx o ho
    | some o1 =>
      simp only [Option.map, bind_ok_iff, pure_ok_iff] at h
      obtain ⟨m', hm', rfl⟩ := h
      rcases List.mem_cons.mp hx with rfl | hx
      · rw [hoo] at ho; cases ho; exact List.mem_cons_self ..
      · exact List.mem_cons_of_mem _ (filterMapM_kept2 cm rest m' hm' x hx o ho)

theorem mapM_tablePL : ∀ (mapped : List (Chan × List WEntry)) (chans : List (Chan × PL)),
    mapped.mapM (fun x => do let pl ← tablePL x.2; pure (x.1, pl)) = .ok chans →
    ∀ x ∈ mapped, ∃ pl, tablePL x.2 = .ok pl ∧ (x.1, pl) ∈ chans
  | [], chans, h => fun x hx => nomatch hx
  | y :: rest, chans, h => by
    simp only [List.mapM_cons, bind_ok_iff, pure_ok_iff] at h
    obtain ⟨z, ⟨pl, hpl, rfl⟩, cs, hcs, rfl⟩ := h
    intro x hx
    rcases List.mem_cons.mp hx with rfl | hx
    · exact ⟨pl, hpl, List.mem_cons_self ..⟩
    · obtain ⟨pl', h1, h2⟩ := mapM_tablePL rest cs hcs x hx
      exact ⟨pl', h1, List.mem_cons_of_mem _ h2⟩

theorem lookup_of_mem_nodup {β} (l : List (String × β)) (h : hasDup (l.map (·.1)) = false) {k : String} {v : β}
    (hm : (k, v) ∈ l) : l.lookup k = some v := by
  obtain ⟨v', hv'⟩ := lookup_isSome_of_mem_keys l k (List.mem_map.mpr ⟨(k, v), hm, rfl⟩)
  have := unique_of_not_hasDup l h (mem_of_lookup l k v' hv') hm
  rw [hv', this]

/-- the pulse a table template denotes on a kept channel -/
theorem table_chan {id entries meas cons} {σ : Scope} {mm cm} {P : Pulse}
    (hden : denote (.table id entries meas cons) σ mm cm = .ok P) :
    ∃ inst, tableInstantiate σ entries = .ok inst ∧ (inst = [] → P = Pulse.empty) ∧
      ∀ c o ws, inst.lookup c = some ws → cm.lookup c = some (some o) →
        P.chans.lookup o = some (entriesToPL ws) ∧ sortedTimes ws = true := by
  rw [denote] at hden
  simp only [bind_ok_iff] at hden
  obtain ⟨_, _, inst, hinst, mapped, hmapped, hden⟩ := hden
  refine ⟨inst, hinst, ?_, ?_⟩
  · intro h0
    subst h0
    simp only [List.filterMapM_nil, pure_ok_iff] at hmapped
    subst hmapped
    simp only [List.isEmpty_nil, if_true, pure_ok_iff] at hden
    exact hden.symm
  · intro c o ws hl hcm
    have hm := filterMapM_kept2 cm inst mapped hmapped (c, ws) (mem_of_lookup inst c ws hl) o hcm
    split at hden
    · rename_i hemp
      have : mapped = [] := by simpa using hemp
      rw [this] at hm; cases hm
    · simp only [bind_ok_iff] at hden
      obtain ⟨chans, hchans, hden⟩ := hden
      obtain ⟨pl, hpl, hmem⟩ := mapM_tablePL mapped chans hchans (o, ws) hm
      split at hden
      · cases hden
      · rename_i hnd
        simp only [bind_ok_iff, pure_ok_iff] at hden
        obtain ⟨ms, _, rfl⟩ := hden
        have hnd' : hasDup (chans.map (·.1)) = false := by simpa using hnd
        obtain ⟨e1, e2⟩ := tablePL_ok hpl
        refine ⟨?_, e2⟩
        simp only
        rw [lookup_of_mem_nodup chans hnd' hmem, e1]

theorem table_pulseVal {id entries meas cons} {σ : Scope} {mm cm} {P : Pulse}
    (hden : denote (.table id entries meas cons) σ mm cm = .ok P) :
    ∃ inst, tableInstantiate σ entries = .ok inst ∧ (inst = [] → P = Pulse.empty) ∧
      ∀ c o ws, inst.lookup c = some ws → cm.lookup c = some (some o) →
        pulseVal P o = entriesToPL ws ∧ sortedTimes ws = true := by
  obtain ⟨inst, h1, h2, h3⟩ := table_chan hden
  refine ⟨inst, h1, h2, ?_⟩
  intro c o ws hl hcm
  obtain ⟨k1, k2⟩ := h3 c o ws hl hcm
  exact ⟨by simp only [pulseVal, k1, Option.getD_some], k2⟩



theorem sequenceIntegral_cons_cons (e1 e2 : WEntry) (rest : List WEntry) :
    sequenceIntegral (e1 :: e2 :: rest) =
      interpIntegral e2.interp e1.t e1.v e2.t e2.v + sequenceIntegral (e2 :: rest) := rfl

/-- appending one entry adds the integral of its segment -/
theorem sequenceIntegral_append_singleton : ∀ (xs : List WEntry) (l p : WEntry), lastEntry? xs = some l →
    sequenceIntegral (xs ++ [p]) = sequenceIntegral xs + interpIntegral p.interp l.t l.v p.t p.v
  | [], l, p, h => by simp [lastEntry?] at h
  | [x], l, p, h => by
    simp only [lastEntry?, Option.some.injEq] at h; subst h
    simp [sequenceIntegral]; grind
  | x :: y :: r, l, p, h => by
    rw [lastEntry?_cons_cons] at h
    have ih := sequenceIntegral_append_singleton (y :: r) l p h
    simp only [List.cons_append] at ih ⊢
    rw [sequenceIntegral_cons_cons, sequenceIntegral_cons_cons, ih]
    grind

theorem interpIntegral_same_time (i : Interp) (t v0 v1 : Rat) : interpIntegral i t v0 t v1 = 0 := by
  cases i <;> simp [interpIntegral] <;> grind

theorem interpIntegral_same_value (i : Interp) (t0 t1 v : Rat) : interpIntegral i t0 v t1 v = v * (t1 - t0) := by
  cases i <;> simp [interpIntegral] <;> grind

/-- the pre-entry `(0, v_first)` of the closed form against the front padding of the instantiated table -/
theorem sequenceIntegral_frontPad (w : WEntry) (r : List WEntry) (h0 : 0 ≤ w.t) :
    sequenceIntegral ({ t := 0, v := w.v, interp := .hold } :: w :: r) = sequenceIntegral (frontPad (w :: r)) := by
  simp only [frontPad]
  split
  · rfl
  · have : w.t = 0 := by grind
    rw [sequenceIntegral_cons_cons]
    simp only [this, interpIntegral_same_time]
    grind

theorem sequenceIntegral_zero : ∀ (l : List WEntry), (∀ w ∈ l, w.t = 0) → sequenceIntegral l = 0
  | [], _ => rfl
  | [_], _ => rfl
  | x :: y :: r, h => by
    rw [sequenceIntegral_cons_cons, sequenceIntegral_zero (y :: r) (fun w hw => h w (List.mem_cons_of_mem _ hw))]
    have hx := h x (List.mem_cons_self ..)
    have hy := h y (List.mem_cons_of_mem _ (List.mem_cons_self ..))
    rw [hx, hy, interpIntegral_same_time]; grind

theorem sorted_le_lastT : ∀ (l : List WEntry), sortedTimes l = true → ∀ w ∈ l, w.t ≤ lastT l
  | [], _, w, hw => nomatch hw
  | [x], _, w, hw => by
    have : w = x := by simpa using hw
    subst this; exact Rat.le_refl
  | x :: y :: r, h, w, hw => by
    simp only [sortedTimes, Bool.and_eq_true, decide_eq_true_eq] at h
    have hl : lastT (x :: y :: r) = lastT (y :: r) := rfl
    rw [hl]
    have ih := sorted_le_lastT (y :: r) h.2
    rcases List.mem_cons.mp hw with rfl | hw
    · have := ih y (List.mem_cons_self ..)
      grind
    · exact ih w hw


end QP.C07
