import QP.Model.PT
import QP.Proofs.PTBuildAtoms
/-! `AtomicMultiChannelPulseTemplate`: channel-parallel composition of atomic templates through
`MultiChannelWaveform.from_parallel` (with flattening of nested multi-channel waveforms). -/
namespace QP.PT

/-- the pieces `from_parallel` takes from one waveform -/
def parts1 (w : Wf) : List Wf :=
  match w with
  | .multi subs => subs
  | _ => [w]

theorem fromParallel_parts (w0 w1 : Wf) (rest : List Wf) :
    fromParallel (w0 :: w1 :: rest) = mkMulti ((w0 :: w1 :: rest).flatMap parts1) := by
  simp only [fromParallel]
  rfl

theorem channelsAll_append (a b : List Wf) : Wf.channelsAll (a ++ b) = Wf.channelsAll a ++ Wf.channelsAll b := by
  induction a with
  | nil => simp [Wf.channelsAll]
  | cons x xs ih => simp [Wf.channelsAll, ih]

theorem channelsAll_parts1 (w : Wf) : Wf.channelsAll (parts1 w) = w.channels := by
  cases w <;> simp [parts1, Wf.channelsAll, Wf.channels]

theorem sampleMulti_append (a b : List Wf) (c : Chan) (t : Rat) :
    Wf.sampleMulti (a ++ b) c t =
      if (Wf.channelsAll a).contains c then Wf.sampleMulti a c t else Wf.sampleMulti b c t := by
  induction a with
  | nil => simp [Wf.channelsAll]
  | cons x xs ih =>
    simp only [List.cons_append, Wf.sampleMulti, Wf.channelsAll, ih]
    by_cases hx : x.channels.contains c
    · have : c ∈ x.channels := by simpa using hx
      simp [hx, this]
    · have hx' : c ∉ x.channels := by simpa using hx
      simp only [hx, Bool.false_eq_true, if_false]
      by_cases hxs : (Wf.channelsAll xs).contains c
      · have : c ∈ Wf.channelsAll xs := by simpa using hxs
        simp [hxs, this]
      · have : c ∉ Wf.channelsAll xs := by simpa using hxs
        simp [hxs, this, hx']

theorem sampleMulti_parts1 (w : Wf) (c : Chan) (t : Rat) (h : c ∈ w.channels) :
    Wf.sampleMulti (parts1 w) c t = w.sample c t := by
  have hc : w.channels.contains c = true := by simpa using h
  cases w with
  | multi subs => simp [parts1, Wf.sample]
  | _ => simp only [parts1, Wf.sampleMulti, hc, if_true]

theorem firstDuration_parts1 (w : Wf) (h : parts1 w ≠ []) : Wf.firstDuration (parts1 w) = w.duration := by
  cases w <;> simp [parts1, Wf.firstDuration, Wf.duration]

/-- one sub-waveform against one (non-empty) denoted part -/
def PartRel (w : Wf) (P : Pulse) : Prop :=
  P.chans ≠ [] ∧ w.duration = P.dur ∧ w.channels = P.chanNames ∧ (0 < w.duration → WfRel w P ∧ Collapsible w)

/-- the non-`None` sub-waveforms correspond to the non-empty denoted parts -/
theorem buildList_rel (σ : Scope) (mm : List (MName × Option MName)) (cm : List (Chan × Option Chan)) :
    ∀ (subs : List PT), (∀ p ∈ subs, BuildOK p) → ∀ wfs parts, buildWaveformList subs σ cm = .ok wfs →
      denoteList subs σ mm cm = .ok parts →
      List.Forall₂ PartRel wfs (parts.filter (fun p => !p.isEmpty)) := by
  intro subs
  induction subs with
  | nil =>
    intro _ wfs parts h1 h2
    simp only [buildWaveformList, denoteList] at h1 h2
    cases h1; cases h2
    exact List.Forall₂.nil
  | cons q qs ih =>
    intro hb wfs parts h1 h2
    simp only [buildWaveformList, bind_ok, pure_ok] at h1
    obtain ⟨w?, hw, ws, hws, rfl⟩ := h1
    simp only [denoteList, bind_ok, pure_ok] at h2
    obtain ⟨P, hP, ps, hps, rfl⟩ := h2
    have hrest := ih (fun p hp => hb p (by simp [hp])) ws ps hws hps
    have hq := hb q (by simp) σ mm cm w? P hw hP
    cases w? with
    | none =>
      simp only at hq
      subst hq
      simpa [Pulse.isEmpty, Pulse.empty] using hrest
    | some w =>
      simp only at hq
      obtain ⟨hne, hd, hc, hr, _⟩ := hq
      have : P.isEmpty = false := by simp [Pulse.isEmpty, hne]
      simp only [List.filter_cons, this, Bool.not_false, if_true]
      exact List.Forall₂.cons ⟨hne, hd, hc, hr⟩ hrest

theorem lookup_append {β : Type} (a b : List (String × β)) (c : String) :
    (a ++ b).lookup c = (a.lookup c).or (b.lookup c) := by
  induction a with
  | nil => simp
  | cons x xs ih =>
    obtain ⟨k, v⟩ := x
    simp only [List.cons_append, List.lookup_cons]
    by_cases hk : c == k <;> simp [hk, ih]

theorem lookup_none_of_not_mem {β : Type} (l : List (String × β)) (c : String) (h : c ∉ l.map (·.1)) :
    l.lookup c = none := by
  cases hl : l.lookup c with
  | none => rfl
  | some v => exact absurd (mem_keys_of_lookup l c v hl) h

/-- a channel of the merged pulse comes from the first part that has it, and so does its sample -/
theorem multi_lookup : ∀ (wfs : List Wf) (parts : List Pulse), List.Forall₂ WfRel wfs parts →
    ∀ c pl, (mergeChans parts).lookup c = some pl →
      ∃ w P, w ∈ wfs ∧ P ∈ parts ∧ WfRel w P ∧ P.chans.lookup c = some pl ∧
        ∀ t, Wf.sampleMulti (wfs.flatMap parts1) c t = w.sample c t := by
  intro wfs parts h
  induction h with
  | nil => intro c pl hl; simp [mergeChans] at hl
  | @cons w P ws ps hr _ ih =>
    intro c pl hl
    simp only [mergeChans, List.flatMap_cons, lookup_append] at hl
    cases hP : P.chans.lookup c with
    | some pl' =>
      simp only [hP, Option.or_some] at hl
      cases hl
      have hmem : c ∈ w.channels := by
        rw [hr.chans]; simpa [Pulse.chanNames] using mem_keys_of_lookup _ _ _ hP
      refine ⟨w, P, by simp, by simp, hr, hP, ?_⟩
      intro t
      simp only [List.flatMap_cons, sampleMulti_append, channelsAll_parts1]
      have : w.channels.contains c = true := by simpa using hmem
      simp only [this, if_true]
      exact sampleMulti_parts1 w c t hmem
    | none =>
      simp only [hP, Option.none_or] at hl
      obtain ⟨w', P', hw', hP', hr', hl', hs⟩ := ih c pl (by simpa [mergeChans] using hl)
      refine ⟨w', P', by simp [hw'], by simp [hP'], hr', hl', ?_⟩
      intro t
      have hnot : c ∉ w.channels := by
        rw [hr.chans]
        intro hc
        obtain ⟨v, hv⟩ := lookup_some_of_mem_keys P.chans c (by simpa [Pulse.chanNames] using hc)
        rw [hv] at hP; cases hP
      simp only [List.flatMap_cons, sampleMulti_append, channelsAll_parts1]
      have : w.channels.contains c = false := by simpa using hnot
      simp only [this, Bool.false_eq_true, if_false]
      exact hs t

theorem constDictAll_append (a b : List Wf) :
    Wf.constDictAll (a ++ b) = (match Wf.constDictAll a, Wf.constDictAll b with
      | some x, some y => some (x ++ y)
      | _, _ => none) := by
  induction a with
  | nil => cases h : Wf.constDictAll b <;> simp [Wf.constDictAll, h]
  | cons x xs ih =>
    simp only [List.cons_append, Wf.constDictAll, ih]
    cases x.constDict <;> cases Wf.constDictAll xs <;> cases Wf.constDictAll b <;> simp

theorem constDictAll_parts1_none (w : Wf) (h : w.constDict = none) : Wf.constDictAll (parts1 w) = none := by
  cases w <;> simp_all [parts1, Wf.constDictAll, Wf.constDict]

theorem parts1_leaves {w : Wf} (h : FlatWf w) : ∀ s ∈ parts1 w, LeafWf s := by
  cases h with
  | leaf hl =>
    intro s hs
    cases hl <;> simp [parts1] at hs <;> subst hs <;> constructor
  | multi hl => simpa [parts1] using hl

/-- collapsibility of the flattened multi-channel waveform -/
theorem collapsible_flatten : ∀ (wfs : List Wf), (∀ w ∈ wfs, Collapsible w) →
    Wf.constDictAll (wfs.flatMap parts1) = none ∨ ∀ s ∈ wfs.flatMap parts1, LeafWf s := by
  intro wfs
  induction wfs with
  | nil => intro _; right; intro s hs; simp at hs
  | cons w ws ih =>
    intro h
    simp only [List.flatMap_cons]
    rcases h w (by simp) with hn | hf
    · left
      rw [constDictAll_append, constDictAll_parts1_none w hn]
    · rcases ih (fun x hx => h x (by simp [hx])) with hn | hl
      · left
        rw [constDictAll_append, hn]
        cases Wf.constDictAll (parts1 w) <;> rfl
      · right
        intro s hs
        rcases List.mem_append.mp hs with h1 | h1
        · exact parts1_leaves hf s h1
        · exact hl s h1

theorem forall2_durs : ∀ (wfs : List Wf) (parts : List Pulse), List.Forall₂ PartRel wfs parts → ∀ (d : Rat),
    (∀ P ∈ parts, P.dur = d) → ∀ w ∈ wfs, w.duration = d := by
  intro wfs parts h
  induction h with
  | nil => intro d _ w hw; simp at hw
  | @cons w P ws ps hr _ ih =>
    intro d hd x hx
    rcases List.mem_cons.mp hx with rfl | hx
    · rw [hr.2.1]; exact hd P (by simp)
    · exact ih d (fun Q hQ => hd Q (by simp [hQ])) x hx

theorem forall2_wfRel : ∀ (wfs : List Wf) (parts : List Pulse), List.Forall₂ PartRel wfs parts →
    (∀ w ∈ wfs, 0 < w.duration) → List.Forall₂ (fun w P => WfRel w P) wfs parts ∧ ∀ w ∈ wfs, Collapsible w := by
  intro wfs parts h
  induction h with
  | nil => intro _; exact ⟨List.Forall₂.nil, by intro w hw; simp at hw⟩
  | @cons w P ws ps hr _ ih =>
    intro hpos
    obtain ⟨h1, h2⟩ := ih (fun x hx => hpos x (by simp [hx]))
    obtain ⟨hrel, hcol⟩ := hr.2.2.2 (hpos w (by simp))
    refine ⟨List.Forall₂.cons hrel h1, ?_⟩
    intro x hx
    rcases List.mem_cons.mp hx with rfl | hx
    · exact hcol
    · exact h2 x hx

theorem forall2_channels : ∀ (wfs : List Wf) (parts : List Pulse), List.Forall₂ PartRel wfs parts →
    Wf.channelsAll (wfs.flatMap parts1) = (mergeChans parts).map (·.1) := by
  intro wfs parts h
  induction h with
  | nil => simp [mergeChans, Wf.channelsAll]
  | @cons w P ws ps hr _ ih =>
    simp only [List.flatMap_cons, channelsAll_append, channelsAll_parts1, mergeChans, List.map_append] at ih ⊢
    rw [ih, hr.2.2.1]
    rfl

theorem firstDuration_append (a b : List Wf) (h : a ≠ []) : Wf.firstDuration (a ++ b) = Wf.firstDuration a := by
  cases a with
  | nil => exact absurd rfl h
  | cons x xs => simp [Wf.firstDuration]

/-- **channel-parallel composition**: `from_parallel` of the sub-waveforms against the merged pulse -/
theorem multi_rel (wfs : List Wf) (p : Pulse) (rest : List Pulse) (h : List.Forall₂ PartRel wfs (p :: rest))
    (hdur : rest.all (fun q => q.dur == p.dur) = true) (w : Wf) (hw : fromParallel wfs = .ok w)
    (ms : List Window) :
    w.duration = p.dur ∧ w.channels = (mergeChans (p :: rest)).map (·.1) ∧
      (0 < w.duration →
        WfRel w { dur := p.dur, chans := mergeChans (p :: rest), windows := ms } ∧ Collapsible w) := by
  have hdurs : ∀ P ∈ p :: rest, P.dur = p.dur := by
    intro P hP
    rcases List.mem_cons.mp hP with rfl | hP
    · rfl
    · have := List.all_eq_true.mp hdur P hP
      simpa using this
  have hwd := forall2_durs wfs (p :: rest) h p.dur hdurs
  have hch := forall2_channels wfs (p :: rest) h
  have hmne : mergeChans (p :: rest) ≠ [] := by
    cases h with
    | cons hr _ =>
      simp only [mergeChans, List.flatMap_cons]
      intro h0
      exact hr.1 (List.append_eq_nil_iff.mp h0).1
  -- the common part of the two shapes of `from_parallel`
  have hgen : w.duration = p.dur → w.channels = (mergeChans (p :: rest)).map (·.1) →
      (∀ c t, c ∈ w.channels → w.sample c t = Wf.sampleMulti (wfs.flatMap parts1) c t) →
      ((∀ x ∈ wfs, Collapsible x) → Collapsible w) →
      (0 < w.duration →
        WfRel w { dur := p.dur, chans := mergeChans (p :: rest), windows := ms } ∧ Collapsible w) := by
    intro hd hc hs hcol hpos
    obtain ⟨hrels, hcols⟩ := forall2_wfRel wfs (p :: rest) h (fun x hx => by rw [hwd x hx, ← hd]; exact hpos)
    refine ⟨⟨hd, hmne, by simpa [Pulse.chanNames] using hc, ?_, ?_, ?_⟩, hcol hcols⟩
    · intro c pl hl
      obtain ⟨w', P', _, hP', hr', hl', _⟩ := multi_lookup wfs (p :: rest) hrels c pl hl
      rw [hr'.plDur c pl hl', hdurs P' hP']
    · intro c pl hl
      obtain ⟨w', P', _, _, hr', hl', _⟩ := multi_lookup wfs (p :: rest) hrels c pl hl
      exact hr'.plPos c pl hl'
    · intro c pl hl t ht0 ht
      obtain ⟨w', P', _, hP', hr', hl', hsm⟩ := multi_lookup wfs (p :: rest) hrels c pl hl
      have hcm : c ∈ w.channels := by rw [hc]; exact mem_keys_of_lookup _ _ _ hl
      rw [hs c t hcm, hsm t]
      simp only at ht
      exact hr'.sample c pl hl' t ht0 (by rw [hdurs P' hP']; exact ht)
  match wfs, h, hw, hwd, hch, hgen with
  | [w0], h, hw, hwd, hch, hgen =>
    simp only [fromParallel, Except.ok.injEq] at hw
    subst hw
    have hd : w0.duration = p.dur := hwd w0 (by simp)
    have hc : w0.channels = (mergeChans (p :: rest)).map (·.1) := by
      rw [← hch]; simp [channelsAll_parts1]
    refine ⟨hd, hc, hgen hd hc ?_ ?_⟩
    · intro c t hcm
      simp [sampleMulti_parts1 w0 c t hcm]
    · intro hcols; exact hcols w0 (by simp)
  | w0 :: w1 :: ws, h, hw, hwd, hch, hgen =>
    rw [fromParallel_parts] at hw
    unfold mkMulti at hw
    cases hfl : (w0 :: w1 :: ws).flatMap parts1 with
    | nil => rw [hfl] at hw; simp at hw
    | cons f fs =>
      rw [hfl] at hw
      simp only at hw
      split at hw
      · simp at hw
      · split at hw
        · simp only [Except.ok.injEq] at hw
          subst hw
          have hp1 : parts1 w0 ≠ [] := by
            intro h0
            have h1 := channelsAll_parts1 w0
            rw [h0] at h1
            cases h with
            | cons hr _ =>
              have : w0.channels ≠ [] := by
                rw [hr.2.2.1]; simpa [Pulse.chanNames] using hr.1
              exact this (by simpa [Wf.channelsAll] using h1.symm)
          have hd : Wf.duration (.multi (f :: fs)) = p.dur := by
            rw [← hfl]
            simp only [Wf.duration, List.flatMap_cons]
            rw [firstDuration_append _ _ hp1, firstDuration_parts1 w0 hp1]
            exact hwd w0 (by simp)
          have hc : Wf.channels (.multi (f :: fs)) = (mergeChans (p :: rest)).map (·.1) := by
            rw [← hch, hfl]; simp [Wf.channels]
          refine ⟨hd, hc, hgen hd hc ?_ ?_⟩
          · intro c t _
            rw [hfl]; simp [Wf.sample]
          · intro hcols
            rcases collapsible_flatten (w0 :: w1 :: ws) hcols with hn | hl
            · left; rw [hfl] at hn; simpa [Wf.constDict] using hn
            · right; rw [hfl] at hl; exact FlatWf.multi hl
        · simp at hw

/-- **`AtomicMultiChannelPulseTemplate`** over sub-templates whose `build_waveform` is correct -/
theorem buildOK_atomicMulti (id : Option String) (subs : List PT) (dur : Option Expr) (meas : List MeasDecl)
    (cons : List Expr) (hsubs : ∀ p ∈ subs, BuildOK p) : BuildOK (.atomicMulti id subs dur meas cons) := by
  intro σ mm cm w? P h1 h2
  simp only [buildWaveform, bind_ok] at h1
  obtain ⟨_, _, wfs, hwfs, h1⟩ := h1
  simp only [denote, bind_ok] at h2
  obtain ⟨_, _, parts, hparts, h2⟩ := h2
  have hrel := buildList_rel σ mm cm subs hsubs wfs parts hwfs hparts
  cases hpf : parts.filter (fun p => !p.isEmpty) with
  | nil =>
    rw [hpf] at hrel h2
    cases hrel
    simp only [pure_ok] at h1 h2
    subst h1; subst h2
    rfl
  | cons p rest =>
    rw [hpf] at hrel h2
    cases hwf : wfs with
    | nil => rw [hwf] at hrel; cases hrel
    | cons w0 ws =>
      rw [hwf] at h1
      simp only [bind_ok] at h1
      obtain ⟨w, hw, h1⟩ := h1
      rw [← hwf] at hw
      simp only at h2
      rcases Bool.eq_false_or_eq_true (hasDup ((mergeChans (p :: rest)).map (·.1))) with hdup | hdup
      · simp [hdup] at h2
      · simp only [hdup, Bool.false_eq_true, if_false] at h2
        rcases Bool.eq_false_or_eq_true (rest.all (fun q => q.dur == p.dur)) with hd | hd
        · simp only [hd, Bool.not_true, Bool.false_eq_true, if_false] at h2
          have h2' : ∃ ms, atomicMeas (.atomicMulti id subs dur meas cons) σ mm = .ok ms ∧
              P = { dur := p.dur, chans := mergeChans (p :: rest), windows := ms } := by
            cases dur with
            | none =>
              simp only [bind_ok, pure_ok] at h2
              obtain ⟨ms, hms, rfl⟩ := h2
              exact ⟨ms, hms, rfl⟩
            | some de =>
              simp only [bind_ok] at h2
              obtain ⟨expected, _, h2⟩ := h2
              by_cases hne : expected ≠ p.dur
              · simp [hne, bind, Except.bind] at h2
              · simp only [hne, if_false, bind_ok, pure_ok] at h2
                obtain ⟨ms, hms, rfl⟩ := h2
                exact ⟨ms, hms, rfl⟩
          obtain ⟨ms, hms, rfl⟩ := h2'
          obtain ⟨hdw, hcw, hpos⟩ := multi_rel wfs p rest hrel hd w hw ms
          have hw? : w? = some w := by
            cases dur with
            | none => simp only [pure_ok] at h1; exact h1.symm
            | some de =>
              simp only [bind_ok] at h1
              obtain ⟨expected, _, h1⟩ := h1
              by_cases hne : expected ≠ w.duration
              · simp [hne] at h1
              · simp only [hne, if_false, pure_ok] at h1; exact h1.symm
          subst hw?
          have hne : mergeChans (p :: rest) ≠ [] := by
            cases hrel with
            | cons hr _ =>
              simp only [mergeChans, List.flatMap_cons]
              intro h0
              exact hr.1 (List.append_eq_nil_iff.mp h0).1
          refine ⟨hne, hdw, by simpa [Pulse.chanNames] using hcw, hpos, ?_⟩
          intro ms' hms'
          rw [hms] at hms'; cases hms'; rfl
        · simp [hd] at h2

end QP.PT
