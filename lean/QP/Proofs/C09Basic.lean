import QP.Model.C09
/-! Helper lemmas for C09: accessors, induction principle, recomputed durations, coherence. -/
namespace QP.C09

/-- induction over a tree and its child lists at once -/
theorem T.ind {P : T → Prop} {Q : List T → Prop}
    (hmk : ∀ i ks, Q ks → P (.mk i ks)) (hnil : Q []) (hcons : ∀ c cs, P c → Q cs → Q (c :: cs)) :
    (∀ t, P t) ∧ (∀ ts, Q ts) := by
  have hP : ∀ t, P t := by
    intro t
    induction t using T.rec (motive_2 := Q) with
    | mk i ks ih => exact hmk i ks ih
    | nil => exact hnil
    | cons c cs ihc ihcs => exact hcons c cs ihc ihcs
  refine ⟨hP, ?_⟩
  intro ts
  induction ts with
  | nil => exact hnil
  | cons c cs ih => exact hcons c cs (hP c) ih

@[simp] theorem T.info_mk (i : Info) (ks : List T) : (T.mk i ks).info = i := rfl
@[simp] theorem T.kids_mk (i : Info) (ks : List T) : (T.mk i ks).kids = ks := rfl
@[simp] theorem T.eta (t : T) : T.mk t.info t.kids = t := by cases t; rfl
@[simp] theorem T.upd_info (f : Info → Info) (t : T) : (t.upd f).info = f t.info := by cases t; rfl
@[simp] theorem T.upd_kids (f : Info → Info) (t : T) : (t.upd f).kids = t.kids := by cases t; rfl

theorem bodyDur_mk (i : Info) (ks : List T) :
    bodyDur (.mk i ks) = if ks.isEmpty then leafDur i.wf else sumDur ks := by
  simp [bodyDur]

theorem bodyDur_eq (t : T) : bodyDur t = if t.kids.isEmpty then leafDur t.info.wf else sumDur t.kids := by
  cases t; simp [bodyDur]

@[simp] theorem sumDur_nil : sumDur [] = 0 := by simp [sumDur]
@[simp] theorem sumDur_cons (c : T) (cs : List T) : sumDur (c :: cs) = dur c + sumDur cs := by
  simp [sumDur, dur]

theorem sumDur_append (as bs : List T) : sumDur (as ++ bs) = sumDur as + sumDur bs := by
  induction as with
  | nil => simp; grind
  | cons a as ih => simp [ih]; grind

theorem sumDur_reverse (as : List T) : sumDur as.reverse = sumDur as := by
  induction as with
  | nil => simp
  | cons a as ih => simp [sumDur_append, ih]; grind


theorem sumDur_set (ks : List T) (k : Nat) (c c' : T) (h : ks[k]? = some c) :
    sumDur (ks.set k c') = sumDur ks - dur c + dur c' := by
  induction ks generalizing k with
  | nil => simp at h
  | cons a as ih =>
    cases k with
    | zero => simp at h; subst h; simp; grind
    | succ k => simp at h; simp [ih k h]; grind

/-! ### coherence, unfolded -/

theorem coherentL_iff (ks : List T) : CoherentL ks ↔ ∀ c ∈ ks, Coherent c := by
  induction ks with
  | nil => simp [CoherentL]
  | cons a as ih => simp [CoherentL, ih]

theorem coherent_mk (i : Info) (ks : List T) :
    Coherent (.mk i ks) ↔ cacheOkHere (.mk i ks) ∧ linksOkHere (.mk i ks) ∧ ∀ c ∈ ks, Coherent c := by
  simp [Coherent, coherentL_iff]

theorem coherent_iff (t : T) :
    Coherent t ↔ cacheOkHere t ∧ linksOkHere t ∧ ∀ c ∈ t.kids, Coherent c := by
  cases t; exact coherent_mk _ _

theorem Coherent.kid {t c : T} {k : Nat} (h : Coherent t) (hk : t.kids[k]? = some c) : Coherent c :=
  ((coherent_iff t).1 h).2.2 c (List.mem_of_getElem? hk)

/-- own position / parent pointer / cache are not part of a node's *own* coherence conditions
    except through `cacheOkHere` -/
theorem bodyDur_upd (f : Info → Info) (t : T) (hw : (f t.info).wf = t.info.wf) :
    bodyDur (t.upd f) = bodyDur t := by
  cases t; simp [bodyDur_mk, T.upd] at *; rw [hw]

theorem dur_upd (f : Info → Info) (t : T) (hw : (f t.info).wf = t.info.wf) (hr : (f t.info).rep = t.info.rep) :
    dur (t.upd f) = dur t := by
  simp [dur, bodyDur_upd f t hw, hr]

theorem coherent_upd (f : Info → Info) (t : T) (hw : (f t.info).wf = t.info.wf)
    (hu : (f t.info).uid = t.info.uid) (hc : (f t.info).cache = t.info.cache ∨ (f t.info).cache = none) :
    Coherent t → Coherent (t.upd f) := by
  intro h
  rw [coherent_iff] at h ⊢
  obtain ⟨h1, h2, h3⟩ := h
  refine ⟨?_, ?_, by simpa using h3⟩
  · unfold cacheOkHere at *
    rw [bodyDur_upd f t hw]
    simp only [T.upd_info]
    rcases hc with hc | hc
    · rw [hc]; exact h1
    · left; exact hc
  · unfold linksOkHere at *
    simpa [hu] using h2

@[simp] theorem withPidx_info (p : Option Int) (t : T) : (t.withPidx p).info = { t.info with pidx := p } := by
  simp [T.withPidx]
@[simp] theorem withPar_info (p : Option Nat) (t : T) : (t.withPar p).info = { t.info with par := p } := by
  simp [T.withPar]
@[simp] theorem withCache_info (p : Option Rat) (t : T) : (t.withCache p).info = { t.info with cache := p } := by
  simp [T.withCache]
@[simp] theorem withPidx_kids (p : Option Int) (t : T) : (t.withPidx p).kids = t.kids := by simp [T.withPidx]
@[simp] theorem withPar_kids (p : Option Nat) (t : T) : (t.withPar p).kids = t.kids := by simp [T.withPar]
@[simp] theorem withCache_kids (p : Option Rat) (t : T) : (t.withCache p).kids = t.kids := by simp [T.withCache]

theorem coherent_withPidx (p : Option Int) (t : T) (h : Coherent t) : Coherent (t.withPidx p) :=
  coherent_upd _ t rfl rfl (Or.inl rfl) h
theorem coherent_withPar (p : Option Nat) (t : T) (h : Coherent t) : Coherent (t.withPar p) :=
  coherent_upd _ t rfl rfl (Or.inl rfl) h
@[simp] theorem dur_withPidx (p : Option Int) (t : T) : dur (t.withPidx p) = dur t := dur_upd _ t rfl rfl
@[simp] theorem dur_withPar (p : Option Nat) (t : T) : dur (t.withPar p) = dur t := dur_upd _ t rfl rfl
@[simp] theorem bodyDur_withCache (p : Option Rat) (t : T) : bodyDur (t.withCache p) = bodyDur t :=
  bodyDur_upd _ t rfl
@[simp] theorem dur_withCache (p : Option Rat) (t : T) : dur (t.withCache p) = dur t := dur_upd _ t rfl rfl


/-! ### what a parent needs to know about its children -/

/-- recorded position and parent pointer of every child -/
def linkIds (ks : List T) : List (Option Int × Option Nat) := ks.map (fun c => (c.info.pidx, c.info.par))

theorem linksOkHere_congr {i i' : Info} {ks ks' : List T} (hu : i'.uid = i.uid) (hl : linkIds ks' = linkIds ks)
    (h : linksOkHere (.mk i ks)) : linksOkHere (.mk i' ks') := by
  intro k c hk
  simp only [T.kids_mk, T.info_mk] at hk ⊢
  have h1 : (linkIds ks')[k]? = some (c.info.pidx, c.info.par) := by simp [linkIds, hk]
  rw [hl] at h1
  simp only [linkIds, List.getElem?_map, Option.map_eq_some_iff] at h1
  obtain ⟨d, hd, he⟩ := h1
  have := h k d (by simpa using hd)
  simp only [Prod.mk.injEq] at he
  rw [← he.1, ← he.2, hu]
  simpa using this

theorem fillV_spec :
    (∀ t, Coherent t → Coherent (fillV t).1 ∧ (fillV t).2 = bodyDur t ∧ bodyDur (fillV t).1 = bodyDur t ∧
        (fillV t).1.info = { t.info with cache := some (bodyDur t) }) ∧
    (∀ ks, CoherentL ks → CoherentL (fillLV ks).1 ∧ (fillLV ks).2 = sumDur ks ∧ sumDur (fillLV ks).1 = sumDur ks ∧
        linkIds (fillLV ks).1 = linkIds ks ∧ (fillLV ks).1.length = ks.length) := by
  apply T.ind
  · intro i ks ih h
    rw [coherent_mk] at h
    obtain ⟨hc, hl, hk⟩ := h
    have ihk := ih ((coherentL_iff ks).2 hk)
    unfold cacheOkHere at hc
    simp only [T.info_mk] at hc
    cases hcache : i.cache with
    | some v =>
      rw [hcache] at hc
      simp at hc
      have : fillV (.mk i ks) = (.mk i ks, v) := by simp [fillV, hcache]
      rw [this]
      refine ⟨?_, hc, rfl, ?_⟩
      · rw [coherent_mk]; exact ⟨Or.inr (by simp [hcache, hc]), hl, hk⟩
      · show i = { i with cache := some (bodyDur (T.mk i ks)) }
        rw [← hc, ← hcache]
    | none =>
      by_cases he : ks.isEmpty
      · have : fillV (.mk i ks) = (.mk { i with cache := some (leafDur i.wf) } ks, leafDur i.wf) := by
          simp [fillV, hcache, he]
        rw [this]
        have hb : bodyDur (.mk i ks) = leafDur i.wf := by simp [bodyDur_mk, he]
        have hb' : bodyDur (.mk { i with cache := some (leafDur i.wf) } ks) = leafDur i.wf := by simp [bodyDur_mk, he]
        refine ⟨?_, hb.symm, by rw [hb, hb'], by simp [hb]⟩
        rw [coherent_mk]
        refine ⟨Or.inr ?_, linksOkHere_congr rfl rfl hl, hk⟩
        rw [hb']; rfl
      · have : fillV (.mk i ks) = (.mk { i with cache := some (fillLV ks).2 } (fillLV ks).1, (fillLV ks).2) := by
          simp [fillV, hcache, he]
        rw [this]
        obtain ⟨k1, k2, k3, k4, k5⟩ := ihk
        have hne : (fillLV ks).1.isEmpty = false := by
          cases hks : ks with
          | nil => simp [hks] at he
          | cons a as => rw [hks] at k5; cases hf : (fillLV (a :: as)).1 with
            | nil => rw [hf] at k5; simp at k5
            | cons _ _ => rfl
        have hb : bodyDur (.mk i ks) = sumDur ks := by simp [bodyDur_mk, he]
        have hb' : bodyDur (.mk { i with cache := some (fillLV ks).2 } (fillLV ks).1) = sumDur ks := by
          simp [bodyDur_mk, hne, k3]
        refine ⟨?_, by rw [hb, k2], by rw [hb, hb'], by simp [hb, k2]⟩
        rw [coherent_mk]
        refine ⟨Or.inr ?_, linksOkHere_congr rfl k4 hl, (coherentL_iff _).1 k1⟩
        rw [hb', k2]; rfl
  · intro _; simp [fillLV, CoherentL, linkIds]
  · intro c cs ihc ihcs h
    simp only [CoherentL] at h
    obtain ⟨c1, c2, c3, c4⟩ := ihc h.1
    obtain ⟨d1, d2, d3, d4, d5⟩ := ihcs h.2
    simp only [fillLV, CoherentL, sumDur_cons, List.length_cons]
    refine ⟨⟨c1, d1⟩, ?_, ?_, ?_, by rw [d5]⟩
    · rw [c2, d2]; rfl
    · rw [d3]; simp [dur, c3, c4]
    · simp only [linkIds, List.map_cons] at d4 ⊢; rw [d4, c4]

end QP.C09
