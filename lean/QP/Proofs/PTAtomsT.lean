import QP.Model.PT
import QP.Proofs.PTRelT
import QP.Proofs.PTBuild
import QP.Proofs.C05Compile
/-! Atomic templates under a global transformation: the appended leaf plays the transformation applied to the
denoted pulse.  The waveform-level work (`TransformingWaveform`, the constant shortcut of `from_transformation`,
the `hold_voltage` re-fold) is C05's: `collapseWf_spec`, `foldConst_spec`. -/
namespace QP.PT
open QP.C05 (Chain.chanF Chain.presF Trafo.chanF Trafo.presF pv)

/-- the context of an instantiation below a transformation, nothing collapsed -/
def ctxT (σ : Scope) (mm : List (MName × Option MName)) (cm : List (Chan × Option Chan)) (T : Chain) : Ctx :=
  { scope := σ, mm := mm, cm := cm, trafo := T, single := [] }

def AtomOKT (pt : PT) : Prop :=
  ∀ σ mm cm T items P, atomItems pt (ctxT σ mm cm T) = .ok items → denote pt σ mm cm = .ok P →
    Loop.allPosList (nodesOf items) → RelT T items P

/-- one leaf against the transformed pulse -/
theorem relT_single_leaf (T : Chain) (w : Wf) (ms : List Window) (P : Pulse) (hd : 0 < P.dur) (hw : w.duration = P.dur)
    (hne : P.chans ≠ []) (hms : P.windows = ms)
    (hplD : ∀ c pl, P.chans.lookup c = some pl → PL.dur pl = P.dur)
    (hplP : ∀ c pl, P.chans.lookup c = some pl → pl.pos)
    (hpv : ∀ c t, 0 ≤ t → t < P.dur → pv w c t = Chain.chanF T c (P.val c t))
    (hch : ∀ x, w.channels.contains x = Chain.presF T x (P.chanNames.contains x)) :
    RelT T ((if ms.isEmpty then [] else [Item.measure ms]) ++ [Item.node (leaf w)]) P := by
  have hn : nodesOf (if ms.isEmpty then [] else [Item.measure ms]) = [] := by
    by_cases hm : ms.isEmpty <;> simp [hm, nodesOf]
  refine ⟨?_, ?_, ?_, hplD, hplP, ?_, ?_, ?_⟩
  · by_cases hm : ms.isEmpty
    · simp only [hm, if_true, List.nil_append]; exact Blocks.node _ Blocks.nil
    · simp only [hm]; exact Blocks.meas ms _ Blocks.nil
  · rw [nodesOf_append, hn]
    simp only [nodesOf, List.nil_append]
    constructor
    · intro h; simp at h
    · intro h; exact absurd h hne
  · rw [nodesOf_append, hn]
    simp [nodesOf, Loop.durationList, leaf_duration, hw]
  · intro c t ht0 ht v hv
    rw [nodesOf_append, hn]
    simp only [List.nil_append, nodesOf, Loop.sampleList, leaf_duration, hw]
    simp only [ht, if_true]
    rw [leaf_sample w c t (by rw [hw]; exact hd) ht0 (by rw [hw]; exact ht)]
    have := hpv c t ht0 ht
    rw [hv] at this
    unfold pv at this
    split at this
    · simpa using this
    · cases this
  · rw [itemsWindows_append, hms]
    by_cases hm : ms.isEmpty
    · have : ms = [] := by simpa using hm
      subst this
      simp [itemsWindows, nodesOf, leaf_windows]
    · simp [hm, itemsWindows, nodesOf, leaf_windows, map_shiftW_zero]
  · intro cs hcs x
    rw [nodesOf_append, hn] at hcs
    simp only [List.nil_append, nodesOf, Loop.leafChannelsList, leaf, Loop.leafChannels, List.append_nil,
      List.mem_singleton] at hcs
    subst hcs
    rw [← hch x]
    simp

theorem pv_of_wfRel {w : Wf} {P : Pulse} (h : WfRel w P) (c : Chan) (t : Rat) (h0 : 0 ≤ t) (h1 : t < P.dur) :
    pv w c t = P.val c t := by
  unfold pv Pulse.val
  rw [h.chans]
  cases hl : P.chans.lookup c with
  | none =>
    have : ¬ c ∈ P.chanNames := by
      intro hm
      obtain ⟨v, hv⟩ := lookup_some_of_mem_keys P.chans c (by simpa [Pulse.chanNames] using hm)
      rw [hl] at hv; cases hv
    simp [this]
  | some pl =>
    have : c ∈ P.chanNames := by simpa [Pulse.chanNames] using mem_keys_of_lookup _ _ _ hl
    simp only [List.contains_iff_mem, this, if_true, Option.map_some, Option.some.injEq]
    exact h.sample c pl hl t h0 h1

theorem atomOKT_of_buildOK {pt : PT} (hb : BuildOK pt) : AtomOKT pt := by
  intro σ mm cm T items P h1 h2 hpos
  rcases QP.C05.atomItems_ok pt (ctxT σ mm cm T) items h1 with ⟨hw, rfl⟩ | ⟨w, ms, wT, wF, hw, hms, hwT, hwF, rfl⟩
  · have := hb σ mm cm none P hw h2
    simp only at this
    subst this
    exact RelT.nil T
  · simp only [ctxT] at hw hms hwT
    obtain ⟨hne, hdur, hchans, hrelc, hwin⟩ := hb σ mm cm (some w) P hw h2
    have hcw := QP.C05.noRep_cst w (QP.C05.buildWaveform_noRep pt _ _ w hw)
    obtain ⟨a1, a2, a3, _⟩ := QP.C05.collapseWf_spec w wT _ hcw hwT
    obtain ⟨b1, _, b3, _⟩ := QP.C05.foldConst_spec wT wF a2 hwF
    have hwpos : 0 < w.duration := by
      unfold QP.C05.leafItems at hpos
      rw [nodesOf_append] at hpos
      have := (allPosList_append.mp hpos).2
      simp only [nodesOf] at this
      have := Loop.allPos_duration_pos _ (allPosList_cons.mp this).1
      rw [leaf_duration, b1, a1] at this
      exact this
    obtain ⟨hrel, _⟩ := hrelc hwpos
    unfold QP.C05.leafItems
    apply relT_single_leaf T wF ms P (by rw [← hdur]; exact hwpos) (by rw [b1, a1, hdur]) hne (hwin ms hms)
      hrel.plDur hrel.plPos
    · intro c t h0 h1
      rw [b3, a3, pv_of_wfRel hrel c t h0 h1]
    · intro x
      have h := QP.C05.pv_isSome wF x 0
      rw [b3, a3, QP.C05.Chain.chanF_isSome, QP.C05.pv_isSome, hchans] at h
      exact h.symm

end QP.PT
