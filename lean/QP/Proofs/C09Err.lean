import QP.Proofs.C09Beside
/-! Error branches: an operation that raises (anything but the `AttributeError` in the middle of
`reverse_inplace`) has not altered the tree. -/
namespace QP.C09

/-- the local step either did not fail, or failed inside `reverse_inplace`, or left the node alone -/
def ErrShape (t : T) (r : Loc) : Prop :=
  r.err = none ∨ r.err = some .attributeError ∨ (r.node = t ∧ r.upd = .keep)

theorem errShape_err (t : T) (e : Err) (n : Nat) : ErrShape t (errLoc t e n) := Or.inr (Or.inr ⟨rfl, rfl⟩)
theorem errShape_ok (t t' : T) (u : Upd) (n : Nat) (rm : List T) : ErrShape t (okLoc t' u n rm) := Or.inl rfl

theorem loc_errShape (op : Op) (next : Nat) (t : T) : ErrShape t (op.loc next t) := by
  cases op with
  | query p => exact errShape_ok _ _ _ _ _
  | append p a => exact errShape_ok _ _ _ _ _
  | setItem p idx v =>
    simp only [Op.loc, setItemLoc]; split
    · exact errShape_err _ _ _
    · exact errShape_ok _ _ _ _ _
  | setSlice p a b c vs =>
    simp only [Op.loc, setSliceLoc]; split
    · exact errShape_err _ _ _
    · exact errShape_ok _ _ _ _ _
  | setWf p w => exact errShape_ok _ _ _ _ _
  | setRep p r v => exact errShape_ok _ _ _ _ _
  | unroll p =>
    simp only [Op.loc]
    cases p.getLast? with
    | none => exact errShape_err _ _ _
    | some k =>
      simp only [unrollLoc]
      repeat' split
      all_goals first | exact errShape_err _ _ _ | exact errShape_ok _ _ _ _ _
  | unrollChildren p =>
    simp only [Op.loc, unrollChildrenLoc]
    repeat' split
    all_goals first | exact errShape_err _ _ _ | exact errShape_ok _ _ _ _ _
  | split p idx =>
    simp only [Op.loc, splitLoc]
    repeat' split
    all_goals first | exact errShape_err _ _ _ | exact errShape_ok _ _ _ _ _
  | encapsulate p => exact errShape_ok _ _ _ _ _
  | merge p =>
    simp only [Op.loc, mergeLoc]
    repeat' split
    all_goals first | exact errShape_err _ _ _ | exact errShape_ok _ _ _ _ _
  | cleanup p re mg =>
    simp only [Op.loc, cleanupLoc]; split
    · exact errShape_err _ _ _
    · exact errShape_ok _ _ _ _ _
  | reverse p =>
    simp only [Op.loc, reverseLoc, ErrShape]
    split
    · exact Or.inl rfl
    · exact Or.inr (Or.inl rfl)
  | roll p mq q sr =>
    simp only [Op.loc, rollLoc]; split
    · exact errShape_err _ _ _
    · exact errShape_ok _ _ _ _ _
  | copy p kp => exact Or.inl rfl
  | addMeas p ms => exact errShape_ok _ _ _ _ _
  | dropMeas p => exact errShape_ok _ _ _ _ _

theorem atPath_unchanged (f : T → Loc) (p : Path) (t : T) (r : Loc) (h : atPath f p t = some r)
    (hf : ∀ n, locate t p = some n → ErrShape n (f n)) :
    r.err = none ∨ r.err = some .attributeError ∨ (r.node = t ∧ r.upd = .keep) := by
  induction p generalizing t r with
  | nil =>
    simp only [atPath, Option.some.injEq] at h
    subst h
    exact hf t rfl
  | cons k p ih =>
    simp only [atPath] at h
    cases hk : t.kids[k]? with
    | none => simp [hk] at h
    | some c =>
      simp only [hk] at h
      cases hr : atPath f p c with
      | none => simp [hr] at h
      | some r' =>
        simp only [hr, Option.some.injEq] at h
        subst h
        rcases ih c r' hr (fun n hn => hf n (by simp [locate, hk, hn])) with h1 | h1 | ⟨h1, h2⟩
        · exact Or.inl h1
        · exact Or.inr (Or.inl h1)
        · refine Or.inr (Or.inr ?_)
          simp only [h1, h2, invalidate]
          have : t.kids.set k c = t.kids := by
            apply List.ext_getElem?
            intro j
            by_cases hjk : k = j
            · subst hjk
              rw [List.getElem?_set_self (by
                rcases Nat.lt_or_ge k t.kids.length with h | h
                · exact h
                · rw [List.getElem?_eq_none h] at hk; cases hk), hk]
            · rw [List.getElem?_set_ne hjk]
          rw [this]; simp

/-! ### a concrete program and history (non-vacuity of the hypotheses of `history`) -/

/-- a concrete coherent program: root (count 2, cache filled) over an inner loop and a leaf -/
def exTree : T :=
  .mk { uid := 0, rep := 2, vol := false, wf := none, meas := [], cache := some 14, pidx := none, par := none }
    [.mk { uid := 1, rep := 3, vol := false, wf := none, meas := [], cache := none, pidx := some 0, par := some 0 }
       [.mk { uid := 2, rep := 2, vol := false, wf := some ⟨1, 2, true, false⟩, meas := [], cache := some 2,
              pidx := some 0, par := some 1 } []],
     .mk { uid := 3, rep := 1, vol := false, wf := some ⟨0, 2, false, false⟩, meas := [], cache := none,
           pidx := some 1, par := some 0 } []]

def exLeaf (uid : Nat) : T :=
  .mk { uid := uid, rep := 2, vol := false, wf := some ⟨2, 5, true, false⟩, meas := [], cache := none,
        pidx := none, par := none } []

/-- a history with queries, an append, an unroll, a split, an extended-slice assignment, a roll -/
def exOps : List Op :=
  [.query [0], .append [0] (exLeaf 4), .unroll [0], .query [], .split [] none,
   .setSlice [] none none (some (-1)) [exLeaf 20, exLeaf 21, exLeaf 22, exLeaf 23, exLeaf 24, exLeaf 25, exLeaf 26, exLeaf 27],
   .roll [] 1 1 1, .reverse [], .setRep [0] 7 false, .query []]


theorem exLeaf_coherent (u : Nat) : Coherent (exLeaf u) := (Main.coherentB_iff _).1 (by
  simp [exLeaf, coherentB, cacheOkHereB, linksOkHereB, linksFrom, coherentLB])

theorem ex_pre : PreAll exOps ⟨exTree, 4⟩ := by
  unfold exOps
  refine ⟨trivial, ?_⟩
  refine ⟨⟨exLeaf_coherent 4, ?_⟩, ?_⟩
  · intro n hn
    have e : (locate (apply (.query [0]) ⟨exTree, 4⟩).tree [0]).map (fun n => n.info.wf.isNone) = some true := by
      decide +kernel
    have hn' : locate (apply (.query [0]) ⟨exTree, 4⟩).tree [0] = some n := hn
    rw [hn'] at e
    simpa using e
  refine ⟨trivial, trivial, trivial, ?_, trivial, trivial, trivial, trivial, trivial⟩
  exact ⟨exLeaf_coherent 20, exLeaf_coherent 21, exLeaf_coherent 22, exLeaf_coherent 23, exLeaf_coherent 24,
    exLeaf_coherent 25, exLeaf_coherent 26, exLeaf_coherent 27, trivial⟩

end QP.C09
