import QP.Proofs.C16
/-! C16: the tables produced by `parse` replay to the program's play order. -/
namespace QP.C16

theorem getElem?_of_prefix {α} {xs ys : List α} {i : Nat} {a : α} (hp : xs <+: ys) (h : xs[i]? = some a) :
    ys[i]? = some a := by
  obtain ⟨t, rfl⟩ := hp
  have hi : i < xs.length := by
    have := List.getElem?_eq_some_iff.mp h
    exact this.1
  rw [List.getElem?_append_left hi]; exact h

theorem setDefault_prefix {α} [DecidableEq α] (keys : List α) (x : α) : keys <+: (setDefault keys x).1 := by
  simp only [setDefault]
  split
  · exact List.prefix_refl _
  · exact List.prefix_append _ _

theorem setDefault_get {α} [DecidableEq α] (keys : List α) (x : α) :
    (setDefault keys x).1[(setDefault keys x).2]? = some x := by
  simp only [setDefault]
  split
  · rename_i h
    rw [List.getElem?_eq_getElem h, List.getElem_idxOf h]
  · rename_i h
    have hlen : keys.idxOf x = keys.length := by
      have := List.idxOf_le_length (a := x) (l := keys)
      omega
    rw [hlen]; simp

theorem parseEntries_spec : ∀ (es : List Entry) (wfs : List WfId),
    wfs <+: (parseEntries wfs es).1 ∧
    ∀ W, (parseEntries wfs es).1 <+: W →
      playSeqTab W ((parseEntries wfs es).2.map Prod.fst) = some (playEntries es) := by
  intro es
  induction es with
  | nil => intro wfs; exact ⟨List.prefix_refl _, fun W _ => rfl⟩
  | cons e es ih =>
    intro wfs
    obtain ⟨i1, i2⟩ := ih (setDefault wfs e.wf).1
    refine ⟨(setDefault_prefix wfs e.wf).trans i1, ?_⟩
    intro W hW
    simp only [parseEntries, List.map_cons, playSeqTab]
    have hget : W[(setDefault wfs e.wf).2]? = some e.wf :=
      getElem?_of_prefix (i1.trans hW) (setDefault_get wfs e.wf)
    simp only [parseEntries] at hW
    rw [hget, i2 W hW]
    simp [Entry.play]

theorem parseTabs_spec : ∀ (ts : Prog) (wfs : List WfId) (tabs : List VTab),
    wfs <+: (parseTabs wfs tabs ts).wfs ∧ tabs <+: (parseTabs wfs tabs ts).seqTabs ∧
    ∀ W (S : List VTab), (parseTabs wfs tabs ts).wfs <+: W → (parseTabs wfs tabs ts).seqTabs <+: S →
      playAdv W (S.map (·.map Prod.fst)) (parseTabs wfs tabs ts).adv = some (playProg ts) := by
  intro ts
  induction ts with
  | nil => intro wfs tabs; exact ⟨List.prefix_refl _, List.prefix_refl _, fun _ _ _ _ => rfl⟩
  | cons t ts ih =>
    intro wfs tabs
    obtain ⟨e1, e2⟩ := parseEntries_spec t.entries wfs
    obtain ⟨i1, i2, i3⟩ := ih (parseEntries wfs t.entries).1 (setDefault tabs (parseEntries wfs t.entries).2).1
    refine ⟨e1.trans i1, (setDefault_prefix _ _).trans i2, ?_⟩
    intro W S hW hS
    simp only [parseTabs] at hW hS
    simp only [parseTabs, playAdv]
    have hget : S[(setDefault tabs (parseEntries wfs t.entries).2).2]? = some (parseEntries wfs t.entries).2 :=
      getElem?_of_prefix (i2.trans hS) (setDefault_get _ _)
    rw [List.getElem?_map, hget]
    simp only [Option.map_some]
    rw [e2 W (i1.trans hW), i3 W S hW hS]
    simp [SeqTab.play]

/-- `parse_aseq_program`: replaying the tables gives the program's play order -/
theorem parse_play' (p : Prog) : playTables (parse p) = some (playProg p) := by
  obtain ⟨_, _, h⟩ := parseTabs_spec p [] []
  exact h _ _ (List.prefix_refl _) (List.prefix_refl _)

/-- `parse_single_seq_program` -/
theorem parseSingle_play' (rep : Nat) (es : List Entry) :
    playTables (parseSingle rep es) = some (repeatL rep (playEntries es)) := by
  obtain ⟨_, h⟩ := parseEntries_spec es []
  simp [playTables, parseSingle, Tables.plain, playAdv, h _ (List.prefix_refl _)]

end QP.C16
