import QP.Proofs.C09Main
/-! PF-C09-2: an operation on a tree whose root still points into another tree. -/
namespace QP.C09

theorem esc_none_of_not_mem (uid : Nat) :
    (∀ t, ∀ u, uid ∉ uids t → escT u uid t = none) ∧
    (∀ ks, ∀ u, uid ∉ uids.uidsL ks → escL u uid ks = none) := by
  apply T.ind
  · intro i ks ih u h
    simp only [uids, List.mem_cons, not_or] at h
    simp only [escT]
    rw [if_neg (fun e => h.1 e.symm), ih u h.2]
  · intro u _; simp [escL]
  · intro c cs ihc ihcs u h
    simp only [uids.uidsL, List.mem_append, not_or] at h
    simp only [escL, ihc u h.1, ihcs u h.2]

/-- outside the known class the other tree is not touched -/
theorem beside_untouched (op : Op) (t : T) (d : St) (h : ¬ InKnownClass t d) : (applyBeside op t d).1 = t := by
  unfold applyBeside
  simp only
  cases hp : d.tree.info.par with
  | none => rfl
  | some u =>
    simp only
    have : u ∉ uids t := fun hu => h ⟨u, hp, hu⟩
    rw [(esc_none_of_not_mem u).1 t _ this]

/-! the witness: `root[leaf(1), inner[leaf(2)]]`, durations queried, `c = inner.copy_tree_structure()`,
`c.append_child(leaf(5))` -/

def witLeaf (uid : Nat) (d : Rat) (pidx : Option Int) (par : Option Nat) (cache : Option Rat) : T :=
  .mk { uid := uid, rep := 1, vol := false, wf := some ⟨0, d, true, false⟩, meas := [], cache := cache,
        pidx := pidx, par := par } []

def witInner : T :=
  .mk { uid := 2, rep := 1, vol := false, wf := none, meas := [], cache := some 2, pidx := some 1, par := some 0 }
    [witLeaf 3 2 (some 0) (some 2) (some 2)]

def witT : T :=
  .mk { uid := 0, rep := 1, vol := false, wf := none, meas := [], cache := some 3, pidx := none, par := none }
    [witLeaf 1 1 (some 0) (some 0) (some 1), witInner]

/-- the copy of `inner`: parent pointer of the original kept -/
def witD : St := ⟨(copyT witInner.info.par none witInner 4).1, 6⟩

def witOp : Op := .append [] (witLeaf 6 5 none none none)

end QP.C09
