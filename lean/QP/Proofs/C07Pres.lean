import QP.Proofs.C07InvOps
/-!
# C07: presence of kept channels

`PresClaim`: a kept defined channel is a channel of the denoted pulse unless the pulse has duration 0 (a part of
duration 0 vanishes together with its channels), for all templates.
-/
namespace QP.C07
open QP.PT


/-- a kept defined channel is present in the denoted pulse, unless the pulse has duration 0 -/
def PresClaim (pt : PT) : Prop :=
  ∀ σ mm cm P, denote pt σ mm cm = .ok P → regular pt σ = true → keeps pt cm = true →
    ∀ c o, c ∈ pt.definedChannels → cm.lookup c = some (some o) → o ∈ P.chanNames ∨ P.dur = 0

theorem mem_chanNames_of_lookup {P : Pulse} {o : Chan} {pl : PL} (h : P.chans.lookup o = some pl) : o ∈ P.chanNames :=
  mem_keys_of_lookup P.chans o pl h

theorem pres_const (id dur amps meas) : PresClaim (.const id dur amps meas) := by
  intro σ mm cm P hden hreg _ c o hc hcm
  simp only [PT.definedChannels] at hc
  rw [mem_dedup] at hc
  obtain ⟨x, hx, rfl⟩ := List.mem_map.mp hc
  rw [denote] at hden
  simp only [bind_ok_iff] at hden
  obtain ⟨d, hd, hden⟩ := hden
  split at hden
  · simp only [bind_ok_iff] at hden
    obtain ⟨cvs, hcvs, hden⟩ := hden
    obtain ⟨_, h2⟩ := filterMapM_kept cm σ.eval amps cvs hcvs
    obtain ⟨v, _, hm⟩ := h2 x hx o hcm
    obtain ⟨v', hv'⟩ := dictOfList_lookup_some cvs o v hm
    split at hden
    · simp only [pure_ok_iff] at hden; subst hden; right; rfl
    · split at hden
      · cases hden
      · simp only [bind_ok_iff, pure_ok_iff] at hden
        obtain ⟨ms, _, rfl⟩ := hden
        left
        simp only [Pulse.chanNames, List.map_map]
        exact List.mem_map.mpr ⟨(x.1 |> fun _ => (o, v')), mem_of_lookup _ o v' hv', rfl⟩
  · simp only [pure_ok_iff] at hden; subst hden; right; rfl

theorem pres_func (id ch0 dur e meas cons) : PresClaim (.func id ch0 dur e meas cons) := by
  intro σ mm cm P hden _ _ c o hc hcm
  simp only [PT.definedChannels, List.mem_singleton] at hc
  subst hc
  rw [denote] at hden
  simp only [bind_ok_iff] at hden
  obtain ⟨_, _, oo, hoo, hden⟩ := hden
  rw [chanLookup_ok_iff, hcm] at hoo
  cases hoo
  simp only [bind_ok_iff] at hden
  obtain ⟨d, _, hden⟩ := hden
  split at hden
  · cases hden
  · simp only [bind_ok_iff, pure_ok_iff] at hden
    obtain ⟨a, _, b, _, ms, _, rfl⟩ := hden
    left; simp [Pulse.chanNames]

theorem pres_table (id entries meas cons) : PresClaim (.table id entries meas cons) := by
  intro σ mm cm P hden _ _ c o hc hcm
  simp only [PT.definedChannels] at hc
  rw [mem_dedup] at hc
  obtain ⟨inst, hinst, hemp, hval⟩ := table_chan hden
  rcases tableInstantiate_all hinst id meas cons with ⟨h0, _⟩ | ⟨d, _, hkeys, _, _⟩
  · right; rw [hemp h0]; rfl
  · rw [← hkeys] at hc
    obtain ⟨ws, hws⟩ := lookup_isSome_of_mem_keys inst c hc
    left
    exact mem_chanNames_of_lookup (hval c o ws hws hcm).1

theorem pres_point (id chans entries meas cons) : PresClaim (.point id chans entries meas cons) := by
  intro σ mm cm P hden hreg _ c o hc hcm
  simp only [PT.definedChannels] at hc
  rw [mem_dedup] at hc
  have hi : chans.idxOf c < chans.length := List.idxOf_lt_length_of_mem hc
  rw [regular] at hreg
  have hr := (List.all_eq_true.mp hreg) (chans.idxOf c) (List.mem_range.mpr hi)
  cases hws : instPoint σ (chans.idxOf c) entries with
  | error e => rw [hws] at hr; cases hr
  | ok ws =>
    obtain ⟨dur, e, _, _, h0, h1⟩ := point_chan hden hc hcm hws
    by_cases hd : dur = 0
    · right; rw [h0 hd]; rfl
    · left; exact mem_chanNames_of_lookup (h1 hd).1

/-! ### composites -/

theorem append_names {p q r : Pulse} (h : p.append q = .ok r) :
    (p.isEmpty = false → ∀ o, o ∈ p.chanNames ↔ o ∈ r.chanNames) ∧
    (q.isEmpty = false → ∀ o, o ∈ q.chanNames ↔ o ∈ r.chanNames) ∧
    (r.isEmpty = true → p.isEmpty = true ∧ q.isEmpty = true) := by
  unfold Pulse.append at h
  split at h
  · rename_i he
    cases h
    exact ⟨(fun hne => by rw [he] at hne; cases hne), (fun _ o => Iff.rfl), (fun hr => ⟨he, hr⟩)⟩
  · split at h
    · rename_i hpe he
      cases h
      exact ⟨(fun _ o => Iff.rfl), (fun hne => by rw [he] at hne; cases hne), (fun hr => ⟨hr, he⟩)⟩
    · split at h
      · cases h
      · rename_i hpe hqe hs
        cases h
        have hs' : sameSet p.chanNames q.chanNames = true := by simpa using hs
        have hn : ∀ o, o ∈ (Pulse.mk (p.dur + q.dur) (p.chans.map (fun x => (x.1, x.2 ++ (q.chans.lookup x.1).getD [])))
            (p.windows ++ q.windows.map (shiftW p.dur))).chanNames ↔ o ∈ p.chanNames := by
          intro o; simp [Pulse.chanNames, List.map_map]
        refine ⟨(fun _ o => (hn o).symm), (fun _ o => ((sameSet_mem hs' o).symm.trans (hn o).symm)), ?_⟩
        intro hr
        rw [isEmpty_iff] at hr
        simp only [List.map_eq_nil_iff] at hr
        exact absurd ((isEmpty_iff p).mpr hr) hpe

theorem appendAll_names : ∀ (ps : List Pulse) (r : Pulse), Pulse.appendAll ps = .ok r →
    (∀ p ∈ ps, p.isEmpty = false → ∀ o, o ∈ p.chanNames ↔ o ∈ r.chanNames) ∧
    (r.isEmpty = true → ∀ p ∈ ps, p.isEmpty = true)
  | [], r, h => ⟨(fun p hp => nomatch hp), (fun _ p hp => nomatch hp)⟩
  | p :: ps, r, h => by
    simp only [Pulse.appendAll, bind_ok_iff] at h
    obtain ⟨r', hr', happ⟩ := h
    obtain ⟨i1, i2⟩ := appendAll_names ps r' hr'
    obtain ⟨a1, a2, a3⟩ := append_names happ
    refine ⟨?_, ?_⟩
    · intro q hq hne o
      rcases List.mem_cons.mp hq with rfl | hq
      · exact a1 hne o
      · have hr'ne : r'.isEmpty = false := by
          cases he : r'.isEmpty with
          | false => rfl
          | true => have := i2 he q hq; rw [hne] at this; cases this
        exact (i1 q hq hne o).trans (a2 hr'ne o)
    · intro hr q hq
      obtain ⟨h1, h2⟩ := a3 hr
      rcases List.mem_cons.mp hq with rfl | hq
      · exact h1
      · exact i2 h2 q hq

theorem sum_ne_zero_mem : ∀ (l : List Rat), l.sum ≠ 0 → ∃ x ∈ l, x ≠ 0
  | [], h => by simp at h
  | x :: xs, h => by
    by_cases hx : x = 0
    · subst hx
      have : xs.sum ≠ 0 := by
        intro h0; apply h; simp [h0]; grind
      obtain ⟨y, hy, hy0⟩ := sum_ne_zero_mem xs this
      exact ⟨y, List.mem_cons_of_mem _ hy, hy0⟩
    · exact ⟨x, List.mem_cons_self .., hx⟩

theorem isEmpty_false_of_mem {P : Pulse} {o : Chan} (h : o ∈ P.chanNames) : P.isEmpty = false := by
  cases he : P.isEmpty with
  | false => rfl
  | true =>
    rw [isEmpty_iff] at he
    simp [Pulse.chanNames, he] at h

/-- presence in a sequence of parts: some part of non-zero duration contains the channel -/
theorem pres_parts {parts : List Pulse} {p : Pulse} (happ : Pulse.appendAll parts = .ok p)
    (hinv : ∀ q ∈ parts, PulseInv q) {o : Chan}
    (hpres : ∀ q ∈ parts, o ∈ q.chanNames ∨ q.dur = 0) : o ∈ p.chanNames ∨ p.dur = 0 := by
  obtain ⟨_, j2, _⟩ := appendAll_inv parts p hinv happ
  by_cases h0 : p.dur = 0
  · exact Or.inr h0
  · left
    rw [j2] at h0
    obtain ⟨x, hx, hx0⟩ := sum_ne_zero_mem _ h0
    obtain ⟨q, hq, rfl⟩ := List.mem_map.mp hx
    rcases hpres q hq with h | h
    · exact ((appendAll_names parts p happ).1 q hq (isEmpty_false_of_mem h) o).mp h
    · exact absurd h hx0

theorem regularAll_mem {subs : List PT} {σ : Scope} (h : regularAll subs σ = true) : ∀ x ∈ subs, regular x σ = true := by
  induction subs with
  | nil => intro x hx; cases hx
  | cons y ys ihy =>
    intro x hx
    simp only [regularAll, Bool.and_eq_true] at h
    rcases List.mem_cons.mp hx with rfl | hx
    · exact h.1
    · exact ihy h.2 x hx

theorem pres_seq (id subs meas cons) (ih : ∀ p ∈ subs, PresClaim p ∧ InvClaim p)
    (hsame : sameChannels (PT.firstChannels subs) subs = true) : PresClaim (.seq id subs meas cons) := by
  intro σ mm cm P hden hreg hkeep c o hc hcm
  rw [denote] at hden
  simp only [bind_ok_iff, pure_ok_iff] at hden
  obtain ⟨_, _, ms, _, parts, hparts, p, happ, rfl⟩ := hden
  rw [regular] at hreg
  simp only [keeps] at hkeep
  simp only [PT.definedChannels] at hc
  rw [withOwn_chanNames, withOwn_dur]
  apply pres_parts happ
  · intro q hq
    obtain ⟨p', hp', hpq⟩ := denoteList_mem_rev subs parts hparts q hq
    exact ((ih p' hp').2 σ mm cm q hpq (regularAll_mem hreg p' hp')).1
  · intro q hq
    obtain ⟨p', hp', hpq⟩ := denoteList_mem_rev subs parts hparts q hq
    exact (ih p' hp').1 σ mm cm q hpq (regularAll_mem hreg p' hp') (keepsAll_mem hkeep p' hp') c o
      ((sameChannels_mem hsame p' hp' c).mpr hc) hcm

theorem pres_forLoop (id body idx start stop step meas cons) (ih : PresClaim body) (hinv : InvClaim body) :
    PresClaim (.forLoop id body idx start stop step meas cons) := by
  intro σ mm cm P hden hreg hkeep c o hc hcm
  obtain ⟨ai, bi, si, parts, p, ms, _, _, _, _, hparts, hp, rfl, hall⟩ := forLoop_unfold hden hreg
  simp only [PT.definedChannels] at hc
  have hkeepb : keeps body cm = true := by simpa [keeps] using hkeep
  rw [withOwn_chanNames, withOwn_dur]
  apply pres_parts hp
  · intro q hq
    obtain ⟨i, hi, hqi⟩ := mapM_mem_rev _ _ _ hparts q hq
    exact (hinv _ mm cm q hqi (hall i hi)).1
  · intro q hq
    obtain ⟨i, hi, hqi⟩ := mapM_mem_rev _ _ _ hparts q hq
    exact ih _ mm cm q hqi (hall i hi) hkeepb c o hc hcm

theorem pres_rep (id body count meas cons) (ih : PresClaim body) : PresClaim (.rep id body count meas cons) := by
  intro σ mm cm P hden hreg hkeep c o hc hcm
  rw [denote] at hden
  simp only [bind_ok_iff] at hden
  obtain ⟨_, _, cnt, hcnt, hden⟩ := hden
  simp only [regular, Bool.and_eq_true] at hreg
  simp only [PT.definedChannels] at hc
  cases hci : checkedInt cnt with
  | none => rw [hci] at hden; cases hden
  | some n =>
    rw [hci] at hden
    simp only at hden
    split at hden
    · simp only [pure_ok_iff] at hden; subst hden; right; rfl
    · simp only [bind_ok_iff] at hden
      obtain ⟨ms, _, b, hb, hden⟩ := hden
      split at hden
      · simp only [pure_ok_iff] at hden; subst hden; right; rfl
      · simp only [pure_ok_iff] at hden; subst hden
        rcases ih σ mm cm b hb hreg.2 (by simpa [keeps] using hkeep) c o hc hcm with h | h
        · left
          simp only [Pulse.chanNames, List.map_map] at h ⊢
          exact h
        · right; simp only [h]; simp

theorem pres_mapping (id body pm mm' cm' cons) (ih : PresClaim body)
    (hall : body.definedChannels.all (fun c => (cm'.lookup c).isSome) = true) :
    PresClaim (.mapping id body pm mm' cm' cons) := by
  intro σ mm cm P hden hreg hkeep ch o hc hcm
  rw [denote] at hden
  simp only [bind_ok_iff] at hden
  obtain ⟨_, _, mmU, _, cmU, hcmU, hden⟩ := hden
  rw [regular] at hreg
  simp only [keeps, hcmU] at hkeep
  simp only [PT.definedChannels] at hc
  rw [mem_dedup] at hc
  obtain ⟨c, hcb, hcc⟩ := List.mem_filterMap.mp hc
  have hl : cm'.lookup c = some (some ch) := by
    cases h : cm'.lookup c with
    | none => rw [h] at hcc; cases hcc
    | some y => cases y with
      | none => rw [h] at hcc; cases hcc
      | some x => rw [h] at hcc; simp only [Option.some.injEq] at hcc; rw [hcc]
  have hlU : cmU.lookup c = some (some o) := by rw [updatedCm_lookup hcmU, hl]; exact hcm
  exact ih (.mapped σ pm) mmU cmU P hden hreg hkeep c o hcb hlU

theorem pres_timeReversal (id body) (ih : PresClaim body) : PresClaim (.timeReversal id body) := by
  intro σ mm cm P hden hreg hkeep c o hc hcm
  rw [denote] at hden
  simp only [bind_ok_iff, pure_ok_iff] at hden
  obtain ⟨b, hb, rfl⟩ := hden
  rw [regular] at hreg
  simp only [PT.definedChannels] at hc
  rcases ih σ mm cm b hb hreg (by simpa [keeps] using hkeep) c o hc hcm with h | h
  · left
    simp only [Pulse.chanNames, List.map_map] at h ⊢
    exact h
  · right; exact h

theorem pres_parallel (id body over) (ih : PresClaim body) : PresClaim (.parallel id body over) := by
  intro σ mm cm P hden hreg hkeep c o hc hcm
  rw [denote] at hden
  simp only [bind_ok_iff] at hden
  obtain ⟨ov, hov, b, hb, hden⟩ := hden
  rw [regular] at hreg
  obtain ⟨_, o2, _⟩ := overwrittenValues_spec hov
  simp only [PT.definedChannels] at hc
  rw [mem_dedup] at hc
  split at hden
  · simp only [pure_ok_iff] at hden; subst hden; right; rfl
  · simp only [pure_ok_iff] at hden; subst hden
    simp only
    rw [applyTrafoPL_parallel]
    rcases List.mem_append.mp hc with hcb | hco
    · rcases ih σ mm cm b hb hreg (by simpa [keeps] using hkeep) c o hcb hcm with h | h
      · left
        simp only [Pulse.chanNames, List.map_append, List.map_map, List.mem_append]
        left
        simp only [Pulse.chanNames] at h
        exact h
      · right; exact h
    · left
      obtain ⟨x, hx, rfl⟩ := List.mem_map.mp hco
      obtain ⟨v, hv⟩ := o2 x hx o hcm
      simp only [Pulse.chanNames, List.map_append, List.map_map, List.mem_append]
      cases hbl : b.chans.lookup o with
      | some pl =>
        left
        exact mem_keys_of_lookup b.chans o pl hbl
      | none =>
        right
        apply List.mem_map.mpr
        refine ⟨(o, v), List.mem_filter.mpr ⟨mem_of_lookup ov o v hv, by simp [hbl]⟩, rfl⟩

theorem pres_arith (id body op scalar ptIsLhs) (ih : PresClaim body) : PresClaim (.arith id body op scalar ptIsLhs) := by
  intro σ mm cm P hden hreg hkeep c o hc hcm
  rw [denote] at hden
  simp only [bind_ok_iff] at hden
  obtain ⟨b, hb, hden⟩ := hden
  rw [regular] at hreg
  simp only [PT.definedChannels] at hc
  split at hden
  · simp only [pure_ok_iff] at hden; subst hden; right; rfl
  · simp only [bind_ok_iff, pure_ok_iff] at hden
    obtain ⟨T, hT, rfl⟩ := hden
    obtain ⟨k1, _⟩ := foldl_pointwise_inv b.dur T b.chans (arithTransformation_pointwise hT)
    rcases ih σ mm cm b hb hreg (by simpa [keeps] using hkeep) c o hc hcm with h | h
    · left
      simp only [Pulse.chanNames] at h ⊢
      rw [k1]; exact h
    · right; exact h

theorem mem_allChannels {subs : List PT} {c : Chan} (h : c ∈ PT.allChannels subs) : ∃ p ∈ subs, c ∈ p.definedChannels := by
  induction subs with
  | nil => simp [PT.allChannels] at h
  | cons y ys ih =>
    simp only [PT.allChannels, List.mem_append] at h
    rcases h with h | h
    · exact ⟨y, List.mem_cons_self .., h⟩
    · obtain ⟨p, hp, hc⟩ := ih h
      exact ⟨p, List.mem_cons_of_mem _ hp, hc⟩

theorem denoteList_mem {σ : Scope} {mm cm} : ∀ (subs : List PT) (parts : List Pulse),
    denoteList subs σ mm cm = .ok parts → ∀ p ∈ subs, ∃ q ∈ parts, denote p σ mm cm = .ok q
  | [], parts, h, p, hp => nomatch hp
  | x :: xs, parts, h, p, hp => by
    simp only [denoteList, bind_ok_iff, pure_ok_iff] at h
    obtain ⟨a, ha, b, hb, rfl⟩ := h
    rcases List.mem_cons.mp hp with rfl | hp
    · exact ⟨a, List.mem_cons_self .., ha⟩
    · obtain ⟨q, hq, h'⟩ := denoteList_mem xs b hb p hp
      exact ⟨q, List.mem_cons_of_mem _ hq, h'⟩

/-- the shape of the pulse an atomic multi channel template denotes -/
theorem denote_atomicMulti {id subs dur meas cons σ mm cm P}
    (hden : denote (.atomicMulti id subs dur meas cons) σ mm cm = .ok P) :
    ∃ parts, denoteList subs σ mm cm = .ok parts ∧
      ((parts.filter (fun p => !p.isEmpty) = [] ∧ P = Pulse.empty) ∨
       (∃ p rest ms, parts.filter (fun p => !p.isEmpty) = p :: rest ∧
          hasDup ((mergeChans (p :: rest)).map (·.1)) = false ∧ (∀ q ∈ rest, q.dur = p.dur) ∧
          P = { dur := p.dur, chans := mergeChans (p :: rest), windows := ms })) := by
  rw [denote] at hden
  simp only [bind_ok_iff] at hden
  obtain ⟨_, _, parts, hparts, hden⟩ := hden
  refine ⟨parts, hparts, ?_⟩
  split at hden
  · rename_i hnil
    simp only [pure_ok_iff] at hden
    exact Or.inl ⟨hnil, hden.symm⟩
  · rename_i p rest hfil
    simp only [hfil] at hden
    right
    split at hden
    · cases hden
    · split at hden
      · cases hden
      · rename_i hnd hdurs
        have hdurs' : ∀ q ∈ rest, q.dur = p.dur := by
          have : rest.all (fun q => q.dur == p.dur) = true := by simpa using hdurs
          intro q hq
          have := (List.all_eq_true.mp this) q hq
          simpa using this
        have hP : ∃ ms, P = { dur := p.dur, chans := mergeChans (p :: rest), windows := ms } := by
          cases dur with
          | none =>
            simp only [bind_ok_iff, pure_ok_iff] at hden
            obtain ⟨ms, _, rfl⟩ := hden
            exact ⟨ms, rfl⟩
          | some de =>
            simp only [bind_ok_iff] at hden
            obtain ⟨ex, _, hden⟩ := hden
            split at hden
            · simp only [bind_ok_iff] at hden
              obtain ⟨_, h, _⟩ := hden
              cases h
            · simp only [bind_ok_iff, pure_ok_iff] at hden
              obtain ⟨ms, _, rfl⟩ := hden
              exact ⟨ms, rfl⟩
        obtain ⟨ms, rfl⟩ := hP
        exact ⟨p, rest, ms, hfil, by simpa using hnd, hdurs', rfl⟩

theorem pres_atomicMulti (id subs dur meas cons) (ih : ∀ p ∈ subs, PresClaim p ∧ InvClaim p) :
    PresClaim (.atomicMulti id subs dur meas cons) := by
  intro σ mm cm P hden hreg hkeep c o hc hcm
  simp only [regular, Bool.and_eq_true] at hreg
  obtain ⟨⟨hregs, hsame⟩, _⟩ := hreg
  simp only [keeps] at hkeep
  simp only [PT.definedChannels] at hc
  rw [mem_dedup] at hc
  obtain ⟨p, hp, hcp⟩ := mem_allChannels hc
  obtain ⟨parts, hparts, hcases⟩ := denote_atomicMulti hden
  obtain ⟨q, hq, hpq⟩ := denoteList_mem subs parts hparts p hp
  rcases hcases with ⟨_, rfl⟩ | ⟨p0, rest, ms, hfil, _, hdurs, rfl⟩
  · right; rfl
  · rcases (ih p hp).1 σ mm cm q hpq (regularAll_mem hregs p hp) (keepsAll_mem hkeep p hp) c o hcp hcm with h | h
    · left
      have hqne := isEmpty_false_of_mem h
      have hqf : q ∈ p0 :: rest := by rw [← hfil]; exact List.mem_filter.mpr ⟨hq, by simp [hqne]⟩
      simp only [Pulse.chanNames, mergeChans, List.mem_map, List.mem_flatMap]
      obtain ⟨x, hx, rfl⟩ := List.mem_map.mp h
      exact ⟨x, ⟨q, hqf, hx⟩, rfl⟩
    · right
      -- all durations agree with the common value of the duration expressions
      cases hs : subs with
      | nil => rw [hs] at hp; cases hp
      | cons s0 ss =>
        obtain ⟨d, _, hdall⟩ := sameDurations_spec hsame hs
        have hdq : d = q.dur := ((ih p hp).2 σ mm cm q hpq (regularAll_mem hregs p hp)).2.2 (keepsAll_mem hkeep p hp) d (hdall p hp)
        have hp0 : p0 ∈ parts := (List.mem_filter.mp (by rw [hfil]; exact List.mem_cons_self ..)).1
        obtain ⟨p0', hp0', hp0q⟩ := denoteList_mem_rev subs parts hparts p0 hp0
        have hd0 : d = p0.dur := ((ih p0' hp0').2 σ mm cm p0 hp0q (regularAll_mem hregs p0' hp0')).2.2
          (keepsAll_mem hkeep p0' hp0') d (hdall p0' hp0')
        show p0.dur = 0
        rw [← hd0, hdq, h]

theorem pres_arithAtomic (id lhs minus rhs meas) (ihl : PresClaim lhs ∧ InvClaim lhs) (ihr : PresClaim rhs ∧ InvClaim rhs) :
    PresClaim (.arithAtomic id lhs minus rhs meas) := by
  intro σ mm cm P hden hreg hkeep c o hc hcm
  simp only [regular, Bool.and_eq_true] at hreg
  obtain ⟨⟨hrl, hrr⟩, heq⟩ := hreg
  simp only [keeps, Bool.and_eq_true] at hkeep
  simp only [PT.definedChannels] at hc
  rw [mem_dedup] at hc
  obtain ⟨l, r, hl, hr, hcases⟩ := denote_arithAtomic hden
  obtain ⟨l1, _, l3⟩ := ihl.2 σ mm cm l hl hrl
  obtain ⟨r1, _, r3⟩ := ihr.2 σ mm cm r hr hrr
  -- the two duration expressions agree, hence the two durations
  have hdur : l.dur = r.dur := by
    cases hdl : templateDuration lhs σ with
    | error e => rw [hdl] at heq; cases heq
    | ok dl =>
      cases hdr : templateDuration rhs σ with
      | error e => rw [hdl, hdr] at heq; cases heq
      | ok dr =>
        rw [hdl, hdr] at heq
        have : dl = dr := by simpa using heq
        rw [← l3 hkeep.1 dl hdl, ← r3 hkeep.2 dr hdr, this]
  have pl := fun hc' => ihl.1 σ mm cm l hl hrl hkeep.1 c o hc' hcm
  have pr := fun hc' => ihr.1 σ mm cm r hr hrr hkeep.2 c o hc' hcm
  rcases hcases with ⟨_, _, rfl⟩ | ⟨hre, _, ms, rfl⟩ | ⟨hle, _, ms, rfl⟩ | ⟨_, _, _, ms, rfl⟩
  · right; rfl
  · rcases List.mem_append.mp hc with hcl | hcr
    · exact pl hcl
    · right; show l.dur = 0; rw [hdur, r1.empty_dur hre]
  · rcases List.mem_append.mp hc with hcl | hcr
    · right; show r.dur = 0; rw [← hdur, l1.empty_dur hle]
    · rcases pr hcr with h | h
      · left
        simp only [Pulse.chanNames, List.map_map] at h ⊢
        exact h
      · right; exact h
  · simp only [Pulse.chanNames, aaChans, List.map_append, List.map_map, List.mem_append]
    rcases List.mem_append.mp hc with hcl | hcr
    · rcases pl hcl with h | h
      · left; left; simp only [Pulse.chanNames] at h; exact h
      · right; exact h
    · rcases pr hcr with h | h
      · left
        cases hll : l.chans.lookup o with
        | some pl' => left; exact mem_keys_of_lookup l.chans o pl' hll
        | none =>
          right
          obtain ⟨x, hx, rfl⟩ := List.mem_map.mp h
          exact List.mem_map.mpr ⟨x, List.mem_filter.mpr ⟨hx, by simp [hll]⟩, rfl⟩
      · right; show l.dur = 0; rw [hdur]; exact h

mutual
theorem presClaim : ∀ (pt : PT), supported pt = true → PresClaim pt
  | .const id dur amps meas, _ => pres_const id dur amps meas
  | .table id entries meas cons, _ => pres_table id entries meas cons
  | .point id chans entries meas cons, _ => pres_point id chans entries meas cons
  | .func id ch dur e meas cons, _ => pres_func id ch dur e meas cons
  | .seq id subs meas cons, h => by
      have h' := h
      simp only [supported, Bool.and_eq_true] at h
      exact pres_seq id subs meas cons (fun p hp => ⟨presClaimAll subs h.1 p hp, invClaimAll subs h.1 p hp⟩) h.2
  | .rep id body count meas cons, h => by
      simp only [supported] at h
      exact pres_rep id body count meas cons (presClaim body h)
  | .forLoop id body idx start stop step meas cons, h => by
      simp only [supported] at h
      exact pres_forLoop id body idx start stop step meas cons (presClaim body h) (invClaim body h)
  | .mapping id body pm mm' cm' cons, h => by
      simp only [supported, Bool.and_eq_true] at h
      exact pres_mapping id body pm mm' cm' cons (presClaim body h.1.1.1) h.1.1.2
  | .parallel id body over, h => by
      simp only [supported, Bool.and_eq_true] at h
      exact pres_parallel id body over (presClaim body h.1)
  | .atomicMulti id subs dur meas cons, h => by
      simp only [supported, Bool.and_eq_true] at h
      exact pres_atomicMulti id subs dur meas cons (fun p hp => ⟨presClaimAll subs h.1 p hp, invClaimAll subs h.1 p hp⟩)
  | .arith id body op scalar ptIsLhs, h => by
      simp only [supported, Bool.and_eq_true] at h
      exact pres_arith id body op scalar ptIsLhs (presClaim body h.1.1)
  | .arithAtomic id lhs minus rhs meas, h => by
      simp only [supported, Bool.and_eq_true] at h
      exact pres_arithAtomic id lhs minus rhs meas ⟨presClaim lhs h.1, invClaim lhs h.1⟩ ⟨presClaim rhs h.2, invClaim rhs h.2⟩
  | .timeReversal id body, h => by
      simp only [supported] at h
      exact pres_timeReversal id body (presClaim body h)
theorem presClaimAll : ∀ (subs : List PT), supportedAll subs = true → ∀ p ∈ subs, PresClaim p
  | [], _ => fun p hp => nomatch hp
  | q :: qs, h => by
      simp only [supportedAll, Bool.and_eq_true] at h
      intro p hp
      rcases List.mem_cons.mp hp with hpq | hp
      · rw [hpq]; exact presClaim q h.1
      · exact presClaimAll qs h.2 p hp
end


end QP.C07
