import QP.Model.PT
import QP.Proofs.PTTop2
import QP.Proofs.PTCompileT2
/-! Stage 3 of compile correctness: stage 2 plus `ParallelChannelPulseTemplate` and `ArithmeticPulseTemplate`
(scalar operand) in any nesting, outside the class of the open finding PF-11. -/
namespace QP.PT

/-- the constructor subset of stage 3 -/
inductive Stage3 : PT → Prop
  | atom {pt} : AtomTreeP pt → Stage3 pt
  | seq {id subs meas cons} : (∀ p ∈ subs, Stage3 p) → Stage3 (.seq id subs meas cons)
  | rep {id body count meas cons} : Stage3 body → Stage3 (.rep id body count meas cons)
  | forLoop {id body idx start stop step meas cons} : Stage3 body →
      Stage3 (.forLoop id body idx start stop step meas cons)
  | mapping {id body pm mm cm cons} : Stage3 body → Stage3 (.mapping id body pm mm cm cons)
  | parallel {id body over} : Stage3 body → Stage3 (.parallel id body over)
  | arith {id body op scalar lhs} : Stage3 body → scalarSub scalar body → Stage3 (.arith id body op scalar lhs)

theorem Stage3.basicT {pt : PT} (h : Stage3 pt) : BasicT pt := by
  induction h with
  | atom ha =>
    have hb := atomOKT_of_buildOKP ha.buildOKP
    cases ha with
    | base ha' =>
      cases ha' with
      | const => exact BasicT.const hb
      | func => exact BasicT.func hb
      | table => exact BasicT.table hb
      | point => exact BasicT.point hb
      | atomicMulti _ => exact BasicT.atomicMulti hb
    | arithAtomic _ _ => exact BasicT.arithAtomic hb
  | seq _ ih => exact BasicT.seq ih
  | rep _ ih => exact BasicT.rep ih
  | forLoop _ ih => exact BasicT.forLoop ih
  | mapping _ ih => exact BasicT.mapping ih
  | parallel _ ih => exact BasicT.parallel ih
  | arith _ hs ih => exact BasicT.arith ih hs

theorem Stage2.stage3 {pt : PT} (h : Stage2 pt) : Stage3 pt := by
  induction h with
  | atom ha => exact Stage3.atom ha
  | seq _ ih => exact Stage3.seq ih
  | rep _ ih => exact Stage3.rep ih
  | forLoop _ ih => exact Stage3.forLoop ih
  | mapping _ ih => exact Stage3.mapping ih

/-- compile correctness for stage-3 templates outside PF-11 -/
theorem createProgram_relT {pt : PT} (hs : Stage3 pt) (params : List (String × Rat))
    (mm : Option (List (MName × Option MName))) (cm : List (Chan × Option Chan)) (prog : Loop) (P : Pulse)
    (hpf : inPF11 pt (topCm pt cm) = false)
    (h1 : createProgram pt params mm cm [] = .ok (some prog)) (h2 : denoteTop pt params mm cm = .ok P)
    (hpos : prog.allPos) :
    prog.duration = P.dur ∧
    (∀ c pl, P.chans.lookup c = some pl → ∀ t, 0 ≤ t → t < P.dur → prog.sample c t = PL.at pl t) ∧
    prog.windows.Perm P.windows ∧
    (∀ cs ∈ prog.leafChannels, ∀ x, x ∈ cs ↔ x ∈ P.chanNames) ∧
    (∀ c pl, P.chans.lookup c = some pl → PL.dur pl = P.dur) := by
  have hnil : pf11Chans pt (topCm pt cm) [] = [] := by
    simpa [inPF11] using hpf
  refine createProgram_rel_of params mm cm prog P ?_ h1 h2 hpos
  intro σ mm' items hi hd hp
  exact (compile_relT hs.basicT σ mm' (topCm pt cm) [] [] items P (by simp [Chain.keys]) hnil hi hd hp).to_rel

end QP.PT

namespace QP.PT
open QP.C05 (Chain.chanF Chain.presF)

/-- what `RelT` says about the program `to_program` makes of an item list -/
theorem RelT.program {T : Chain} {items : List Item} {P : Pulse} {prog : Loop} (h : RelT T items P)
    (hp : toProgram items = some prog) (hpos : prog.allPos) :
    prog.duration = P.dur ∧
    (∀ c t, 0 ≤ t → t < P.dur → ∀ v, Chain.chanF T c (P.val c t) = some v → prog.sample c t = v) ∧
    prog.windows.Perm P.windows ∧
    (∀ cs ∈ prog.leafChannels, ∀ x, x ∈ cs ↔ Chain.presF T x (P.chanNames.contains x) = true) := by
  unfold toProgram at hp
  simp only [rootLoop, applyItems_eq, List.nil_append, Loop.durationList] at hp
  by_cases he : (Loop.mk 1 none (measW items 0) (nodesOf items)).isEmpty
  · simp [he] at hp
  · simp only [he, Bool.false_eq_true, if_false, Option.some.injEq] at hp
    subst hp
    have hne : nodesOf items ≠ [] := by
      intro h0
      simp [Loop.isEmpty, Loop.wf, Loop.children, h0] at he
    obtain ⟨c0, cs0, hcs⟩ := List.exists_cons_of_ne_nil hne
    have hposl : Loop.allPosList (nodesOf items) := by
      rw [hcs] at hpos ⊢
      simp only [Loop.allPos, Loop.allPosB, Bool.and_eq_true] at hpos
      exact hpos.2
    have hd : 0 < P.dur := by rw [← h.dur]; exact Loop.allPosList_duration_pos _ hposl hne
    refine ⟨?_, ?_, ?_, ?_⟩
    · rw [duration_none, h.dur]; simp
    · intro c t ht0 ht v hv
      have hfl := floor_div_eq t P.dur 0 hd (by simpa using ht0) (by simpa using ht)
      rw [hcs]
      simp only [Loop.sample]
      rw [← hcs, bodyDuration_none, h.dur]
      have hnd : ¬ P.dur ≤ 0 := not_le.mpr hd
      simp only [hnd, if_false, hfl]
      simp only [Nat.cast_zero, lt_self_iff_false, Nat.cast_one, Int.reduceLE, or_self, if_false,
        Int.cast_zero, zero_mul, sub_zero]
      exact h.sample c t ht0 ht v hv
    · simp only [Loop.windows]
      rw [repeatWindows_one]
      exact List.Perm.trans (measW_windowsList_perm items 0) h.windows
    · intro cs hmem x
      rw [hcs] at hmem
      simp only [Loop.leafChannels] at hmem
      rw [← hcs] at hmem
      exact h.chans cs hmem x

/-- **`create_program(global_transformation = T)`** for stage-3 templates: the program plays `T` applied, channel by
channel, to the denoted pulse, provided no channel overwritten by a `ParallelChannelPT` inside is named by `T` or
by an enclosing arithmetic (the PF-11 class relative to `T`). -/
theorem createProgramT_rel {pt : PT} (hs : Stage3 pt) (params : List (String × Rat))
    (mm : Option (List (MName × Option MName))) (cm : List (Chan × Option Chan)) (T : Chain) (prog : Loop) (P : Pulse)
    (hpf : pf11Chans pt (topCm pt cm) (Chain.keys T) = [])
    (h1 : QP.C05.createProgramT pt params mm cm [] T = .ok (some prog)) (h2 : denoteTop pt params mm cm = .ok P)
    (hpos : prog.allPos) :
    prog.duration = P.dur ∧
    (∀ c t, 0 ≤ t → t < P.dur → ∀ v, Chain.chanF T c (P.val c t) = some v → prog.sample c t = v) ∧
    prog.windows.Perm P.windows ∧
    (∀ cs ∈ prog.leafChannels, ∀ x, x ∈ cs ↔ Chain.presF T x (P.chanNames.contains x) = true) := by
  simp only [QP.C05.createProgramT, bind_ok, pure_ok] at h1
  obtain ⟨ctx, hctx, items, hitems, hprog⟩ := h1
  simp only [denoteTop, bind_ok] at h2
  obtain ⟨ctx', hctx', h2⟩ := h2
  rw [hctx] at hctx'; cases hctx'
  obtain ⟨hsingle, _⟩ := topCtx_ok hctx
  have hctxT : ({ ctx with trafo := T } : Ctx) = ctxT ctx.scope ctx.mm ctx.cm T := by
    cases ctx; simp only [ctxT] at *; simp [hsingle]
  unfold compile at hitems
  rw [wrapSingle_nil _ _ _ (by simpa using hsingle), hctxT] at hitems
  have hposl : Loop.allPosList (nodesOf items) := by
    unfold toProgram at hprog
    simp only [rootLoop, applyItems_eq, List.nil_append, Loop.durationList] at hprog
    by_cases he : (Loop.mk 1 none (measW items 0) (nodesOf items)).isEmpty
    · simp [he] at hprog
    · simp only [he, Bool.false_eq_true, if_false, Option.some.injEq] at hprog
      subst hprog
      cases hcs : nodesOf items with
      | nil => exact allPosList_nil
      | cons c0 cs0 =>
        rw [hcs] at hpos
        simp only [Loop.allPos, Loop.allPosB, Bool.and_eq_true] at hpos
        exact hpos.2
  rw [topCtx_cm hctx] at hitems h2
  exact (compile_relT hs.basicT ctx.scope ctx.mm (topCm pt cm) T (Chain.keys T) items P (fun _ h => h) hpf
    hitems h2 hposl).program hprog hpos

end QP.PT
