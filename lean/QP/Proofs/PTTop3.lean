import QP.Model.PT
import QP.Proofs.PTTop2
import QP.Proofs.PTCompileT2
/-! Stage 3 of compile correctness: stage 2 plus `ParallelChannelPulseTemplate` and `ArithmeticPulseTemplate`
(scalar operand) in any nesting, outside the class of the open finding PF-11. -/
namespace QP.PT

/-- the constructor subset of stage 3 -/
inductive Stage3 : PT → Prop
  | atom {pt} : AtomTree pt → Stage3 pt
  | seq {id subs meas cons} : (∀ p ∈ subs, Stage3 p) → Stage3 (.seq id subs meas cons)
  | rep {id body count meas cons} : Stage3 body → Stage3 (.rep id body count meas cons)
  | forLoop {id body idx start stop step meas cons} : Stage3 body →
      Stage3 (.forLoop id body idx start stop step meas cons)
  | mapping {id body pm mm cm cons} : Stage3 body → Stage3 (.mapping id body pm mm cm cons)
  | parallel {id body over} : Stage3 body → Stage3 (.parallel id body over)
  | arith {id body op scalar lhs} : Stage3 body → scalarSub scalar body → Stage3 (.arith id body op scalar lhs)

theorem Stage3.basicT {pt : PT} (h : Stage3 pt) : BasicT pt := by
  induction h with
  | atom ha =>
    have hb := atomOKT_of_buildOK ha.buildOK
    cases ha with
    | const => exact BasicT.const hb
    | func => exact BasicT.func hb
    | table => exact BasicT.table hb
    | atomicMulti _ => exact BasicT.atomicMulti hb
  | seq _ ih => exact BasicT.seq ih
  | rep _ ih => exact BasicT.rep ih
  | forLoop _ ih => exact BasicT.forLoop ih
  | mapping _ ih => exact BasicT.mapping ih
  | parallel _ ih => exact BasicT.parallel ih
  | arith _ hs ih => exact BasicT.arith ih hs

theorem Stage2.stage3 {pt : PT} (h : Stage2 pt) : Stage3 pt := by
  induction h with
  | atom ha => exact Stage3.atom ha
  | seq _ ih => exact Stage3.seq ih
  | rep _ ih => exact Stage3.rep ih
  | forLoop _ ih => exact Stage3.forLoop ih
  | mapping _ ih => exact Stage3.mapping ih

/-- compile correctness for stage-3 templates outside PF-11 -/
theorem createProgram_relT {pt : PT} (hs : Stage3 pt) (params : List (String × Rat))
    (mm : Option (List (MName × Option MName))) (cm : List (Chan × Option Chan)) (prog : Loop) (P : Pulse)
    (hpf : inPF11 pt (topCm pt cm) = false)
    (h1 : createProgram pt params mm cm [] = .ok (some prog)) (h2 : denoteTop pt params mm cm = .ok P)
    (hpos : prog.allPos) :
    prog.duration = P.dur ∧
    (∀ c pl, P.chans.lookup c = some pl → ∀ t, 0 ≤ t → t < P.dur → prog.sample c t = PL.at pl t) ∧
    prog.windows.Perm P.windows ∧
    (∀ cs ∈ prog.leafChannels, ∀ x, x ∈ cs ↔ x ∈ P.chanNames) ∧
    (∀ c pl, P.chans.lookup c = some pl → PL.dur pl = P.dur) := by
  have hnil : pf11Chans pt (topCm pt cm) [] = [] := by
    simpa [inPF11] using hpf
  refine createProgram_rel_of params mm cm prog P ?_ h1 h2 hpos
  intro σ mm' items hi hd hp
  exact (compile_relT hs.basicT σ mm' (topCm pt cm) [] [] items P (by simp [Chain.keys]) hnil hi hd hp).to_rel

end QP.PT
