import QP.Model.PT
import QP.Proofs.PTCompileA
import QP.Proofs.PTTopW
/-! `create_program` of templates with time reversal: every sample is an admissible value of the denoted pulse
(exactly the denoted value except at junctions inside time reversed parts, where the left limit is admitted too). -/
namespace QP.PT

theorem Stage1R.basicA {pt : PT} (h : Stage1R pt) : BasicA pt := by
  induction h with
  | const => exact BasicA.const (atomOKA_const _ _ _ _)
  | func => exact BasicA.func (atomOKA_func _ _ _ _ _ _)
  | seq _ ih => exact BasicA.seq ih
  | rep _ ih => exact BasicA.rep ih
  | forLoop _ ih => exact BasicA.forLoop ih
  | mapping _ ih => exact BasicA.mapping ih
  | timeReversal _ ih => exact BasicA.timeReversal ih

theorem RelA.program {items : List Item} {P : Pulse} {prog : Loop} (h : RelA items P)
    (hp : toProgram items = some prog) (hpos : prog.allPos) :
    prog.duration = P.dur ∧
    (∀ c pl, P.chans.lookup c = some pl → ∀ t, 0 ≤ t → t < P.dur →
      ∃ v, prog.sample c t = some v ∧ v ∈ PL.adm none pl t) := by
  unfold toProgram at hp
  simp only [rootLoop, applyItems_eq, List.nil_append, Loop.durationList] at hp
  by_cases he : (Loop.mk 1 none (measW items 0) (nodesOf items)).isEmpty
  · simp [he] at hp
  · simp only [he, Bool.false_eq_true, if_false, Option.some.injEq] at hp
    subst hp
    have hne : nodesOf items ≠ [] := by
      intro h0
      simp [Loop.isEmpty, Loop.wf, Loop.children, h0] at he
    obtain ⟨c0, cs0, hcs⟩ := List.exists_cons_of_ne_nil hne
    have hposl : Loop.allPosList (nodesOf items) := by
      rw [hcs] at hpos ⊢
      simp only [Loop.allPos, Loop.allPosB, Bool.and_eq_true] at hpos
      exact hpos.2
    have hd : 0 < P.dur := by rw [← h.dur]; exact Loop.allPosList_duration_pos _ hposl hne
    refine ⟨?_, ?_⟩
    · rw [duration_none, h.dur]; simp
    · intro c pl hc t ht0 ht
      have hfl := floor_div_eq t P.dur 0 hd (by simpa using ht0) (by simpa using ht)
      rw [hcs]
      simp only [Loop.sample]
      rw [← hcs, bodyDuration_none, h.dur]
      have hnd : ¬ P.dur ≤ 0 := not_le.mpr hd
      simp only [hnd, if_false, hfl]
      simp only [Nat.cast_zero, lt_self_iff_false, Nat.cast_one, Int.reduceLE, or_self, if_false,
        Int.cast_zero, zero_mul, sub_zero]
      exact h.sampleR c pl hc t ht0 ht

/-- compile correctness with time reversal (constant and function atoms) -/
theorem createProgram_relA {pt : PT} (hs : Stage1R pt) (params : List (String × Rat))
    (mm : Option (List (MName × Option MName))) (cm : List (Chan × Option Chan)) (prog : Loop) (P : Pulse)
    (h1 : createProgram pt params mm cm [] = .ok (some prog)) (h2 : denoteTop pt params mm cm = .ok P)
    (hpos : prog.allPos) :
    prog.duration = P.dur ∧
    (∀ c pl, P.chans.lookup c = some pl → ∀ t, 0 ≤ t → t < P.dur →
      ∃ v, prog.sample c t = some v ∧ v ∈ PL.adm none pl t) := by
  simp only [createProgram, bind_ok, pure_ok] at h1
  obtain ⟨ctx, hctx, items, hitems, hprog⟩ := h1
  simp only [denoteTop, bind_ok] at h2
  obtain ⟨ctx', hctx', h2⟩ := h2
  rw [hctx] at hctx'; cases hctx'
  obtain ⟨hsingle, htrafo⟩ := topCtx_ok hctx
  have hctx0 : ctx = ctx0 ctx.scope ctx.mm ctx.cm := by
    cases ctx
    simp only [ctx0] at *
    simp [hsingle, htrafo]
  unfold compile at hitems
  rw [wrapSingle_nil _ _ _ hsingle, hctx0] at hitems
  have hposl : Loop.allPosList (nodesOf items) := by
    unfold toProgram at hprog
    simp only [rootLoop, applyItems_eq, List.nil_append, Loop.durationList] at hprog
    by_cases he : (Loop.mk 1 none (measW items 0) (nodesOf items)).isEmpty
    · simp [he] at hprog
    · simp only [he, Bool.false_eq_true, if_false, Option.some.injEq] at hprog
      subst hprog
      cases hcs : nodesOf items with
      | nil => exact allPosList_nil
      | cons c0 cs0 =>
        rw [hcs] at hpos
        simp only [Loop.allPos, Loop.allPosB, Bool.and_eq_true] at hpos
        exact hpos.2
  exact (compile_relA hs.basicA ctx.scope ctx.mm ctx.cm items P hitems h2 hposl).program hprog hpos

end QP.PT
