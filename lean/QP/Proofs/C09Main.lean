import QP.Proofs.C09Meas
/-! Proofs of the property theorems of `QP/Props/C09.lean` (stated there again, one line each).


# C09 — program-tree bookkeeping stays coherent under every sequence of edits

`Coherent t` (`QP/Model/C09.lean`): in every node the cached body duration is empty or equals the
duration recomputed from the leaves and repetition counts, every child records its position, and
every child's parent pointer is the node that lists it.
-/
namespace QP.C09.Main
open QP.C09

/-- A freshly constructed program (`Loop(children=…)`, bottom-up) is coherent. -/
theorem coherent_init (uid : Nat) (rep : Int) (vol : Bool) (wf : Option Wf) (meas : List Meas) (kids : List T)
    (h : CoherentL kids) : Coherent (mkNode uid rep vol wf meas kids) := by
  unfold mkNode
  apply coherent_of_links _ _ rfl
  · intro k c hk
    simp only [List.getElem?_mapIdx, Option.map_eq_some_iff] at hk
    obtain ⟨x, _, rfl⟩ := hk
    simp
  · intro d hd
    simp only [List.mem_mapIdx] at hd
    obtain ⟨j, hj, rfl⟩ := hd
    exact coherent_withPidx _ _ (coherent_withPar _ _ (coherentL_mem h _ (List.getElem_mem hj)))

/-- `copy_tree_structure` yields a coherent program whatever it copies. -/
theorem copy_coherent (par : Option Nat) (pidx : Option Int) (t : T) (n : Nat) :
    Coherent (copyT par pidx t n).1 := copyT_coherent par pidx t n

/-- Every public operation preserves coherence (`Pre`: sub-trees handed in are coherent programs;
children are appended only to nodes without waveform). -/
theorem op_preserves (op : Op) (s : St) (hs : Coherent s.tree) (hp : Pre op s) :
    Coherent (apply op s).tree := by
  have key : ∀ (f : T → Loc) (p : Path),
      (∀ n, locate s.tree p = some n → Coherent n → LocOk n (f n)) →
      Coherent (match atPath f p s.tree with
        | none => ({ st := s, err := some .badPath } : Res)
        | some r => { st := ⟨r.node, r.next⟩, removed := r.removed, out := r.out, err := r.err, upd := r.upd }).st.tree := by
    intro f p hf
    cases h : atPath f p s.tree with
    | none => exact hs
    | some r => exact (atPath_ok f p s.tree hs hf r h).1
  cases op with
  | query p => exact key _ _ (fun n _ hc => query_ok _ n hc)
  | append p a => exact key _ _ (fun n hn hc => append_ok a _ n hc hp.1 (hp.2 n hn))
  | setItem p idx v => exact key _ _ (fun n _ hc => setItem_ok idx v _ n hc hp)
  | setSlice p a b c vs => exact key _ _ (fun n _ hc => setSlice_ok a b c vs _ n hc (coherentL_mem hp))
  | setWf p w => exact key _ _ (fun n _ hc => setWf_ok w _ n hc)
  | setRep p r v => exact key _ _ (fun n _ hc => setRep_ok r v _ n hc)
  | unroll p =>
    cases p with
    | nil => exact hs
    | cons k p =>
      have : apply (.unroll (k :: p)) s =
          (match atPath ((Op.unroll (k :: p)).loc s.next) (Op.unroll (k :: p)).target s.tree with
            | none => ({ st := s, err := some .badPath } : Res)
            | some r => { st := ⟨r.node, r.next⟩, removed := r.removed, out := r.out, err := r.err, upd := r.upd }).st := rfl
      rw [this]
      apply key
      intro n _ hc
      simp only [Op.loc]
      cases (k :: p).getLast? with
      | some j => exact unroll_ok _ _ n hc
      | none => exact locOk_err n _ _ hc
  | unrollChildren p => exact key _ _ (fun n _ hc => unrollChildren_ok _ n hc)
  | split p idx => exact key _ _ (fun n _ hc => split_ok idx _ n hc)
  | encapsulate p => exact key _ _ (fun n _ hc => encapsulate_ok _ n hc)
  | merge p => exact key _ _ (fun n _ hc => merge_ok _ n hc)
  | cleanup p re mg => exact key _ _ (fun n _ hc => cleanup_ok re mg _ n hc)
  | reverse p => exact key _ _ (fun n _ hc => reverse_ok _ n hc)
  | roll p mq q sr => exact key _ _ (fun n _ hc => roll_ok mq q sr _ n hc)
  | copy p kp => exact key _ _ (fun n _ hc => copy_ok kp _ n hc)
  | addMeas p ms => exact key _ _ (fun n _ hc => addMeas_ok ms _ n hc)
  | dropMeas p => exact key _ _ (fun n _ hc => dropMeas_ok _ n hc)

/-- Coherence is an invariant of arbitrary histories: any finite list of operations, duration
queries (`Op.query`, which populate caches) interleaved anywhere. -/
theorem history (ops : List Op) (s : St) (hs : Coherent s.tree) (hp : PreAll ops s) :
    Coherent (ops.foldl (fun s op => apply op s) s).tree := by
  induction ops generalizing s with
  | nil => exact hs
  | cons op ops ih => exact ih (apply op s) (op_preserves op s hs hp.1) hp.2


/-- The copy handed out by `copy_tree_structure` is a coherent program of its own. -/
theorem copy_result_coherent (p : Path) (kp : CopyPar) (s : St) (c : T)
    (h : (applyR (.copy p kp) s).out = some c) : Coherent c := by
  have hgen : ∀ (q : Path) (t : T) (r : Loc), atPath ((Op.copy p kp).loc s.next) q t = some r →
      ∀ c, r.out = some c → Coherent c := by
    intro q
    induction q with
    | nil =>
      intro t r hr c hc
      simp only [atPath, Op.loc, copyLoc, Option.some.injEq] at hr
      subst hr
      simp only [Option.some.injEq] at hc
      subst hc
      exact copyT_coherent _ _ _ _
    | cons k q ih =>
      intro t r hr c hc
      simp only [atPath] at hr
      cases hk : t.kids[k]? with
      | none => simp [hk] at hr
      | some d =>
        simp only [hk] at hr
        cases hr' : atPath ((Op.copy p kp).loc s.next) q d with
        | none => simp [hr'] at hr
        | some r' =>
          simp only [hr', Option.some.injEq] at hr
          subst hr
          exact ih d r' hr' c hc
  simp only [applyR] at h
  cases hr : atPath ((Op.copy p kp).loc s.next) (Op.copy p kp).target s.tree with
  | none => simp [hr] at h
  | some r => simp only [hr] at h; exact hgen _ _ r hr c h

/-- the copy's root has exactly the requested parent and no recorded position -/
theorem copy_parent_requested (p : Path) (kp : CopyPar) (s : St) (c : T)
    (h : (applyR (.copy p kp) s).out = some c) :
    ∃ n, locate s.tree p = some n ∧ c.info.par = kp.request n ∧ c.info.pidx = none := by
  have hgen : ∀ (q : Path) (t : T) (r : Loc), atPath ((Op.copy p kp).loc s.next) q t = some r →
      ∀ c, r.out = some c → ∃ n, locate t q = some n ∧ c.info.par = kp.request n ∧ c.info.pidx = none := by
    intro q
    induction q with
    | nil =>
      intro t r hr c hc
      simp only [atPath, Op.loc, copyLoc, Option.some.injEq] at hr
      subst hr
      simp only [Option.some.injEq] at hc
      subst hc
      exact ⟨t, rfl, (copy_spec.1 t _ _ _).2.2.2, (copy_spec.1 t _ _ _).2.2.1⟩
    | cons k q ih =>
      intro t r hr c hc
      simp only [atPath] at hr
      cases hk : t.kids[k]? with
      | none => simp [hk] at hr
      | some d =>
        simp only [hk] at hr
        cases hr' : atPath ((Op.copy p kp).loc s.next) q d with
        | none => simp [hr'] at hr
        | some r' =>
          simp only [hr', Option.some.injEq] at hr
          subst hr
          obtain ⟨n, hn, hh⟩ := ih d r' hr' c hc
          exact ⟨n, by simp [locate, hk, hn], hh⟩
  simp only [applyR] at h
  cases hr : atPath ((Op.copy p kp).loc s.next) (Op.copy p kp).target s.tree with
  | none => simp [hr] at h
  | some r => simp only [hr] at h; exact hgen _ _ r hr c h

/-! ### the judge -/

theorem cacheOkHereB_iff (t : T) : cacheOkHereB t = true ↔ cacheOkHere t := by
  unfold cacheOkHereB cacheOkHere
  cases t.info.cache with
  | none => simp
  | some v => simp

theorem linksFrom_iff (uid : Nat) (k : Nat) (cs : List T) :
    linksFrom uid k cs = true ↔
      ∀ (j : Nat) (c : T), cs[j]? = some c → c.info.pidx = some ((k + j : Nat) : Int) ∧ c.info.par = some uid := by
  induction cs generalizing k with
  | nil => simp [linksFrom]
  | cons a as ih =>
    simp only [linksFrom, Bool.and_eq_true, decide_eq_true_eq, ih]
    constructor
    · rintro ⟨⟨h1, h2⟩, h3⟩ j c hj
      cases j with
      | zero => simp at hj; subst hj; exact ⟨by simpa using h1, h2⟩
      | succ j =>
        simp at hj
        have := h3 j c hj
        refine ⟨?_, this.2⟩
        rw [this.1]; congr 1; omega
    · intro h
      refine ⟨by simpa using h 0 a rfl, ?_⟩
      intro j c hj
      have := h (j + 1) c (by simpa using hj)
      refine ⟨?_, this.2⟩
      rw [this.1]; congr 1; omega

theorem linksOkHereB_iff (t : T) : linksOkHereB t = true ↔ linksOkHere t := by
  unfold linksOkHereB linksOkHere
  rw [linksFrom_iff]
  simp

/-- The executable judge decides exactly the specification. -/
theorem coherentB_iff (t : T) : coherentB t = true ↔ Coherent t := by
  have := @T.ind (fun t => coherentB t = true ↔ Coherent t) (fun ks => coherentLB ks = true ↔ CoherentL ks)
    (by
      intro i ks ih
      simp only [coherentB, Coherent, Bool.and_eq_true, cacheOkHereB_iff, linksOkHereB_iff, ih, and_assoc])
    (by simp [coherentLB, CoherentL])
    (by intro c cs ihc ihcs; simp only [coherentLB, CoherentL, Bool.and_eq_true, ihc, ihcs])
  exact this.1 t

/-- `Coherent` says, node by node: the cache is empty or right, and the children are linked. -/
theorem coherent_iff_nodes (t : T) :
    Coherent t ↔ ∀ p n, locate t p = some n → cacheOkHere n ∧ linksOkHere n := by
  constructor
  · intro h p n hn
    have := (coherent_iff n).1 (coherent_locate h hn)
    exact ⟨this.1, this.2.1⟩
  · have := @T.ind (fun t => (∀ p n, locate t p = some n → cacheOkHere n ∧ linksOkHere n) → Coherent t)
      (fun ks => ∀ c ∈ ks, (∀ p n, locate c p = some n → cacheOkHere n ∧ linksOkHere n) → Coherent c)
      (by
        intro i ks ih h
        rw [coherent_mk]
        have h0 := h [] _ rfl
        refine ⟨h0.1, h0.2, ?_⟩
        intro c hc
        apply ih c hc
        intro p n hn
        obtain ⟨k, hk, hkc⟩ := List.getElem_of_mem hc
        apply h (k :: p) n
        simp [locate, List.getElem?_eq_getElem hk, hkc, hn])
      (by intro c hc; simp at hc)
      (by
        intro c cs ihc ihcs d hd
        rcases List.mem_cons.1 hd with h | h
        · rw [h]; exact ihc
        · exact ihcs d h)
    exact this.1 t

/-! ### what coherence gives the user of a program -/

/-- The duration reported by any node equals the duration recomputed from its leaves and counts. -/
theorem reported_duration_eq (t : T) (h : Coherent t) (p : Path) (n : T) (hn : locate t p = some n) :
    reportedDur n = dur n := by
  have := (fillV_spec.1 n (coherent_locate h hn)).2.1
  simp only [reportedDur, dur, this]

/-- The chain of recorded positions along a path is that path: `root.locate(n.get_location())` is `n`. -/
theorem locate_location (t : T) (h : Coherent t) (p : Path) (n : T) (hn : locate t p = some n) :
    recordedLoc t p = some (p.map (fun (k : Nat) => some (k : Int))) := by
  induction p generalizing t with
  | nil => rfl
  | cons k p ih =>
    simp only [locate] at hn
    cases hk : t.kids[k]? with
    | none => simp [hk] at hn
    | some c =>
      simp only [hk] at hn
      simp only [recordedLoc, hk, ih c (h.kid hk) hn, Option.map_some, List.map_cons]
      rw [(h.links k c hk).1]

/-- Every child's parent is the node that lists it. -/
theorem child_parent (t : T) (h : Coherent t) (p : Path) (n c : T) (k : Nat) (hn : locate t p = some n)
    (hc : n.kids[k]? = some c) : c.info.par = some n.info.uid ∧ c.info.pidx = some (k : Int) := by
  have := (coherent_locate h hn).links k c hc
  exact ⟨this.2, this.1⟩

/-! ### equality of programs -/

theorem eraseL_length (ks : List T) : (eraseL ks).length = ks.length := by
  induction ks with
  | nil => simp [eraseL]
  | cons a as ih => simp [eraseL, ih]

/-- `Loop.__eq__` is decided by structure, counts, waveforms and measurements only: two programs are
equal iff they agree after forgetting identity, caches, positions and parent pointers. -/
theorem eq_structural (a b : T) : eqStruct a b = true ↔ erase a = erase b := by
  have := @T.ind (fun a => ∀ b, eqStruct a b = true ↔ erase a = erase b)
    (fun as => ∀ bs, as.length = bs.length → (eqStructL as bs = true ↔ eraseL as = eraseL bs))
    (by
      intro i ks ih b
      cases b with
      | mk j ls =>
        simp only [eqStruct, erase, Bool.and_eq_true, decide_eq_true_eq, T.mk.injEq, Info.mk.injEq, true_and, and_true]
        constructor
        · rintro ⟨⟨⟨⟨⟨h1, h2⟩, h3⟩, h4⟩, h5⟩, h6⟩
          exact ⟨⟨h1, h2, h3, h4⟩, (ih ls h5).1 h6⟩
        · rintro ⟨⟨h1, h2, h3, h4⟩, h6⟩
          have h5 : ks.length = ls.length := by rw [← eraseL_length ks, ← eraseL_length ls, h6]
          exact ⟨⟨⟨⟨⟨h1, h2⟩, h3⟩, h4⟩, h5⟩, (ih ls h5).2 h6⟩)
    (by
      intro bs hb
      cases bs with
      | nil => simp [eqStructL, eraseL]
      | cons _ _ => simp at hb)
    (by
      intro c cs ihc ihcs bs hb
      cases bs with
      | nil => simp at hb
      | cons d ds =>
        simp only [List.length_cons, Nat.add_right_cancel_iff] at hb
        simp only [eqStructL, eraseL, Bool.and_eq_true, List.cons.injEq, ihc d, ihcs ds hb])
  exact this.1 a b

end QP.C09.Main
