import QP.Proofs.C09Basic
/-! The frame of every operation: a local step on the addressed node, then `_invalidate_duration`
climbing to the root.  `atPath_ok` reduces the preservation of coherence to a statement about the
local step. -/
namespace QP.C09

/-- the node keeps its identity, its recorded position and its parent pointer -/
def SameId (a b : T) : Prop :=
  b.info.uid = a.info.uid ∧ b.info.pidx = a.info.pidx ∧ b.info.par = a.info.par

theorem SameId.refl (a : T) : SameId a a := ⟨rfl, rfl, rfl⟩

/-- what the cache update handed to the parent promises about the node's duration -/
def UpdOk (a b : T) : Upd → Prop
  | .keep => dur b = dur a
  | .reset => True
  | .inc d => dur b = dur a + d

/-- the local step produced a coherent node with the same identity and an honest cache update -/
def LocOk (a : T) (r : Loc) : Prop := Coherent r.node ∧ SameId a r.node ∧ UpdOk a r.node r.upd

theorem locOk_err (a : T) (e : Err) (n : Nat) (h : Coherent a) : LocOk a (errLoc a e n) :=
  ⟨h, SameId.refl a, rfl⟩

theorem coherent_locate {t n : T} {p : Path} (h : Coherent t) (hl : locate t p = some n) : Coherent n := by
  induction p generalizing t with
  | nil => simp [locate] at hl; subst hl; exact h
  | cons k p ih =>
    simp only [locate] at hl
    cases hk : t.kids[k]? with
    | none => simp [hk] at hl
    | some c => simp [hk] at hl; exact ih (h.kid hk) hl

theorem atPath_ok (f : T → Loc) (p : Path) (t : T) (ht : Coherent t)
    (hf : ∀ n, locate t p = some n → Coherent n → LocOk n (f n)) :
    ∀ r, atPath f p t = some r → LocOk t r := by
  induction p generalizing t with
  | nil =>
    intro r hr
    simp only [atPath, Option.some.injEq] at hr
    subst hr
    exact hf t (by simp [locate]) ht
  | cons k p ih =>
    intro r hr
    simp only [atPath] at hr
    cases hk : t.kids[k]? with
    | none => simp [hk] at hr
    | some c =>
      simp only [hk] at hr
      have hc : Coherent c := ht.kid hk
      cases hr' : atPath f p c with
      | none => simp [hr'] at hr
      | some r' =>
        simp only [hr', Option.some.injEq] at hr
        have ih' := ih c hc (fun n hn => hf n (by simp [locate, hk, hn])) r' hr'
        obtain ⟨c1, ⟨cu, cp, cq⟩, c3⟩ := ih'
        subst hr
        -- the node with the child replaced
        have hklt : k < t.kids.length := by
          rcases Nat.lt_or_ge k t.kids.length with h | h
          · exact h
          · rw [List.getElem?_eq_none h] at hk; cases hk
        have hne : (t.kids.set k r'.node).isEmpty = false := by
          cases hs : t.kids.set k r'.node with
          | nil => have := congrArg List.length hs; rw [List.length_set, List.length_nil] at this; omega
          | cons _ _ => rfl
        have hne0 : t.kids.isEmpty = false := by
          cases hs : t.kids with
          | nil => rw [hs] at hklt; simp at hklt
          | cons _ _ => rfl
        rw [coherent_iff] at ht
        obtain ⟨t1, t2, t3⟩ := ht
        have hbody : bodyDur (T.mk t.info (t.kids.set k r'.node)) = bodyDur t - dur c + dur r'.node := by
          rw [bodyDur_mk, hne, bodyDur_eq t, hne0]; simp [sumDur_set _ _ _ _ hk]
        have hlinks : linksOkHere (T.mk t.info (t.kids.set k r'.node)) := by
          intro j d hj
          simp only [T.kids_mk, T.info_mk] at hj ⊢
          by_cases hjk : k = j
          · subst hjk
            rw [List.getElem?_set_self hklt] at hj
            cases hj
            rw [cp, cq]; exact t2 k c hk
          · rw [List.getElem?_set_ne hjk] at hj
            exact t2 j d hj
        have hkids : ∀ d ∈ t.kids.set k r'.node, Coherent d := by
          intro d hd
          rcases List.mem_or_eq_of_mem_set hd with h | h
          · exact t3 d h
          · rw [h]; exact c1
        cases hu : r'.upd with
        | keep =>
          rw [hu] at c3
          simp only [invalidate]
          have hb : bodyDur (T.mk t.info (t.kids.set k r'.node)) = bodyDur t := by
            rw [hbody]; simp only [UpdOk] at c3; rw [c3]; grind
          refine ⟨?_, ⟨rfl, rfl, rfl⟩, ?_⟩
          · rw [coherent_mk]
            refine ⟨?_, hlinks, hkids⟩
            unfold cacheOkHere at t1 ⊢
            rw [hb]; exact t1
          · simp only [UpdOk, dur, hb, T.info_mk]
        | reset =>
          simp only [invalidate]
          refine ⟨?_, ⟨rfl, rfl, rfl⟩, trivial⟩
          rw [coherent_iff]
          refine ⟨Or.inl (by simp), ?_, by simpa using hkids⟩
          exact linksOkHere_congr (i := t.info) (by simp) (by simp) hlinks
        | inc d =>
          rw [hu] at c3
          simp only [invalidate]
          have hb : bodyDur (T.mk t.info (t.kids.set k r'.node)) = bodyDur t + d := by
            rw [hbody]; simp only [UpdOk] at c3; rw [c3]; grind
          refine ⟨?_, ⟨rfl, rfl, rfl⟩, ?_⟩
          · rw [coherent_iff]
            refine ⟨?_, ?_, by simpa using hkids⟩
            · unfold cacheOkHere at t1 ⊢
              rw [bodyDur_withCache, hb]
              simp only [withCache_info, T.info_mk]
              rcases t1 with h | h
              · left; simp [h]
              · right; simp [h]
            · exact linksOkHere_congr (i := t.info) (by simp) (by simp) hlinks
          · simp only [UpdOk, dur_withCache]
            simp only [dur, hb, T.info_mk]; grind

end QP.C09
