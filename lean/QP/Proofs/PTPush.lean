import QP.Model.PT
import QP.Proofs.PTRelT
import Mathlib.Tactic.FieldSimp
/-! A transformation moves from the context into the pulse: `RelT (t :: T) items b → RelT T items (t applied to b)`;
and when a parallel-channel transformation commutes with the chain before it (outside PF-11). -/
namespace QP.PT
open QP.C05 (Chain.chanF Chain.presF Trafo.chanF Trafo.presF)

theorem PL.dur_mapV (f : Rat → Rat) (p : PL) : PL.dur (p.mapV f) = PL.dur p := by
  induction p with
  | nil => rfl
  | cons s r ih =>
    simp only [PL.mapV, List.map_cons, PL.dur] at ih ⊢
    rw [ih]

theorem PL.pos_mapV (f : Rat → Rat) {p : PL} (h : p.pos) : (p.mapV f).pos := by
  intro s hs
  simp only [PL.mapV, List.mem_map] at hs
  obtain ⟨s0, hs0, rfl⟩ := hs
  exact h s0 hs0

theorem PL.at_mapV_add (o : Rat) (p : PL) (hp : p.pos) : ∀ t, PL.at (p.mapV (· + o)) t = (PL.at p t).map (· + o) := by
  induction p with
  | nil => intro t; rfl
  | cons s r ih =>
    intro t
    have hr : PL.pos r := fun x hx => hp x (by simp [hx])
    have hs : 0 < s.len := hp s (by simp)
    have ih' := ih hr (t - s.len)
    simp only [PL.mapV, List.map_cons, PL.at] at ih' ⊢
    by_cases hlt : t < s.len
    · simp only [hlt, if_true, Option.map_some, Option.some.injEq, Seg.valueAt]
      have : s.len ≠ 0 := ne_of_gt hs
      field_simp
      ring
    · simp only [hlt, if_false]
      exact ih'

theorem PL.at_mapV_mul (k : Rat) (p : PL) (hp : p.pos) : ∀ t, PL.at (p.mapV (· * k)) t = (PL.at p t).map (· * k) := by
  induction p with
  | nil => intro t; rfl
  | cons s r ih =>
    intro t
    have hr : PL.pos r := fun x hx => hp x (by simp [hx])
    have hs : 0 < s.len := hp s (by simp)
    have ih' := ih hr (t - s.len)
    simp only [PL.mapV, List.map_cons, PL.at] at ih' ⊢
    by_cases hlt : t < s.len
    · simp only [hlt, if_true, Option.map_some, Option.some.injEq, Seg.valueAt]
      have : s.len ≠ 0 := ne_of_gt hs
      field_simp
    · simp only [hlt, if_false]
      exact ih'

/-- the constant piece a parallel-channel transformation adds -/
def constPL (d v : Rat) : PL := if d > 0 then [{ len := d, v0 := v, v1 := v }] else []

theorem constPL_facts (d v : Rat) (hd : 0 < d) :
    PL.dur (constPL d v) = d ∧ (constPL d v).pos ∧ ∀ t, t < d → PL.at (constPL d v) t = some v := by
  simp only [constPL, gt_iff_lt, hd, if_true]
  refine ⟨by simp [PL.dur], ?_, ?_⟩
  · intro s hs
    simp only [List.mem_singleton] at hs
    subst hs
    exact hd
  · intro t ht
    simp [PL.at, ht, Seg.valueAt]

/-- the channels of the transformed pulse, by lookup -/
theorem applyTrafoPL_lookup (t : Trafo) (d : Rat) (chans : List (Chan × PL)) (c : Chan) :
    (applyTrafoPL t d chans).lookup c =
      match t with
      | .offset m => (chans.lookup c).map (fun pl => match m.lookup c with | some o => pl.mapV (· + o) | none => pl)
      | .scaling m => (chans.lookup c).map (fun pl => match m.lookup c with | some k => pl.mapV (· * k) | none => pl)
      | .parallel m => match m.lookup c with
          | some v => some (constPL d v)
          | none => chans.lookup c := by
  cases t with
  | offset m =>
    simp only [applyTrafoPL]
    rw [QP.C05.lookup_map_gen chans _ (fun c pl => match m.lookup c with | some o => pl.mapV (· + o) | none => pl)
      (by intro x; cases h : List.lookup x.1 m <;> simp only [h]) c]
  | scaling m =>
    simp only [applyTrafoPL]
    rw [QP.C05.lookup_map_gen chans _ (fun c pl => match m.lookup c with | some k => pl.mapV (· * k) | none => pl)
      (by intro x; cases h : List.lookup x.1 m <;> simp only [h]) c]
  | parallel m =>
    simp only [applyTrafoPL]
    rw [QP.C05.lookup_append',
      QP.C05.lookup_map_gen chans _ (fun c pl => match m.lookup c with | some v => constPL d v | none => pl)
        (by intro x; cases h : List.lookup x.1 m <;> simp only [h, constPL]) c,
      QP.C05.lookup_map_gen _ _ (fun _ v => constPL d v) (by intro x; simp only [constPL]) c,
      QP.C05.lookup_filter_gen m _ (fun c => (List.lookup c chans).isNone) (by intro x; rfl) c]
    cases hd : chans.lookup c with
    | none => cases hm : m.lookup c <;> simp
    | some v => cases hm : m.lookup c <;> simp

/-- the pulse with one transformation applied -/
def Pulse.tr1 (b : Pulse) (t : Trafo) : Pulse := { b with chans := applyTrafoPL t b.dur b.chans }

theorem tr1_facts (t : Trafo) (b : Pulse) (hd : 0 < b.dur)
    (hD : ∀ c pl, b.chans.lookup c = some pl → PL.dur pl = b.dur)
    (hP : ∀ c pl, b.chans.lookup c = some pl → pl.pos) :
    (∀ c pl, (b.tr1 t).chans.lookup c = some pl → PL.dur pl = b.dur) ∧
    (∀ c pl, (b.tr1 t).chans.lookup c = some pl → pl.pos) ∧
    (∀ c τ, τ < b.dur → (b.tr1 t).val c τ = Trafo.chanF t c (b.val c τ)) := by
  refine ⟨?_, ?_, ?_⟩
  · intro c pl h
    simp only [Pulse.tr1, applyTrafoPL_lookup] at h
    cases t with
    | offset m =>
      simp only at h
      cases hl : b.chans.lookup c with
      | none => simp [hl] at h
      | some pl0 =>
        simp only [hl, Option.map_some, Option.some.injEq] at h
        subst h
        cases m.lookup c with
        | none => exact hD c pl0 hl
        | some o => simp only; rw [PL.dur_mapV]; exact hD c pl0 hl
    | scaling m =>
      simp only at h
      cases hl : b.chans.lookup c with
      | none => simp [hl] at h
      | some pl0 =>
        simp only [hl, Option.map_some, Option.some.injEq] at h
        subst h
        cases m.lookup c with
        | none => exact hD c pl0 hl
        | some o => simp only; rw [PL.dur_mapV]; exact hD c pl0 hl
    | parallel m =>
      simp only at h
      cases hm : m.lookup c with
      | none => simp only [hm] at h; exact hD c pl h
      | some v =>
        simp only [hm, Option.some.injEq] at h
        subst h
        exact (constPL_facts b.dur v hd).1
  · intro c pl h
    simp only [Pulse.tr1, applyTrafoPL_lookup] at h
    cases t with
    | offset m =>
      simp only at h
      cases hl : b.chans.lookup c with
      | none => simp [hl] at h
      | some pl0 =>
        simp only [hl, Option.map_some, Option.some.injEq] at h
        subst h
        cases m.lookup c with
        | none => exact hP c pl0 hl
        | some o => exact PL.pos_mapV _ (hP c pl0 hl)
    | scaling m =>
      simp only at h
      cases hl : b.chans.lookup c with
      | none => simp [hl] at h
      | some pl0 =>
        simp only [hl, Option.map_some, Option.some.injEq] at h
        subst h
        cases m.lookup c with
        | none => exact hP c pl0 hl
        | some o => exact PL.pos_mapV _ (hP c pl0 hl)
    | parallel m =>
      simp only at h
      cases hm : m.lookup c with
      | none => simp only [hm] at h; exact hP c pl h
      | some v =>
        simp only [hm, Option.some.injEq] at h
        subst h
        exact (constPL_facts b.dur v hd).2.1
  · intro c τ hτ
    simp only [Pulse.val, Pulse.tr1, applyTrafoPL_lookup]
    cases t with
    | offset m =>
      simp only [Trafo.chanF]
      cases hl : b.chans.lookup c with
      | none => cases m.lookup c <;> rfl
      | some pl0 =>
        cases m.lookup c with
        | none => rfl
        | some o => simp only [Option.map_some, Option.some.injEq]; exact PL.at_mapV_add o pl0 (hP c pl0 hl) τ
    | scaling m =>
      simp only [Trafo.chanF]
      cases hl : b.chans.lookup c with
      | none => cases m.lookup c <;> rfl
      | some pl0 =>
        cases m.lookup c with
        | none => rfl
        | some o => simp only [Option.map_some, Option.some.injEq]; exact PL.at_mapV_mul o pl0 (hP c pl0 hl) τ
    | parallel m =>
      simp only [Trafo.chanF]
      cases m.lookup c with
      | none => rfl
      | some v => simp only [Option.map_some, Option.some.injEq]; exact (constPL_facts b.dur v hd).2.2 τ hτ

theorem tr1_ne (t : Trafo) (b : Pulse) (h : b.chans ≠ []) : (b.tr1 t).chans ≠ [] := by
  obtain ⟨x, xs, hx⟩ := List.exists_cons_of_ne_nil h
  cases t <;> simp [Pulse.tr1, applyTrafoPL, hx]

theorem RelT.congr {T T' : Chain} {items : List Item} {P : Pulse} (h : RelT T items P)
    (hF : ∀ c x, Chain.chanF T' c x = Chain.chanF T c x) (hB : ∀ c b, Chain.presF T' c b = Chain.presF T c b) :
    RelT T' items P where
  blocks := h.blocks
  empty := h.empty
  dur := h.dur
  plDur := h.plDur
  plPos := h.plPos
  windows := h.windows
  sample := by intro c t h0 h1 v hv; rw [hF] at hv; exact h.sample c t h0 h1 v hv
  chans := by intro cs hcs x; rw [hB]; exact h.chans cs hcs x

/-- one transformation moves from the context into the pulse -/
theorem RelT.push1 {t : Trafo} {T : Chain} {items : List Item} {b : Pulse} (h : RelT (t :: T) items b)
    (hne : b.chans ≠ []) (hd : 0 < b.dur) : RelT T items (b.tr1 t) := by
  obtain ⟨f1, f2, f3⟩ := tr1_facts t b hd h.plDur h.plPos
  refine ⟨h.blocks, ?_, h.dur, f1, f2, ?_, h.windows, ?_⟩
  · constructor
    · intro h0; exact absurd (h.empty.mp h0) hne
    · intro h0; exact absurd h0 (tr1_ne t b hne)
  · intro c τ h0 h1 v hv
    have h1' : τ < b.dur := h1
    rw [f3 c τ h1'] at hv
    exact h.sample c τ h0 h1' v hv
  · intro cs hcs x
    rw [h.chans cs hcs x]
    have e : (b.tr1 t).chanNames.contains x = Trafo.presF t x (b.chanNames.contains x) := by
      have h3 := f3 x 0 hd
      have h4 := congrArg Option.isSome h3
      rw [QP.C05.Trafo.chanF_isSome] at h4
      simp only [Pulse.val, Option.isSome_map, QP.C05.lookup_isSome_iff] at h4
      exact h4
    rw [e]
    rfl

/-- the pulse with a chain applied, as `denote` of the arithmetic template writes it -/
def Pulse.tr (b : Pulse) (T : Chain) : Pulse := { b with chans := T.foldl (fun cs t => applyTrafoPL t b.dur cs) b.chans }

theorem RelT.push : ∀ (T' : Chain) {T : Chain} {items : List Item} {b : Pulse}, RelT (T' ++ T) items b →
    b.chans ≠ [] → 0 < b.dur → RelT T items (b.tr T')
  | [], T, items, b, h, _, _ => by simpa [Pulse.tr] using h
  | t :: T', T, items, b, h, hne, hd => by
      have h1 := RelT.push1 (t := t) (T := T' ++ T) h hne hd
      have h2 := RelT.push T' h1 (tr1_ne t b hne) hd
      simpa [Pulse.tr, Pulse.tr1] using h2

/-! ### commutation of a parallel-channel transformation with a chain that does not touch its channels -/

def Trafo.keys : Trafo → List Chan
  | .offset m | .scaling m | .parallel m => m.map (·.1)

def Chain.keys (T : Chain) : List Chan := T.flatMap Trafo.keys

theorem Trafo.chanF_untouched (t : Trafo) (c : Chan) (h : c ∉ t.keys) (x : Option (Option Rat)) :
    Trafo.chanF t c x = x := by
  cases t with
  | offset m => simp only [Trafo.keys] at h; simp [Trafo.chanF, lookup_none_of_not_mem m c h]
  | scaling m => simp only [Trafo.keys] at h; simp [Trafo.chanF, lookup_none_of_not_mem m c h]
  | parallel m => simp only [Trafo.keys] at h; simp [Trafo.chanF, lookup_none_of_not_mem m c h]

theorem Chain.chanF_untouched : ∀ (T : Chain) (c : Chan), c ∉ Chain.keys T → ∀ x, Chain.chanF T c x = x
  | [], _, _, _ => rfl
  | t :: T, c, h, x => by
      simp only [Chain.keys, List.flatMap_cons, List.mem_append, not_or] at h
      show Chain.chanF T c (Trafo.chanF t c x) = x
      rw [Trafo.chanF_untouched t c h.1, Chain.chanF_untouched T c h.2]

theorem par_commutes (T : Chain) (m : List (Chan × Rat)) (h : ∀ c ∈ m.map (·.1), c ∉ Chain.keys T) :
    (∀ c x, Chain.chanF (.parallel m :: T) c x = Chain.chanF (T ++ [.parallel m]) c x) ∧
    (∀ c b, Chain.presF (.parallel m :: T) c b = Chain.presF (T ++ [.parallel m]) c b) := by
  constructor
  · intro c x
    rw [QP.C05.Chain.chanF_append]
    show Chain.chanF T c (Trafo.chanF (.parallel m) c x) = Trafo.chanF (.parallel m) c (Chain.chanF T c x)
    cases hm : m.lookup c with
    | none => simp [Trafo.chanF, hm]
    | some o =>
      have : c ∉ Chain.keys T := h c (mem_keys_of_lookup m c o hm)
      simp only [Trafo.chanF, hm]
      exact Chain.chanF_untouched T c this _
  · intro c b
    rw [QP.C05.Chain.presF_append]
    show Chain.presF T c (Trafo.presF (.parallel m) c b) = Trafo.presF (.parallel m) c (Chain.presF T c b)
    rw [QP.C05.Chain.presF_or T c (Trafo.presF (.parallel m) c b), QP.C05.Chain.presF_or T c b]
    simp only [Trafo.presF]
    cases b <;> cases (m.lookup c).isSome <;> cases Chain.presF T c false <;> rfl

end QP.PT
