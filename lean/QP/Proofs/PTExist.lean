import QP.Model.PT
import QP.Proofs.PTDict
import QP.Proofs.PTBuildAtoms
/-! Existence of the denotation, atom side: whenever `AtomicPulseTemplate._internal_create_program` succeeds for a
constant or (well-formed) function template, the template denotes a pulse. -/
namespace QP.PT

/-- the statement at an atom -/
def AtomEx (pt : PT) : Prop :=
  ∀ σ mm cm items, atomItems pt (ctx0 σ mm cm) = .ok items → ∃ P, denote pt σ mm cm = .ok P

theorem ptDictOfList_nodup (kv : List (Chan × Rat)) : ((dictOfList kv).map (·.1)).Nodup := by
  have e : dictOfList kv = kv.foldl (fun d (p : Chan × Rat) => dictSet d p.1 p.2) [] := by
    unfold dictOfList
    congr 1
  rw [e]
  have : ∀ (kv acc : List (Chan × Rat)), (acc.map (·.1)).Nodup →
      ((kv.foldl (fun d (p : Chan × Rat) => dictSet d p.1 p.2) acc).map (·.1)).Nodup := by
    intro kv
    induction kv with
    | nil => intro acc h; exact h
    | cons p ps ih =>
      intro acc h
      simp only [List.foldl_cons]
      apply ih
      rw [ptKeys_dictSet]
      split
      · exact h
      · rename_i hn
        rw [List.nodup_append]
        refine ⟨h, by simp, ?_⟩
        intro a ha b hb hab
        simp only [List.mem_singleton] at hb
        subst hb; subst hab
        exact hn ha
  exact this kv [] (by simp)

/-- what `atomItems` evaluates -/
theorem ptAtomItems_parts {pt : PT} {σ : Scope} {mm : List (MName × Option MName)} {cm : List (Chan × Option Chan)}
    {items : List Item} (h : atomItems pt (ctx0 σ mm cm) = .ok items) :
    buildWaveform pt σ cm = .ok none ∨ ∃ w ms, buildWaveform pt σ cm = .ok (some w) ∧ atomicMeas pt σ mm = .ok ms := by
  simp only [atomItems, ctx0, bind_ok] at h
  obtain ⟨w?, hw, h⟩ := h
  cases w? with
  | none => exact Or.inl hw
  | some w =>
    simp only [bind_ok] at h
    obtain ⟨ms, hms, _⟩ := h
    exact Or.inr ⟨w, ms, hw, hms⟩

theorem ptBindEx {α β : Type} {x : Except Err α} {f : α → Except Err β} {a : α} (h : x = .ok a)
    (h2 : ∃ b, f a = .ok b) : ∃ b, (x >>= f) = .ok b := by
  obtain ⟨b, hb⟩ := h2
  exact ⟨b, bind_ok.mpr ⟨a, h, hb⟩⟩

theorem atomEx_const (id : Option String) (dur : Expr) (amps : List (Chan × Expr)) (meas : List MeasDecl) :
    AtomEx (.const id dur amps meas) := by
  intro σ mm cm items h
  have hnd : ∀ cvs : List (Chan × Rat), hasDup ((dictOfList cvs).map (·.1)) = false :=
    fun cvs => (ptHasDup_iff _).mpr (ptDictOfList_nodup cvs)
  simp only [denote]
  rcases ptAtomItems_parts h with hw | ⟨w, ms, hw, hms⟩
  · rw [buildWaveform] at hw
    obtain ⟨d, hd, hw⟩ := bind_ok.mp hw
    apply ptBindEx hd
    by_cases hpos : d > 0
    · rw [if_pos hpos] at hw ⊢
      obtain ⟨cvs, hcvs, hw⟩ := bind_ok.mp hw
      apply ptBindEx hcvs
      dsimp only at hw ⊢
      rcases Bool.eq_false_or_eq_true (dictOfList cvs).isEmpty with hemp | hemp
      · rw [if_pos hemp]; exact ⟨_, rfl⟩
      · rw [if_neg (by simp [hemp])] at hw
        obtain ⟨_, _, hw⟩ := bind_ok.mp hw
        cases pure_ok.mp hw
    · rw [if_neg hpos]; exact ⟨_, rfl⟩
  · rw [buildWaveform] at hw
    obtain ⟨d, hd, hw⟩ := bind_ok.mp hw
    apply ptBindEx hd
    by_cases hpos : d > 0
    · rw [if_pos hpos] at hw ⊢
      obtain ⟨cvs, hcvs, hw⟩ := bind_ok.mp hw
      apply ptBindEx hcvs
      dsimp only at hw ⊢
      rcases Bool.eq_false_or_eq_true (dictOfList cvs).isEmpty with hemp | hemp
      · rw [if_pos hemp] at hw
        cases pure_ok.mp hw
      · rw [if_neg (by simp [hemp]), if_neg (by simp [hnd cvs])]
        exact ptBindEx hms ⟨_, rfl⟩
    · rw [if_neg hpos] at hw
      cases pure_ok.mp hw

/-! ### function templates -/

/-- evaluation cannot fail by itself: no unsupported function, no negative power -/
def Expr.safe : Expr → Bool
  | .lit _ => true
  | .var _ => true
  | .add a b | .mul a b | .max a b | .min a b | .cmp _ a b => a.safe && b.safe
  | .pow a n => a.safe && decide (0 ≤ n)
  | .floor a | .ceil a | .abs a => a.safe
  | .unsupported => false

theorem ptEval_total (look : String → Except Err Rat) : ∀ e : Expr, e.safe = true →
    (∀ x ∈ e.vars, ∃ v, look x = .ok v) → ∃ v, e.eval look = .ok v := by
  intro e
  induction e with
  | lit q => intro _ _; exact ⟨q, rfl⟩
  | var x => intro _ h; exact h x (by simp [Expr.vars])
  | add a b iha ihb =>
    intro hs hv
    simp only [Expr.safe, Bool.and_eq_true] at hs
    obtain ⟨x, hx⟩ := iha hs.1 (fun y hy => hv y (by simp [Expr.vars, hy]))
    obtain ⟨y, hy⟩ := ihb hs.2 (fun z hz => hv z (by simp [Expr.vars, hz]))
    refine ⟨x + y, ?_⟩
    rw [Expr.eval]
    exact bind_ok.mpr ⟨x, hx, bind_ok.mpr ⟨y, hy, rfl⟩⟩
  | mul a b iha ihb =>
    intro hs hv
    simp only [Expr.safe, Bool.and_eq_true] at hs
    obtain ⟨x, hx⟩ := iha hs.1 (fun y hy => hv y (by simp [Expr.vars, hy]))
    obtain ⟨y, hy⟩ := ihb hs.2 (fun z hz => hv z (by simp [Expr.vars, hz]))
    refine ⟨x * y, ?_⟩
    rw [Expr.eval]
    exact bind_ok.mpr ⟨x, hx, bind_ok.mpr ⟨y, hy, rfl⟩⟩
  | max a b iha ihb =>
    intro hs hv
    simp only [Expr.safe, Bool.and_eq_true] at hs
    obtain ⟨x, hx⟩ := iha hs.1 (fun y hy => hv y (by simp [Expr.vars, hy]))
    obtain ⟨y, hy⟩ := ihb hs.2 (fun z hz => hv z (by simp [Expr.vars, hz]))
    refine ⟨if x ≤ y then y else x, ?_⟩
    rw [Expr.eval]
    exact bind_ok.mpr ⟨x, hx, bind_ok.mpr ⟨y, hy, rfl⟩⟩
  | min a b iha ihb =>
    intro hs hv
    simp only [Expr.safe, Bool.and_eq_true] at hs
    obtain ⟨x, hx⟩ := iha hs.1 (fun y hy => hv y (by simp [Expr.vars, hy]))
    obtain ⟨y, hy⟩ := ihb hs.2 (fun z hz => hv z (by simp [Expr.vars, hz]))
    refine ⟨if x ≤ y then x else y, ?_⟩
    rw [Expr.eval]
    exact bind_ok.mpr ⟨x, hx, bind_ok.mpr ⟨y, hy, rfl⟩⟩
  | cmp c a b iha ihb =>
    intro hs hv
    simp only [Expr.safe, Bool.and_eq_true] at hs
    obtain ⟨x, hx⟩ := iha hs.1 (fun y hy => hv y (by simp [Expr.vars, hy]))
    obtain ⟨y, hy⟩ := ihb hs.2 (fun z hz => hv z (by simp [Expr.vars, hz]))
    refine ⟨if c.holds x y then 1 else 0, ?_⟩
    rw [Expr.eval]
    exact bind_ok.mpr ⟨x, hx, bind_ok.mpr ⟨y, hy, rfl⟩⟩
  | pow a n iha =>
    intro hs hv
    simp only [Expr.safe, Bool.and_eq_true, decide_eq_true_eq] at hs
    obtain ⟨x, hx⟩ := iha hs.1 (fun y hy => hv y (by simpa [Expr.vars] using hy))
    refine ⟨x ^ n.toNat, ?_⟩
    rw [Expr.eval]
    refine bind_ok.mpr ⟨x, hx, ?_⟩
    simp only [ratPow, hs.2, if_true]
  | floor a iha =>
    intro hs hv
    simp only [Expr.safe] at hs
    obtain ⟨x, hx⟩ := iha hs (fun y hy => hv y (by simpa [Expr.vars] using hy))
    refine ⟨((x.floor : Int) : Rat), ?_⟩
    rw [Expr.eval]
    exact bind_ok.mpr ⟨x, hx, rfl⟩
  | ceil a iha =>
    intro hs hv
    simp only [Expr.safe] at hs
    obtain ⟨x, hx⟩ := iha hs (fun y hy => hv y (by simpa [Expr.vars] using hy))
    refine ⟨((x.ceil : Int) : Rat), ?_⟩
    rw [Expr.eval]
    exact bind_ok.mpr ⟨x, hx, rfl⟩
  | abs a iha =>
    intro hs hv
    simp only [Expr.safe] at hs
    obtain ⟨x, hx⟩ := iha hs (fun y hy => hv y (by simpa [Expr.vars] using hy))
    refine ⟨if 0 ≤ x then x else -x, ?_⟩
    rw [Expr.eval]
    exact bind_ok.mpr ⟨x, hx, rfl⟩
  | unsupported => intro hs; simp [Expr.safe] at hs

/-- a function template whose expression is affine in `t` and cannot fail by itself -/
theorem atomEx_func (id : Option String) (ch : Chan) (dur e : Expr) (meas : List MeasDecl) (cons : List Expr)
    (haff : e.affineIn "t" = true) (hsafe : e.safe = true) : AtomEx (.func id ch dur e meas cons) := by
  intro σ mm cm items h
  simp only [denote]
  rcases ptAtomItems_parts h with hw | ⟨w, ms, hw, hms⟩
  · rw [buildWaveform] at hw
    obtain ⟨u, hu, hw⟩ := bind_ok.mp hw
    obtain ⟨o, ho, hw⟩ := bind_ok.mp hw
    apply ptBindEx hu
    apply ptBindEx ho
    cases o with
    | none => exact ⟨_, rfl⟩
    | some oc =>
      exfalso
      dsimp only at hw
      obtain ⟨_, _, hw⟩ := bind_ok.mp hw
      obtain ⟨d, _, hw⟩ := bind_ok.mp hw
      obtain ⟨env, _, hw⟩ := bind_ok.mp hw
      split at hw
      · cases pure_ok.mp hw
      · split at hw
        · cases pure_ok.mp hw
        · cases hw
  · rw [buildWaveform] at hw
    obtain ⟨u, hu, hw⟩ := bind_ok.mp hw
    obtain ⟨o, ho, hw⟩ := bind_ok.mp hw
    apply ptBindEx hu
    apply ptBindEx ho
    cases o with
    | none => cases pure_ok.mp hw
    | some oc =>
      dsimp only at hw ⊢
      obtain ⟨_, _, hw⟩ := bind_ok.mp hw
      obtain ⟨d, hd, hw⟩ := bind_ok.mp hw
      obtain ⟨env, henv, _⟩ := bind_ok.mp hw
      have hvars : ∀ x ∈ e.vars, x ≠ "t" → ∃ v, funcLook σ x = .ok v := by
        intro x hx hxt
        obtain ⟨v, hv, _⟩ := env_lookup σ _ env henv x (by rw [mem_dedup]; simp [hx, hxt])
        exact ⟨v, hv⟩
      have hev : ∀ t : Rat, ∃ v, e.eval (withT "t" (funcLook σ) t) = .ok v := by
        intro t
        apply ptEval_total _ e hsafe
        intro x hx
        by_cases hxt : x = "t"
        · exact ⟨t, by simp [withT, hxt]⟩
        · obtain ⟨v, hv⟩ := hvars x hx hxt
          exact ⟨v, by simp [withT, hxt, hv]⟩
      obtain ⟨a, ha⟩ := hev 0
      obtain ⟨b, hb⟩ := hev 1
      apply ptBindEx hd
      rw [if_neg (by simp [haff])]
      apply ptBindEx ha
      apply ptBindEx hb
      exact ptBindEx hms ⟨_, rfl⟩

end QP.PT
