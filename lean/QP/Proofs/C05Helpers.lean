import QP.Proofs.C05Compile
/-!
# C05: the convenience constructors
-/
namespace QP.C05
open QP.PT

/-! ## helper constructors that only wrap: the helper IS the explicit nesting -/

theorem withRepetition_plain (pt : PT) (count : Expr)
    (h : ∀ body c cons, pt ≠ .rep none body c [] cons) :
    withRepetition pt count = withRepetitionExplicit pt count := by
  unfold withRepetition withRepetitionExplicit
  split
  · rename_i body c cons
    exact absurd rfl (h body c cons)
  · rfl

theorem withParallelChannels_plain (pt : PT) (values : List (Chan × Expr))
    (h : ∀ body over, pt ≠ .parallel none body over) :
    withParallelChannels pt values = withParallelChannelsExplicit pt values := by
  unfold withParallelChannels withParallelChannelsExplicit
  split
  · rename_i body over
    exact absurd rfl (h body over)
  · rfl

theorem withTimeReversal_plain (pt : PT) (h : ∀ inner, pt ≠ .timeReversal none inner) :
    withTimeReversal pt = withTimeReversalExplicit pt := by
  unfold withTimeReversal withTimeReversalExplicit
  split
  · rename_i inner
    exact absurd rfl (h inner)
  · rfl

theorem withMapping_plain (pt : PT) (pm : List (String × Expr)) (mm : List (MName × MName))
    (cm : List (Chan × Option Chan)) (h : ∀ body pm' mm' cm' cons, pt ≠ .mapping none body pm' mm' cm' cons) :
    withMapping pt pm mm cm = some (withMappingExplicit pt pm mm cm) := by
  unfold withMapping mkMapping withMappingExplicit
  split
  · rename_i body pm' mm' cm'
    exact absurd rfl (h body pm' mm' cm' [])
  · rfl

theorem withParallelAtomic_plain (pt : PT) (par : List PT)
    (h : ∀ subs dur meas cons, pt ≠ .atomicMulti none subs dur meas cons) :
    withParallelAtomic pt par = withParallelAtomicExplicit pt par := by
  unfold withParallelAtomic withParallelAtomicExplicit
  split
  · rfl
  · split
    · rename_i subs dur meas cons
      exact absurd rfl (h subs dur meas cons)
    · rfl

theorem padTo_kwargs (pt : PT) (padDur : Expr) (finals : List (Chan × Expr)) (isZero : Bool)
    (kw : Option String × List MeasDecl × List Expr) :
    padTo pt padDur finals isZero (some kw) = padToExplicit pt padDur finals isZero (some kw) := rfl

theorem padTo_same (pt : PT) (padDur : Expr) (finals : List (Chan × Expr)) :
    padTo pt padDur finals true none = pt := rfl

/-! ## `SequencePulseTemplate.concatenate` -/

/-- what `concatenate` replaces a template by -/
def flatP (p : PT) : List PT :=
  match p with
  | .seq none subs [] [] => subs
  | p => [p]

theorem concatenate_eq (pts : List PT) (id : Option String) (meas : List MeasDecl) (cons : List Expr) :
    concatenate pts id meas cons = .seq id (pts.flatMap flatP) meas cons := rfl

theorem internalList_append_ok : ∀ (a b : List PT) (ctx : Ctx) (I : List Item),
    internalList (a ++ b) ctx = .ok I →
    ∃ x y, internalList a ctx = .ok x ∧ internalList b ctx = .ok y ∧ I = x ++ y
  | [], b, ctx, I, h => ⟨[], I, by rw [internalList], h, rfl⟩
  | p :: a, b, ctx, I, h => by
      obtain ⟨u, v, hu, hv, rfl⟩ := internalList_cons_ok p (a ++ b) ctx I h
      obtain ⟨x, y, hx, hy, rfl⟩ := internalList_append_ok a b ctx v hv
      refine ⟨u ++ x, y, ?_, hy, by simp⟩
      rw [internalList]
      unfold wrapK at hu
      simp [hu, hx, bind, Except.bind, pure, Except.pure]

/-- the items of a plain (unnamed, undecorated) sequence are the guarded items of its parts -/
theorem wrapK_plain_seq (subs : List PT) (ctx : Ctx) (I : List Item)
    (h : wrapK (.seq none subs [] []) ctx = .ok I) :
    ∃ A, internalList subs ctx = .ok A ∧ I = guardRun [] A := by
  unfold wrapK at h
  rw [wrapSingle_not _ _ _ (by simp [PT.ident, isCollId])] at h
  obtain ⟨ms, items, hms, hi, rfl⟩ := internal_seq_ok _ _ _ _ _ I h
  have : ms = [] := by
    simp only [getMeas, List.foldlM_nil, pure, Except.pure, Except.ok.injEq] at hms
    exact hms.symm
  subst this
  exact ⟨items, hi, rfl⟩

/-- same children and same measurements at every offset -/
def SameObs (I I' : List Item) : Prop := itemsNodes I = itemsNodes I' ∧ ∀ off, itemsMeas I off = itemsMeas I' off

theorem sameObs_guard_nil (A : List Item) (h : endsOk A = true) : SameObs (guardRun [] A) A := by
  refine ⟨guardRun_nodes A [], fun off => ?_⟩
  rw [guardRun_meas A [] off h]
  by_cases hn : itemsNodes A = []
  · have := endsOk_nodes_nil A h hn
    subst this
    simp [itemsMeas, itemsNodes]
  · simp [hn]

theorem sameObs_append (I I' K K' : List Item) (h1 : SameObs I I') (h2 : SameObs K K') : SameObs (I ++ K) (I' ++ K') := by
  refine ⟨by rw [itemsNodes_append, itemsNodes_append, h1.1, h2.1], fun off => ?_⟩
  rw [itemsMeas_append, itemsMeas_append, h1.2, h2.2]
  simp only [itemsDur, h1.1]


theorem concatenate_items : ∀ (pts : List PT) (ctx : Ctx) (T0 T : Chain) (S : List String) (J Ie If : List Item),
    internalList pts { ctx with trafo := T0, single := [] } = .ok J → nnI J →
    internalList pts { ctx with trafo := T, single := S } = .ok Ie →
    internalList (pts.flatMap flatP) { ctx with trafo := T, single := S } = .ok If →
    SameObs If Ie ∧ endsOk If = true
  | [], ctx, T0, T, S, J, Ie, If, _, _, hIe, hIf => by
      simp only [List.flatMap_nil] at hIf
      rw [internalList] at hIe hIf
      cases hIe; cases hIf
      exact ⟨⟨rfl, fun _ => rfl⟩, rfl⟩
  | p :: ps, ctx, T0, T, S, J, Ie, If, hJ, hnn, hIe, hIf => by
      obtain ⟨ja, jb, hja, hjb, rfl⟩ := internalList_cons_ok p ps _ J hJ
      obtain ⟨ea, eb, hea, heb, rfl⟩ := internalList_cons_ok p ps _ Ie hIe
      obtain ⟨n1, n2⟩ := allLeavesList_append_left _ ja jb hnn
      simp only [List.flatMap_cons] at hIf
      obtain ⟨fa, fb, hfa, hfb, rfl⟩ := internalList_append_ok _ _ _ If hIf
      obtain ⟨ih, ihe⟩ := concatenate_items ps ctx T0 T S jb eb fb hjb n2 heb hfb
      suffices h : SameObs fa ea ∧ endsOk fa = true from
        ⟨sameObs_append _ _ _ _ h.1 ih, endsOk_append _ _ h.2 ihe⟩
      -- the head: either a plain sequence that was flattened, or the template itself
      by_cases hp : ∃ subs, p = .seq none subs [] []
      · obtain ⟨subs, rfl⟩ := hp
        simp only [flatP] at hfa
        obtain ⟨A, hA, rfl⟩ := wrapK_plain_seq subs _ ea hea
        obtain ⟨JA, hJA, rfl⟩ := wrapK_plain_seq subs _ ja hja
        have : fa = A := ok_inj hfa hA
        subst this
        have invA := (GL_all subs).1 ctx T0 JA hJA ((nnI_guardRun _ _).mp n1) T S fa hfa
        have := sameObs_guard_nil fa invA.trail
        exact ⟨⟨this.1.symm, fun off => (this.2 off).symm⟩, invA.trail⟩
      · have hflat : flatP p = [p] := by
          unfold flatP
          split
          · rename_i subs
            exact absurd ⟨subs, rfl⟩ hp
          · rfl
        rw [hflat] at hfa
        obtain ⟨u, v, hu, hv, rfl⟩ := internalList_cons_ok p [] _ fa hfa
        rw [internalList] at hv
        cases hv
        have : u = ea := ok_inj hu hea
        subst this
        simp only [List.append_nil]
        exact ⟨⟨rfl, fun _ => rfl⟩, ((GU_wrap p (G_all p).1) ctx T0 ja hja n1 T S u hu).trail⟩

/-- `SequencePT.concatenate(*pts, **kw)` compiles to items with the same children and the same measurements as
the explicit `SequencePT(*pts, **kw)` — for every list of templates, every context, transformation and
`to_single_waveform` set (given that the default program of the explicit nesting has no negative durations) -/
theorem concatenate_sameObs (pts : List PT) (id : Option String) (meas : List MeasDecl) (cons : List Expr)
    (ctx : Ctx) (T0 T : Chain) (S : List String) (J Ie If : List Item)
    (hJ : internal (concatenateExplicit pts id meas cons) { ctx with trafo := T0, single := [] } = .ok J) (hnn : nnI J)
    (hIe : internal (concatenateExplicit pts id meas cons) { ctx with trafo := T, single := S } = .ok Ie)
    (hIf : internal (concatenate pts id meas cons) { ctx with trafo := T, single := S } = .ok If) :
    SameObs If Ie := by
  unfold concatenateExplicit at hJ hIe
  rw [concatenate_eq] at hIf
  obtain ⟨_, jt, _, hjt, rfl⟩ := internal_seq_ok _ _ _ _ _ J hJ
  obtain ⟨ms, et, hms, het, rfl⟩ := internal_seq_ok _ _ _ _ _ Ie hIe
  obtain ⟨ms', ft, hms', hft, rfl⟩ := internal_seq_ok _ _ _ _ _ If hIf
  have : ms = ms' := ok_inj hms hms'
  subst this
  have hn := (nnI_guardRun _ _).mp hnn
  obtain ⟨so, hendF⟩ := concatenate_items pts ctx T0 T S jt et ft hjt hn het hft
  have invE := (GL_all pts).1 ctx T0 jt hjt hn T S et het
  refine ⟨by rw [guardRun_nodes, guardRun_nodes, so.1], fun off => ?_⟩
  rw [guardRun_meas ft ms off hendF, guardRun_meas et ms off invE.trail, so.1, so.2]

end QP.C05

namespace QP.C05
open QP.PT

/-! ## `RepetitionPulseTemplate.with_repetition`: merging the counts -/

theorem checkedInt_intCast (z : Int) : checkedInt (z : Rat) = some z := by
  unfold checkedInt
  have h1 : ((z : Rat) + 1 / 2).floor = z := by
    have := @Rat.floor_add_intCast (1 / 2 : Rat) z
    rw [Rat.add_comm] at this
    rw [this]
    have : (1 / 2 : Rat).floor = 0 := by decide +kernel
    omega
  simp only [h1]
  have : (z : Rat) - (z : Rat) = 0 := by grind
  simp only [this]
  have h0 : ¬ ((if (0 : Rat) ≤ 0 then (0 : Rat) else -0) > 1 / 1000000) := by decide +kernel
  simp only [h0, if_false]

theorem PL_replicate_mul (n m : Nat) (pl : PL) : PL.replicate (n * m) pl = PL.replicate m (PL.replicate n pl) := by
  unfold PL.replicate
  induction m with
  | zero => simp
  | succ k ih =>
    rw [Nat.mul_succ, ← List.replicate_append_replicate, List.flatten_append, ih, List.replicate_succ']
    simp

theorem repeatWindows_succ (ws : List Window) (n : Nat) (d : Rat) :
    repeatWindows ws (n + 1) d = repeatWindows ws n d ++ ws.map (shiftW ((n : Rat) * d)) := by
  simp [repeatWindows, List.range_succ, List.flatMap_append]

theorem repeatWindows_add (ws : List Window) (a b : Nat) (d : Rat) :
    repeatWindows ws (a + b) d = repeatWindows ws a d ++ (repeatWindows ws b d).map (shiftW ((a : Rat) * d)) := by
  induction b with
  | zero => simp [repeatWindows]
  | succ k ih =>
    rw [← Nat.add_assoc, repeatWindows_succ, ih, repeatWindows_succ, List.map_append, List.append_assoc]
    congr 2
    rw [List.map_map]
    apply List.map_congr_left
    intro w _
    simp only [Function.comp, shiftW_shiftW]
    congr 1
    have : ((a + k : Nat) : Rat) = (a : Rat) + (k : Rat) := by simp [Rat.natCast_add]
    rw [this]; grind

theorem repeatWindows_mul (ws : List Window) (n m : Nat) (d : Rat) :
    repeatWindows (repeatWindows ws n d) m (d * n) = repeatWindows ws (n * m) d := by
  induction m with
  | zero => simp [repeatWindows]
  | succ k ih =>
    rw [repeatWindows_succ, ih, Nat.mul_succ, repeatWindows_add]
    congr 2
    have : ((n * k : Nat) : Rat) = (n : Rat) * (k : Rat) := by simp [Rat.natCast_mul]
    rw [this]; grind


/-- `denote` of a repetition whose count evaluates to the integer `z`, constraints fulfilled -/
theorem denote_rep_int (body : PT) (count : Expr) (cons : List Expr) (σ : Scope) (mm : List (MName × Option MName))
    (cm : List (Chan × Option Chan)) (z : Int) (hcons : validateCons cons σ.look = .ok ())
    (hc : σ.eval count = .ok (z : Rat)) :
    denote (.rep none body count [] cons) σ mm cm =
      (if z ≤ 0 then pure Pulse.empty else do
        let b ← denote body σ mm cm
        if b.isEmpty then pure Pulse.empty else
        pure { dur := b.dur * z.toNat, chans := b.chans.map (fun (c, pl) => (c, PL.replicate z.toNat pl)),
               windows := repeatWindows b.windows z.toNat b.dur }) := by
  rw [denote]
  simp only [hcons, hc, bind, Except.bind, checkedInt_intCast]
  by_cases h0 : z ≤ 0
  · simp [h0]
  · simp only [h0, if_false, getMeas, List.foldlM_nil, pure, Except.pure, List.nil_append]

theorem eval_clamped_mul (σ : Scope) (c k : Expr) (n m : Int) (hc : σ.eval c = .ok (n : Rat)) (hk : σ.eval k = .ok (m : Rat)) :
    σ.eval (.mul (.max (.lit 0) c) (.max (.lit 0) k)) = .ok (((max 0 n * max 0 m : Int)) : Rat) := by
  simp only [Scope.eval, Expr.eval] at hc hk ⊢
  simp only [hc, hk, bind, Except.bind, pure, Except.pure]
  congr 1
  have e1 : (if (0 : Rat) ≤ (n : Rat) then (n : Rat) else 0) = ((max 0 n : Int) : Rat) := by
    by_cases h : 0 ≤ n
    · have : (0 : Rat) ≤ (n : Rat) := by exact_mod_cast h
      simp [this, Int.max_eq_right h]
    · have h' : n ≤ 0 := by omega
      have : ¬ (0 : Rat) ≤ (n : Rat) := by
        intro hh; have : (0 : Int) ≤ n := by exact_mod_cast hh
        omega
      simp [this, Int.max_eq_left h']
  have e2 : (if (0 : Rat) ≤ (m : Rat) then (m : Rat) else 0) = ((max 0 m : Int) : Rat) := by
    by_cases h : 0 ≤ m
    · have : (0 : Rat) ≤ (m : Rat) := by exact_mod_cast h
      simp [this, Int.max_eq_right h]
    · have h' : m ≤ 0 := by omega
      have : ¬ (0 : Rat) ≤ (m : Rat) := by
        intro hh; have : (0 : Int) ≤ m := by exact_mod_cast hh
        omega
      simp [this, Int.max_eq_left h']
  rw [e1, e2, Rat.intCast_mul]

/-- `RepetitionPT(body, c, constraints).with_repetition(k)` (the merged template with count
`Max(0, c) * Max(0, k)`) denotes exactly the pulse of the explicit nesting
`RepetitionPT(RepetitionPT(body, c, constraints), k)` whenever both counts evaluate to integers — of ANY sign,
PF-C05d repaired — and the constraints hold (with violated constraints and `k ≤ 0` the explicit nesting does not
even look at them; a non-integer count is rejected by the explicit nesting only). -/
theorem withRepetition_merge_denote (body : PT) (c k : Expr) (cons : List Expr) (σ : Scope)
    (mm : List (MName × Option MName)) (cm : List (Chan × Option Chan)) (n m : Int)
    (hcons : validateCons cons σ.look = .ok ())
    (hc : σ.eval c = .ok (n : Rat)) (hk : σ.eval k = .ok (m : Rat)) :
    denote (withRepetition (.rep none body c [] cons) k) σ mm cm =
      denote (withRepetitionExplicit (.rep none body c [] cons) k) σ mm cm := by
  have hck := eval_clamped_mul σ c k n m hc hk
  have hnil : validateCons [] σ.look = .ok () := rfl
  simp only [withRepetition, withRepetitionExplicit]
  rw [denote_rep_int body _ cons σ mm cm _ hcons hck,
    denote_rep_int (.rep none body c [] cons) k [] σ mm cm m hnil hk,
    denote_rep_int body c cons σ mm cm n hcons hc]
  by_cases hm : m ≤ 0
  · have : max 0 n * max 0 m ≤ 0 := by rw [Int.max_eq_left hm]; simp
    simp [hm, this]
  · by_cases hn : n ≤ 0
    · have : max 0 n * max 0 m ≤ 0 := by rw [Int.max_eq_left hn]; simp
      simp [hm, hn, this, bind, Except.bind, pure, Except.pure, Pulse.isEmpty, Pulse.empty]
    · have e1 : max 0 n = n := Int.max_eq_right (by omega)
      have e2 : max 0 m = m := Int.max_eq_right (by omega)
      have hpos : ¬ (n * m ≤ 0) := by
        have : 0 < n * m := Int.mul_pos (by omega) (by omega)
        omega
      rw [e1, e2]
      simp only [hm, hn, hpos, if_false]
      obtain ⟨N, rfl⟩ := Int.eq_ofNat_of_zero_le (show 0 ≤ n by omega)
      obtain ⟨M, rfl⟩ := Int.eq_ofNat_of_zero_le (show 0 ≤ m by omega)
      have t1 : ((N : Int) * (M : Int)).toNat = N * M := by
        rw [← Int.natCast_mul]; exact Int.toNat_natCast _
      simp only [t1, Int.toNat_natCast]
      cases hb : denote body σ mm cm with
      | error e => simp [bind, Except.bind]
      | ok b =>
        simp only [bind, Except.bind, pure, Except.pure, Pulse.isEmpty]
        by_cases hch : b.chans.isEmpty = true
        · simp [hch, Pulse.empty]
        · have hch' : b.chans.isEmpty = false := by simpa using hch
          have hmap : (List.map (fun (x : Chan × PL) => (x.1, PL.replicate N x.2)) b.chans).isEmpty = false := by
            rw [List.isEmpty_map]; exact hch'
          simp only [hch', Bool.false_eq_true, if_false, hmap]
          have e3 : b.dur * ((N * M : Nat) : Rat) = b.dur * (N : Rat) * (M : Rat) := by
            have : ((N * M : Nat) : Rat) = (N : Rat) * (M : Rat) := by simp [Rat.natCast_mul]
            rw [this]; grind
          rw [e3, ← repeatWindows_mul b.windows N M b.dur]
          simp only [PL_replicate_mul, List.map_map]
          rfl

end QP.C05
