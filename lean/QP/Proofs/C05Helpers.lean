import QP.Proofs.C05Compile
/-!
# C05: the convenience constructors
-/
namespace QP.C05
open QP.PT

/-! ## helper constructors that only wrap: the helper IS the explicit nesting -/

theorem withRepetition_plain (pt : PT) (count : Expr)
    (h : ∀ body c cons, pt ≠ .rep none body c [] cons) :
    withRepetition pt count = withRepetitionExplicit pt count := by
  unfold withRepetition withRepetitionExplicit
  split
  · rename_i body c cons
    exact absurd rfl (h body c cons)
  · rfl

theorem withParallelChannels_plain (pt : PT) (values : List (Chan × Expr))
    (h : ∀ body over, pt ≠ .parallel none body over) :
    withParallelChannels pt values = withParallelChannelsExplicit pt values := by
  unfold withParallelChannels withParallelChannelsExplicit
  split
  · rename_i body over
    exact absurd rfl (h body over)
  · rfl

theorem withTimeReversal_plain (pt : PT) (h : ∀ inner, pt ≠ .timeReversal none inner) :
    withTimeReversal pt = withTimeReversalExplicit pt := by
  unfold withTimeReversal withTimeReversalExplicit
  split
  · rename_i inner
    exact absurd rfl (h inner)
  · rfl

theorem withMapping_plain (pt : PT) (pm : List (String × Expr)) (mm : List (MName × MName))
    (cm : List (Chan × Option Chan)) (h : ∀ body pm' mm' cm' cons, pt ≠ .mapping none body pm' mm' cm' cons) :
    withMapping pt pm mm cm = some (withMappingExplicit pt pm mm cm) := by
  unfold withMapping mkMapping withMappingExplicit
  split
  · rename_i body pm' mm' cm'
    exact absurd rfl (h body pm' mm' cm' [])
  · rfl

theorem withParallelAtomic_plain (pt : PT) (par : List PT)
    (h : ∀ subs dur meas cons, pt ≠ .atomicMulti none subs dur meas cons) :
    withParallelAtomic pt par = withParallelAtomicExplicit pt par := by
  unfold withParallelAtomic withParallelAtomicExplicit
  split
  · rfl
  · split
    · rename_i subs dur meas cons
      exact absurd rfl (h subs dur meas cons)
    · rfl

theorem padTo_kwargs (pt : PT) (padDur : Expr) (finals : List (Chan × Expr)) (isZero : Bool)
    (kw : Option String × List MeasDecl × List Expr) :
    padTo pt padDur finals isZero (some kw) = padToExplicit pt padDur finals isZero (some kw) := rfl

theorem padTo_same (pt : PT) (padDur : Expr) (finals : List (Chan × Expr)) :
    padTo pt padDur finals true none = pt := rfl

/-! ## `SequencePulseTemplate.concatenate` -/

/-- what `concatenate` replaces a template by -/
def flatP (p : PT) : List PT :=
  match p with
  | .seq none subs [] [] => subs
  | p => [p]

theorem concatenate_eq (pts : List PT) (id : Option String) (meas : List MeasDecl) (cons : List Expr) :
    concatenate pts id meas cons = .seq id (pts.flatMap flatP) meas cons := rfl

theorem internalList_append_ok : ∀ (a b : List PT) (ctx : Ctx) (I : List Item),
    internalList (a ++ b) ctx = .ok I →
    ∃ x y, internalList a ctx = .ok x ∧ internalList b ctx = .ok y ∧ I = x ++ y
  | [], b, ctx, I, h => ⟨[], I, by rw [internalList], h, rfl⟩
  | p :: a, b, ctx, I, h => by
      obtain ⟨u, v, hu, hv, rfl⟩ := internalList_cons_ok p (a ++ b) ctx I h
      obtain ⟨x, y, hx, hy, rfl⟩ := internalList_append_ok a b ctx v hv
      refine ⟨u ++ x, y, ?_, hy, by simp⟩
      rw [internalList]
      unfold wrapK at hu
      simp [hu, hx, bind, Except.bind, pure, Except.pure]

/-- the items of a plain (unnamed, undecorated) sequence are the guarded items of its parts -/
theorem wrapK_plain_seq (subs : List PT) (ctx : Ctx) (I : List Item)
    (h : wrapK (.seq none subs [] []) ctx = .ok I) :
    ∃ A, internalList subs ctx = .ok A ∧ I = guardRun [] A := by
  unfold wrapK at h
  rw [wrapSingle_not _ _ _ (by simp [PT.ident, isCollId])] at h
  obtain ⟨ms, items, hms, hi, rfl⟩ := internal_seq_ok _ _ _ _ _ I h
  have : ms = [] := by
    simp only [getMeas, List.foldlM_nil, pure, Except.pure, Except.ok.injEq] at hms
    exact hms.symm
  subst this
  exact ⟨items, hi, rfl⟩

/-- same children and same measurements at every offset -/
def SameObs (I I' : List Item) : Prop := itemsNodes I = itemsNodes I' ∧ ∀ off, itemsMeas I off = itemsMeas I' off

theorem sameObs_guard_nil (A : List Item) (h : endsOk A = true) : SameObs (guardRun [] A) A := by
  refine ⟨guardRun_nodes A [], fun off => ?_⟩
  rw [guardRun_meas A [] off h]
  by_cases hn : itemsNodes A = []
  · have := endsOk_nodes_nil A h hn
    subst this
    simp [itemsMeas, itemsNodes]
  · simp [hn]

theorem sameObs_append (I I' K K' : List Item) (h1 : SameObs I I') (h2 : SameObs K K') : SameObs (I ++ K) (I' ++ K') := by
  refine ⟨by rw [itemsNodes_append, itemsNodes_append, h1.1, h2.1], fun off => ?_⟩
  rw [itemsMeas_append, itemsMeas_append, h1.2, h2.2]
  simp only [itemsDur, h1.1]


theorem concatenate_items : ∀ (pts : List PT) (ctx : Ctx) (T0 T : Chain) (S : List String) (J Ie If : List Item),
    internalList pts { ctx with trafo := T0, single := [] } = .ok J → nnI J →
    internalList pts { ctx with trafo := T, single := S } = .ok Ie →
    internalList (pts.flatMap flatP) { ctx with trafo := T, single := S } = .ok If →
    SameObs If Ie ∧ endsOk If = true
  | [], ctx, T0, T, S, J, Ie, If, _, _, hIe, hIf => by
      simp only [List.flatMap_nil] at hIf
      rw [internalList] at hIe hIf
      cases hIe; cases hIf
      exact ⟨⟨rfl, fun _ => rfl⟩, rfl⟩
  | p :: ps, ctx, T0, T, S, J, Ie, If, hJ, hnn, hIe, hIf => by
      obtain ⟨ja, jb, hja, hjb, rfl⟩ := internalList_cons_ok p ps _ J hJ
      obtain ⟨ea, eb, hea, heb, rfl⟩ := internalList_cons_ok p ps _ Ie hIe
      obtain ⟨n1, n2⟩ := allLeavesList_append_left _ ja jb hnn
      simp only [List.flatMap_cons] at hIf
      obtain ⟨fa, fb, hfa, hfb, rfl⟩ := internalList_append_ok _ _ _ If hIf
      obtain ⟨ih, ihe⟩ := concatenate_items ps ctx T0 T S jb eb fb hjb n2 heb hfb
      suffices h : SameObs fa ea ∧ endsOk fa = true from
        ⟨sameObs_append _ _ _ _ h.1 ih, endsOk_append _ _ h.2 ihe⟩
      -- the head: either a plain sequence that was flattened, or the template itself
      by_cases hp : ∃ subs, p = .seq none subs [] []
      · obtain ⟨subs, rfl⟩ := hp
        simp only [flatP] at hfa
        obtain ⟨A, hA, rfl⟩ := wrapK_plain_seq subs _ ea hea
        obtain ⟨JA, hJA, rfl⟩ := wrapK_plain_seq subs _ ja hja
        have : fa = A := ok_inj hfa hA
        subst this
        have invA := (GL_all subs).1 ctx T0 JA hJA ((nnI_guardRun _ _).mp n1) T S fa hfa
        have := sameObs_guard_nil fa invA.trail
        exact ⟨⟨this.1.symm, fun off => (this.2 off).symm⟩, invA.trail⟩
      · have hflat : flatP p = [p] := by
          unfold flatP
          split
          · rename_i subs
            exact absurd ⟨subs, rfl⟩ hp
          · rfl
        rw [hflat] at hfa
        obtain ⟨u, v, hu, hv, rfl⟩ := internalList_cons_ok p [] _ fa hfa
        rw [internalList] at hv
        cases hv
        have : u = ea := ok_inj hu hea
        subst this
        simp only [List.append_nil]
        exact ⟨⟨rfl, fun _ => rfl⟩, ((GU_wrap p (G_all p).1) ctx T0 ja hja n1 T S u hu).trail⟩

/-- `SequencePT.concatenate(*pts, **kw)` compiles to items with the same children and the same measurements as
the explicit `SequencePT(*pts, **kw)` — for every list of templates, every context, transformation and
`to_single_waveform` set (given that the default program of the explicit nesting has no negative durations) -/
theorem concatenate_sameObs (pts : List PT) (id : Option String) (meas : List MeasDecl) (cons : List Expr)
    (ctx : Ctx) (T0 T : Chain) (S : List String) (J Ie If : List Item)
    (hJ : internal (concatenateExplicit pts id meas cons) { ctx with trafo := T0, single := [] } = .ok J) (hnn : nnI J)
    (hIe : internal (concatenateExplicit pts id meas cons) { ctx with trafo := T, single := S } = .ok Ie)
    (hIf : internal (concatenate pts id meas cons) { ctx with trafo := T, single := S } = .ok If) :
    SameObs If Ie := by
  unfold concatenateExplicit at hJ hIe
  rw [concatenate_eq] at hIf
  obtain ⟨_, jt, _, hjt, rfl⟩ := internal_seq_ok _ _ _ _ _ J hJ
  obtain ⟨ms, et, hms, het, rfl⟩ := internal_seq_ok _ _ _ _ _ Ie hIe
  obtain ⟨ms', ft, hms', hft, rfl⟩ := internal_seq_ok _ _ _ _ _ If hIf
  have : ms = ms' := ok_inj hms hms'
  subst this
  have hn := (nnI_guardRun _ _).mp hnn
  obtain ⟨so, hendF⟩ := concatenate_items pts ctx T0 T S jt et ft hjt hn het hft
  have invE := (GL_all pts).1 ctx T0 jt hjt hn T S et het
  refine ⟨by rw [guardRun_nodes, guardRun_nodes, so.1], fun off => ?_⟩
  rw [guardRun_meas ft ms off hendF, guardRun_meas et ms off invE.trail, so.1, so.2]

end QP.C05
