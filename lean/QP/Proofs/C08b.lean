import QP.Proofs.C08
/-! Helper lemmas for C08: the optimising constructors sample like the plain composites. -/
namespace QP.C08
open Wf

/-- two waveforms with the same channels and duration that sample identically on `[0, duration]` -/
def SamplesAlike (s p : Wf) : Prop :=
  duration s = duration p ∧ (∀ k, k ∈ channels s ↔ k ∈ channels p) ∧
  ∀ k, k ∈ channels p → ∀ t, 0 ≤ t → t ≤ duration p → sample s k t = sample p k t

theorem SamplesAlike.refl (p : Wf) : SamplesAlike p p := ⟨rfl, fun _ => Iff.rfl, fun _ _ _ _ _ => rfl⟩

/-- a composite `p` all of whose channels report constants, folded to `from_mapping(duration, d)` -/
theorem folded_sound (p : Wf) (hw : wf p = true) (d : List (Chan × Rat)) (s : Wf)
    (hA : ∀ k x, (k, x) ∈ d → k ∈ channels p ∧ constantValue p k = some x)
    (hB : ∀ k, k ∈ channels p → k ∈ dkeys d)
    (h : fromMapping (duration p) d = .ok s) : SamplesAlike s p := by
  have hf : Functional d := by
    intro k x y hx hy
    have a := (hA k x hx).2
    have b := (hA k y hy).2
    rw [a] at b
    exact Option.some.inj b
  obtain ⟨h1, h2, h3⟩ := fromMapping_sound _ d s h hf
  refine ⟨h1, ?_, ?_⟩
  · intro k
    rw [h2 k]
    constructor
    · intro hk
      obtain ⟨x, hx⟩ := keys_mem d k hk
      exact (hA k x hx).1
    · exact hB k
  · intro k hk t h0 hle
    obtain ⟨x, hx⟩ := keys_mem d k (hB k hk)
    rw [h3 k x hx t]
    exact (constant_sound_aux p hw k x t hk (hA k x hx).2 h0 hle).symm

/-! ### repetition -/

theorem smart_rep (b : Wf) (n : Int) (p s : Wf) (hb : wf b = true)
    (hp : mkRep b n = .ok p) (hs : fromRepetitionCount b n = .ok s) : SamplesAlike s p := by
  simp only [mkRep] at hp
  split at hp
  · cases hp
  · rename_i hn
    injection hp with hp
    subst hp
    simp only [fromRepetitionCount] at hs
    cases hd : constantValueDict b with
    | none =>
      simp only [hd, mkRep, hn, if_false] at hs
      injection hs with hs
      subst hs
      exact SamplesAlike.refl _
    | some d =>
      simp only [hd] at hs
      have h1 : 1 ≤ n := by omega
      have hcast : ((n.toNat : Nat) : Rat) = ((n : Int) : Rat) := by
        have : ((n.toNat : Nat) : Int) = n := Int.toNat_of_nonneg (by omega)
        exact_mod_cast this
      obtain ⟨a1, a2⟩ := cvd_sound b hb d hd
      apply folded_sound (.rep b n.toNat) (by simp [wf, hb]; omega) d s
      · intro k x hk; simpa [channels, constantValue] using a1 k x hk
      · intro k hk; exact a2 k (by simpa [channels] using hk)
      · simpa [duration, hcast] using hs


/-! ### functor -/

theorem keys_lookup_some {α} : ∀ (m : List (Chan × α)) (k : Chan), k ∈ dkeys m → ∃ v, m.lookup k = some v := by
  intro m
  induction m with
  | nil => intro k h; simp [dkeys] at h
  | cons y ys ih =>
    intro k h
    obtain ⟨k0, x⟩ := y
    by_cases hk : k = k0
    · subst hk; exact ⟨x, by simp [List.lookup]⟩
    · have hne : (k == k0) = false := by simpa using hk
      have : k ∈ dkeys ys := by
        simp [dkeys] at h ⊢
        rcases h with h | h
        · exact absurd h hk
        · exact h
      obtain ⟨v, hv⟩ := ih k this
      exact ⟨v, by simp only [List.lookup, hne]; exact hv⟩

theorem applyFunctors_mem (fs : List (Chan × Fn)) : ∀ (d dd : List (Chan × Rat)), applyFunctors fs d = some dd →
    (∀ k y, (k, y) ∈ dd → ∃ x f, (k, x) ∈ d ∧ fs.lookup k = some f ∧ y = f.apply x) ∧
    (∀ k, k ∈ dkeys d → k ∈ dkeys dd) := by
  intro d
  induction d with
  | nil => intro dd h; simp [applyFunctors] at h; subst h; simp [dkeys]
  | cons kv rest ih =>
    intro dd h
    obtain ⟨c, v⟩ := kv
    simp only [applyFunctors] at h
    cases hf : fs.lookup c with
    | none => simp [hf] at h
    | some f =>
      cases hr : applyFunctors fs rest with
      | none => simp [hf, hr] at h
      | some l =>
        simp [hf, hr] at h
        subst h
        obtain ⟨a1, a2⟩ := ih l hr
        constructor
        · intro k y hk
          simp at hk
          rcases hk with ⟨rfl, rfl⟩ | hk
          · exact ⟨v, f, by simp, hf, rfl⟩
          · obtain ⟨x, f', m1, m2, m3⟩ := a1 k y hk
            exact ⟨x, f', by simp [m1], m2, m3⟩
        · intro k hk
          simp [dkeys] at hk ⊢
          rcases hk with rfl | hk
          · exact Or.inl rfl
          · have := a2 k (by simpa [dkeys] using hk)
            simp [dkeys] at this
            exact Or.inr this

theorem smart_functor (i : Wf) (fs : List (Chan × Fn)) (p s : Wf) (hi : wf i = true)
    (hp : mkFunctor i fs = .ok p) (hs : fromFunctor i fs = .ok s) : SamplesAlike s p := by
  simp only [mkFunctor] at hp
  split at hp
  · rename_i hkeys
    injection hp with hp
    subst hp
    simp only [fromFunctor] at hs
    cases hd : constantValueDict i with
    | none =>
      simp only [hd, mkFunctor, hkeys, if_true] at hs
      injection hs with hs
      subst hs
      exact SamplesAlike.refl _
    | some d =>
      simp only [hd] at hs
      cases hdd : applyFunctors fs d with
      | none => simp [hdd] at hs
      | some dd =>
        simp only [hdd] at hs
        obtain ⟨a1, a2⟩ := cvd_sound i hi d hd
        obtain ⟨b1, b2⟩ := applyFunctors_mem fs d dd hdd
        have hkeys' := (sameSet_iff _ _).mp hkeys
        have hwp : wf (.functor i fs) = true := by
          simp only [wf, hi, Bool.true_and, lookupAll, List.all_eq_true]
          intro c hc
          obtain ⟨v, hv⟩ := keys_lookup_some fs c ((hkeys' c).mpr hc)
          simp [hv]
        apply folded_sound (.functor i fs) hwp dd s
        · intro k y hk
          obtain ⟨x, f, m1, m2, m3⟩ := b1 k y hk
          obtain ⟨c1, c2⟩ := a1 k x m1
          exact ⟨by simpa [channels] using c1, by simp [constantValue, c2, m2, m3]⟩
        · intro k hk
          exact b2 k (a2 k (by simpa [channels] using hk))
        · simpa [duration] using hs
  · cases hp

/-! ### reversal -/

theorem smart_reverse (i : Wf) (hi : wf i = true) : SamplesAlike (fromToReverse i) (.reversed i) := by
  simp only [fromToReverse]
  cases hd : constantValueDict i with
  | none => exact SamplesAlike.refl _
  | some d =>
    cases d with
    | nil => exact SamplesAlike.refl _
    | cons kv rest =>
      simp only
      refine ⟨by simp [duration], by simp [channels], ?_⟩
      intro k hk t h0 hle
      simp only [channels] at hk
      simp only [duration] at hle
      obtain ⟨a1, a2⟩ := cvd_sound i hi _ hd
      obtain ⟨x, hx⟩ := keys_mem _ k (a2 k hk)
      simp only [sample]
      rw [cvd_sample i hi _ hd k x hx t h0 hle]
      rw [cvd_sample i hi _ hd k x hx (duration i - t) (by grind) (by grind)]

/-! ### function waveforms -/

theorem smart_expression (slope icpt dur : Rat) (ch : Chan) :
    SamplesAlike (fromExpression slope icpt dur ch) (.func slope icpt dur ch) := by
  simp only [fromExpression]
  split
  · rename_i h0
    subst h0
    refine ⟨by simp [duration], by simp [channels], ?_⟩
    intro k _ t _ _
    simp only [sample]
    congr 1
    grind
  · exact SamplesAlike.refl _


/-! ### transformation -/

theorem mem_insertChan (c : Chan) : ∀ (l : List Chan) (k : Chan), k ∈ insertChan c l ↔ k = c ∨ k ∈ l := by
  intro l
  induction l with
  | nil => intro k; simp [insertChan]
  | cons x xs ih =>
    intro k
    simp only [insertChan]
    split
    · simp
    · split
      · rename_i h; subst h; simp
      · simp only [List.mem_cons, ih]
        constructor
        · rintro (h | h | h)
          · exact Or.inr (Or.inl h)
          · exact Or.inl h
          · exact Or.inr (Or.inr h)
        · rintro (h | h | h)
          · exact Or.inr (Or.inl h)
          · exact Or.inl h
          · exact Or.inr (Or.inr h)

theorem mem_sortChans : ∀ (l : List Chan) (k : Chan), k ∈ sortChans l ↔ k ∈ l := by
  intro l
  induction l with
  | nil => intro k; simp [sortChans]
  | cons x xs ih =>
    intro k
    simp only [sortChans, List.foldr] at ih ⊢
    rw [mem_insertChan, ih]
    simp

theorem atom_out_congr (a : TAtom) (A B : List Chan) (h : ∀ c, c ∈ A ↔ c ∈ B) :
    ∀ c, c ∈ a.outputChannels A ↔ c ∈ a.outputChannels B := by
  intro c
  cases a <;> simp [TAtom.outputChannels, h]

theorem chain_out_congr : ∀ (as : List TAtom) (A B : List Chan), (∀ c, c ∈ A ↔ c ∈ B) →
    ∀ c, c ∈ as.foldl (fun cs a => a.outputChannels cs) A ↔ c ∈ as.foldl (fun cs a => a.outputChannels cs) B := by
  intro as
  induction as with
  | nil => intro A B h c; simpa using h c
  | cons a rest ih =>
    intro A B h c
    simp only [List.foldl]
    exact ih _ _ (atom_out_congr a A B h) c

theorem trafo_out_congr (tr : Trafo) (A B : List Chan) (h : ∀ c, c ∈ A ↔ c ∈ B) :
    ∀ c, c ∈ tr.outputChannels A ↔ c ∈ tr.outputChannels B := by
  cases tr with
  | atom a => exact atom_out_congr a A B h
  | chain as => exact chain_out_congr as A B h

theorem allSome_mem : ∀ (l : List (Chan × Option Rat)) (dd : List (Chan × Rat)), allSome l = some dd →
    (∀ k y, (k, y) ∈ dd → (k, some y) ∈ l) ∧ (∀ k, k ∈ l.map (·.1) → k ∈ dkeys dd) := by
  intro l
  induction l with
  | nil => intro dd h; simp [allSome] at h; subst h; simp
  | cons kv rest ih =>
    intro dd h
    obtain ⟨c, v⟩ := kv
    cases v with
    | none => simp [allSome] at h
    | some x =>
      simp only [allSome] at h
      cases hr : allSome rest with
      | none => simp [hr] at h
      | some l' =>
        simp [hr] at h
        subst h
        obtain ⟨a1, a2⟩ := ih l' hr
        constructor
        · intro k y hk
          simp at hk
          rcases hk with ⟨rfl, rfl⟩ | hk
          · simp
          · simp [a1 k y hk]
        · intro k hk
          simp [dkeys] at hk ⊢
          rcases hk with rfl | hk
          · exact Or.inl rfl
          · have := a2 k (by simpa using hk)
            simp [dkeys] at this
            exact Or.inr this

theorem smart_transformation (i : Wf) (tr : Trafo) (s : Wf) (hw : wf (.trans i tr) = true)
    (hs : fromTransformation i tr = .ok s) : SamplesAlike s (.trans i tr) := by
  have hw' := hw
  simp [wf] at hw'
  simp only [fromTransformation] at hs
  cases hd : constantValueDict i with
  | none =>
    simp only [hd] at hs
    injection hs with hs; subst hs; exact SamplesAlike.refl _
  | some d =>
    simp only [hd] at hs
    by_cases hinv : tr.isConstantInvariant = true
    · simp only [hinv, Bool.not_true] at hs
      simp only [Bool.false_eq_true, if_false] at hs
      cases hall : allSome ((sortChans (tr.outputChannels (dkeys d))).map
          (fun c => (c, tr.applyF 0 (fun k => d.lookup k) c))) with
      | none => simp [hall] at hs
      | some dd =>
        simp only [hall] at hs
        obtain ⟨a1, a2⟩ := cvd_sound i hw'.1 d hd
        obtain ⟨b1, b2⟩ := allSome_mem _ dd hall
        have hset : ∀ c, c ∈ dkeys d ↔ c ∈ channels i := by
          intro c
          constructor
          · intro hc; obtain ⟨x, hx⟩ := keys_mem d c hc; exact (a1 c x hx).1
          · exact a2 c
        have hbel : BelowOn (channels i) (fun k => d.lookup k) (fun c => constantValue i c) := by
          intro c _ x hx
          exact (a1 c x (lookup_mem d c x hx)).2
        apply folded_sound (.trans i tr) hw dd s
        · intro k y hk
          have := b1 k y hk
          simp only [List.mem_map] at this
          obtain ⟨c, hc, he⟩ := this
          injection he with e1 e2
          subst e1
          rw [mem_sortChans] at hc
          have hkc : c ∈ tr.outputChannels (channels i) := (trafo_out_congr tr _ _ hset c).mp hc
          refine ⟨by simpa [channels] using hkc, ?_⟩
          simp only [constantValue, hinv, if_true]
          exact trafo_below tr (channels i) hw'.2 hinv _ _ hbel 0 c hkc y e2
        · intro k hk
          apply b2
          simp only [List.map_map, List.mem_map]
          refine ⟨k, ?_, rfl⟩
          rw [mem_sortChans]
          exact (trafo_out_congr tr _ _ hset k).mpr (by simpa [channels] using hk)
        · simpa [duration] using hs
    · have : tr.isConstantInvariant = false := by simpa using hinv
      simp only [this] at hs
      simp at hs
      subst hs; exact SamplesAlike.refl _


/-! ### dictionaries with unique keys -/

def KeysNodup {α} (d : List (Chan × α)) : Prop := (dkeys d).Nodup

theorem lookup_dinsert {α} (c : Chan) (v : α) : ∀ (l : List (Chan × α)) (k : Chan),
    (dinsert c v l).lookup k = if k = c then some v else l.lookup k := by
  intro l
  induction l with
  | nil =>
    intro k
    by_cases h : k = c
    · subst h; simp [dinsert, List.lookup]
    · have hne : (k == c) = false := by simpa using h
      simp [dinsert, List.lookup, h, hne]
  | cons y ys ih =>
    intro k
    obtain ⟨k0, x⟩ := y
    simp only [dinsert]
    split
    · rename_i hck; subst hck
      by_cases h : k = c
      · subst h; simp [List.lookup]
      · have hne : (k == c) = false := by simpa using h
        simp [List.lookup, h, hne]
    · rename_i hck
      by_cases h0 : k = k0
      · subst h0
        have : ¬ k = c := fun e => hck e.symm
        simp [List.lookup, this]
      · have hne : (k == k0) = false := by simpa using h0
        simp only [List.lookup, hne]
        exact ih k

theorem nodup_dinsert {α} (c : Chan) (v : α) : ∀ (l : List (Chan × α)), KeysNodup l → KeysNodup (dinsert c v l) := by
  intro l
  induction l with
  | nil => intro _; simp [KeysNodup, dinsert, dkeys]
  | cons y ys ih =>
    intro h
    obtain ⟨k0, x⟩ := y
    simp only [dinsert]
    split
    · simpa [KeysNodup, dkeys] using h
    · rename_i hck
      simp only [KeysNodup, dkeys, List.map_cons, List.nodup_cons] at h ⊢
      refine ⟨?_, ih h.2⟩
      intro hm
      have := (keys_dinsert c v ys k0).mp (by simpa [dkeys] using hm)
      rcases this with e | e
      · exact hck e.symm
      · exact h.1 (by simpa [dkeys] using e)

theorem nodup_foldl_dinsert {α β} (g : β → Chan × α) : ∀ (e : List β) (d : List (Chan × α)), KeysNodup d →
    KeysNodup (e.foldl (fun acc b => dinsert (g b).1 (g b).2 acc) d) := by
  intro e
  induction e with
  | nil => intro d h; simpa using h
  | cons b bs ih => intro d h; simp only [List.foldl]; exact ih _ (nodup_dinsert _ _ d h)

theorem nodup_mem_lookup {α} : ∀ (d : List (Chan × α)), KeysNodup d → ∀ k x, (k, x) ∈ d → d.lookup k = some x := by
  intro d
  induction d with
  | nil => intro _ k x h; cases h
  | cons y ys ih =>
    intro hn k x h
    obtain ⟨k0, x0⟩ := y
    simp only [KeysNodup, dkeys, List.map_cons, List.nodup_cons] at hn
    simp at h
    rcases h with ⟨rfl, rfl⟩ | h
    · simp [List.lookup]
    · have hne : ¬ k = k0 := by
        intro e; subst e
        exact hn.1 (by simpa [dkeys] using mem_keys ys k x h)
      have : (k == k0) = false := by simpa using hne
      simp only [List.lookup, this]
      exact ih hn.2 k x h

theorem cvd_nodup : ∀ w : Wf, ∀ d, constantValueDict w = some d → KeysNodup d := by
  intro w
  induction w using Wf.induct with
  | table ch es => intro d h; simp [constantValueDict] at h
  | const dur a ch => intro d h; simp [constantValueDict] at h; subst h; simp [KeysNodup, dkeys]
  | func s i dur ch => intro d h; simp [constantValueDict] at h
  | seq ws ih => intro d h; simp [constantValueDict] at h
  | multi ws ih =>
    intro d h
    simp only [constantValueDict] at h
    have key : ∀ (l : List Wf), (∀ w ∈ l, w ∈ ws) → ∀ d, cvdMulti l = some d → KeysNodup d := by
      intro l
      induction l with
      | nil => intro _ d h; simp [cvdMulti] at h; subst h; simp [KeysNodup, dkeys]
      | cons y ys ihl =>
        intro hsub d h
        simp only [cvdMulti] at h
        cases hy : constantValueDict y with
        | none => simp [hy] at h
        | some dy =>
          cases hys : cvdMulti ys with
          | none => simp [hy, hys] at h
          | some dr =>
            simp [hy, hys] at h
            subst h
            exact nodup_foldl_dinsert (fun kv => kv) dr dy (ih y (hsub y (by simp)) dy hy)
    exact key ws (fun w hw => hw) d h
  | rep b n ih => intro d h; simp only [constantValueDict] at h; exact ih d h
  | trans i tr ih => intro d h; simp [constantValueDict] at h
  | subset i cs ih =>
    intro d h
    simp only [constantValueDict] at h
    cases hi : constantValueDict i with
    | none => simp [hi] at h
    | some di =>
      simp only [hi] at h
      have key : ∀ (l : List Chan) (d : List (Chan × Rat)),
          l.foldr (fun c acc => match acc, di.lookup c with
            | some l, some v => some (dinsert c v l)
            | _, _ => none) (some []) = some d → KeysNodup d := by
        intro l
        induction l with
        | nil => intro d h; simp at h; subst h; simp [KeysNodup, dkeys]
        | cons c cs' ihl =>
          intro d h
          simp only [List.foldr] at h
          cases hacc : cs'.foldr (fun c acc => match acc, di.lookup c with
            | some l, some v => some (dinsert c v l)
            | _, _ => none) (some []) with
          | none => simp [hacc] at h
          | some l' =>
            cases hl : di.lookup c with
            | none => simp [hacc, hl] at h
            | some v =>
              simp [hacc, hl] at h
              subst h
              exact nodup_dinsert c v l' (ihl l' hacc)
      exact key cs d h
  | arith l op r ihl ihr => intro d h; simp [constantValueDict] at h
  | functor i fs ih => intro d h; simp [constantValueDict] at h
  | reversed i ih =>
    intro d h
    simp only [constantValueDict] at h
    by_cases he : channels i = []
    · simp [he] at h; subst h; simp [KeysNodup, dkeys]
    · simp [he] at h

/-! ### arithmetic -/

theorem lookup_merge (op : ArithOp) (dl : List (Chan × Rat)) : ∀ (dr acc : List (Chan × Rat)), KeysNodup dr →
    ∀ k, ((dr.foldl (fun acc cr => dinsert cr.1 (mergeVal op dl cr.1 cr.2) acc) acc).lookup k) =
    match dr.lookup k with
    | some rv => some (mergeVal op dl k rv)
    | none => acc.lookup k := by
  intro dr
  induction dr with
  | nil => intro acc _ k; simp [List.lookup]
  | cons y ys ih =>
    intro acc hn k
    obtain ⟨c, rv⟩ := y
    simp only [KeysNodup, dkeys, List.map_cons, List.nodup_cons] at hn
    simp only [List.foldl]
    rw [ih _ hn.2 k]
    by_cases hk : k = c
    · subst hk
      have hnone : ys.lookup k = none := by
        cases hl : ys.lookup k with
        | none => rfl
        | some v => exact absurd (mem_keys ys k v (lookup_mem ys k v hl)) (by simpa [dkeys] using hn.1)
      simp [hnone, List.lookup, lookup_dinsert]
    · have hne : (k == c) = false := by simpa using hk
      simp only [List.lookup, hne, lookup_dinsert, hk, if_false]

theorem smart_operator (l : Wf) (op : ArithOp) (r : Wf) (s : Wf) (hw : wf (.arith l op r) = true)
    (hs : fromOperator l op r = .ok s) : SamplesAlike s (.arith l op r) := by
  have hw' := hw
  simp [wf] at hw'
  simp only [fromOperator] at hs
  cases hdl : constantValueDict l with
  | none =>
    simp only [hdl, mkArith] at hs
    split at hs
    · injection hs with hs; subst hs; exact SamplesAlike.refl _
    · cases hs
  | some dl =>
    cases hdr : constantValueDict r with
    | none =>
      simp only [hdl, hdr, mkArith] at hs
      split at hs
      · injection hs with hs; subst hs; exact SamplesAlike.refl _
      · cases hs
    | some dr =>
      simp only [hdl, hdr] at hs
      split at hs
      · obtain ⟨l1, l2⟩ := cvd_sound l hw'.1.1 dl hdl
        obtain ⟨r1, r2⟩ := cvd_sound r hw'.1.2 dr hdr
        have nl := cvd_nodup l dl hdl
        have nr := cvd_nodup r dr hdr
        have hlook := lookup_merge op dl dr dl nr
        have hnod : KeysNodup (mergeConstants op dl dr) :=
          nodup_foldl_dinsert (fun (cr : Chan × Rat) => (cr.1, mergeVal op dl cr.1 cr.2)) dr dl nl
        -- lookups in the operands' dictionaries describe `constant_value`
        have hL : ∀ k, k ∈ channels l → ∃ x, dl.lookup k = some x ∧ constantValue l k = some x := by
          intro k hk
          obtain ⟨x, hx⟩ := keys_mem dl k (l2 k hk)
          exact ⟨x, nodup_mem_lookup dl nl k x hx, (l1 k x hx).2⟩
        have hR : ∀ k, k ∈ channels r → ∃ x, dr.lookup k = some x ∧ constantValue r k = some x := by
          intro k hk
          obtain ⟨x, hx⟩ := keys_mem dr k (r2 k hk)
          exact ⟨x, nodup_mem_lookup dr nr k x hx, (r1 k x hx).2⟩
        have hLn : ∀ k, k ∉ channels l → dl.lookup k = none := by
          intro k hk
          cases h : dl.lookup k with
          | none => rfl
          | some v => exact absurd (l1 k v (lookup_mem dl k v h)).1 hk
        have hRn : ∀ k, k ∉ channels r → dr.lookup k = none := by
          intro k hk
          cases h : dr.lookup k with
          | none => rfl
          | some v => exact absurd (r1 k v (lookup_mem dr k v h)).1 hk
        apply folded_sound (.arith l op r) hw (mergeConstants op dl dr) s
        · intro k y hk
          have hy := nodup_mem_lookup _ hnod k y hk
          simp only [mergeConstants] at hy
          rw [hlook k] at hy
          by_cases hkr : k ∈ channels r
          · obtain ⟨rv, e1, e2⟩ := hR k hkr
            simp only [e1] at hy
            by_cases hkl : k ∈ channels l
            · obtain ⟨lv, f1, f2⟩ := hL k hkl
              simp only [mergeVal, f1] at hy
              refine ⟨by simp [channels, hkl], ?_⟩
              simp only [constantValue, hkr, hkl, if_true, e2, f2]
              cases op <;> simpa [ArithOp.apply, ArithOp.applyR, oadd, osub] using hy
            · simp only [mergeVal, hLn k hkl] at hy
              refine ⟨by simp [channels, hkr], ?_⟩
              simp only [constantValue, hkr, hkl, if_true, if_false, e2]
              cases op <;> simpa [ArithOp.rhsOnly, ArithOp.rhsOnlyR] using hy
          · simp only [hRn k hkr] at hy
            have hkl : k ∈ channels l := by
              cases hx : dl.lookup k with
              | none => rw [hx] at hy; cases hy
              | some v => exact (l1 k v (lookup_mem dl k v hx)).1
            obtain ⟨lv, f1, f2⟩ := hL k hkl
            refine ⟨by simp [channels, hkl], ?_⟩
            simp only [constantValue, hkr, if_false, f2]
            rw [f1] at hy
            exact hy
        · intro k hk
          simp only [channels, mem_union] at hk
          have : ∃ y, (mergeConstants op dl dr).lookup k = some y := by
            simp only [mergeConstants]
            rw [hlook k]
            by_cases hkr : k ∈ channels r
            · obtain ⟨rv, e1, _⟩ := hR k hkr
              simp [e1]
            · have hkl : k ∈ channels l := by
                rcases hk with h | h
                · exact h
                · exact absurd h hkr
              obtain ⟨lv, f1, _⟩ := hL k hkl
              simp [hRn k hkr, f1]
          obtain ⟨y, hy⟩ := this
          exact mem_keys _ k y (lookup_mem _ k y hy)
        · simpa [duration] using hs
      · cases hs

end QP.C08
