import QP.Proofs.C10Store
/-! C10: consequences of the session invariant — which documents the backend holds, references. -/
namespace QP.C10
set_option linter.unusedSimpArgs false
set_option linter.unusedVariables false

/-! ### well-formedness is hereditary -/

mutual
theorem wf_subterms : (t : T) → t.wf = true → ∀ c ∈ subterms t, c.wf = true
  | .node cls id items, h, c, hc => by
    rw [subterms_node] at hc
    rcases List.mem_append.mp hc with hc | hc
    · exact wf_subtermsItems items (wf_node h).2.2 c hc
    · simp only [List.mem_singleton] at hc; subst hc; exact h
theorem wf_subtermsItems : (items : List Item) → Item.wfL items = true → ∀ c ∈ subtermsItems items, c.wf = true
  | [], _, c, hc => by simp [subtermsItems] at hc
  | .data _ _ :: rest, h, c, hc => by
    simp only [Item.wfL, Bool.and_eq_true] at h
    simp only [subtermsItems] at hc
    exact wf_subtermsItems rest h.2 c hc
  | .child _ t :: rest, h, c, hc => by
    simp only [Item.wfL, Bool.and_eq_true] at h
    simp only [subtermsItems, List.mem_append] at hc
    rcases hc with hc | hc
    · exact wf_subterms t h.1 c hc
    · exact wf_subtermsItems rest h.2 c hc
  | .children _ ts :: rest, h, c, hc => by
    simp only [Item.wfL, Bool.and_eq_true] at h
    simp only [subtermsItems, List.mem_append] at hc
    rcases hc with hc | hc
    · exact wf_subtermsList ts h.1.2 c hc
    · exact wf_subtermsItems rest h.2 c hc
theorem wf_subtermsList : (ts : List T) → T.wfL ts = true → ∀ c ∈ subtermsList ts, c.wf = true
  | [], _, c, hc => by simp [subtermsList] at hc
  | t :: ts, h, c, hc => by
    simp only [T.wfL, Bool.and_eq_true] at h
    simp only [subtermsList, List.mem_append] at hc
    rcases hc with hc | hc
    · exact wf_subterms t h.1 c hc
    · exact wf_subtermsList ts h.2 c hc
end

/-! ### references of a document -/

theorem refs_obj_not_ref {kvs : List (String × J)} {ty : String} (h : lookup typeKey kvs = some (.str ty))
    (hne : ty ≠ "reference") : (J.obj kvs).refs = J.refsKV kvs := by
  simp only [J.refs, h]
  split
  · rename_i heq _; simp only [Option.some.injEq, J.str.injEq] at heq; exact absurd heq hne
  · rfl

theorem refs_obj_untyped {kvs : List (String × J)} (h : lookup typeKey kvs = none) :
    (J.obj kvs).refs = J.refsKV kvs := by
  simp only [J.refs, h]

theorem refs_ref (i : Id) : (ref i).refs = [i] := by
  simp only [ref, J.refs, lookup_cons, idKey_ne_typeKey, if_false, if_true]

theorem refsKV_append : ∀ (a b : List (String × J)), J.refsKV (a ++ b) = J.refsKV a ++ J.refsKV b
  | [], b => rfl
  | (k, v) :: a, b => by simp only [List.cons_append, J.refsKV, refsKV_append a b, List.append_assoc]

theorem refsKV_hdr (cls : Cls) (id : Option Id) : J.refsKV (hdr cls id) = [] := by
  cases id <;> simp [hdr, J.refsKV, J.refs]

mutual
theorem refs_plain : (j : J) → j.plain = true → j.refs = []
  | .atom _, _ => rfl
  | .str _, _ => rfl
  | .arr xs, h => by
    simp only [J.plain] at h
    simp only [J.refs]; exact refsL_plain xs h
  | .obj kvs, h => by
    simp only [J.plain, Bool.and_eq_true, Option.isNone_iff_eq_none] at h
    rw [refs_obj_untyped h.1]; exact refsKV_plain kvs h.2
theorem refsL_plain : (xs : List J) → J.plainL xs = true → J.refsL xs = []
  | [], _ => rfl
  | x :: xs, h => by
    simp only [J.plainL, Bool.and_eq_true] at h
    simp only [J.refsL, refs_plain x h.1, refsL_plain xs h.2, List.append_nil]
theorem refsKV_plain : (kvs : List (String × J)) → J.plainKV kvs = true → J.refsKV kvs = []
  | [], _ => rfl
  | (k, v) :: kvs, h => by
    simp only [J.plainKV, Bool.and_eq_true] at h
    simp only [J.refsKV, refs_plain v h.1, refsKV_plain kvs h.2, List.append_nil]
end

theorem refs_node_doc (cls : Cls) (id : Option Id) (kvs : List (String × J)) :
    (J.obj (hdr cls id ++ kvs)).refs = J.refsKV kvs := by
  rw [refs_obj_not_ref (lookup_type_hdr cls id kvs) (typeName_ne_reference cls), refsKV_append, refsKV_hdr]
  rfl

mutual
/-- a document references only named descendants of its node -/
theorem refs_emit : (t : T) → t.wf = true → ∀ r ∈ (emit t).refs, ∃ c ∈ subterms t, c.id = some r
  | .node cls id items, h, r, hr => by
    cases id with
    | none =>
      simp only [emit] at hr
      rw [refs_node_doc] at hr
      obtain ⟨c, hc, hcr⟩ := refs_items cls items (wf_node h).2.2 r hr
      exact ⟨c, by rw [subterms_node]; exact List.mem_append_left _ hc, hcr⟩
    | some i =>
      simp only [emit, refs_ref, List.mem_singleton] at hr
      subst hr
      exact ⟨_, self_mem_subterms _, rfl⟩
theorem refs_items (cls : Cls) : (items : List Item) → Item.wfL items = true →
    ∀ r ∈ J.refsKV (bodyItems cls items), ∃ c ∈ subtermsItems items, c.id = some r
  | [], _, r, hr => by simp [bodyItems, J.refsKV] at hr
  | .data k j :: rest, h, r, hr => by
    simp only [Item.wfL, Bool.and_eq_true] at h
    simp only [subtermsItems]
    by_cases he : emitted cls (.data k j) = true
    · simp only [bodyItems, he, if_true, J.refsKV, refs_plain j h.1, List.nil_append] at hr
      exact refs_items cls rest h.2 r hr
    · have he' : emitted cls (.data k j) = false := by simpa using he
      simp only [bodyItems, he', Bool.false_eq_true, if_false] at hr
      exact refs_items cls rest h.2 r hr
  | .child k t :: rest, h, r, hr => by
    simp only [Item.wfL, Bool.and_eq_true] at h
    simp only [bodyItems, J.refsKV, List.mem_append] at hr
    simp only [subtermsItems, List.mem_append]
    rcases hr with hr | hr
    · obtain ⟨c, hc, hcr⟩ := refs_emit t h.1 r hr; exact ⟨c, Or.inl hc, hcr⟩
    · obtain ⟨c, hc, hcr⟩ := refs_items cls rest h.2 r hr; exact ⟨c, Or.inr hc, hcr⟩
  | .children k ts :: rest, h, r, hr => by
    simp only [Item.wfL, Bool.and_eq_true] at h
    simp only [bodyItems, J.refsKV, J.refs, List.mem_append] at hr
    simp only [subtermsItems, List.mem_append]
    rcases hr with hr | hr
    · obtain ⟨c, hc, hcr⟩ := refs_list ts h.1.2 r hr; exact ⟨c, Or.inl hc, hcr⟩
    · obtain ⟨c, hc, hcr⟩ := refs_items cls rest h.2 r hr; exact ⟨c, Or.inr hc, hcr⟩
theorem refs_list : (ts : List T) → T.wfL ts = true → ∀ r ∈ J.refsL (emitList ts), ∃ c ∈ subtermsList ts, c.id = some r
  | [], _, r, hr => by simp [emitList, J.refsL] at hr
  | t :: ts, h, r, hr => by
    simp only [T.wfL, Bool.and_eq_true] at h
    simp only [emitList, J.refsL, List.mem_append] at hr
    simp only [subtermsList, List.mem_append]
    rcases hr with hr | hr
    · obtain ⟨c, hc, hcr⟩ := refs_emit t h.1 r hr; exact ⟨c, Or.inl hc, hcr⟩
    · obtain ⟨c, hc, hcr⟩ := refs_list ts h.2 r hr; exact ⟨c, Or.inr hc, hcr⟩
end

/-- the references of the document of `t` name strict descendants of `t` -/
theorem refs_body (t : T) (h : t.wf = true) : ∀ r ∈ (body t).refs, ∃ c ∈ subtermsItems t.items, c.id = some r := by
  cases t with
  | node cls id items =>
    intro r hr
    simp only [body] at hr
    rw [refs_node_doc] at hr
    exact refs_items cls items (wf_node h).2.2 r hr

/-! ### what the backend holds after storing a forest -/

/-- after the roots are stored, every named node of the forest is in the temporary storage -/
theorem stored_of_inv {F : List T} (hu : UniqueIds F) {st : St} (hinv : Inv F st)
    (hroots : ∀ r ∈ F, ∀ i, r.id = some i → lookup i st.temp = some r)
    (hnamed : ∀ r ∈ F, r.named = true) {c : T} (hc : c ∈ Univ F) {j : Id} (hj : c.id = some j) :
    lookup j st.temp = some c ∧ lookup j st.backend = some (body c) := by
  obtain ⟨r, hr, hcr⟩ := List.mem_flatMap.mp hc
  obtain ⟨i, hi⟩ : ∃ i, r.id = some i := by
    have := hnamed r hr; simp only [T.named] at this
    exact Option.isSome_iff_exists.mp this
  have hhas := hinv.closed i r (hroots r hr i hi) c hcr j hj
  obtain ⟨o, ho⟩ := (hinv.has_iff j).mp hhas
  have hoc : o = c := uniq hu (hinv.temp_in j o ho).1 hc (hinv.temp_in j o ho).2 hj
  subst hoc
  exact ⟨ho, by rw [hinv.backend_eq j, ho]; rfl⟩

/-- the documents in the backend are exactly the documents of the named nodes of the forest -/
theorem backend_char {F : List T} (hu : UniqueIds F) {st : St} (hinv : Inv F st)
    (hroots : ∀ r ∈ F, ∀ i, r.id = some i → lookup i st.temp = some r)
    (hnamed : ∀ r ∈ F, r.named = true) (j : Id) (d : J) :
    lookup j st.backend = some d ↔ ∃ c ∈ Univ F, c.id = some j ∧ d = body c := by
  constructor
  · intro h
    rw [hinv.backend_eq j] at h
    cases ht : lookup j st.temp with
    | none => simp [ht] at h
    | some o =>
      simp only [ht, Option.map_some, Option.some.injEq] at h
      exact ⟨o, (hinv.temp_in j o ht).1, (hinv.temp_in j o ht).2, h.symm⟩
  · rintro ⟨c, hc, hj, hd⟩
    rw [hd]; exact (stored_of_inv hu hinv hroots hnamed hc hj).2

/-! ### keys of the backend stay distinct -/

theorem fold_put_nodup {α β : Type} (g : α → β) : ∀ (txn : List (Id × α)) (b : List (Id × β)),
    (b.map Prod.fst).Nodup → ((txn.foldl (fun b e => put e.1 (g e.2) b) b).map Prod.fst).Nodup
  | [], _, h => h
  | e :: txn, b, h => by
    simp only [List.foldl_cons]
    exact fold_put_nodup g txn _ (nodup_keys_put _ _ h)

theorem setitem_nodup {st st' : St} {i : Id} {t : T} {log : List (Id × J)}
    (h : setitem st i t = .ok (st', log)) (hn : (st.backend.map Prod.fst).Nodup) :
    (st'.backend.map Prod.fst).Nodup := by
  unfold setitem at h
  split at h
  · simp at h
  · split at h
    · split at h
      · simp only [pure, Except.pure, Except.ok.injEq, Prod.mk.injEq] at h; rw [← h.1]; exact hn
      · simp at h
    · split at h
      · simp at h
      · cases t with
        | node cls id items =>
          simp only [overwrite, bind, Except.bind] at h
          split at h
          · simp at h
          · split at h
            · simp [throw, throwThe, MonadExceptOf.throw] at h
            · simp only [pure, Except.pure, Except.ok.injEq, Prod.mk.injEq] at h
              rw [← h.1]
              simp only [commit]
              exact fold_put_nodup (fun v : J × T => v.1) _ _ hn

theorem storeAll_nodup : ∀ (ts : List T) (st st' : St) (log : List (Id × J)),
    storeAll st ts = .ok (st', log) → (st.backend.map Prod.fst).Nodup → (st'.backend.map Prod.fst).Nodup
  | [], st, st', log, h, hn => by
    simp only [storeAll, pure, Except.pure, Except.ok.injEq, Prod.mk.injEq] at h; rw [← h.1]; exact hn
  | t :: ts, st, st', log, h, hn => by
    simp only [storeAll] at h
    split at h
    · simp at h
    · simp only [bind, Except.bind] at h
      split at h
      · simp at h
      · rename_i v hv
        obtain ⟨st1, log1⟩ := v
        split at h
        · simp at h
        · rename_i w hw
          obtain ⟨st2, log2⟩ := w
          simp only [pure, Except.pure, Except.ok.injEq, Prod.mk.injEq] at h
          rw [← h.1]
          exact storeAll_nodup ts st1 st2 log2 hw (setitem_nodup hv hn)

end QP.C10
