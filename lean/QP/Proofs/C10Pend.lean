import QP.Proofs.C10Round
/-! C10: the transaction dictionary and the pending named nodes of an encoding run. -/
namespace QP.C10
set_option linter.unusedSimpArgs false
set_option linter.unusedVariables false

/-- `_transaction_storage[n.identifier] = (document of n, n)` -/
def ins (txn : Txn) (n : T) : Txn :=
  match n.id with
  | some i => put i (body n, n) txn
  | none => txn

mutual
/-- the named nodes the encoder hands to `storage[id] = o` while encoding `t` as a child, in order
(with repetitions: a shared node that is not yet in the storage is encoded again) -/
def pendT (st : St) : T → List T
  | .node cls id items =>
    match id with
    | none => pendItems st items
    | some i => if st.has i then [] else pendItems st items ++ [.node cls id items]
def pendItems (st : St) : List Item → List T
  | [] => []
  | .data _ _ :: rest => pendItems st rest
  | .child _ t :: rest => pendT st t ++ pendItems st rest
  | .children _ ts :: rest => pendList st ts ++ pendItems st rest
def pendList (st : St) : List T → List T
  | [] => []
  | t :: ts => pendT st t ++ pendList st ts
end

/-- every named node of `L` that is already in the storage is in the temporary storage as that object -/
def Compat (st : St) (L : List T) : Prop :=
  ∀ c ∈ L, ∀ i, c.id = some i → st.has i = true → lookup i st.temp = some c

theorem Compat.mono {st : St} {L L' : List T} (h : ∀ c ∈ L', c ∈ L) (hc : Compat st L) : Compat st L' :=
  fun c hcm i hi hs => hc c (h c hcm) i hi hs

theorem self_mem_subterms (t : T) : t ∈ subterms t := by
  cases t; rw [subterms_node]; simp

theorem foldl_ins_append (txn : Txn) (a b : List T) :
    (a ++ b).foldl ins txn = b.foldl ins (a.foldl ins txn) := List.foldl_append

/-- the named nodes written by `overwrite st i t`, in transaction order (with repetitions) -/
def pendRoot (st : St) (t : T) : List T := pendItems st t.items ++ [t]

/-! ### sub-terms -/

mutual
theorem pendT_sub (st : St) : (t : T) → ∀ n ∈ pendT st t, n ∈ subterms t ∧ n.named = true
  | .node cls id items, n, h => by
    rw [subterms_node]
    cases id with
    | none =>
      simp only [pendT] at h
      have := pendItems_sub st items n h
      exact ⟨List.mem_append_left _ this.1, this.2⟩
    | some i =>
      simp only [pendT] at h
      by_cases hs : st.has i = true
      · simp [hs] at h
      · have hs' : st.has i = false := by simpa using hs
        simp only [hs', Bool.false_eq_true, if_false, List.mem_append, List.mem_singleton] at h
        rcases h with h | h
        · have := pendItems_sub st items n h
          exact ⟨List.mem_append_left _ this.1, this.2⟩
        · subst h; exact ⟨by simp, rfl⟩
theorem pendItems_sub (st : St) : (items : List Item) → ∀ n ∈ pendItems st items,
    n ∈ subtermsItems items ∧ n.named = true
  | [], n, h => by simp [pendItems] at h
  | .data _ _ :: rest, n, h => by
    simp only [pendItems] at h
    simpa only [subtermsItems] using pendItems_sub st rest n h
  | .child _ t :: rest, n, h => by
    simp only [pendItems, List.mem_append] at h
    simp only [subtermsItems, List.mem_append]
    rcases h with h | h
    · have := pendT_sub st t n h; exact ⟨Or.inl this.1, this.2⟩
    · have := pendItems_sub st rest n h; exact ⟨Or.inr this.1, this.2⟩
  | .children _ ts :: rest, n, h => by
    simp only [pendItems, List.mem_append] at h
    simp only [subtermsItems, List.mem_append]
    rcases h with h | h
    · have := pendList_sub st ts n h; exact ⟨Or.inl this.1, this.2⟩
    · have := pendItems_sub st rest n h; exact ⟨Or.inr this.1, this.2⟩
theorem pendList_sub (st : St) : (ts : List T) → ∀ n ∈ pendList st ts,
    n ∈ subtermsList ts ∧ n.named = true
  | [], n, h => by simp [pendList] at h
  | t :: ts, n, h => by
    simp only [pendList, List.mem_append] at h
    simp only [subtermsList, List.mem_append]
    rcases h with h | h
    · have := pendT_sub st t n h; exact ⟨Or.inl this.1, this.2⟩
    · have := pendList_sub st ts n h; exact ⟨Or.inr this.1, this.2⟩
end

mutual
theorem subterms_trans : (t : T) → ∀ n ∈ subterms t, ∀ c ∈ subterms n, c ∈ subterms t
  | .node cls id items, n, hn, c, hc => by
    rw [subterms_node] at hn ⊢
    rcases List.mem_append.mp hn with h | h
    · exact List.mem_append_left _ (subtermsItems_trans items n h c hc)
    · simp only [List.mem_singleton] at h; subst h
      rw [subterms_node] at hc; exact hc
theorem subtermsItems_trans : (items : List Item) → ∀ n ∈ subtermsItems items, ∀ c ∈ subterms n,
    c ∈ subtermsItems items
  | [], n, hn, _, _ => by simp [subtermsItems] at hn
  | .data _ _ :: rest, n, hn, c, hc => by
    simp only [subtermsItems] at hn ⊢
    exact subtermsItems_trans rest n hn c hc
  | .child _ t :: rest, n, hn, c, hc => by
    simp only [subtermsItems, List.mem_append] at hn ⊢
    rcases hn with h | h
    · exact Or.inl (subterms_trans t n h c hc)
    · exact Or.inr (subtermsItems_trans rest n h c hc)
  | .children _ ts :: rest, n, hn, c, hc => by
    simp only [subtermsItems, List.mem_append] at hn ⊢
    rcases hn with h | h
    · exact Or.inl (subtermsList_trans ts n h c hc)
    · exact Or.inr (subtermsItems_trans rest n h c hc)
theorem subtermsList_trans : (ts : List T) → ∀ n ∈ subtermsList ts, ∀ c ∈ subterms n, c ∈ subtermsList ts
  | [], n, hn, _, _ => by simp [subtermsList] at hn
  | t :: ts, n, hn, c, hc => by
    simp only [subtermsList, List.mem_append] at hn ⊢
    rcases hn with h | h
    · exact Or.inl (subterms_trans t n h c hc)
    · exact Or.inr (subtermsList_trans ts n h c hc)
end

/-! ### strict sub-terms are smaller -/

mutual
theorem depth_subterms : (t : T) → ∀ c ∈ subterms t, depth c ≤ depth t
  | .node cls id items, c, hc => by
    rw [subterms_node] at hc
    rcases List.mem_append.mp hc with h | h
    · have := depth_subtermsItems items c h
      rw [depth_node]; omega
    · simp only [List.mem_singleton] at h; subst h; exact Nat.le_refl _
theorem depth_subtermsItems : (items : List Item) → ∀ c ∈ subtermsItems items, depth c ≤ depthItems items
  | [], c, hc => by simp [subtermsItems] at hc
  | .data _ _ :: rest, c, hc => by
    simp only [subtermsItems] at hc
    simpa only [depthItems] using depth_subtermsItems rest c hc
  | .child _ t :: rest, c, hc => by
    simp only [subtermsItems, List.mem_append] at hc
    simp only [depthItems]
    rcases hc with h | h
    · have := depth_subterms t c h; omega
    · have := depth_subtermsItems rest c h; omega
  | .children _ ts :: rest, c, hc => by
    simp only [subtermsItems, List.mem_append] at hc
    simp only [depthItems]
    rcases hc with h | h
    · have := depth_subtermsList ts c h; omega
    · have := depth_subtermsItems rest c h; omega
theorem depth_subtermsList : (ts : List T) → ∀ c ∈ subtermsList ts, depth c ≤ depthList ts
  | [], c, hc => by simp [subtermsList] at hc
  | t :: ts, c, hc => by
    simp only [subtermsList, List.mem_append] at hc
    simp only [depthList]
    rcases hc with h | h
    · have := depth_subterms t c h; omega
    · have := depth_subtermsList ts c h; omega
end

theorem strict_ne (t : T) : ∀ s ∈ subtermsItems t.items, s ≠ t := by
  cases t with
  | node cls id items =>
    intro s hs e
    have := depth_subtermsItems items s hs
    rw [e, depth_node] at this; omega

/-- all nodes of the forest -/
def Univ (F : List T) : List T := F.flatMap subterms

theorem mem_univ_of_root {F : List T} {r : T} (h : r ∈ F) {c : T} (hc : c ∈ subterms r) : c ∈ Univ F :=
  List.mem_flatMap.mpr ⟨r, h, hc⟩

theorem mem_namedSub_flat {F : List T} {a : T} : a ∈ F.flatMap namedSub ↔ a ∈ Univ F ∧ a.named = true := by
  simp only [Univ, List.mem_flatMap, namedSub, List.mem_filter]
  constructor
  · rintro ⟨r, hr, ha, hn⟩; exact ⟨⟨r, hr, ha⟩, hn⟩
  · rintro ⟨⟨r, hr, ha⟩, hn⟩; exact ⟨r, hr, ha, hn⟩

theorem uniq {F : List T} (hu : UniqueIds F) {a b : T} (ha : a ∈ Univ F) (hb : b ∈ Univ F) {i : Id}
    (hai : a.id = some i) (hbi : b.id = some i) : a = b := by
  apply hu a (mem_namedSub_flat.mpr ⟨ha, by simp [T.named, hai]⟩) b
    (mem_namedSub_flat.mpr ⟨hb, by simp [T.named, hbi]⟩)
  rw [hai, hbi]

/-! ### the transaction dictionary -/

theorem ins_named {txn : Txn} {n : T} {i : Id} (h : n.id = some i) : ins txn n = put i (body n, n) txn := by
  simp only [ins, h]

theorem fold_ins_lookup : ∀ (L : List T) (txn : Txn) (j : Id) (d : J) (n : T),
    lookup j (L.foldl ins txn) = some (d, n) →
    lookup j txn = some (d, n) ∨ (n ∈ L ∧ n.id = some j ∧ d = body n)
  | [], txn, j, d, n, h => Or.inl h
  | m :: L, txn, j, d, n, h => by
    simp only [List.foldl_cons] at h
    rcases fold_ins_lookup L (ins txn m) j d n h with h' | h'
    · cases hm : m.id with
      | none => simp only [ins, hm] at h'; exact Or.inl h'
      | some i =>
        rw [ins_named hm, lookup_put] at h'
        by_cases hji : j = i
        · simp only [hji, if_true, Option.some.injEq, Prod.mk.injEq] at h'
          right; refine ⟨?_, ?_, ?_⟩
          · rw [← h'.2]; exact List.mem_cons_self
          · rw [← h'.2, hji]; exact hm
          · rw [← h'.1, ← h'.2]
        · simp only [hji, if_false] at h'; exact Or.inl h'
    · exact Or.inr ⟨List.mem_cons_of_mem _ h'.1, h'.2⟩

theorem hasKey_ins_mono {txn : Txn} {n : T} {j : Id} (h : hasKey j txn = true) : hasKey j (ins txn n) = true := by
  cases hn : n.id with
  | none => simpa only [ins, hn] using h
  | some i => rw [ins_named hn, hasKey_put]; simp [h]

theorem fold_ins_has_mono : ∀ (L : List T) (txn : Txn) (j : Id), hasKey j txn = true →
    hasKey j (L.foldl ins txn) = true
  | [], _, _, h => h
  | m :: L, txn, j, h => fold_ins_has_mono L (ins txn m) j (hasKey_ins_mono h)

theorem fold_ins_has : ∀ (L : List T) (txn : Txn), ∀ n ∈ L, ∀ i, n.id = some i →
    hasKey i (L.foldl ins txn) = true
  | [], _, n, h, _, _ => by simp at h
  | m :: L, txn, n, h, i, hi => by
    simp only [List.foldl_cons]
    rcases List.mem_cons.mp h with e | e
    · subst e
      apply fold_ins_has_mono
      rw [ins_named hi, hasKey_put]; simp
    · exact fold_ins_has L (ins txn m) n e i hi

theorem fold_ins_nodup : ∀ (L : List T) (txn : Txn), (txn.map Prod.fst).Nodup →
    ((L.foldl ins txn).map Prod.fst).Nodup
  | [], _, h => h
  | m :: L, txn, h => by
    simp only [List.foldl_cons]
    apply fold_ins_nodup L
    cases hm : m.id with
    | none => simpa only [ins, hm] using h
    | some i => rw [ins_named hm]; exact nodup_keys_put i _ h


/-! ### invariants of an open transaction -/

/-- every entry of the transaction is `(document of n, n)` for a node `n` of the forest with that identifier -/
def TxnVal (F : List T) (txn : Txn) : Prop :=
  ∀ j d m, lookup j txn = some (d, m) → m ∈ Univ F ∧ m.id = some j ∧ d = body m

/-- with a node the transaction holds everything that encoding the node hands to the storage -/
def TxnClosed (st : St) (txn : Txn) : Prop :=
  ∀ j d m, lookup j txn = some (d, m) → ∀ n ∈ pendItems st m.items, ∀ k, n.id = some k → hasKey k txn = true

theorem fold_ins_id : ∀ (L : List T) (txn : Txn), (∀ n ∈ L, ins txn n = txn) → L.foldl ins txn = txn
  | [], _, _ => rfl
  | n :: L, txn, h => by
    simp only [List.foldl_cons, h n List.mem_cons_self]
    exact fold_ins_id L txn (fun m hm => h m (List.mem_cons_of_mem _ hm))

theorem fold_val {F : List T} {txn : Txn} {L : List T} (hv : TxnVal F txn) (hL : ∀ n ∈ L, n ∈ Univ F) :
    TxnVal F (L.foldl ins txn) := by
  intro j d m h
  rcases fold_ins_lookup L txn j d m h with h' | h'
  · exact hv j d m h'
  · exact ⟨hL m h'.1, h'.2.1, h'.2.2⟩

theorem fold_closed {F : List T} (hu : UniqueIds F) {st : St} {txn : Txn} {L : List T} (hv : TxnVal F txn)
    (hc : TxnClosed st txn) (hL : ∀ n ∈ L, n ∈ Univ F)
    (hLc : ∀ n ∈ L, ∀ m ∈ pendItems st n.items, m ∈ L) : TxnClosed st (L.foldl ins txn) := by
  intro j d m h n hn k hk
  rcases fold_ins_lookup L txn j d m h with h' | h'
  · exact fold_ins_has_mono L txn k (hc j d m h' n hn k hk)
  · exact fold_ins_has L txn n (hLc m h'.1 n hn) k hk

mutual
theorem pendT_closed (st : St) : (t : T) → ∀ n ∈ pendT st t, ∀ m ∈ pendItems st n.items, m ∈ pendT st t
  | .node cls id items, n, hn, m, hm => by
    cases id with
    | none =>
      simp only [pendT] at hn ⊢
      exact pendItems_closed st items n hn m hm
    | some i =>
      by_cases hs : st.has i = true
      · simp [pendT, hs] at hn
      · have hs' : st.has i = false := by simpa using hs
        simp only [pendT, hs', Bool.false_eq_true, if_false, List.mem_append, List.mem_singleton] at hn ⊢
        rcases hn with h | h
        · exact Or.inl (pendItems_closed st items n h m hm)
        · subst h; exact Or.inl hm
theorem pendItems_closed (st : St) : (items : List Item) → ∀ n ∈ pendItems st items,
    ∀ m ∈ pendItems st n.items, m ∈ pendItems st items
  | [], n, hn, _, _ => by simp [pendItems] at hn
  | .data _ _ :: rest, n, hn, m, hm => by
    simp only [pendItems] at hn ⊢
    exact pendItems_closed st rest n hn m hm
  | .child _ t :: rest, n, hn, m, hm => by
    simp only [pendItems, List.mem_append] at hn ⊢
    rcases hn with h | h
    · exact Or.inl (pendT_closed st t n h m hm)
    · exact Or.inr (pendItems_closed st rest n h m hm)
  | .children _ ts :: rest, n, hn, m, hm => by
    simp only [pendItems, List.mem_append] at hn ⊢
    rcases hn with h | h
    · exact Or.inl (pendList_closed st ts n h m hm)
    · exact Or.inr (pendItems_closed st rest n h m hm)
theorem pendList_closed (st : St) : (ts : List T) → ∀ n ∈ pendList st ts,
    ∀ m ∈ pendItems st n.items, m ∈ pendList st ts
  | [], n, hn, _, _ => by simp [pendList] at hn
  | t :: ts, n, hn, m, hm => by
    simp only [pendList, List.mem_append] at hn ⊢
    rcases hn with h | h
    · exact Or.inl (pendT_closed st t n h m hm)
    · exact Or.inr (pendList_closed st ts n h m hm)
end

end QP.C10
