import QP.Proofs.C05Compile
/-!
# Property theorems for C05 — compilation options never change what is played

Full statement of the property (for the record):

  `collapse_invariant` — for every template tree `pt`, context and `to_single_waveform` sets `S S'`: duration,
  measurement windows (as multisets) and every sample on `[0, duration)` of `compile pt {ctx with single := S}` and
  of `compile pt {ctx with single := S'}` agree;
  `global_trafo` — `sample (compile pt {ctx with trafo := T}) c t = T applied to (sample (compile pt {ctx with
  trafo := []}))` for every chain `T`.

Both are FALSE of the code as it is (open findings PF-11 and PF-04-junction, `*_counterexample` below), so they
are proved as `_partial` theorems for all trees under the hypothesis `cleanW` (the complement of the two finding
classes, see `QP/Model/C05.lean`) and under output-checkable side conditions:

* `nnI J`   — the DEFAULT program (no collapsing) plays no waveform of negative duration (`FunctionPT` may have
  a negative duration expression; then collapsing really changes what is played);
* `tidyI c I` — in collapsed waveforms the pieces of a sequence have non-negative durations and agree on whether
  they define the channel `c` (vacuous if nothing is collapsed);
* the compilations compared succeed (a collapsed part can fail where the uncollapsed does not, e.g. on pieces
  with different channel sets: `SequenceWaveform.__init__` raises).

The theorems are per channel `c`: `allLeaves (·.channels.contains c)` says that every played waveform defines `c`.
-/
namespace QP.Props.C05
open QP.PT QP.C05

/-! ## own lemmas: `to_waveform` and `new_subprogram` -/

/-- `to_waveform(program)` lasts as long as the program (all trees; repetition counts ≥ 1 as the builder
guarantees) -/
theorem toWaveform_duration (l : Loop) (w : Wf) (h : l.toWaveform = .ok w) (hp : posReps l = true)
    (hl : allLeaves cst l = true) : w.duration = l.duration :=
  (toWaveform_TW l w h hp hl).dur

/-- `to_waveform(program)` samples what the program plays, strictly inside `[0, duration)` -/
theorem toWaveform_sample (l : Loop) (w : Wf) (c : Chan) (h : l.toWaveform = .ok w) (hp : posReps l = true)
    (hl : allLeaves cst l = true) (ht : tidy c w = true) (hc : w.channels.contains c = true)
    (t : Rat) (h0 : 0 ≤ t) (h1 : t < l.duration) : w.sample c t = l.sample c t :=
  ((toWaveform_TW l w h hp hl).rest c ht).2.2 hc t h0 h1

/-- `to_waveform(program)` defines a channel iff every played waveform does -/
theorem toWaveform_channels (l : Loop) (w : Wf) (c : Chan) (h : l.toWaveform = .ok w) (hp : posReps l = true)
    (hl : allLeaves cst l = true) (ht : tidy c w = true) :
    w.channels.contains c = allLeaves (fun x => x.channels.contains c) l :=
  ((toWaveform_TW l w h hp hl).rest c ht).2.1

/-- `new_subprogram`: the windows the collapsed part contributes to ANY parent loop are those of its items -/
theorem windows_flatten (rep : Nat) (meas : List Window) (cs : List Loop) (I0 : List Item) (root : Loop) (w : Wf)
    (hroot : toProgram I0 = some root) (hw : w.duration = root.duration) :
    ((Loop.mk rep none meas cs).applyItems [Item.measure root.windows, Item.node (leaf w)]).windows.Perm
      ((Loop.mk rep none meas cs).applyItems I0).windows := by
  rw [toProgram_eq] at hroot
  have hne : itemsNodes I0 ≠ [] := by
    intro e; simp [e] at hroot
  have he : (itemsNodes I0).isEmpty = false := by simpa using hne
  simp only [he, Bool.false_eq_true, if_false, Option.some.injEq] at hroot
  subst hroot
  rw [applyItems_eq, applyItems_eq, Loop.windows, Loop.windows, bodyDuration_none, bodyDuration_none]
  have hd : Loop.durationList (cs ++ itemsNodes [Item.measure (rootOf I0).windows, Item.node (leaf w)]) =
      Loop.durationList (cs ++ itemsNodes I0) := by
    rw [durationList_append, durationList_append]
    simp only [itemsNodes, Loop.durationList, leaf_duration, hw, rootOf_duration, itemsDur]
    grind
  rw [hd]
  apply repeatWindows_perm
  rw [windowsList_append, windowsList_append]
  simp only [itemsMeas, itemsNodes, Loop.windowsList, leaf_windows, List.map_nil, List.append_nil, rootOf_windows]
  have e1 : List.map (shiftW (Loop.durationList cs)) (itemsWin I0 0) = itemsWin I0 (Loop.durationList cs) :=
    (itemsWin_shift I0 _).symm
  have e2 : (0 : Rat) + Loop.durationList cs = Loop.durationList cs := by grind
  rw [e1, e2]
  simp only [itemsWin, List.append_assoc]
  apply List.Perm.append_left
  apply List.Perm.append_left
  exact List.perm_append_comm

/-! ## the observables of two compilation results -/

/-- `P` plays the chain `T` applied (channel `c`) to what `P'` plays; equal durations and windows -/
def ObsRel (c : Chan) (T : Chain) (P P' : Option Loop) : Prop :=
  match P, P' with
  | none, none => True
  | some P, some P' =>
      P.duration = P'.duration ∧ P.windows.Perm P'.windows ∧
      allLeaves (fun x => x.channels.contains c) P =
        (allLeaves (fun x => x.channels.contains c) P' || Chain.presF T c false) ∧
      (allLeaves (fun x => x.channels.contains c) P = true → ∀ t, 0 ≤ t → t < P.duration →
        some (P.sample c t) = Chain.chanF T c
          (if allLeaves (fun x => x.channels.contains c) P' then some (P'.sample c t) else none))
  | _, _ => False

theorem obsRel_of_rel (c : Chan) (T : Chain) (I I' : List Item) (h : Rel c T I I') :
    ObsRel c T (toProgram I) (toProgram I') := by
  rw [toProgram_eq, toProgram_eq]
  by_cases hn : itemsNodes I = []
  · have hn' := h.empty.mp hn
    simp [hn, hn', ObsRel]
  · have hn' : itemsNodes I' ≠ [] := fun e => hn (h.empty.mpr e)
    have e1 : (itemsNodes I).isEmpty = false := by simpa using hn
    have e2 : (itemsNodes I').isEmpty = false := by simpa using hn'
    simp only [e1, e2, Bool.false_eq_true, if_false, ObsRel]
    have p1 : allLeaves (fun x => x.channels.contains c) (rootOf I) = allPres c I := by
      simp only [rootOf, allLeaves_none, allPres]
    have p2 : allLeaves (fun x => x.channels.contains c) (rootOf I') = allPres c I' := by
      simp only [rootOf, allLeaves_none, allPres]
    refine ⟨by rw [rootOf_duration, rootOf_duration, h.dur], by rw [rootOf_windows, rootOf_windows]; exact h.win,
      by rw [p1, p2, h.pres], ?_⟩
    intro hA t h0 ht
    rw [p1] at hA
    rw [rootOf_duration] at ht
    rw [p2, rootOf_sample I c t h0 ht, rootOf_sample I' c t h0 (by rw [← h.dur]; exact ht)]
    exact h.samp hA t h0 ht

/-! ## the property theorems, for ALL template trees -/

/-- Collapsing any two sets `S`, `S'` of sub-templates into single waveforms: same duration, same measurement
windows (as multisets), the same channels and the same samples strictly inside `[0, duration)` — for every tree
outside the classes of PF-11 / PF-04-junction (`cleanW`).  The global transformation of the context (`ctx.trafo`,
e.g. of an enclosing arithmetic template) is arbitrary. -/
theorem collapse_invariant_partial (pt : PT) (ctx : Ctx) (S S' : List String) (J I I' : List Item) (c : Chan)
    (hJ : compile pt { ctx with single := [] } = .ok J) (hnn : nnI J)
    (hI : compile pt { ctx with single := S } = .ok I) (hI' : compile pt { ctx with single := S' } = .ok I')
    (hclean : cleanW (S ++ S') (!ctx.trafo.isEmpty) false pt = true)
    (htI : tidyI c I) (htI' : tidyI c I') :
    ObsRel c [] (toProgram I) (toProgram I') := by
  apply obsRel_of_rel
  have e : ∀ S0 : List String, ({ ctx with trafo := ctx.trafo ++ [], single := S0 } : Ctx) = { ctx with single := S0 } := by
    intro S0; simp
  refine (W_all pt).2 ctx ctx.trafo J hJ hnn ctx.trafo [] S S' (S ++ S') I I' c (!ctx.trafo.isEmpty) false
    (by rw [e]; exact hI) hI' (fun x hx => by simp_all) (fun x hx => by simp_all) ?_ (fun h => absurd rfl h) hclean htI htI'
  intro hne
  cases ht : ctx.trafo with
  | nil => exact absurd ht hne
  | cons a b => rfl

/-- A global transformation `T` (offset / scaling / parallel-channel chain) yields exactly `T` applied, channel by
channel and pointwise, to the untransformed output; duration and windows are unchanged — for every tree and every
`to_single_waveform` set outside the finding classes. -/
theorem global_trafo_partial (pt : PT) (ctx : Ctx) (T : Chain) (S : List String) (J I I' : List Item) (c : Chan)
    (hJ : compile pt { ctx with trafo := [], single := [] } = .ok J) (hnn : nnI J)
    (hI : compile pt { ctx with trafo := T, single := S } = .ok I)
    (hI' : compile pt { ctx with trafo := [], single := S } = .ok I')
    (hclean : cleanW S false (!T.isEmpty) pt = true)
    (htI : tidyI c I) (htI' : tidyI c I') :
    ObsRel c T (toProgram I) (toProgram I') := by
  apply obsRel_of_rel
  refine (W_all pt).2 ctx [] J hJ hnn [] T S S S I I' c false (!T.isEmpty)
    hI hI' (fun x hx => hx) (fun x hx => hx) (fun h => absurd rfl h) ?_ hclean htI htI'
  intro hne
  cases ht : T with
  | nil => exact absurd ht hne
  | cons a b => rfl

/-- what every compilation result looks like (all trees, all option sets): no empty loops, repetition counts ≥ 1,
leaf waveforms of the shapes the lemmas above need, no negative duration -/
theorem compile_invariants (pt : PT) (ctx : Ctx) (T : Chain) (S : List String) (J I : List Item)
    (hJ : compile pt { ctx with single := [] } = .ok J) (hnn : nnI J)
    (hI : compile pt { ctx with trafo := T, single := S } = .ok I) : Inv I :=
  (W_all pt).1 ctx ctx.trafo J hJ hnn T S I hI

/-! ## non-vacuity -/

/-- the hypotheses are satisfiable: a sequence of two constants, the first one collapsed -/
example : cleanW (["a"] ++ []) false false
    (.seq none [.const (some "a") (.lit 1) [("A", .lit 2)] [], .const none (.lit 1) [("A", .lit 3)] []] [] []) = true := by
  decide

end QP.Props.C05
