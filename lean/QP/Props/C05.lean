import QP.Proofs.C05Compile
import QP.Proofs.C05Counter
import QP.Proofs.C05Helpers
/-!
# Property theorems for C05 — compilation options never change what is played

Full statement of the property (for the record):

  `collapse_invariant` — for every template tree `pt`, context and `to_single_waveform` sets `S S'`: duration,
  measurement windows (as multisets) and every sample on `[0, duration)` of `compile pt {ctx with single := S}` and
  of `compile pt {ctx with single := S'}` agree;
  `global_trafo` — `sample (compile pt {ctx with trafo := T}) c t = T applied to (sample (compile pt {ctx with
  trafo := []}))` for every chain `T`.

Both are FALSE of the code as it is (open findings PF-11 and PF-04-junction, `*_counterexample` below), so they
are proved as `_partial` theorems for all trees under the hypothesis `cleanW` (the complement of the two finding
classes, see `QP/Model/C05.lean`) and under output-checkable side conditions:

* `nnI J`   — the DEFAULT program (no collapsing) plays no waveform of negative duration (`FunctionPT` may have
  a negative duration expression; then collapsing really changes what is played);
* `tidyI c I` — in collapsed waveforms the pieces of a sequence have non-negative durations and agree on whether
  they define the channel `c` (vacuous if nothing is collapsed);
* the compilations compared succeed (a collapsed part can fail where the uncollapsed does not, e.g. on pieces
  with different channel sets: `SequenceWaveform.__init__` raises).

The theorems are per channel `c`: `allLeaves (·.channels.contains c)` says that every played waveform defines `c`.
-/
namespace QP.Props.C05
open QP.PT QP.C05

/-! ## own lemmas: `to_waveform` and `new_subprogram` -/

/-- `to_waveform(program)` lasts as long as the program (all trees; repetition counts ≥ 1 as the builder
guarantees) -/
theorem toWaveform_duration (l : Loop) (w : Wf) (h : l.toWaveform = .ok w) (hp : posReps l = true)
    (hl : allLeaves cst l = true) : w.duration = l.duration :=
  (toWaveform_TW l w h hp hl).dur

/-- `to_waveform(program)` samples what the program plays, strictly inside `[0, duration)` -/
theorem toWaveform_sample (l : Loop) (w : Wf) (c : Chan) (h : l.toWaveform = .ok w) (hp : posReps l = true)
    (hl : allLeaves cst l = true) (ht : tidy c w = true) (hc : w.channels.contains c = true)
    (t : Rat) (h0 : 0 ≤ t) (h1 : t < l.duration) : w.sample c t = l.sample c t :=
  ((toWaveform_TW l w h hp hl).rest c ht).2.2 hc t h0 h1

/-- `to_waveform(program)` defines a channel iff every played waveform does -/
theorem toWaveform_channels (l : Loop) (w : Wf) (c : Chan) (h : l.toWaveform = .ok w) (hp : posReps l = true)
    (hl : allLeaves cst l = true) (ht : tidy c w = true) :
    w.channels.contains c = allLeaves (fun x => x.channels.contains c) l :=
  ((toWaveform_TW l w h hp hl).rest c ht).2.1

/-- `new_subprogram`: the windows the collapsed part contributes to ANY parent loop are those of its items -/
theorem windows_flatten (rep : Nat) (meas : List Window) (cs : List Loop) (I0 : List Item) (root : Loop) (w : Wf)
    (hroot : toProgram I0 = some root) (hw : w.duration = root.duration) :
    ((Loop.mk rep none meas cs).applyItems [Item.measure root.windows, Item.node (leaf w)]).windows.Perm
      ((Loop.mk rep none meas cs).applyItems I0).windows := by
  rw [toProgram_eq] at hroot
  have hne : itemsNodes I0 ≠ [] := by
    intro e; simp [e] at hroot
  have he : (itemsNodes I0).isEmpty = false := by simpa using hne
  simp only [he, Bool.false_eq_true, if_false, Option.some.injEq] at hroot
  subst hroot
  rw [applyItems_eqC, applyItems_eqC, Loop.windows, Loop.windows, bodyDuration_none, bodyDuration_none]
  have hd : Loop.durationList (cs ++ itemsNodes [Item.measure (rootOf I0).windows, Item.node (leaf w)]) =
      Loop.durationList (cs ++ itemsNodes I0) := by
    rw [durationList_append, durationList_append]
    simp only [itemsNodes, Loop.durationList, leaf_duration, hw, rootOf_duration, itemsDur]
    grind
  rw [hd]
  apply repeatWindows_perm
  rw [windowsList_append, windowsList_append]
  simp only [itemsMeas, itemsNodes, Loop.windowsList, leaf_windows, List.map_nil, List.append_nil, rootOf_windows]
  have e1 : List.map (shiftW (Loop.durationList cs)) (itemsWin I0 0) = itemsWin I0 (Loop.durationList cs) :=
    (itemsWin_shift I0 _).symm
  have e2 : (0 : Rat) + Loop.durationList cs = Loop.durationList cs := by grind
  rw [e1, e2]
  simp only [itemsWin, List.append_assoc]
  apply List.Perm.append_left
  apply List.Perm.append_left
  exact List.perm_append_comm

/-! ## the observables of two compilation results -/

/-- `P` plays the chain `T` applied (channel `c`) to what `P'` plays; equal durations and windows -/
def ObsRel (c : Chan) (T : Chain) (P P' : Option Loop) : Prop :=
  match P, P' with
  | none, none => True
  | some P, some P' =>
      P.duration = P'.duration ∧ P.windows.Perm P'.windows ∧
      allLeaves (fun x => x.channels.contains c) P =
        (allLeaves (fun x => x.channels.contains c) P' || Chain.presF T c false) ∧
      (allLeaves (fun x => x.channels.contains c) P = true → ∀ t, 0 ≤ t → t < P.duration →
        some (P.sample c t) = Chain.chanF T c
          (if allLeaves (fun x => x.channels.contains c) P' then some (P'.sample c t) else none))
  | _, _ => False

theorem obsRel_of_rel (c : Chan) (T : Chain) (I I' : List Item) (h : Rel c T I I') :
    ObsRel c T (toProgram I) (toProgram I') := by
  rw [toProgram_eq, toProgram_eq]
  by_cases hn : itemsNodes I = []
  · have hn' := h.empty.mp hn
    simp [hn, hn', ObsRel]
  · have hn' : itemsNodes I' ≠ [] := fun e => hn (h.empty.mpr e)
    have e1 : (itemsNodes I).isEmpty = false := by simpa using hn
    have e2 : (itemsNodes I').isEmpty = false := by simpa using hn'
    simp only [e1, e2, Bool.false_eq_true, if_false, ObsRel]
    have p1 : allLeaves (fun x => x.channels.contains c) (rootOf I) = allPres c I := by
      simp only [rootOf, allLeaves_none, allPres]
    have p2 : allLeaves (fun x => x.channels.contains c) (rootOf I') = allPres c I' := by
      simp only [rootOf, allLeaves_none, allPres]
    refine ⟨by rw [rootOf_duration, rootOf_duration, h.dur], by rw [rootOf_windows, rootOf_windows]; exact h.win,
      by rw [p1, p2, h.pres], ?_⟩
    intro hA t h0 ht
    rw [p1] at hA
    rw [rootOf_duration] at ht
    rw [p2, rootOf_sample I c t h0 ht, rootOf_sample I' c t h0 (by rw [← h.dur]; exact ht)]
    exact h.samp hA t h0 ht

/-! ## the property theorems, for ALL template trees -/

/-- Collapsing any two sets `S`, `S'` of sub-templates into single waveforms: same duration, same measurement
windows (as multisets), the same channels and the same samples strictly inside `[0, duration)` — for every tree
outside the classes of PF-11 / PF-04-junction (`cleanW`).  The global transformation of the context (`ctx.trafo`,
e.g. of an enclosing arithmetic template) is arbitrary. -/
theorem collapse_invariant_partial (pt : PT) (ctx : Ctx) (S S' : List String) (J I I' : List Item) (c : Chan)
    (hJ : compile pt { ctx with single := [] } = .ok J) (hnn : nnI J)
    (hI : compile pt { ctx with single := S } = .ok I) (hI' : compile pt { ctx with single := S' } = .ok I')
    (hclean : cleanW (S ++ S') (!ctx.trafo.isEmpty) false pt = true)
    (htI : tidyI c I) (htI' : tidyI c I') :
    ObsRel c [] (toProgram I) (toProgram I') := by
  apply obsRel_of_rel
  have e : ∀ S0 : List String, ({ ctx with trafo := ctx.trafo ++ [], single := S0 } : Ctx) = { ctx with single := S0 } := by
    intro S0; simp
  refine (W_all pt).2 ctx ctx.trafo J hJ hnn ctx.trafo [] S S' (S ++ S') I I' c (!ctx.trafo.isEmpty) false
    (by rw [e]; exact hI) hI' (fun x hx => by simp_all) (fun x hx => by simp_all) ?_ (fun h => absurd rfl h) hclean htI htI'
  intro hne
  cases ht : ctx.trafo with
  | nil => exact absurd ht hne
  | cons a b => rfl

/-- A global transformation `T` (offset / scaling / parallel-channel chain) yields exactly `T` applied, channel by
channel and pointwise, to the untransformed output; duration and windows are unchanged — for every tree and every
`to_single_waveform` set outside the finding classes. -/
theorem global_trafo_partial (pt : PT) (ctx : Ctx) (T : Chain) (S : List String) (J I I' : List Item) (c : Chan)
    (hJ : compile pt { ctx with trafo := [], single := [] } = .ok J) (hnn : nnI J)
    (hI : compile pt { ctx with trafo := T, single := S } = .ok I)
    (hI' : compile pt { ctx with trafo := [], single := S } = .ok I')
    (hclean : cleanW S false (!T.isEmpty) pt = true)
    (htI : tidyI c I) (htI' : tidyI c I') :
    ObsRel c T (toProgram I) (toProgram I') := by
  apply obsRel_of_rel
  refine (W_all pt).2 ctx [] J hJ hnn [] T S S S I I' c false (!T.isEmpty)
    hI hI' (fun x hx => hx) (fun x hx => hx) (fun h => absurd rfl h) ?_ hclean htI htI'
  intro hne
  cases ht : T with
  | nil => exact absurd ht hne
  | cons a b => rfl

/-- what every compilation result looks like (all trees, all option sets): no empty loops, repetition counts ≥ 1,
leaf waveforms of the shapes the lemmas above need, no negative duration -/
theorem compile_invariants (pt : PT) (ctx : Ctx) (T : Chain) (S : List String) (J I : List Item)
    (hJ : compile pt { ctx with single := [] } = .ok J) (hnn : nnI J)
    (hI : compile pt { ctx with trafo := T, single := S } = .ok I) : Inv I :=
  (W_all pt).1 ctx ctx.trafo J hJ hnn T S I hI

/-! ## the full statements are false of the code: the open findings on the model -/

/-- PF-11: `2 * ParallelChannelPT(FunctionPT('t', 2, 'A'), {'B': 1}, identifier='pc')` — the one played waveform
samples `B = 1` with the default options and `B = 2` with `to_single_waveform = {'pc'}` -/
theorem collapse_invariant_counterexample_pf11 (t : Rat) :
    (∃ I w, compile pf11X (pf11Ctx []) = .ok I ∧ leafWfs I = [w] ∧ pv w "B" t = some (some 1)) ∧
    (∃ I w, compile pf11X (pf11Ctx ["pc"]) = .ok I ∧ leafWfs I = [w] ∧ pv w "B" t = some (some 2)) :=
  pf11_model t

/-- PF-04-junction: `TimeReversalPT(SequencePT(SequencePT(a, b, identifier='s'), b))` at program time 2 plays
2 (the end value of `a`) with the default options and 5 (the start value of `b`) with `to_single_waveform = {'s'}` -/
theorem collapse_invariant_counterexample_pf04_junction :
    (∃ I a b c, compile j04X (j04Ctx []) = .ok I ∧ revLeaves I = [a, b, c] ∧ a.duration = 1 ∧ b.duration = 1 ∧
      c.sample "A" 0 = some 2) ∧
    (∃ I a b, compile j04X (j04Ctx ["s"]) = .ok I ∧ revLeaves I = [a, b] ∧ a.duration = 1 ∧
      b.sample "A" 1 = some 5) :=
  pf04_junction_model

/-! ## convenience constructors -/

/-- `SequencePT.concatenate(*pts, **kw)` / `@` / `with_appended`: the program of the helper's template has the
same children and the same measurement windows as the program of the explicit `SequencePT(*pts, **kw)`, hence
the same observables — for every list of templates, every context, transformation and `to_single_waveform` set. -/
theorem concatenate_program (pts : List PT) (id : Option String) (meas : List MeasDecl) (cons : List Expr)
    (ctx : Ctx) (T0 T : Chain) (S : List String) (J Ie If : List Item) (c : Chan)
    (hJ : internal (concatenateExplicit pts id meas cons) { ctx with trafo := T0, single := [] } = .ok J) (hnn : nnI J)
    (hIe : internal (concatenateExplicit pts id meas cons) { ctx with trafo := T, single := S } = .ok Ie)
    (hIf : internal (concatenate pts id meas cons) { ctx with trafo := T, single := S } = .ok If) :
    ObsRel c [] (toProgram If) (toProgram Ie) := by
  obtain ⟨h1, h2⟩ := concatenate_sameObs pts id meas cons ctx T0 T S J Ie If hJ hnn hIe hIf
  exact obsRel_of_rel c [] If Ie (rel_congr c [] Ie If Ie Ie h1.symm (h2 0).symm rfl rfl (rel_refl c Ie))

/-- helpers that only wrap are the explicit nesting (`with_repetition` on anything but an unnamed repetition
without measurements, `with_parallel_channels` on anything but an unnamed ParallelChannelPT, …) -/
theorem withRepetition_plain_eq (pt : PT) (count : Expr) (h : ∀ body c cons, pt ≠ .rep none body c [] cons) :
    withRepetition pt count = withRepetitionExplicit pt count := withRepetition_plain pt count h

theorem withParallelChannels_plain_eq (pt : PT) (values : List (Chan × Expr))
    (h : ∀ body over, pt ≠ .parallel none body over) :
    withParallelChannels pt values = withParallelChannelsExplicit pt values := withParallelChannels_plain pt values h

theorem withTimeReversal_plain_eq (pt : PT) (h : ∀ inner, pt ≠ .timeReversal none inner) :
    withTimeReversal pt = withTimeReversalExplicit pt := withTimeReversal_plain pt h

theorem withMapping_plain_eq (pt : PT) (pm : List (String × Expr)) (mm : List (MName × MName))
    (cm : List (Chan × Option Chan)) (h : ∀ body pm' mm' cm' cons, pt ≠ .mapping none body pm' mm' cm' cons) :
    withMapping pt pm mm cm = some (withMappingExplicit pt pm mm cm) := withMapping_plain pt pm mm cm h

theorem withIteration_eq (pt : PT) (idx : String) (a b s : Expr) :
    withIteration pt idx a b s = .forLoop none pt idx a b s [] [] := rfl

theorem padTo_kwargs_eq (pt : PT) (padDur : Expr) (finals : List (Chan × Expr)) (isZero : Bool)
    (kw : Option String × List MeasDecl × List Expr) :
    padTo pt padDur finals isZero (some kw) = padToExplicit pt padDur finals isZero (some kw) := rfl

/-- `pad_to` without keyword arguments is `self @ ConstantPT(pad, final_values)`, i.e. `concatenate` -/
theorem padTo_concat (pt : PT) (padDur : Expr) (finals : List (Chan × Expr)) :
    padTo pt padDur finals false none = concatenate [pt, .const none padDur finals []] none [] [] := rfl

/-- `RepetitionPT(body, c, constraints).with_repetition(k)` — the merged template with count
`Max(0, c) * Max(0, k)` (PF-C05d repaired) — denotes exactly the pulse of the explicit nesting whenever both
counts evaluate to integers of ANY sign and the constraints hold (`_partial`: with violated constraints and
`k ≤ 0` the explicit nesting does not look at them; a non-integer count is rejected by the explicit nesting only) -/
theorem withRepetition_merge_denote_partial (body : PT) (c k : Expr) (cons : List Expr) (σ : Scope)
    (mm : List (MName × Option MName)) (cm : List (Chan × Option Chan)) (n m : Int)
    (hcons : validateCons cons σ.look = .ok ())
    (hc : σ.eval c = .ok (n : Rat)) (hk : σ.eval k = .ok (m : Rat)) :
    denote (withRepetition (.rep none body c [] cons) k) σ mm cm =
      denote (withRepetitionExplicit (.rep none body c [] cons) k) σ mm cm :=
  withRepetition_merge_denote body c k cons σ mm cm n m hcons hc hk

/-- regression of PF-C05d: two negative counts (n = -2, k = -3) — the merged template and the explicit nesting
both denote the empty pulse (before the repair the merged count `n * k = 6` played the body six times) -/
theorem withRepetition_merge_negative :
    (match denote (withRepetition (.rep none (.const none (.lit 1) [("A", .lit 1)] []) (.var "n") [] []) (.var "k"))
        (.dict [("n", -2), ("k", -3)]) [] [("A", some "A")] with
      | .ok p => some p.dur | .error _ => none) = some 0 ∧
    (match denote (withRepetitionExplicit (.rep none (.const none (.lit 1) [("A", .lit 1)] []) (.var "n") [] []) (.var "k"))
        (.dict [("n", -2), ("k", -3)]) [] [("A", some "A")] with
      | .ok p => some p.dur | .error _ => none) = some 0 := by
  decide +kernel

/-! ## non-vacuity -/

/-- the hypotheses are satisfiable: a sequence of two constants, the first one collapsed -/
example : cleanW (["a"] ++ []) false false
    (.seq none [.const (some "a") (.lit 1) [("A", .lit 2)] [], .const none (.lit 1) [("A", .lit 3)] []] [] []) = true := by
  decide

end QP.Props.C05
