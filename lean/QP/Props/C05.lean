import QP.Model.C05
/-! Property theorems for C05 (compilation options never change what is played). -/
namespace QP.Props.C05
open QP.PT QP.C05

/-- placeholder while the development is in progress: an unnamed reversal is undone by the helper -/
theorem withTimeReversal_unnamed (p : PT) : withTimeReversal (.timeReversal none p) = p := rfl

end QP.Props.C05
