import QP.Proofs.C20Sample
import QP.Proofs.C20Windows
import QP.Proofs.C20Average
/-!
# Property theorems for C20 — hardware discretisation is faithful

All statements are about the executable model `QP.C20` (file `QP/Model/C20.lean`) and hold for every
input: there is no bound on array lengths, resolutions (beyond the 16 bits of the output type),
window counts or values.  `shrinkNumpy` is the numpy variant with `fixes/PF-20.diff` applied;
`averageNumba` is the variant of the pinned tree (PF-23 is an open finding).
-/
namespace QP.Props.C20
open QP.C20

/-! ## voltage → DAC code -/

/-- converting voltages to DAC codes is monotone -/
theorem code_monotone (amp off : Rat) (r : Nat) (v w : Rat) (ha : 0 < amp) (hr : r ≤ 16)
    (hv : rabs (v - off) ≤ amp) (hw : rabs (w - off) ≤ amp) (h : v ≤ w) :
    codeOf amp off r v ≤ codeOf amp off r w := by
  rw [rabs_le_iff] at hv hw
  rw [codeOf_eq ha hr (by linarith [hv.1]) (by linarith [hv.2]),
      codeOf_eq ha hr (by linarith [hw.1]) (by linarith [hw.2])]
  exact rne_mono (scaled_mono ha r h)

/-- the range ends map to the lowest and to the highest code -/
theorem code_ends (amp off : Rat) (r : Nat) (ha : 0 < amp) (hr : r ≤ 16) :
    codeOf amp off r (off - amp) = 0 ∧ codeOf amp off r (off + amp) = 2 ^ r - 1 := by
  rw [codeOf_eq ha hr (by linarith) (by linarith), codeOf_eq ha hr (by linarith) (by linarith),
      scaled_low, scaled_high ha, rne_intCast, show (0 : Rat) = ((0 : Int) : Rat) by norm_num, rne_intCast]
  exact ⟨rfl, rfl⟩

/-- every code of an in-range voltage lies in `[0, 2^r - 1]` and is off by at most half a code step:
`|code · step − (v − offset + amplitude)| ≤ step / 2` with `step = 2·amplitude / (2^r − 1)` -/
theorem code_half_step (amp off : Rat) (r : Nat) (v : Rat) (ha : 0 < amp) (hr1 : 1 ≤ r) (hr : r ≤ 16)
    (hv : rabs (v - off) ≤ amp) : CodeSpec amp off r v (codeOf amp off r v) := by
  rw [rabs_le_iff] at hv
  have h1 : off - amp ≤ v := by linarith [hv.1]
  have h2 : v ≤ off + amp := by linarith [hv.2]
  rw [codeOf_eq ha hr h1 h2]
  have ⟨l, u⟩ := rne_scaled_range (off := off) ha r h1 h2
  exact ⟨l, u, half_step ha hr1 v⟩

/-- out-of-range input is rejected by both variants, whatever the resolution, and nothing is converted -/
theorem code_rejects (useNumba : Bool) (amp off : Rat) (r : Int) (vs : List Rat) (ha : 0 < amp)
    (h : ∃ v ∈ vs, amp < rabs (v - off)) :
    voltageToUint16 useNumba amp off r vs = .error .valueError := by
  have hany : vs.any (outOfRange amp off) = true := by
    obtain ⟨v, hv, hlt⟩ := h
    exact List.any_eq_true.mpr ⟨v, hv, by simp [outOfRange, hlt]⟩
  have hne : amp ≠ 0 := ne_of_gt ha
  unfold voltageToUint16
  split
  · rfl
  · cases useNumba
    · simp [codesNumpy, hany]
    · simp [codesNumba, hne, numbaLoop_fst, hany]

/-- in-range input is never rejected: the result is the elementwise conversion -/
theorem code_accepts (useNumba : Bool) (amp off : Rat) (r : Int) (vs : List Rat) (ha : 0 < amp) (hr : 1 ≤ r)
    (h : ∀ v ∈ vs, rabs (v - off) ≤ amp) :
    voltageToUint16 useNumba amp off r vs = .ok (vs.map (codeOf amp off r.toNat)) := by
  have hany : vs.any (outOfRange amp off) = false := by
    rw [List.any_eq_false]
    intro v hv
    simp [outOfRange, not_lt.mpr (h v hv)]
  have hne : amp ≠ 0 := ne_of_gt ha
  unfold voltageToUint16
  rw [if_neg (by omega)]
  cases useNumba
  · simp [codesNumpy, hany, hne]
  · simp [codesNumba, hne, numbaLoop_fst, numbaLoop_snd, hany]

/-- the numpy and the numba implementation of `voltage_to_uint16` return identical results -/
theorem code_variants_agree (amp off : Rat) (r : Nat) (vs : List Rat) (ha : amp ≠ 0) :
    codesNumpy amp off r vs = codesNumba amp off r vs := by
  unfold codesNumpy codesNumba
  simp only [ha, if_false, numbaLoop_fst, numbaLoop_snd]

/-- the whole property of one call, as used by the judge -/
theorem code_spec (amp off : Rat) (r : Nat) (vs : List Rat) (ha : 0 < amp) (hr1 : 1 ≤ r) (hr : r ≤ 16) :
    CodesSpec amp off r vs (codesNumpy amp off r vs) := by
  unfold codesNumpy
  by_cases hany : vs.any (outOfRange amp off) = true
  · rw [if_pos hany]
    obtain ⟨v, hv, ho⟩ := List.any_eq_true.mp hany
    exact ⟨rfl, v, hv, by simpa [outOfRange] using ho⟩
  · rw [if_neg hany, if_neg (ne_of_gt ha)]
    have hin : ∀ v ∈ vs, rabs (v - off) ≤ amp := by
      intro v hv
      have := (List.any_eq_false.mp (by simpa using hany)) v hv
      simpa [outOfRange] using this
    refine ⟨hin, by simp, ?_, ?_⟩
    · intro p hp
      obtain ⟨hm, he⟩ := mem_zip_map _ hp
      rw [he]
      exact code_half_step amp off r p.1 ha hr1 hr (hin p.1 hm)
    · intro p hp q hq hle
      obtain ⟨hpm, hpe⟩ := mem_zip_map _ hp
      obtain ⟨hqm, hqe⟩ := mem_zip_map _ hq
      rw [hpe, hqe]
      exact code_monotone amp off r p.1 q.1 ha hr (hin _ hpm) (hin _ hqm) hle

/-- the executable judge decides exactly the specification -/
theorem codesSpecB_iff (amp off : Rat) (r : Nat) (vs : List Rat) (o : Except Err (List Int)) :
    codesSpecB amp off r vs o = true ↔ CodesSpec amp off r vs o := by
  simp [codesSpecB]

example : codeOf 1 0 2 0 = 2 ∧ codeOf 1 0 2 (1 / 3) = 2 ∧ codeOf (3 / 2) (1 / 2) 4 (-1) = 0 := by decide +kernel

/-! ## sample grid and `_sample_waveforms` -/

/-- `get_sample_times`: one length per waveform, `round(duration · rate)`, positive and within the
tolerance of the exact product; the time array has the length of the longest waveform and its
`k`-th entry is `k / sample_rate` -/
theorem sample_times_spec (sr tol : Rat) (durs ts : List Rat) (ns : List Int)
    (h : sampleTimes sr tol durs = .ok (ts, ns)) :
    ns.length = durs.length ∧
    (∀ p ∈ durs.zip ns, p.2 = rne (p.1 * sr) ∧ 0 < p.2 ∧ rabs (p.1 * sr - (p.2 : Rat)) ≤ tol) ∧
    ts.length = (maxLen ns).toNat ∧ (∀ n ∈ ns, n ≤ maxLen ns) ∧
    ∀ (k : Nat) (hk : k < ts.length), ts[k] = (k : Rat) / sr := by
  obtain ⟨_, hl, rfl⟩ := sampleTimes_ok h
  refine ⟨mapE_length hl, fun p hp => waveformLength_ok (mapE_zip hl p hp), timeArray_length _ _,
    fun n hn => le_maxLen hn, fun k hk => timeArray_getElem _ _ _ hk⟩

/-- Generic driver-side sampling gives, for every played waveform and output,
`(transformation(sampled voltage) − offset) / amplitude` at the times `k / sample_rate`, and markers
as "voltage non-zero": whenever `_sample_waveforms` returns, it returns `sampleSpec`. -/
theorem sample_waveforms_formula (sr tol : Rat) (cfgs : List ChanCfg) (marks : List (Option Chan))
    (wfs : List Wf) (out : List Sampled) (h : sampleWaveforms sr tol cfgs marks wfs = .ok out) :
    out = sampleSpec sr cfgs marks wfs :=
  sampleWaveforms_eq_spec h

/-- and it does return: with a positive sample rate, every waveform an integral number of samples
long (`get_sample_times` succeeds), every requested channel and marker defined by every waveform
and non-zero amplitudes there is no spurious error -/
theorem sample_waveforms_total (sr tol : Rat) (cfgs : List ChanCfg) (marks : List (Option Chan))
    (wfs : List Wf) (ts : List Rat) (ns : List Int) (hsr : 0 < sr) (htol : tol < 1)
    (hst : sampleTimes sr tol (wfs.map (·.dur)) = .ok (ts, ns))
    (hc : ∀ w ∈ wfs, ∀ c ∈ cfgs, ∀ ch, c.chan = some ch → w.defined ch = true ∧ c.amp ≠ 0)
    (hm : ∀ w ∈ wfs, ∀ ch, some ch ∈ marks → w.defined ch = true) :
    sampleWaveforms sr tol cfgs marks wfs = .ok (sampleSpec sr cfgs marks wfs) := by
  obtain ⟨out, ho⟩ := sampleWaveforms_ok hsr htol hst hc hm
  rw [ho, sampleWaveforms_eq_spec ho]

/-- pointwise reading of `sampleSpec`: sample `k` of output `j` of waveform `i` -/
theorem sample_spec_pointwise (sr : Rat) (c : ChanCfg) (ch : Chan) (w : Wf) (k : Nat)
    (hc : c.chan = some ch) (hk : k < (rne (w.dur * sr)).toNat) :
    ∃ vs, (specOne sr [c] [] w).channels = [some vs] ∧ vs.length = (rne (w.dur * sr)).toNat ∧
      vs[k]? = some ((applyTrafo c.trafo (w.val ch ((k : Rat) / sr)) - c.off) / c.amp) := by
  refine ⟨(List.range (rne (w.dur * sr)).toNat).map (fun (k : Nat) =>
      (applyTrafo c.trafo (w.val ch ((k : Rat) / sr)) - c.off) / c.amp), by simp [specOne, hc], by simp, ?_⟩
  simp [hk]

/-! ## measurement windows → sample indices -/

/-- begins are rounded to the nearest sample, lengths are rounded down -/
theorem w2s_round_floor (sr : Rat) (w : TWin) :
    rabs (((conv sr w).1 : Rat) - w.1 * sr) ≤ 1 / 2 ∧
    ((conv sr w).2 : Rat) ≤ w.2 * sr ∧ w.2 * sr < ((conv sr w).2 : Rat) + 1 := by
  refine ⟨?_, Rat.floor_le _, ?_⟩
  · rw [rabs_le_iff]
    have := rne_lower (w.1 * sr); have := rne_upper (w.1 * sr)
    unfold conv; constructor <;> linarith
  · have := Rat.lt_floor_add_one (w.2 * sr)
    unfold conv; push_cast at this; exact this

/-- the result is the list of converted windows ordered by (original) begin -/
theorem w2s_sorted (sr : Rat) (ws : List TWin) (out : List SWin) (h : w2sNumba sr ws = .ok out) :
    ∃ p : List TWin, p.Perm ws ∧ Sorted (p.map (·.1)) ∧ out = p.map (conv sr) := by
  unfold w2sNumba at h
  split at h
  · cases h
  · split at h
    · rename_i hm
      cases h
      exact ⟨ws, List.Perm.refl _, isMonotone_sorted hm, rfl⟩
    · cases h
      exact ⟨sortByBegin ws, sortByBegin_perm ws, sortByBegin_sorted ws, rfl⟩

/-- the two implementations of `time_windows_to_samples` return identical results -/
theorem w2s_variants_agree (sr : Rat) (ws : List TWin) : w2sNumpy sr ws = w2sNumba sr ws := by
  unfold w2sNumpy w2sNumba
  split
  · rfl
  · rw [sortByBegin_map_conv]
    split
    · rename_i hm
      rw [sortByBegin_of_sorted (isMonotone_sorted hm)]
    · rfl

/-- the property as the judge states it: a permutation of the rounded windows, ordered by begin -/
theorem w2s_spec (sr : Rat) (ws : List TWin) (out : List SWin) (h : w2sNumpy sr ws = .ok out) :
    W2sSpec sr ws out := by
  rw [w2s_variants_agree] at h
  have hsr : 0 ≤ sr := by
    unfold w2sNumba at h
    split at h
    · cases h
    · rename_i hg; rw [not_or] at hg; exact not_lt.mp hg.2
  obtain ⟨p, hp, hs, rfl⟩ := w2s_sorted sr ws out h
  refine ⟨hp.map _, ?_⟩
  rw [List.pairwise_map]
  unfold Sorted at hs
  rw [List.pairwise_map] at hs
  exact hs.imp (fun hab => conv_begin_mono hsr hab)

theorem w2sSpecB_iff (sr : Rat) (ws : List TWin) (out : List SWin) :
    w2sSpecB sr ws out = true ↔ W2sSpec sr ws out := by
  simp [w2sSpecB]

example : w2sNumpy 1 [(1 / 2, 7 / 2), (3 / 2, 2), (5 / 2, 1)] = .ok [(0, 3), (2, 2), (2, 1)] := by
  rw [w2s_variants_agree]; decide +kernel

/-! ## shrinking overlapping windows -/

/-- shrinking never moves a window's end -/
theorem shrink_ends_fixed (ws out : List NWin) (s : Bool) (h : shrinkNumba ws = .ok (s, out)) :
    out.map NWin.stop = ws.map NWin.stop :=
  (shrinkNumba_spec h).1

/-- after a successful shrink every window ends before any later window begins -/
theorem shrink_disjoint (ws out : List NWin) (s : Bool) (h : shrinkNumba ws = .ok (s, out)) :
    out.Pairwise (fun a b => a.stop ≤ b.1) :=
  (shrinkNumba_spec h).2

/-- the numpy and the numba implementation return identical results (flag, windows, error) —
for the numpy variant with `fixes/PF-20.diff` applied -/
theorem shrink_variants_agree (ws : List NWin) : shrinkNumpy ws = shrinkNumba ws :=
  shrinkNumpy_eq_numba ws

/-- hence the numpy variant has the same two properties -/
theorem shrink_numpy_spec (ws out : List NWin) (s : Bool) (h : shrinkNumpy ws = .ok (s, out)) :
    ShrinkSpec ws out := by
  rw [shrink_variants_agree] at h; exact shrinkNumba_spec h

/-- PF-20: on the pinned tree the variants differ — a zero-length window that overlaps nothing is
rejected by the numpy variant and accepted by the numba variant -/
theorem shrink_variants_agree_pinned_counterexample :
    shrinkNumpyPinned [(0, 2), (5, 0)] = .error .valueError ∧
    shrinkNumba [(0, 2), (5, 0)] = .ok (false, [(0, 2), (5, 0)]) := by
  decide

/-- outside zero-length windows the pinned numpy variant is the repaired one -/
theorem shrink_pinned_eq_of_pos (ws : List NWin) (h : ∀ w ∈ ws, 0 < w.2) :
    shrinkNumpyPinned ws = shrinkNumpy ws := by
  unfold shrinkNumpyPinned shrinkNumpy
  have : ((overlaps ws).zip ws).any (fun p => decide (p.2.2 ≤ p.1)) =
      ((overlaps ws).zip ws).any (fun p => decide (0 < p.1 ∧ p.2.2 ≤ p.1)) := by
    rw [Bool.eq_iff_iff, List.any_eq_true, List.any_eq_true]
    constructor
    · rintro ⟨p, hp, hle⟩
      have hpos := h p.2 (List.of_mem_zip hp).2
      refine ⟨p, hp, ?_⟩
      simp only [decide_eq_true_eq] at hle ⊢
      omega
    · rintro ⟨p, hp, hle⟩
      refine ⟨p, hp, ?_⟩
      simp only [decide_eq_true_eq] at hle ⊢
      omega
  simp only [this]

theorem shrinkSpecB_iff (ws out : List NWin) : shrinkSpecB ws out = true ↔ ShrinkSpec ws out := by
  simp [shrinkSpecB]

example : shrinkNumpy [(1, 3), (4, 4), (7, 5)] = .ok (true, [(1, 3), (4, 4), (8, 4)]) := by decide

/-! ## averaging over windows -/

/-- on a non-decreasing time array the numpy variant computes, for every list of windows
(unsorted, nested, empty, …), the mean of the samples with `begin ≤ t < end` (`none` = NaN) -/
theorem average_numpy_spec (time values : List Rat) (ws : List (Rat × Rat))
    (hlen : values.length = time.length) (ht : Sorted time) :
    averageNumpy time values ws = averageSpec time values ws := by
  unfold averageNumpy averageSpec
  exact List.map_congr_left (fun w _ => averageNumpyOne_eq_spec hlen ht w)

/-- the numba variant computes the same means when, in addition, the windows are ordered by begin
and by end -/
theorem average_numba_spec_partial (time values : List Rat) (ws : List (Rat × Rat))
    (hlen : values.length = time.length) (ht : Sorted time) (hk : ¬ InKnownClassPF23 ws) :
    averageNumba time values ws = averageSpec time values ws := by
  have hfst : (time.zip values).map (·.1) = time := List.map_fst_zip (by omega)
  unfold InKnownClassPF23 at hk
  rw [not_not] at hk
  unfold averageNumba
  rw [numbaSweep_sorted _ _ (by rw [hfst]; exact ht) (by simpa [List.map_map, Function.comp_def] using hk.1)
    (by simpa [List.map_map, Function.comp_def] using hk.2)]
  unfold averageSpec
  rw [List.map_map]
  apply List.map_congr_left
  intro w _
  simp only [Function.comp]
  rw [numba_one, averageSpecOne_def]

/-
Full-strength statement (FALSE on the pinned tree, PF-23):
  theorem average_variants_agree (time values ws) (hlen : values.length = time.length) (ht : Sorted time) :
      averageNumba time values ws = averageNumpy time values ws
-/

/-- the two implementations of `average_windows` return identical results for windows ordered by
begin and by end (touching, overlapping, empty windows and windows without samples included) -/
theorem average_variants_agree_partial (time values : List Rat) (ws : List (Rat × Rat))
    (hlen : values.length = time.length) (ht : Sorted time) (hk : ¬ InKnownClassPF23 ws) :
    averageNumba time values ws = averageNumpy time values ws := by
  rw [average_numba_spec_partial time values ws hlen ht hk, average_numpy_spec time values ws hlen ht]

/-- PF-23: for a nested window the numba variant keeps adding samples after the window has ended -/
theorem average_variants_agree_counterexample :
    averageNumpy [0, 1 / 2, 1, 3 / 2, 2, 5 / 2, 3, 7 / 2] [0, 1, 2, 3, 4, 5, 6, 7] [(0, 1), (1, 3), (1, 3 / 2)]
      = [some (1 / 2), some (7 / 2), some 2] ∧
    averageNumba [0, 1 / 2, 1, 3 / 2, 2, 5 / 2, 3, 7 / 2] [0, 1, 2, 3, 4, 5, 6, 7] [(0, 1), (1, 3), (1, 3 / 2)]
      = [some (1 / 2), some (7 / 2), some (7 / 2)] := by
  decide +kernel

/-- … and with begins out of order a window listed behind a later one is not finalised at its end
and collects the samples that follow it -/
theorem average_variants_agree_counterexample_unsorted :
    averageNumpy [0, 1, 2, 3] [1, 2, 3, 4] [(2, 4), (0, 2)] = [some (7 / 2), some (3 / 2)] ∧
    averageNumba [0, 1, 2, 3] [1, 2, 3, 4] [(2, 4), (0, 2)] = [some (7 / 2), some (7 / 2)] := by
  decide +kernel

/-- the witnesses are inside the recorded class, sorted windows are outside -/
example : InKnownClassPF23 [(0, 1), (1, 3), (1, 3 / 2)] ∧ InKnownClassPF23 [(2, 4), (0, 2)] ∧
    ¬ InKnownClassPF23 [(0, 1), (1 / 2, 3 / 2), (3 / 2, 3 / 2), (2, 5)] := by decide +kernel

/-- `average_windows` checks the shapes first, in both variants -/
theorem average_rejects (useNumba : Bool) (time values : List Rat) (ws : List (Rat × Rat))
    (h : values.length ≠ time.length) : averageWindows useNumba time values ws = .error .assertion := by
  simp [averageWindows, h]

end QP.Props.C20
