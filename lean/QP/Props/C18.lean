import QP.Proofs.C18Rec
/-!
Property theorems for C18 (the hardware setup routes every program to exactly the right devices).

`QP.C18.Inv` is the routing invariant, stated against the *current* wiring.  Interpretation: an
operation that re-wires a channel or measurement name used by a registered program (`rewires`) without
re-registering that program is outside the statement; every theorem about wiring operations carries the
guard `rewires s op = false` and histories are `Admissible`.  `step` is the model of the code with
`fixes/PF-19.diff` applied; `stepWith false` is the unrepaired code, for which the invariant fails
(`pf19_counterexample`).
-/
namespace QP.Props.C18
open QP.C18

/-- the executable judge decides the invariant -/
theorem invB_iff (s : State) : invB s = true ↔ Inv s := invB_iff' s

/-- the judge's verdict string is "ok" exactly when the invariant holds -/
theorem judge_ok_iff_inv (s : State) : judge s = "ok" ↔ Inv s := (judge_ok_iff s).trans (invB_iff' s)

/-- a fresh setup over any devices satisfies the invariant -/
theorem inv_init (cfg : List (Nat × Nat)) (ndacs : Nat) : Inv (init cfg ndacs) := by
  refine ⟨?_, ?_, ?_, ?_, ?_, ?_, ?_, ?_, ?_, ?_⟩
  rotate_left 8
  · intro g hg
    simp only [init, List.mem_map] at hg
    obtain ⟨c, _, rfl⟩ := hg
    rfl
  · intro g hg
    simp only [init] at hg
    rw [(List.mem_replicate.1 hg).2]
  · intro c outs h; simp [init] at h
  · intro c outs h; simp [init] at h
  · intro n r h; simp [init] at h
  · intro n r h; simp [init] at h
  · intro a g hg n u hu
    simp only [init, List.getElem?_map] at hg
    cases hc : cfg[a]? with
    | none => simp [hc] at hg
    | some c => rw [hc] at hg; simp at hg; subst hg; simp at hu
  · intro a g _ n r h; simp [init] at h
  · intro d g hg n w hw
    simp only [init] at hg
    have := List.mem_of_getElem? hg
    rw [List.mem_replicate] at this
    rw [this.2] at hw
    simp at hw
  · intro d g _ n r h; simp [init] at h

/-- every public operation that returns normally and does not re-wire a name in use preserves the invariant
(set_channel in both forms, set_measurement in both forms, rm_channel, register_program incl. update and
re-registration, remove_program, clear_programs, arm_program, run_program) -/
theorem inv_step {s s' : State} {op : Op} (hI : Inv s) (hr : rewires s op = false)
    (h : step s op = .ok s') : Inv s' := by
  cases op with
  | setChannel id specs allow => exact inv_setChannel hI hr h
  | setChannelSingle id o allow => exact inv_setChannelSingle hI hr h
  | setMeasurement m masks allow => exact inv_setMeasurement hI hr h
  | setMeasurementSingle m mask allow => exact inv_setMeasurementSingle hI hr h
  | rmChannel id => exact inv_rmChannel hI hr h
  | register n p cbOk update ov => exact inv_register hI h
  | remove n =>
    simp only [step, stepWith] at h
    injection h with h; subst h; exact inv_remove n hI
  | clear =>
    simp only [step, stepWith] at h
    injection h with h; subst h; exact inv_clear hI
  | arm n => exact inv_arm hI h
  | run n => exact inv_arm hI h
  | setFaultAwg a mode => simp [rewires] at hr
  | setFaultDac d mode => simp [rewires] at hr

/-- registration, update and re-registration preserve the invariant without any side condition -/
theorem inv_step_register {s s' : State} {n : Name} {p : Program} {cbOk update : Bool}
    {ov : Option (List (MName × Windows))} (hI : Inv s)
    (h : step s (.register n p cbOk update ov) = .ok s') : Inv s' := inv_register hI h

theorem inv_step_remove {s : State} (n : Name) (hI : Inv s) : ∃ s', step s (.remove n) = .ok s' ∧ Inv s' :=
  ⟨_, rfl, inv_remove n hI⟩

theorem inv_step_clear {s : State} (hI : Inv s) : ∃ s', step s .clear = .ok s' ∧ Inv s' :=
  ⟨_, rfl, inv_clear hI⟩

theorem inv_step_arm {s s' : State} {n : Name} (hI : Inv s) (h : step s (.arm n) = .ok s') : Inv s' :=
  inv_arm hI h

/-- induction over arbitrary finite histories of normally-returning calls, from any state satisfying the
invariant -/
theorem inv_run {ops : List Op} : ∀ {s s' : State}, Inv s → Admissible s ops → run s ops = .ok s' → Inv s' := by
  induction ops with
  | nil =>
    intro s s' hI _ h
    simp only [run, runWith] at h
    injection h with h; subst h; exact hI
  | cons op ops ih =>
    intro s s' hI ha h
    simp only [run, runWith] at h
    cases hs : stepWith true s op with
    | error e => rw [hs] at h; cases h
    | ok s1 =>
      rw [hs] at h
      exact ih (inv_step hI ha.1 hs) (ha.2 s1 hs) h

/-- every reachable state: any devices, any finite history -/
theorem inv_history (cfg : List (Nat × Nat)) (ndacs : Nat) (ops : List Op) (s' : State)
    (ha : Admissible (init cfg ndacs) ops) (h : run (init cfg ndacs) ops = .ok s') : Inv s' :=
  inv_run (inv_init cfg ndacs) ha h

/-- the same with raising calls interleaved (they leave the modelled state alone) -/
theorem inv_history_skip (ops : List Op) : ∀ (s : State), Inv s →
    (∀ (pre : List Op) (op : Op) (post : List Op), ops = pre ++ op :: post →
        rewires (pre.foldl stepSkip s) op = false) →
    Inv (ops.foldl stepSkip s) := by
  induction ops with
  | nil => intro s hI _; exact hI
  | cons op ops ih =>
    intro s hI hr
    simp only [List.foldl_cons]
    apply ih
    · unfold stepSkip
      cases hs : step s op with
      | error e => exact hI
      | ok s1 => exact inv_step hI (hr [] op ops rfl) hs
    · intro pre op' post e
      have := hr (op :: pre) op' post (by rw [e]; rfl)
      simpa using this

/-- arming: every generator of the setup is armed with the program iff it owns one of its channels
(all others are disarmed) and every acquisition device with one of its masks is armed with it -/
theorem arm_spec {s s' : State} {n : Name} (hI : Inv s) (h : step s (.arm n) = .ok s') : ArmSpec s n s' := by
  simp only [step, stepWith, arm] at h
  cases hr : aget n s.registered with
  | none => rw [hr] at h; cases h
  | some r =>
    rw [hr] at h
    simp only at h
    split at h
    · cases h
    injection h with h
    subst h
    obtain ⟨a1, a2⟩ := hI.regAwgs n r hr
    obtain ⟨d1, d2⟩ := hI.regDacs n r hr
    refine ⟨r, hr, ?_, ?_⟩
    · intro a g' hg' hk
      obtain ⟨g, _, e⟩ := mapIdx_get hg'
      subst e
      rw [if_pos hk]
      by_cases hp : a ∈ r.awgs
      · simp only [if_pos hp, if_pos (a1 a hp)]
      · have : ¬ Participates s r.channels a := by
          rintro ⟨c, hc, o, ho, e⟩
          exact hp (e ▸ a2 c hc o ho)
        simp only [if_neg hp, if_neg this]
    · intro d g' hg' hp
      obtain ⟨g, _, e⟩ := mapIdx_get hg'
      subst e
      obtain ⟨x, hx, m, hm, e⟩ := hp
      have : d ∈ r.dacs := e ▸ d2 x hx m hm
      rw [if_pos this]

/-- arming an unknown program is rejected -/
theorem arm_rejects {s : State} {n : Name} (h : aget n s.registered = none) : step s (.arm n) = .error .keyError := by
  simp [step, stepWith, arm, h]

/-- a removed program is gone everywhere -/
theorem remove_gone {s : State} (n : Name) (hI : Inv s) : Gone (remove s n) n := by
  have hI' := inv_remove n hI
  have hreg : aget n (remove s n).registered = none := by
    unfold remove
    cases hr : aget n s.registered with
    | none => simpa using hr
    | some r => exact aget_adel_self _ _
  refine ⟨hreg, ?_, ?_⟩
  · intro g hg hf
    obtain ⟨a, _, ha⟩ := List.getElem_of_mem hg
    have hg' : (remove s n).awgs[a]? = some g := by rw [← ha]; exact List.getElem?_eq_getElem _
    cases hu : aget n g.progs with
    | none => rfl
    | some u =>
      obtain ⟨r, hr, _⟩ := hI'.awgHeld a g hg' n u hu
      rw [hreg] at hr; cases hr
  · intro g hg hf
    obtain ⟨d, _, hd⟩ := List.getElem_of_mem hg
    have hg' : (remove s n).dacs[d]? = some g := by rw [← hd]; exact List.getElem?_eq_getElem _
    cases hw : aget n g.progs with
    | none => rfl
    | some w =>
      obtain ⟨r, hr, _⟩ := hI'.dacHeld d g hg' n w hw
      rw [hreg] at hr; cases hr

/-- after clearing, every program is gone everywhere -/
theorem clear_gone {s : State} (hI : Inv s) (n : Name) : Gone (clear s) n := by
  have hI' := inv_clear hI
  have hreg : aget n (clear s).registered = none := rfl
  refine ⟨hreg, ?_, ?_⟩
  · intro g hg hf
    obtain ⟨a, _, ha⟩ := List.getElem_of_mem hg
    have hg' : (clear s).awgs[a]? = some g := by rw [← ha]; exact List.getElem?_eq_getElem _
    cases hu : aget n g.progs with
    | none => rfl
    | some u =>
      obtain ⟨r, hr, _⟩ := hI'.awgHeld a g hg' n u hu
      rw [hreg] at hr; cases hr
  · intro g hg hf
    obtain ⟨d, _, hd⟩ := List.getElem_of_mem hg
    have hg' : (clear s).dacs[d]? = some g := by rw [← hd]; exact List.getElem?_eq_getElem _
    cases hw : aget n g.progs with
    | none => rfl
    | some w =>
      obtain ⟨r, hr, _⟩ := hI'.dacHeld d g hg' n w hw
      rw [hreg] at hr; cases hr

/-- a generator holds a program name exactly when that program is registered and uses one of its channels -/
theorem awg_holds_iff {s : State} (hI : Inv s) {a : AwgId} {g : Awg} (hg : s.awgs[a]? = some g) (n : Name) :
    (aget n g.progs).isSome = true ↔ ∃ r, aget n s.registered = some r ∧ Participates s r.channels a := by
  constructor
  · intro h
    cases hu : aget n g.progs with
    | none => rw [hu] at h; cases h
    | some u =>
      obtain ⟨r, hr, hp, _⟩ := hI.awgHeld a g hg n u hu
      exact ⟨r, hr, hp⟩
  · rintro ⟨r, hr, hp⟩
    exact hI.awgHolds a g hg n r hr hp

/-- an acquisition device holds windows under a program name exactly when that program is registered and
one of its measurements is wired to one of the device's masks -/
theorem dac_holds_iff {s : State} (hI : Inv s) {d : DacId} {g : Dac} (hg : s.dacs[d]? = some g) (n : Name) :
    (aget n g.progs).isSome = true ↔ ∃ r, aget n s.registered = some r ∧ ParticipatesD s r.meas d := by
  constructor
  · intro h
    cases hu : aget n g.progs with
    | none => rw [hu] at h; cases h
    | some u =>
      obtain ⟨r, hr, hp, _⟩ := hI.dacHeld d g hg n u hu
      exact ⟨r, hr, hp⟩
  · rintro ⟨r, hr, hp⟩
    exact hI.dacHolds d g hg n r hr hp

/-- every channel identifier of a registered program sits at the position of every playback output it is
wired to, together with that output's transformation — provided no second channel of the same program is
wired to the very same output (then only one of them can be there; `Inv` still pins it to one of them) -/
theorem channel_at_output {s : State} (hI : Inv s) {n : Name} {r : Reg} (hr : aget n s.registered = some r)
    {c : Chan} (hc : c ∈ r.channels) {o : Out} (ho : o ∈ wired s.chanMap c) (hk : o.kind = .playback)
    (hnc : ∀ c' ∈ r.channels, ∀ o' ∈ wired s.chanMap c', o'.awg = o.awg → o'.kind = .playback → o'.pos = o.pos →
        c' = c ∧ o'.trafo = o.trafo) :
    ∃ g u, s.awgs[o.awg]? = some g ∧ aget n g.progs = some u ∧ u.pid = r.pid ∧
      u.chs[o.pos]? = some (some c) ∧ u.tfs[o.pos]? = some (some o.trafo) := by
  have hcm : ∃ outs, aget c s.chanMap = some outs ∧ o ∈ outs := by
    unfold wired at ho
    cases h : aget c s.chanMap with
    | none => rw [h] at ho; simp at ho
    | some outs => rw [h] at ho; exact ⟨outs, rfl, by simpa using ho⟩
  obtain ⟨outs, h1, h2⟩ := hcm
  have hin := hI.wfChan c outs h1 o h2
  unfold inRange at hin
  cases hg : s.awgs[o.awg]? with
  | none => rw [hg] at hin; cases hin
  | some g =>
    rw [hg] at hin
    simp only [hk, Awg.size, decide_eq_true_eq] at hin
    have hp : Participates s r.channels o.awg := ⟨c, hc, o, ho, rfl⟩
    have hs := hI.awgHolds o.awg g hg n r hr hp
    cases hu : aget n g.progs with
    | none => rw [hu] at hs; cases hs
    | some u =>
      obtain ⟨r', hr', _, hpid, _, _, _, hslots, _⟩ := hI.awgHeld o.awg g hg n u hu
      rw [hr] at hr'; injection hr' with hr'; subst hr'
      have hsl := hslots o.pos hin
      unfold PlaybackSlotOK at hsl
      refine ⟨g, u, rfl, hu, hpid, ?_⟩
      cases hv : (u.chs[o.pos]?).join with
      | none =>
        rw [hv] at hsl
        exact absurd ⟨rfl, hk, rfl⟩ (hsl.2 c hc o ho)
      | some c' =>
        rw [hv] at hsl
        obtain ⟨hc', o', ho', e1, e2, e3, e4⟩ := hsl
        obtain ⟨e5, e6⟩ := hnc c' hc' o' ho' e1 e2 e3
        subst e5
        refine ⟨join_some hv, ?_⟩
        rw [e6] at e4
        exact join_some e4

/-- the same for marker outputs -/
theorem marker_at_output {s : State} (hI : Inv s) {n : Name} {r : Reg} (hr : aget n s.registered = some r)
    {c : Chan} (hc : c ∈ r.channels) {o : Out} (ho : o ∈ wired s.chanMap c) (hk : o.kind = .marker)
    (hnc : ∀ c' ∈ r.channels, ∀ o' ∈ wired s.chanMap c', o'.awg = o.awg → o'.kind = .marker → o'.pos = o.pos →
        c' = c) :
    ∃ g u, s.awgs[o.awg]? = some g ∧ aget n g.progs = some u ∧ u.pid = r.pid ∧
      u.mks[o.pos]? = some (some c) := by
  have hcm : ∃ outs, aget c s.chanMap = some outs ∧ o ∈ outs := by
    unfold wired at ho
    cases h : aget c s.chanMap with
    | none => rw [h] at ho; simp at ho
    | some outs => rw [h] at ho; exact ⟨outs, rfl, by simpa using ho⟩
  obtain ⟨outs, h1, h2⟩ := hcm
  have hin := hI.wfChan c outs h1 o h2
  unfold inRange at hin
  cases hg : s.awgs[o.awg]? with
  | none => rw [hg] at hin; cases hin
  | some g =>
    rw [hg] at hin
    simp only [hk, Awg.size, decide_eq_true_eq] at hin
    have hp : Participates s r.channels o.awg := ⟨c, hc, o, ho, rfl⟩
    have hs := hI.awgHolds o.awg g hg n r hr hp
    cases hu : aget n g.progs with
    | none => rw [hu] at hs; cases hs
    | some u =>
      obtain ⟨r', hr', _, hpid, _, _, _, _, hslots⟩ := hI.awgHeld o.awg g hg n u hu
      rw [hr] at hr'; injection hr' with hr'; subst hr'
      have hsl := hslots o.pos hin
      unfold MarkerSlotOK at hsl
      refine ⟨g, u, rfl, hu, hpid, ?_⟩
      cases hv : (u.mks[o.pos]?).join with
      | none =>
        rw [hv] at hsl
        exact absurd ⟨rfl, hk, rfl⟩ (hsl c hc o ho)
      | some c' =>
        rw [hv] at hsl
        obtain ⟨hc', o', ho', e1, e2, e3⟩ := hsl
        have e5 := hnc c' hc' o' ho' e1 e2 e3
        subst e5
        exact join_some hv

/-- every mask a measurement of a registered program is wired to holds exactly that measurement's windows
(the program's own) — provided no second measurement of the program with other windows is wired to the
very same mask -/
theorem windows_at_mask {s : State} (hI : Inv s) {n : Name} {r : Reg} (hr : aget n s.registered = some r)
    {x : MName × Windows} (hx : x ∈ r.meas) {m : MaskRef} (hm : m ∈ wiredM s.measMap x.1)
    (hnc : ∀ x' ∈ r.meas, ∀ m' ∈ wiredM s.measMap x'.1, m'.dac = m.dac → m'.mask = m.mask → x'.2 = x.2) :
    ∃ g w, s.dacs[m.dac]? = some g ∧ aget n g.progs = some w ∧ aget m.mask w = some x.2 := by
  have hcm : ∃ ms, aget x.1 s.measMap = some ms ∧ m ∈ ms := by
    unfold wiredM at hm
    cases h : aget x.1 s.measMap with
    | none => rw [h] at hm; simp at hm
    | some ms => rw [h] at hm; exact ⟨ms, rfl, by simpa using hm⟩
  obtain ⟨ms, h1, h2⟩ := hcm
  have hin := hI.wfMeas x.1 ms h1 m h2
  simp only [knownMask, decide_eq_true_eq] at hin
  have hg : s.dacs[m.dac]? = some s.dacs[m.dac] := List.getElem?_eq_getElem hin
  have hp : ParticipatesD s r.meas m.dac := ⟨x, hx, m, hm, rfl⟩
  have hs := hI.dacHolds m.dac _ hg n r hr hp
  cases hw : aget n (s.dacs[m.dac]).progs with
  | none => rw [hw] at hs; cases hs
  | some w =>
    obtain ⟨r', hr', _, hm1, hm2⟩ := hI.dacHeld m.dac _ hg n w hw
    rw [hr] at hr'; injection hr' with hr'; subst hr'
    refine ⟨_, w, hg, hw, ?_⟩
    have h3 := hm2 x hx m hm rfl
    cases hws : aget m.mask w with
    | none => rw [hws] at h3; cases h3
    | some ws =>
      obtain ⟨x', hx', e1, m', hm', e2, e3⟩ := hm1 (m.mask, ws) (aget_mem hws)
      have := hnc x' hx' m' hm' e2 e3
      rw [← this, e1]

/-! ### error cases of `register_program`: rejected, state untouched (no new state exists) -/

theorem register_rejects_callback {s : State} {n : Name} {p : Program} {update : Bool}
    {ov : Option (List (MName × Windows))} : step s (.register n p false update ov) = .error .typeError := by
  simp [step, stepWith, register]

theorem register_rejects_unknown_channel {s : State} {n : Name} {p : Program} {update : Bool}
    {ov : Option (List (MName × Windows))} {c : Chan} (hc : c ∈ p.channels) (h : aget c s.chanMap = none) :
    step s (.register n p true update ov) = .error .keyError := by
  have : (p.channels.any fun c => !hasKey c s.chanMap) = true := by
    rw [List.any_eq_true]; exact ⟨c, hc, by simp [hasKey, h]⟩
  simp [step, stepWith, register, this]

/-! ### PF-19: the unrepaired `register_program` violates the invariant -/

/-- two generators with one output each, channel 0 on the first, channel 1 on the second; program name 0 is
registered with a program on channel 0 and then re-registered (update) with a program on channel 1 -/
def pf19Ops : List Op :=
  [.setChannel 0 [.out ⟨0, .playback, 0, 0⟩] false,
   .setChannel 1 [.out ⟨1, .playback, 0, 0⟩] false,
   .register 0 ⟨0, [0], []⟩ true false none,
   .register 0 ⟨1, [1], []⟩ true true none,
   .remove 0]

theorem pf19_counterexample :
    ∃ s', runWith false (init [(1, 0), (1, 0)] 0) pf19Ops = .ok s' ∧ ¬ Inv s' ∧ ¬ Gone s' 0 := by
  refine ⟨_, rfl, ?_, ?_⟩
  · rw [← invB_iff]; decide
  · decide

/-- the repaired code on the same history -/
example : ∃ s', run (init [(1, 0), (1, 0)] 0) pf19Ops = .ok s' ∧ invB s' = true ∧ Gone s' 0 :=
  ⟨_, rfl, by decide, by decide⟩

/-- the hypotheses of `inv_history` are satisfiable by a non-trivial history (two names on one generator,
a measurement, registration, arming) -/
example : ∃ s', run (init [(2, 1)] 1)
    [.setChannel 0 [.out ⟨0, .playback, 1, 5⟩] false, .setChannel 1 [.out ⟨0, .marker, 0, 0⟩] false,
     .setMeasurement 0 [⟨0, 3, 0⟩] false,
     .register 7 ⟨0, [0, 1], [(0, [(0, 1)])]⟩ true false none, .arm 7] = .ok s' ∧
    (∃ g, s'.awgs[0]? = some g ∧ g.armed = some 7 ∧
      (aget 7 g.progs).map (·.chs) = some [none, some 0]) :=
  ⟨_, rfl, _, rfl, by decide, by decide⟩


/-! ### the record invariant: no assumption on the wiring, re-wiring included

`RecInv`: whatever a device holds is a registered program whose record lists that device.  It is preserved
by **every** operation — also by `set_channel` / `set_measurement` / `rm_channel` on names that registered
programs use — so after *any* history `remove_program` and `clear_programs` reach every holder: a removed or
cleared program is gone from every device of the bench, wired or not.  (`step` is the code with
`fixes/PF-19.diff` and `fixes/PF-C18a.diff`; the unrepaired `clear_programs` only clears the devices that are
still wired, `pfc18a_counterexample`.) -/

theorem recInvB_iff (s : State) : recInvB s = true ↔ RecInv s := recInvB_iff' s

theorem judgeRec_ok_iff_rec (s : State) : judgeRec s = "ok" ↔ RecInv s :=
  (judgeRec_ok_iff s).trans (recInvB_iff' s)

theorem inv_implies_rec {s : State} (hI : Inv s) : RecInv s := recInv_of_inv hI

theorem rec_init (cfg : List (Nat × Nat)) (ndacs : Nat) : RecInv (init cfg ndacs) :=
  recInv_of_inv (inv_init cfg ndacs)

/-- every operation that returns normally preserves the record invariant — no side condition -/
theorem rec_step {s s' : State} {op : Op} (hI : RecInv s) (hh : heals s op = false)
    (h : step s op = .ok s') : RecInv s' :=
  rec_step' hI hh h

/-- no operation of the history switches a refusing device back to obeying (test-bench operation; every
HardwareSetup call qualifies) -/
def NoHeal : State → List Op → Prop
  | _, [] => True
  | s, op :: ops => heals s op = false ∧ ∀ s', step s op = .ok s' → NoHeal s' ops

theorem rec_run {ops : List Op} : ∀ {s s' : State}, RecInv s → NoHeal s ops → run s ops = .ok s' → RecInv s' := by
  induction ops with
  | nil =>
    intro s s' hI _ h
    simp only [run, runWith] at h
    injection h with h; subst h; exact hI
  | cons op ops ih =>
    intro s s' hI hn h
    simp only [run, runWith] at h
    cases hs : stepWith true s op with
    | error e => rw [hs] at h; cases h
    | ok s1 =>
      rw [hs] at h
      exact ih (rec_step hI hn.1 hs) (hn.2 s1 hs) h

/-- after every finite history of normally returning calls, re-wiring and refusing devices included -/
theorem rec_history (cfg : List (Nat × Nat)) (ndacs : Nat) (ops : List Op) (s' : State)
    (hn : NoHeal (init cfg ndacs) ops) (h : run (init cfg ndacs) ops = .ok s') : RecInv s' :=
  rec_run (rec_init cfg ndacs) hn h

/-- the same with raising calls interleaved -/
theorem rec_history_skip (ops : List Op) : ∀ (s : State), RecInv s →
    (∀ (pre : List Op) (op : Op) (post : List Op), ops = pre ++ op :: post →
        heals (pre.foldl stepSkip s) op = false) →
    RecInv (ops.foldl stepSkip s) := by
  induction ops with
  | nil => intro s hI _; exact hI
  | cons op ops ih =>
    intro s hI hh
    simp only [List.foldl_cons]
    apply ih
    · unfold stepSkip
      cases hs : step s op with
      | error e => exact hI
      | ok s1 => exact rec_step hI (hh [] op ops rfl) hs
    · intro pre op' post e
      have := hh (op :: pre) op' post (by rw [e]; rfl)
      simpa using this

/-- a removed program is gone from every device, whatever happened to the wiring since its registration -/
theorem remove_gone_any {s : State} (n : Name) (hI : RecInv s) : Gone (remove s n) n := by
  have hI' := rec_remove n hI
  have hreg : aget n (remove s n).registered = none := by
    unfold remove
    cases hr : aget n s.registered with
    | none => simpa using hr
    | some r => exact aget_adel_self _ _
  refine ⟨hreg, ?_, ?_⟩
  · intro g hg hf
    obtain ⟨a, _, ha⟩ := List.getElem_of_mem hg
    have hg' : (remove s n).awgs[a]? = some g := by rw [← ha]; exact List.getElem?_eq_getElem _
    cases hu : aget n g.progs with
    | none => rfl
    | some u =>
      obtain ⟨r, hr, _⟩ := hI'.awgRec a g hg' hf n u hu
      rw [hreg] at hr; cases hr
  · intro g hg hf
    obtain ⟨d, _, hd⟩ := List.getElem_of_mem hg
    have hg' : (remove s n).dacs[d]? = some g := by rw [← hd]; exact List.getElem?_eq_getElem _
    cases hw : aget n g.progs with
    | none => rfl
    | some w =>
      obtain ⟨r, hr, _⟩ := hI'.dacRec d g hg' hf n w hw
      rw [hreg] at hr; cases hr

/-- after clearing, every program is gone from every device, wired or not -/
theorem clear_gone_any {s : State} (hI : RecInv s) (n : Name) : Gone (clear s) n := by
  obtain ⟨h1, h2⟩ := clear_empty hI
  refine ⟨rfl, ?_, ?_⟩
  · intro g hg hf
    obtain ⟨a, _, ha⟩ := List.getElem_of_mem hg
    exact h1 a g (by rw [← ha]; exact List.getElem?_eq_getElem _) hf n
  · intro g hg hf
    obtain ⟨d, _, hd⟩ := List.getElem_of_mem hg
    exact h2 d g (by rw [← hd]; exact List.getElem?_eq_getElem _) hf n

/-- "a removed or cleared program is gone everywhere" after any history, without the `Admissible` side
condition -/
theorem gone_after_any_history (cfg : List (Nat × Nat)) (ndacs : Nat) (ops : List Op) (s' : State)
    (hn : NoHeal (init cfg ndacs) ops) (h : run (init cfg ndacs) ops = .ok s') (n : Name) :
    Gone (remove s' n) n ∧ Gone (clear s') n :=
  ⟨remove_gone_any n (rec_history cfg ndacs ops s' hn h), clear_gone_any (rec_history cfg ndacs ops s' hn h) n⟩

/-! ### PF-C18a: the unrepaired `clear_programs` forgets a device that dropped out of the wiring -/

/-- channel 0 on the first generator, a program registered on it, channel 0 re-wired to the second
generator, then `clear_programs` -/
def pfc18aOps : List Op :=
  [.setChannel 0 [.out ⟨0, .playback, 0, 0⟩] false,
   .register 0 ⟨0, [0], []⟩ true false none,
   .setChannel 0 [.out ⟨1, .playback, 0, 0⟩] false,
   .clear]

theorem pfc18a_counterexample :
    ∃ s', runWith false (init [(1, 0), (1, 0)] 0) pfc18aOps = .ok s' ∧ ¬ Gone s' 0 ∧ ¬ RecInv s' := by
  refine ⟨_, rfl, by decide, ?_⟩
  rw [← recInvB_iff]; decide

/-- the repaired code on the same history -/
example : ∃ s', run (init [(1, 0), (1, 0)] 0) pfc18aOps = .ok s' ∧ Gone s' 0 ∧ recInvB s' = true :=
  ⟨_, rfl, by decide, by decide⟩

/-! ### refusing devices (fault injection) -/

/-- `_remove_from_devices` catches the `RuntimeError` per device: generator 0 refuses `remove`, the marker name
is on both generators; after `remove_program` the obeying generator 1 is clean (`Gone` speaks about obeying
devices), the record invariant holds, generator 0 keeps what it refused to drop -/
example : ∃ s', run (init [(1, 1), (1, 1)] 0)
    [.setChannel 0 [.out ⟨0, .marker, 0, 0⟩, .out ⟨1, .marker, 0, 0⟩] false, .setFaultAwg 0 1,
     .register 0 ⟨0, [0], []⟩ true false none, .remove 0] = .ok s' ∧
    Gone s' 0 ∧ recInvB s' = true ∧
    (s'.awgs[0]?).map (fun g => (aget 0 g.progs).isSome) = some true ∧
    (s'.awgs[1]?).map (fun g => (aget 0 g.progs).isSome) = some false :=
  ⟨_, rfl, by decide, by decide, by decide, by decide⟩

/-- an un-caught device fault: updating a program on a generator that refuses `remove` raises -/
example : run (init [(1, 0)] 0)
    [.setChannel 0 [.out ⟨0, .playback, 0, 0⟩] false, .register 0 ⟨0, [0], []⟩ true false none,
     .setFaultAwg 0 1, .register 0 ⟨1, [0], []⟩ true true none] = .error .deviceFault := rfl

end QP.Props.C18
