import QP.Proofs.C13
/-!
# C13 — parameter scopes behave as the mapping they denote, including volatility

`s : Scope` is a stack of layers of any depth (`DictScope`, `MappedScope`, `RangeScope`, `JointScope`
nested arbitrarily), `c : Caches` any memo state of the corresponding objects that satisfies the
memo invariant `CacheOK s c` (fresh objects do: `fresh_cacheOK`; every method keeps it: second
conjunct of each theorem) — this is what quantifies over *every sequence of earlier calls*.
`WF s` is the guard the code enforces lazily: mapping expressions only mention names of the scope
they were built on, joint entries provide the name they are listed under (and the association lists
are dictionaries).

All theorems are by structural induction over the stack; no bound on depth, names or history length.
-/
namespace QP.Props.C13
open QP.C13

/-! ## lookup, membership, iteration, length, items, dictionary view -/

/-- `scope[n]` returns the value the stack denotes and raises exactly when it denotes none —
whatever was memoised before; no well-formedness needed. -/
theorem lookup_eq_denote (s : Scope) (c : Caches) (n : Name) (hc : CacheOK s c) :
    (lookup s c n).1.toOption = denote s n ∧ CacheOK s (lookup s c n).2 :=
  lookup_spec s c n hc

/-- `n in scope` agrees with lookup -/
theorem contains_iff (s : Scope) (n : Name) (hwf : WF s) :
    contains s n = true ↔ (denote s n).isSome :=
  QP.C13.contains_iff s n hwf

/-- `scope.keys()` lists exactly the names that have a value, each once -/
theorem keys_eq_support (s : Scope) (c : Caches) (hwf : WF s) (hc : CacheOK s c) :
    ∃ l, (keys s c).1 = .ok l ∧ l.Nodup ∧ (∀ n, n ∈ l ↔ (denote s n).isSome) ∧ CacheOK s (keys s c).2 := by
  obtain ⟨l, h1, h2, h3⟩ := keys_spec s c hwf hc
  exact ⟨l, h1, h2.1, h2.2, h3⟩

/-- `iter(scope)` yields exactly the names that have a value, each once -/
theorem iter_eq_support (s : Scope) (c : Caches) (hwf : WF s) (hc : CacheOK s c) :
    ∃ l, (iter s c).1 = .ok l ∧ l.Nodup ∧ (∀ n, n ∈ l ↔ (denote s n).isSome) ∧ CacheOK s (iter s c).2 := by
  obtain ⟨l, h1, h2, h3⟩ := iter_spec s c hwf hc
  exact ⟨l, h1, h2.1, h2.2, h3⟩

/-- `len(scope)` is the number of names that have a value (shadowed names are not counted twice) -/
theorem len_eq_card (s : Scope) (c : Caches) (hwf : WF s) (hc : CacheOK s c) :
    ∃ (k : Nat) (l : List Name), (len s c).1 = .ok k ∧ l.Nodup ∧ (∀ n, n ∈ l ↔ (denote s n).isSome) ∧ l.length = k ∧
      CacheOK s (len s c).2 := by
  obtain ⟨k, h1, ⟨l, h2, h3⟩, h4⟩ := len_spec s c hwf hc
  exact ⟨k, l, h1, h2.1, h2.2, h3, h4⟩

/-- `scope.as_dict()` is the denoted mapping -/
theorem asDict_eq (s : Scope) (c : Caches) (hwf : WF s) (hc : CacheOK s c) :
    ∃ d, (asDict s c).1 = .ok d ∧ (akeys d).Nodup ∧ (∀ n, alook n d = denote s n) ∧
      CacheOK s (asDict s c).2 := by
  obtain ⟨d, h1, h2, h3⟩ := asDict_spec s c hwf hc
  exact ⟨d, h1, h2.1, h2.2, h3⟩

/-- `scope.items()` is the denoted mapping -/
theorem items_eq (s : Scope) (c : Caches) (hwf : WF s) (hc : CacheOK s c) :
    ∃ d, (items s c).1 = .ok d ∧ (akeys d).Nodup ∧ (∀ n, alook n d = denote s n) ∧
      CacheOK s (items s c).2 := by
  obtain ⟨d, h1, h2, h3⟩ := items_spec s c hwf hc
  exact ⟨d, h1, h2.1, h2.2, h3⟩

/-! ## volatility -/

/-- a name is reported volatile exactly when its value depends on a parameter marked volatile at the
top (`JointScope` as repaired by `fixes/PF-07.diff`) -/
theorem volatile_iff (s : Scope) (c : Caches) (hwf : WF s) (hc : CacheOK s c) :
    ∃ l, (volatile s c).1 = .ok l ∧ l.Nodup ∧ (∀ n, n ∈ l ↔ DependsVolatile s n) ∧
      CacheOK s (volatile s c).2 := by
  obtain ⟨l, h1, h2, h3⟩ := volatile_spec s c hwf hc
  exact ⟨l, h1, h2.1, h2.2, h3⟩

/-- a loop index shadows a volatile name: the index itself is never reported … -/
theorem index_not_volatile (inner : Scope) (idx : Name) (v : Val) :
    ¬ DependsVolatile (.range inner idx v) idx := by
  simp [DependsVolatile]

/-- … but a name defined *below* the loop from the shadowed volatile parameter still is -/
example : DependsVolatile
    (.range (.mapped (.dict [("v", 3)] ["v"]) [("x", .add (.var "v") (.lit 1))]) "v" 5) "x" := by
  simp [DependsVolatile, alook, Expr.vars]

/-- the executable twin used by the judge decides `DependsVolatile` -/
theorem dependsVolatileB_iff (s : Scope) (n : Name) : dependsVolatileB s n = true ↔ DependsVolatile s n :=
  QP.C13.dependsVolatileB_iff s n

/-! ## changing constants -/

/-- `change_constants` yields exactly the stack built from the changed constants, with a consistent
memo (nothing stale survives, whether a layer was rebuilt or handed back as `self`), and the result
is well-formed again -/
theorem change_eq_rebuild (s : Scope) (c : Caches) (new : Dict) (hwf : WF s) (hc : CacheOK s c) :
    (changeConstants s c new).scope = rebuild s new ∧
    CacheOK (rebuild s new) (changeConstants s c new).caches ∧ WF (rebuild s new) := by
  obtain ⟨h1, h2, _⟩ := change_spec s c new hc
  exact ⟨h1, h2, WF_rebuild s new hwf⟩

/-- in particular every later lookup on the changed scope is a lookup in the rebuilt mapping -/
theorem change_then_lookup (s : Scope) (c : Caches) (new : Dict) (n : Name) (hc : CacheOK s c) :
    let r := changeConstants s c new
    (lookup r.scope r.caches n).1.toOption = denote (rebuild s new) n := by
  obtain ⟨h1, h2, _⟩ := change_spec s c new hc
  simp only [h1]
  exact (lookup_spec _ _ n h2).1

/-- when a method hands back `self` nothing changed -/
theorem change_same (s : Scope) (c : Caches) (new : Dict) (hc : CacheOK s c)
    (h : (changeConstants s c new).same = true) :
    rebuild s new = s ∧ (changeConstants s c new).caches = c :=
  (change_spec s c new hc).2.2 h

/-! ## histories -/

/-- freshly constructed objects satisfy the memo invariant -/
theorem fresh_cacheOK (s : Scope) : CacheOK s (fresh s) := fresh_ok s

/-- Every answer of every history of calls (lookups, membership tests, iteration, length, keys, items,
dictionary view, volatile query, constant changes — in any order, of any length) on a well-formed
stack is the answer of the denoted mapping (of the stack rebuilt from the constants changed so far). -/
theorem history_ok (s : Scope) (ops : List Op) (hwf : WF s) : RunOK s ops (run s (fresh s) ops) :=
  run_spec ops s (fresh s) hwf (fresh_ok s)

/-- the same from any memo state reachable earlier -/
theorem history_ok_from (s : Scope) (c : Caches) (ops : List Op) (hwf : WF s) (hc : CacheOK s c) :
    RunOK s ops (run s c ops) :=
  run_spec ops s c hwf hc

/-- the judge applied to the implementation's answers decides the property clause -/
theorem judge_iff (s : Scope) (op : Op) (a : Ans) : ansOKB s op a = true ↔ AnsOK s op a :=
  ansOKB_iff s op a

/-! ## error branches -/

/-- a failing lookup is a `KeyError` of one of the two flavours; the `TypeError` branch of
`MappedScope.get_parameter` (item assignment on the frozen memo) and the `mismatch` arm of the model
are never taken -/
theorem lookup_error_is_missing (s : Scope) (c : Caches) (n : Name) (e : Err) (hc : CacheOK s c)
    (h : (lookup s c n).1 = .error e) : e = .parameterMissing ∨ e = .keyError :=
  lookup_err s c n e hc h

/-- a name without a value is rejected, never answered -/
theorem lookup_absent_fails (s : Scope) (c : Caches) (n : Name) (hc : CacheOK s c) (h : denote s n = none) :
    ∃ e, (lookup s c n).1 = .error e := by
  have := (lookup_spec s c n hc).1
  rw [h] at this
  cases hr : (lookup s c n).1 with
  | error e => exact ⟨e, rfl⟩
  | ok v => rw [hr] at this; simp [Except.toOption] at this

/-- Outside `WF`: a mapping expression that mentions a name its outer scope lacks makes the lookup of
the mapped name fail with `ParameterNotProvidedException` although `in` answers `True` — as the code. -/
theorem mapped_missing_variable (inner : Scope) (m : List (Name × Expr)) (c : Caches) (n v : Name) (e : Expr)
    (hc : CacheOK (.mapped inner m) c) (hm : alook n m = some e) (hv : v ∈ e.vars)
    (hmiss : denote inner v = none) :
    (lookup (.mapped inner m) c n).1 = .error .parameterMissing ∧ contains (.mapped inner m) n = true := by
  have hnone : denote (.mapped inner m) n = none := by
    simp only [denote, hm]
    cases he : e.eval (denote inner) with
    | none => rfl
    | some x =>
      have := (Expr.eval_isSome_iff (denote inner) e).1 (by simp [he]) v hv
      simp [hmiss] at this
  refine ⟨?_, ?_⟩
  · obtain ⟨err, herr⟩ := lookup_absent_fails _ c n hc hnone
    cases c with
    | mapped ci cache asd volc =>
      have herr' := herr
      simp only [lookup] at herr'
      have := (mappedLookup_err (lookup_getSpec inner) (fun c n e hc hr => lookup_err inner c n e hc hr)
        n err hc herr').2 e hm
      rw [herr, this]
    | _ => simp [CacheOK] at hc
  · simp only [contains, Bool.or_eq_true, decide_eq_true_eq]
    exact Or.inl ((alook_isSome_iff n m).1 (by simp [hm]))

/-- a name that is not listed in a `JointScope` raises a plain `KeyError` -/
theorem joint_absent_keyError (es : Entries) (c : Caches) (n : Name) (hc : CacheOK (.joint es) c)
    (hn : n ∉ keysE es) : (lookup (.joint es) c n).1 = .error .keyError := by
  cases c with
  | joint ces asd volc =>
    simp only [CacheOK] at hc
    simp only [lookup]
    exact lookupE_absent es ces n hc.1 hn
  | _ => simp [CacheOK] at hc

/-! ## PF-07: the pinned `JointScope.get_volatile_parameters` -/

/-- the unrepaired method (`for parameter_name, scope in self._lookup:`) raises for every non-empty
joint scope … -/
theorem pinned_joint_volatile_fails (k : Name) (s : Scope) (rest : Entries) :
    ∃ e, volatileJointPinned (.cons k s rest) = .error e := by
  simp only [volatileJointPinned]; split <;> exact ⟨_, rfl⟩

/-- `JointScope({'x': DictScope({'x': 1}, volatile={'x'})})` -/
def pf07Witness : Entries := .cons "x" (.dict [("x", 1)] ["x"]) .nil

/-- … so `volatile_iff` is false of the pinned code: on this witness the property demands the answer
`{x}` (which the repaired method gives) -/
theorem pinned_joint_volatile_counterexample :
    volatileJointPinned pf07Witness = .error .valueError ∧
    (volatile (.joint pf07Witness) (fresh (.joint pf07Witness))).1 = .ok ["x"] ∧
    DependsVolatile (.joint pf07Witness) "x" := by
  refine ⟨by rfl, by rfl, ?_⟩
  simp [pf07Witness, DependsVolatile, DependsVolatileE]

/-! ## the hypotheses are satisfiable (all four classes, shadowing, a shared volatile name) -/

def exampleStack : Scope :=
  .joint (.cons "c" (.mapped
      (.range (.mapped (.dict [("a", 1), ("v", 3)] ["v"]) [("x", .add (.var "a") (.var "v")), ("a", .lit 7)]) "v" 5)
      [("c", .mul (.var "x") (.var "v"))])
    (.cons "a" (.dict [("a", 2)] []) .nil))

example : WF exampleStack := by unfold WF; decide
example : CacheOK exampleStack (fresh exampleStack) := fresh_cacheOK _
example : denote exampleStack "c" = some 20 := by decide +kernel
example : DependsVolatile exampleStack "c" := (dependsVolatileB_iff _ _).1 (by decide)
example : ¬ WF (.mapped (.dict [("a", 1)] []) [("x", .var "b")]) := by unfold WF; decide

end QP.Props.C13
