import QP.Model.C13
namespace QP.Props.C13
open QP.C13

theorem pinned_joint_volatile_fails (k : Name) (s : Scope) (rest : Entries) :
    ∃ e, volatileJointPinned (.cons k s rest) = .error e := by
  simp only [volatileJointPinned]; split <;> exact ⟨_, rfl⟩

end QP.Props.C13
