import QP.Model.C14
import QP.Proofs.C14Int
import QP.Proofs.C14Rat
import QP.Proofs.C14Ops
/-!
Property theorems for C14 (time values are exact rationals; best rational approximation).

Only the statements live here; the proofs are in `QP/Proofs/C14Int.lean` (one loop iteration, the
loop invariant, termination), `QP/Proofs/C14Rat.lean` (the arithmetic preamble of
`approximate_rational`, the judge) and `QP/Proofs/C14Ops.lean` (operator table).
Every theorem is followed by an `example` showing that its hypotheses are satisfiable and its
conclusion non-trivial on a concrete input (`decide +kernel` = evaluation by the Lean kernel).
-/
namespace QP.Props.C14
open QP.C14

/-! ## the judge is the specification -/

/-- the executable judge applied to the implementation's answers decides exactly `IsBestApprox` -/
theorem judge_iff (x e r : Rat) : isBestApproxB x e r = true ↔ IsBestApprox x e r :=
  isBestApproxB_iff x e r

example : isBestApproxB (355/113) (1/100) (22/7) = true := by decide +kernel
example : isBestApproxB (355/113) (1/100) (3/1) = false := by decide +kernel       -- not inside
example : isBestApproxB (355/113) (1/100) (311/99) = false := by decide +kernel    -- inside, not minimal

/-- the per-denominator test of the judge: an integer `p` with `lo < p/q < hi` exists -/
theorem judge_denominator_iff (lo hi : Rat) (q : Nat) (hq : 0 < q) :
    hasFractionWithDen lo hi q = true ↔ ∃ p : Int, lo < mkRat p q ∧ mkRat p q < hi :=
  hasFractionWithDen_iff lo hi q hq

example : hasFractionWithDen (1/3) (1/2) 5 = true := by decide +kernel     -- 2/5
example : hasFractionWithDen (1/3) (1/2) 4 = false := by decide +kernel

/-! ## `approximate_rational` -/

/-- a non-positive tolerance is rejected, never approximated -/
theorem approx_rejects (x e : Rat) (h : e ≤ 0) : approximateRational x e = .error .valueError := by
  simp [approximateRational, approximateRationalPair, h]

example : approximateRational (1/3) 0 = .error .valueError := by decide +kernel

/-- **Main theorem.** For every rational `x` and every tolerance `e > 0` the model of
`approximate_rational` returns (the `while True` loop terminates within `fuelFor`, no division by
zero occurs) and what it returns lies strictly inside `(x - e, x + e)` and has the smallest
denominator of all fractions strictly inside. -/
theorem approx_best (x e : Rat) (he : 0 < e) :
    ∃ r, approximateRational x e = .ok r ∧ IsBestApprox x e r :=
  approximateRational_spec x e he

example : approximateRational (355/113) (1/100) = .ok (22/7) := by decide +kernel
example : approximateRational (-7/3) (1/1000) = .ok (-7/3) := by decide +kernel
example : approximateRational (2/3) (1/2) = .ok 1 := by decide +kernel     -- 1/1 inside: first iteration
example : approximateRational (1/10) (1/5) = .ok 0 := by decide +kernel     -- alpha < d
example : approximateRational (3602879701896397/36028797018963968) (1/10^9) = .ok (1/10) := by
  decide +kernel

/-- whatever the model returns is the best approximation (no hypothesis on `e` needed: for `e ≤ 0`
nothing is returned) -/
theorem approx_ok_best (x e r : Rat) (h : approximateRational x e = .ok r) : IsBestApprox x e r := by
  rcases lt_or_ge 0 e with he | he
  · obtain ⟨r', h', hb⟩ := approximateRational_spec x e he
    rw [h] at h'
    cases h'
    exact hb
  · rw [approx_rejects x e he] at h
    cases h

/-- totality: for a positive tolerance no error is raised — neither `ZeroDivisionError`
nor running out of fuel (= non-termination of the Python loop) -/
theorem approx_total (x e : Rat) (he : 0 < e) (err : Err) : approximateRational x e ≠ .error err := by
  obtain ⟨r, h, _⟩ := approximateRational_spec x e he
  rw [h]
  intro h'
  cases h'

/-- the two halves of `IsBestApprox` under their DESIGN names -/
theorem approx_inside (x e r : Rat) (h : approximateRational x e = .ok r) : x - e < r ∧ r < x + e :=
  ⟨(approx_ok_best x e r h).1, (approx_ok_best x e r h).2.1⟩

theorem approx_minimal (x e r : Rat) (h : approximateRational x e = .ok r)
    (p : Int) (q : Nat) (hq : 0 < q) (hlo : x - e < mkRat p q) (hhi : mkRat p q < x + e) :
    r.den ≤ q :=
  (approx_ok_best x e r h).2.2 p q hq hlo hhi

/-- the model's answer always passes the judge -/
theorem approx_passes_judge (x e r : Rat) (h : approximateRational x e = .ok r) :
    isBestApproxB x e r = true :=
  (judge_iff x e r).mpr (approx_ok_best x e r h)

/-- `_approximate_int` itself, under the guard its caller establishes (`0 < d ≤ alpha < den`):
fuel `den + 2` suffices, no error, the result `P/Q` lies strictly inside
`((alpha-d)/den, (alpha+d)/den)` and every fraction strictly inside has denominator `≥ Q`. -/
theorem approxInt_terminates_best (alpha d den : Int) (hd : 0 < d) (hda : d ≤ alpha)
    (had : alpha < den) :
    ∃ P Q, approxInt (fuelFor den) alpha d den = .ok (P, Q) ∧ 0 < Q ∧
      (alpha - d) * Q < den * P ∧ den * P < (alpha + d) * Q ∧
      ∀ p q : Int, 0 < q → (alpha - d) * q < den * p → den * p < (alpha + d) * q → Q ≤ q := by
  obtain ⟨P, Q, h, g⟩ := approxInt_spec alpha d den hd hda had
  exact ⟨P, Q, h, g.qpos, g.lo, g.hi, g.min⟩

example : approxInt (fuelFor 113) 16 1 113 = .ok (1, 7) := by decide +kernel   -- 16/113 ± 1/113 → 1/7
example : approxInt (fuelFor 1000) 415 1 1000 = .ok (17, 41) := by decide +kernel

/-- one loop iteration preserves the invariant and strictly increases `q_b`, or returns the
best approximation (this is the induction step of `approx_best`, exported because the
correspondence compares the model with the code iteration by iteration in effect) -/
theorem approx_step (alpha lower upper den : Int) (s : St)
    (hden : 0 < den) (hl : lower < alpha) (hu : alpha < upper) (hinv : Inv alpha lower upper den s) :
    (∃ s', step alpha lower upper den s = .ok (.inl s') ∧ Inv alpha lower upper den s' ∧ s.qb < s'.qb) ∨
    (∃ P Q, step alpha lower upper den s = .ok (.inr (P, Q)) ∧ Good lower upper den P Q) :=
  step_spec alpha lower upper den s hden hl hu hinv

example : Inv 415 414 416 1000 St.init := Inv.init 415 414 416 1000 (by omega) (by omega) (by omega)

/-! ## operator table: the answers are the rational-field answers -/

/-- the driver's binary operators are the `Rat` field operations / order relations; a zero divisor
is an error for `/`, `//`, `%` -/
theorem op_is_rat_op (a b : Rat) :
    binop "add" a b = Sexp.ofRat (a + b) ∧ binop "sub" a b = Sexp.ofRat (a - b) ∧
    binop "mul" a b = Sexp.ofRat (a * b) ∧
    (b ≠ 0 → binop "truediv" a b = Sexp.ofRat (a / b)) ∧
    (b ≠ 0 → binop "floordiv" a b = Sexp.ofInt (a / b).floor) ∧
    (b ≠ 0 → binop "mod" a b = Sexp.ofRat (a - b * (a / b).floor)) ∧
    (b = 0 → binop "truediv" a b = errS .zeroDivision ∧ binop "floordiv" a b = errS .zeroDivision ∧
      binop "mod" a b = errS .zeroDivision) ∧
    binop "lt" a b = Sexp.ofBool (a < b) ∧ binop "le" a b = Sexp.ofBool (a ≤ b) ∧
    binop "gt" a b = Sexp.ofBool (b < a) ∧ binop "ge" a b = Sexp.ofBool (b ≤ a) ∧
    binop "eq" a b = Sexp.ofBool (a = b) :=
  binop_table a b

theorem unop_is_rat_op (a : Rat) :
    unop "neg" a = Sexp.ofRat (-a) ∧ unop "abs" a = Sexp.ofRat (if a < 0 then -a else a) ∧
    unop "floor" a = Sexp.ofInt a.floor ∧ unop "ceil" a = Sexp.ofInt a.ceil ∧
    unop "trunc" a = Sexp.ofInt (pyTrunc a) ∧ unop "int" a = Sexp.ofInt (pyTrunc a) ∧
    unop "round" a = Sexp.ofInt (roundHalfEven a) ∧ unop "hash" a = Sexp.ofInt (pyHashRat a) :=
  unop_table a

/-- mixed-type operations are symmetric: the operand order only matters the way it does in ℚ -/
theorem mixed_symmetric (a b : Rat) :
    binop "add" a b = binop "add" b a ∧ binop "mul" a b = binop "mul" b a ∧
    binop "eq" a b = binop "eq" b a ∧ binop "lt" a b = binop "gt" b a ∧
    binop "le" a b = binop "ge" b a := by
  refine ⟨?_, ?_, ?_, rfl, rfl⟩
  · show Sexp.ofRat (a + b) = Sexp.ofRat (b + a)
    rw [Rat.add_comm]
  · show Sexp.ofRat (a * b) = Sexp.ofRat (b * a)
    rw [Rat.mul_comm]
  · show Sexp.ofBool (decide (a = b)) = Sexp.ofBool (decide (b = a))
    rw [decide_eq_decide.mpr (eq_comm (a := a) (b := b))]

/-- `a = b * (a // b) + a % b` -/
theorem floordiv_mod_identity (a b : Rat) : a = b * (pyFloorDiv a b : Rat) + pyMod a b :=
  divmod_identity a b

/-- `0 ≤ a % b < b` for a positive modulus -/
theorem mod_range_pos (a b : Rat) (hb : 0 < b) : 0 ≤ pyMod a b ∧ pyMod a b < b := pyMod_pos a b hb

/-- `b < a % b ≤ 0` for a negative modulus (Python's sign convention) -/
theorem mod_range_neg (a b : Rat) (hb : b < 0) : b < pyMod a b ∧ pyMod a b ≤ 0 := pyMod_neg a b hb

/-- `//` is determined by the remainder range -/
theorem floordiv_unique (a b : Rat) (hb : 0 < b) (k : Int)
    (h0 : 0 ≤ a - b * k) (h1 : a - b * k < b) : pyFloorDiv a b = k :=
  pyFloorDiv_unique a b hb k h0 h1

example : pyFloorDiv (-7/2) (1/3) = -11 ∧ pyMod (-7/2) (1/3) = 1/6 := by decide +kernel
example : pyMod (7/2) (-1/3) = -1/6 := by decide +kernel

/-- `round(x)` is within 1/2 of `x` and on a tie picks the even neighbour -/
theorem round_half_even (x : Rat) :
    |x - (roundHalfEven x : Rat)| ≤ 1 / 2 ∧
    (|x - (roundHalfEven x : Rat)| = 1 / 2 → roundHalfEven x % 2 = 0) :=
  roundHalfEven_spec x

example : roundHalfEven (5/2) = 2 ∧ roundHalfEven (7/2) = 4 ∧ roundHalfEven (-5/2) = -2 ∧
    roundHalfEven (-1/2) = 0 ∧ roundHalfEven (8/3) = 3 := by decide +kernel

/-- `round(x, n)` (a rational): `k` units of the `n`-th decimal digit, within half a unit of `x`, ties to
the even `k`; the unit is `1/10^n` for `n ≥ 0` and `10^(-n)` for `n < 0` -/
theorem round_ndigits (x : Rat) (n : Int) :
    (0 ≤ n → ∃ k : Int, roundNdigits x n = (k : Rat) / (10 : Rat) ^ n.toNat ∧
        |x - roundNdigits x n| ≤ (1 / 2) / (10 : Rat) ^ n.toNat ∧
        (|x - roundNdigits x n| = (1 / 2) / (10 : Rat) ^ n.toNat → k % 2 = 0)) ∧
    (n < 0 → ∃ k : Int, roundNdigits x n = (k : Rat) * (10 : Rat) ^ (-n).toNat ∧
        |x - roundNdigits x n| ≤ (1 / 2) * (10 : Rat) ^ (-n).toNat ∧
        (|x - roundNdigits x n| = (1 / 2) * (10 : Rat) ^ (-n).toNat → k % 2 = 0)) :=
  roundNdigits_spec x n

example : roundNdigits (1/3) 2 = 33/100 ∧ roundNdigits (12345/2) (-2) = 6200 ∧ roundNdigits (1/4) 1 = 1/5 ∧
    roundNdigits (35/100) 1 = 2/5 ∧ roundNdigits (-1/3) 0 = 0 := by decide +kernel

/-- `int(x)` / `trunc(x)` round toward zero -/
theorem trunc_nonneg (x : Rat) (hx : 0 ≤ x) :
    0 ≤ pyTrunc x ∧ (pyTrunc x : Rat) ≤ x ∧ x < (pyTrunc x : Rat) + 1 := pyTrunc_nonneg x hx

theorem trunc_neg (x : Rat) (hx : x < 0) :
    pyTrunc x ≤ 0 ∧ x ≤ (pyTrunc x : Rat) ∧ (pyTrunc x : Rat) - 1 < x := pyTrunc_neg x hx

example : pyTrunc (-7/2) = -3 ∧ pyTrunc (7/2) = 3 := by decide +kernel

/-- the hash of an integer-valued time is Python's integer hash `sign n * (|n| mod (2^61-1))`
(with `-1 ↦ -2`), so `hash(TimeType(n)) == hash(n)` -/
theorem hash_int (n : Int) : pyHashRat (n : Rat) = pyHashInt n := pyHashRat_intCast n

example : pyHashRat (2 ^ 61 : Int) = 1 ∧ pyHashRat (-1 : Int) = -2 ∧ pyHashRat (1/2) = 2 ^ 60 := by
  decide +kernel

/-- equal values hash equally (the hash is a function of the rational value only) -/
theorem hash_congr (a b : Rat) (h : a = b) : pyHashRat a = pyHashRat b := by rw [h]

/-- exact binary value: the IEEE sign bit negates the value and changes nothing else -/
theorem ofBits_sign_bit (b : Nat) (hb : b < 2 ^ 63) :
    ofBits (b + 2 ^ 63) = (ofBits b).map (fun v => -v) := ofBits_sign b hb

example : ofBits 0x3FB999999999999A = some (3602879701896397 / 36028797018963968) := by
  decide +kernel                                                                  -- 0.1
example : ofBits 0x7FF0000000000000 = none := by decide +kernel                  -- inf
example : ofBits 1 = some (1 / 2 ^ 1074) := by decide +kernel                    -- 5e-324

end QP.Props.C14
