import QP.Model.C14
/-! Property theorems for C14 (time values are exact rationals; best rational approximation). -/
namespace QP.Props.C14
open QP.C14

/-- a non-positive tolerance is rejected, never approximated -/
theorem approx_rejects (x e : Rat) (h : e ≤ 0) : approximateRational x e = .error .valueError := by
  simp [approximateRational, approximateRationalPair, h]

end QP.Props.C14
