import QP.Model.C07
/-! Property theorems for C07 (placeholder while the harness is brought up). -/
namespace QP.Props.C07
open QP.PT QP.C07

theorem plIntegral_nil : plIntegral [] = 0 := rfl

end QP.Props.C07
