import QP.Proofs.C07Induction
import QP.Proofs.C07Def
import QP.Proofs.C07DefEnds
import QP.Proofs.C07Pad
import QP.Proofs.C07Witness
/-!
# Property theorems for C07

*Symbolic integral, initial and final values agree with the instantiated pulse; padding holds the final value.*

Program side: `QP.C07.integralOf / initialOf / finalOf` (the closed forms of every template class, evaluated in a
scope).  Spec side: `plIntegral` / `plEnd .first` / `plEnd .last` of the segment lists of `QP.PT.denote`.

FULL STATEMENT (the goal; **not** a theorem of the code as it is):

    ∀ pt σ mm cm P c o, denote pt σ mm cm = .ok P → regular pt σ → InjOn cm pt.definedChannels →
      c ∈ pt.definedChannels → cm.lookup c = some (some o) →
        (∀ r, integralOf pt σ c = .ok r → r = plIntegral (pulseVal P o)) ∧
        (∀ v v', plEnd .first (pulseVal P o) = some v → initialOf pt σ c = .ok v' → v' = v) ∧
        (∀ v v', plEnd .last  (pulseVal P o) = some v → finalOf  pt σ c = .ok v' → v' = v)

It is false on the pinned code: `final_counterexample` (PF-09, `ForLoopPulseTemplate.final_values` index),
`initial_counterexample_jump` (PF-C07-2), `initial_counterexample_empty_part` (PF-C07-3); a table that ends in a
`hold` segment *specifies* its last entry as final value (`final_table_hold_specified`), which is not the value the
voltage ends on.

What is proved (`*_partial`): the statement for **all thirteen constructors** (constant, table — all three
interpolations, padding to the common duration —, point — scalar entries broadcast to all channels —, function affine
in `t`, sequence, repetition, iteration — every range shape —, mapping with renamed / dropped channels, parallel
channel — overwritten and added channels —, atomic multi channel, arithmetic with a scalar operand — all four
operators, both operand orders, uniform and per-channel scalars —, atomic arithmetic of two templates, time reversal
(which implements the integral only)) and all trees over them, under the hypotheses

* `supported pt` — what the constructors of the real classes enforce (distinct `dict` keys, all parts of a sequence
  define the same channels, the parts of an atomic multi channel template define disjoint channels, total and
  injective channel mappings, per-channel scalars name channels of the operand) plus the two limits of the *model* of
  the closed forms: function templates affine in `t` and scalar operands independent of `t` (otherwise
  `integralOf = .error .unsupported`);
* `regular pt σ` — durations, entry times, counts non-negative, times non-decreasing, counts / range parameters
  exact integers, equal durations of the parts of an atomic multi channel / atomic arithmetic template;
* `keeps pt cm` — no atomic leaf loses all its channels through the channel mapping (such a leaf vanishes from the
  pulse together with its duration; same exclusion as C04);
* for the initial / final clause: the path of the closed form runs through none of the documented classes
  (`pathTags … = .ok []`: PF-09, PF-C07-2, PF-C07-3, table ending in `hold`).

By-products, for all thirteen constructors: `duration_correct` (the duration expression evaluates to the duration of
the denoted pulse), `pulse_well_formed` (every channel of a denoted pulse consists of pieces of positive length that
add up to the duration), `channel_played` (a kept channel is played unless the pulse has duration 0).
Definedness, for all thirteen constructors: under the extra hypothesis `positive` (every part is actually played)
the duration, the integral and -- where the class provides them -- the initial / final values evaluate
(`duration_defined_partial`, `integral_defined_partial`, `ends_defined_partial`), so that no hypothesis about the
closed form is left; without `positive` the success of `denote` does not imply it (skipped parts are never evaluated).
The range arithmetic (`range_*`, `final_index_eq_last_iff`) and `pad_holds_final` are proved in full.
-/
namespace QP.Props.C07
open QP.PT QP.C07

/-! ## Python's `range(start, stop, step)`, for every integer triple with `step ≠ 0` -/

/-- the elements of `range(a, b, s)` are exactly the `a + s·k`, `k = 0, 1, …`, that lie before `stop` -/
theorem range_mem_iff {a b s : Int} (hs : s ≠ 0) (x : Int) :
    x ∈ pyRange a b s ↔ ∃ k : Nat, x = a + s * (k : Int) ∧ (if 0 < s then x < b else b < x) :=
  mem_pyRange_iff hs x

/-- they are listed in order: the `k`-th element is `a + s·k` -/
theorem range_eq_map (a b s : Int) :
    pyRange a b s = (List.range (pyRange a b s).length).map (fun (k : Nat) => a + s * (k : Int)) := by
  rw [pyRange_length]; exact pyRange_eq_map a b s

/-- the length is sympy's `ceiling((stop - start)/step)` where that is positive and 0 otherwise: empty ranges,
steps that do not divide the span and negative steps included -/
theorem range_length {a b s : Int} (hs : s ≠ 0) :
    (pyRange a b s).length = ((((b - a : Int) : Rat) / (s : Rat)).ceil).toNat := by
  rw [pyRange_length]; exact rangeLen_eq_stepCount hs

/-- first and last element -/
theorem range_head_last (a b s : Int) :
    (pyRange a b s).head? = (if (pyRange a b s).length = 0 then none else some a) ∧
    (pyRange a b s).getLast? =
      (if (pyRange a b s).length = 0 then none else some (a + s * (((pyRange a b s).length : Int) - 1))) := by
  rw [pyRange_length]; exact ⟨pyRange_head? a b s, pyRange_getLast? a b s⟩

/-- PF-09, the exact class: the index `start + Max(floor((stop-start)/step) - 1, 0)·step` that
`ForLoopPulseTemplate.final_values` substitutes is the last index of a non-empty range iff the step divides
`stop - start` or the range has exactly one element -/
theorem final_index_eq_last_iff {a b s : Int} (hs : s ≠ 0) (hn : 0 < (pyRange a b s).length) :
    finalIndex a b s = a + s * (((pyRange a b s).length : Int) - 1) ↔
      (s ∣ (b - a) ∨ (pyRange a b s).length = 1) := by
  rw [pyRange_length] at hn ⊢; exact finalIndex_eq_last_iff hs hn

/-- PF-09 on `range(0, 5, 2)`: index 2 instead of 4 -/
theorem final_index_counterexample : finalIndex 0 5 2 = 2 ∧ (pyRange 0 5 2).getLast? = some 4 := by
  refine ⟨?_, by decide⟩
  have h : floorCount 0 5 2 = 2 := by
    have h1 := (le_floorCount_iff_pos (a := 0) (b := 5) (s := 2) (by omega) 2).mpr (by omega)
    have h2 := (le_floorCount_iff_pos (a := 0) (b := 5) (s := 2) (by omega) 3)
    omega
  simp [finalIndex, h]

/-- PF-09 on `range(5, 0, -2)`: index 3 instead of 1 -/
theorem final_index_counterexample_neg : finalIndex 5 0 (-2) = 3 ∧ (pyRange 5 0 (-2)).getLast? = some 1 := by
  refine ⟨?_, by decide⟩
  have h : floorCount 5 0 (-2) = 2 := by
    have h1 := (le_floorCount_iff_neg (a := 5) (b := 0) (s := -2) (by omega) 2).mpr (by omega)
    have h2 := (le_floorCount_iff_neg (a := 5) (b := 0) (s := -2) (by omega) 3)
    omega
  simp [finalIndex, h]

/-! ## The closed forms agree with the denoted pulse (all thirteen constructors) -/

/-- `integral_correct`, proved for all trees over all thirteen constructors (all ranges) under `supported`, `regular`,
`keeps`: whenever
`pt.integral[c]` evaluates at the parameters, its value is the integral of the denoted voltage of the channel -/
theorem integral_correct_partial {pt : PT} {σ : Scope} {mm cm} {P : Pulse} {c o : Chan} {r : Rat}
    (hs : supported pt = true) (hreg : regular pt σ = true) (hden : denote pt σ mm cm = .ok P)
    (hinj : InjOn cm pt.definedChannels) (hc : c ∈ pt.definedChannels) (hcm : cm.lookup c = some (some o))
    (hkeep : keeps pt cm = true) (hr : integralOf pt σ c = .ok r) : r = plIntegral (pulseVal P o) :=
  (claim pt hs σ mm cm P c o hden hreg hinj hc hcm hkeep).1 r hr

/-- `initial_correct`, proved for all thirteen constructors outside the documented classes: `pt.initial_values[c]` is the value
the first played piece starts with (the voltage at time zero) -/
theorem initial_correct_partial {pt : PT} {σ : Scope} {mm cm} {P : Pulse} {c o : Chan} {v v' : Rat}
    (hs : supported pt = true) (hreg : regular pt σ = true) (hden : denote pt σ mm cm = .ok P)
    (hinj : InjOn cm pt.definedChannels) (hc : c ∈ pt.definedChannels) (hcm : cm.lookup c = some (some o))
    (hkeep : keeps pt cm = true) (hclass : pathTags .first pt σ mm cm c = .ok [])
    (hv : plEnd .first (pulseVal P o) = some v) (hv' : initialOf pt σ c = .ok v') : v' = v :=
  (claim pt hs σ mm cm P c o hden hreg hinj hc hcm hkeep).2 .first hclass v v' hv hv'

/-- `final_correct`, proved for all thirteen constructors outside the documented classes (in particular outside PF-09:
`pathTags .last` contains `pf09` exactly when the index used by the code is not the last index of the range):
`pt.final_values[c]` is the end value of the last played piece -/
theorem final_correct_partial {pt : PT} {σ : Scope} {mm cm} {P : Pulse} {c o : Chan} {v v' : Rat}
    (hs : supported pt = true) (hreg : regular pt σ = true) (hden : denote pt σ mm cm = .ok P)
    (hinj : InjOn cm pt.definedChannels) (hc : c ∈ pt.definedChannels) (hcm : cm.lookup c = some (some o))
    (hkeep : keeps pt cm = true) (hclass : pathTags .last pt σ mm cm c = .ok [])
    (hv : plEnd .last (pulseVal P o) = some v) (hv' : finalOf pt σ c = .ok v') : v' = v :=
  (claim pt hs σ mm cm P c o hden hreg hinj hc hcm hkeep).2 .last hclass v v' hv hv'

/-- the three clauses for `create_program` without user mappings (identity channel mapping: the injectivity and
lookup hypotheses are discharged) -/
theorem quantities_correct_top_partial {pt : PT} {params : List (String × Rat)} {ctx : Ctx} {P : Pulse} {c : Chan}
    (hs : supported pt = true) (hctx : topCtx pt params none [] [] = .ok ctx)
    (hreg : regular pt (.dict params) = true) (hden : denote pt ctx.scope ctx.mm ctx.cm = .ok P)
    (hc : c ∈ pt.definedChannels) (hkeep : keeps pt ctx.cm = true) :
    (∀ r, integralOf pt (.dict params) c = .ok r → r = plIntegral (pulseVal P c)) ∧
    (∀ e, pathTags e pt (.dict params) ctx.mm ctx.cm c = .ok [] → ∀ v v',
      plEnd e (pulseVal P c) = some v → endOf e pt (.dict params) c = .ok v' → v' = v) := by
  obtain ⟨hsc, hcm⟩ := topCtx_plain hctx
  rw [hsc] at hden
  have hinj : InjOn ctx.cm pt.definedChannels := by rw [hcm]; exact injOn_identity _
  have hl : ctx.cm.lookup c = some (some c) := by rw [hcm]; exact lookup_identity _ c hc
  exact claim pt hs (.dict params) ctx.mm ctx.cm P c c hden hreg hinj hc hl hkeep

/-- `duration_correct` (all thirteen constructors): the duration expression of a template evaluates to the duration of
the pulse it denotes -/
theorem duration_correct {pt : PT} {σ : Scope} {mm cm} {P : Pulse} {D : Rat}
    (hs : supported pt = true) (hreg : regular pt σ = true) (hden : denote pt σ mm cm = .ok P)
    (hkeep : keeps pt cm = true) (hD : templateDuration pt σ = .ok D) : D = P.dur :=
  (invClaim pt hs σ mm cm P hden hreg).2.2 hkeep D hD

/-- `pulse_well_formed` (all thirteen constructors): a pulse without channels has duration 0, durations are
non-negative, and every channel consists of pieces of positive length whose lengths add up to the duration; every
channel of the pulse is the image of a defined channel under the channel mapping -/
theorem pulse_well_formed {pt : PT} {σ : Scope} {mm cm} {P : Pulse}
    (hs : supported pt = true) (hreg : regular pt σ = true) (hden : denote pt σ mm cm = .ok P) :
    (P.isEmpty = true → P.dur = 0) ∧ 0 ≤ P.dur ∧
    (∀ x ∈ P.chans, (∀ s ∈ x.2, 0 < s.len) ∧ PL.dur x.2 = P.dur) ∧
    (∀ o ∈ P.chanNames, ∃ c ∈ pt.definedChannels, cm.lookup c = some (some o)) := by
  obtain ⟨h1, h2, _⟩ := invClaim pt hs σ mm cm P hden hreg
  exact ⟨h1.empty_dur, h1.dur_nonneg, h1.seg, h2⟩

/-- `channel_played` (all thirteen constructors): a defined channel that the channel mapping keeps is a channel of the
denoted pulse, unless the pulse has duration 0 -/
theorem channel_played {pt : PT} {σ : Scope} {mm cm} {P : Pulse} {c o : Chan}
    (hs : supported pt = true) (hreg : regular pt σ = true) (hden : denote pt σ mm cm = .ok P)
    (hc : c ∈ pt.definedChannels) (hcm : cm.lookup c = some (some o)) (hkeep : keeps pt cm = true) :
    o ∈ P.chanNames ∨ P.dur = 0 :=
  presClaim pt hs σ mm cm P hden hreg hkeep c o hc hcm

/-! ## Definedness: the closed forms evaluate

The theorems above say "whenever the closed form evaluates".  `create_program` skips parts that play nothing (duration
0, count 0, empty range) without looking at the expressions in there, so the success of `denote` alone does not imply
that the closed forms evaluate; it does if every part is actually played (`positive`). -/

/-- `duration_defined` (all thirteen constructors): if every part of the template is played (`positive`), the duration
expression evaluates -- to the (positive) duration of the denoted pulse -/
theorem duration_defined_partial {pt : PT} {σ : Scope} {mm cm} {P : Pulse}
    (hs : supported pt = true) (hreg : regular pt σ = true) (hpos : positive pt σ = true)
    (hden : denote pt σ mm cm = .ok P) (hkeep : keeps pt cm = true) :
    ∃ D, templateDuration pt σ = .ok D ∧ 0 < D ∧ D = P.dur := by
  obtain ⟨⟨D, hD, hD0⟩, _⟩ := defClaim pt hs σ mm cm P hden hreg hpos hkeep
  exact ⟨D, hD, hD0, duration_correct hs hreg hden hkeep hD⟩

/-- `integral_defined` (all thirteen constructors): if every part of the template is played (`positive`), then
`pt.integral[c]` evaluates for every kept channel -- to the integral of the denoted voltage.  No hypothesis about the
closed form is left. -/
theorem integral_defined_partial {pt : PT} {σ : Scope} {mm cm} {P : Pulse} {c o : Chan}
    (hs : supported pt = true) (hreg : regular pt σ = true) (hpos : positive pt σ = true)
    (hden : denote pt σ mm cm = .ok P)
    (hinj : InjOn cm pt.definedChannels) (hc : c ∈ pt.definedChannels) (hcm : cm.lookup c = some (some o))
    (hkeep : keeps pt cm = true) : ∃ r, integralOf pt σ c = .ok r ∧ r = plIntegral (pulseVal P o) := by
  obtain ⟨_, h⟩ := defClaim pt hs σ mm cm P hden hreg hpos hkeep
  obtain ⟨r, hr⟩ := h hinj c o hc hcm
  exact ⟨r, hr, integral_correct_partial hs hreg hden hinj hc hcm hkeep hr⟩

/-- `initial_defined` / `final_defined` (all thirteen constructors; `provides` excludes time reversal, which
implements neither): if every part of the template is played (`positive`) and the path of the closed form runs
through none of the documented classes, then `pt.initial_values[c]` (`e = .first`) / `pt.final_values[c]`
(`e = .last`) evaluates, the kept channel is played, and the value is the one the played voltage starts / ends with -/
theorem ends_defined_partial {e : End} {pt : PT} {σ : Scope} {mm cm} {P : Pulse} {c o : Chan}
    (hs : supported pt = true) (hreg : regular pt σ = true) (hpos : positive pt σ = true)
    (hden : denote pt σ mm cm = .ok P)
    (hinj : InjOn cm pt.definedChannels) (hc : c ∈ pt.definedChannels) (hcm : cm.lookup c = some (some o))
    (hkeep : keeps pt cm = true) (hprov : provides e pt = true) (hclass : pathTags e pt σ mm cm c = .ok []) :
    ∃ v, endOf e pt σ c = .ok v ∧ plEnd e (pulseVal P o) = some v := by
  obtain ⟨D, _, hD0, hDP⟩ := duration_defined_partial hs hreg hpos hden hkeep
  obtain ⟨_, _, hseg, _⟩ := pulse_well_formed hs hreg hden
  have hmem : o ∈ P.chanNames := by
    rcases channel_played hs hreg hden hc hcm hkeep with h | h
    · exact h
    · rw [hDP, h] at hD0; exact absurd hD0 (by grind)
  obtain ⟨pl, hpl⟩ := lookup_isSome_of_mem_keys P.chans o hmem
  have hdur := (hseg (o, pl) (mem_of_lookup P.chans o pl hpl)).2
  have hne : pl ≠ [] := by
    intro h0
    rw [h0] at hdur
    simp only [PL.dur] at hdur
    rw [hDP, ← hdur] at hD0
    exact absurd hD0 (by simp)
  have hval : pulseVal P o = pl := by simp [pulseVal, hpl]
  obtain ⟨w, hw⟩ := plEnd_some_of_ne_nil e hne
  obtain ⟨v, hv⟩ := endDefClaim e pt hs σ mm cm P hden hreg hpos hkeep hprov hinj c o hc hcm
  have := (claim pt hs σ mm cm P c o hden hreg hinj hc hcm hkeep).2 e hclass w v (by rw [hval]; exact hw) hv
  exact ⟨v, hv, by rw [hval, hw, this]⟩

/-- the integral of a loop whose range is empty is 0, for every body (PF-09b repaired; the unrepaired code
returned the body integral at the start index) -/
theorem integral_empty_loop (id body idx start stop step meas cons) (σ : Scope) (c : Chan) (a b s : Int)
    (ha : σ.eval start = .ok (a : Rat)) (hb : σ.eval stop = .ok (b : Rat)) (hs : σ.eval step = .ok (s : Rat))
    (hs0 : s ≠ 0) (hempty : pyRange a b s = []) :
    integralOf (.forLoop id body idx start stop step meas cons) σ c = .ok 0 := by
  have hlen : rangeLen a b s = 0 := by rw [← pyRange_length, hempty]; rfl
  have hsc : stepCount a b s ≤ 0 := by
    have := rangeLen_eq_stepCount (a := a) (b := b) hs0
    omega
  have hsr : ((s : Rat) = 0) = False := by
    simp only [eq_iff_iff, iff_false]; intro h; exact hs0 (Rat.intCast_eq_zero_iff.mp h)
  have hc : (((b : Rat) - (a : Rat)) / (s : Rat)).ceil = stepCount a b s := by
    unfold stepCount; rw [Rat.intCast_sub]
  rw [integralOf]
  simp only [ha, hb, hs, ok_bind, hsr, if_false, hc, hsc, if_true]
  rfl

/-! ## Concrete witnesses of the documented classes -/

/-- PF-09 (open finding): `final_correct` is false for the code as it is.  For
`loopWitness = ForLoopPT(ConstantPT(1, {'A': 'v + i'}), 'i', (0, 5, 2))` the closed form evaluates the body at
index 2 (`v + 2 = 5/2`), the pulse ends with the iteration `i = 4` (`9/2`); the class predicate reports `pf09`. -/
theorem final_counterexample :
    finalOf loopWitness (.dict [("v", 1/2)]) "A" = .ok (5/2) ∧
    ∃ P, denote loopWitness (.dict [("v", 1/2)]) [] [("A", some "A")] = .ok P ∧
      plEnd .last (pulseVal P "A") = some (9/2) ∧
      pathTags .last loopWitness (.dict [("v", 1/2)]) [] [("A", some "A")] "A" = .ok [Tag.pf09] :=
  final_counterexample_eval

/-- PF-C07-3 (open finding): for
`emptyPartWitness = SequencePT(RepetitionPT(ConstantPT(1, {'A': 1}), 'n'), ConstantPT(1, {'A': 2}))` with `n = 0`
the first part is empty; `initial_values` still reports its value 1, the pulse starts with 2 -/
theorem initial_counterexample_empty_part :
    initialOf emptyPartWitness (.dict [("n", 0)]) "A" = .ok 1 ∧
    ∃ P, denote emptyPartWitness (.dict [("n", 0)]) [] [("A", some "A")] = .ok P ∧
      plEnd .first (pulseVal P "A") = some 2 ∧
      pathTags .first emptyPartWitness (.dict [("n", 0)]) [] [("A", some "A")] "A" = .ok [Tag.emptyPart] :=
  initial_counterexample_empty_part_eval

/-- PF-C07-2 (open finding): `jumpWitness = TablePT({'A': [(0, 1), (1, 3, 'jump')]})` reports its first entry (1)
as initial value, the jump segment plays 3 from `t = 0`; the class predicate reports `tableStart` -/
theorem initial_counterexample_jump :
    initialOf jumpWitness (.dict []) "A" = .ok 1 ∧
    ∃ P, denote jumpWitness (.dict []) [] [("A", some "A")] = .ok P ∧
      plEnd .first (pulseVal P "A") = some 3 ∧
      pathTags .first jumpWitness (.dict []) [] [("A", some "A")] "A" = .ok [Tag.tableStart] :=
  initial_counterexample_jump_eval

/-- not a defect, but the reason for the class `tableEnd`: `holdWitness = TablePT({'A': [(0, 1), (1, 3, 'hold')]})`
*specifies* 3 at its end (`final_values`, and what `pad_to` holds) while the played voltage ends on 1 -/
theorem final_table_hold_specified :
    finalOf holdWitness (.dict []) "A" = .ok 3 ∧
    ∃ P, denote holdWitness (.dict []) [] [("A", some "A")] = .ok P ∧
      plEnd .last (pulseVal P "A") = some 1 ∧
      pathTags .last holdWitness (.dict []) [] [("A", some "A")] "A" = .ok [Tag.tableEnd] :=
  final_table_hold_specified_eval

/-- the heart of the table case, for every list of instantiated entries whose times do not decrease:
`TableEntry._sequence_integral` (hold: `v0·Δt`, jump: `v1·Δt`, linear: `Δt·(v0+v1)/2` per pair) is the integral of
the piecewise linear function the entries denote (zero length segments contribute nothing) -/
theorem table_integral_core (ws : List WEntry) (h : sortedTimes ws = true) :
    plIntegral (entriesToPL ws) = sequenceIntegral ws :=
  plIntegral_entriesToPL ws h

/-! ## `pad_to` -/

/-- `pad_holds_final` (all templates): the padded template denotes, channel by channel, the original pulse followed
by one piece of length `newDur - duration` that holds the value of `final_values` (nothing if `newDur ≤ duration`) -/
theorem pad_holds_final {pt : PT} {σ : Scope} {mm cm} {newDur : Rat} {padded : PT} {P P' : Pulse}
    (hpad : padTo pt σ newDur = .ok padded) (hden : denote pt σ mm cm = .ok P)
    (hden' : denote padded σ mm cm = .ok P')
    (hnd : hasDup pt.definedChannels = false) (hinj : InjOn cm pt.definedChannels) :
    ∃ D, templateDuration pt σ = .ok D ∧
      ∀ c o v, c ∈ pt.definedChannels → cm.lookup c = some (some o) → finalOf pt σ c = .ok v →
        pulseVal P' o = pulseVal P o ++
          (if newDur - D > 0 then [{ len := newDur - D, v0 := v, v1 := v }] else []) := by
  obtain ⟨D, Pc, hD, happ, hold⟩ := pad_denote hpad hden hden'
  refine ⟨D, hD, ?_⟩
  intro c o v hc hcm hv
  rw [happ o, hold hnd hinj c o v hc hcm hv]

/-- consequently, for all thirteen constructors and outside the documented classes, padding holds exactly the voltage
the unpadded pulse ends on -/
theorem pad_holds_last_partial {pt : PT} {σ : Scope} {mm cm} {newDur : Rat} {padded : PT} {P P' : Pulse}
    {c o : Chan} {v vl : Rat}
    (hs : supported pt = true) (hreg : regular pt σ = true)
    (hpad : padTo pt σ newDur = .ok padded) (hden : denote pt σ mm cm = .ok P)
    (hden' : denote padded σ mm cm = .ok P')
    (hnd : hasDup pt.definedChannels = false) (hinj : InjOn cm pt.definedChannels)
    (hc : c ∈ pt.definedChannels) (hcm : cm.lookup c = some (some o)) (hkeep : keeps pt cm = true)
    (hclass : pathTags .last pt σ mm cm c = .ok [])
    (hv : finalOf pt σ c = .ok v) (hl : plEnd .last (pulseVal P o) = some vl) :
    ∃ D, templateDuration pt σ = .ok D ∧
      pulseVal P' o = pulseVal P o ++ (if newDur - D > 0 then [{ len := newDur - D, v0 := vl, v1 := vl }] else []) := by
  obtain ⟨D, hD, h⟩ := pad_holds_final hpad hden hden' hnd hinj
  have := final_correct_partial hs hreg hden hinj hc hcm hkeep hclass hl hv
  subst this
  exact ⟨D, hD, h c o v hc hcm hv⟩

/-! ## Non-vacuity: the hypotheses are satisfiable on a non-trivial tree -/

example : supported loopWitness = true := by decide
example : supported emptyPartWitness = true := by decide
example : supported jumpWitness = true := by decide
example : positive newKindsWitness (.dict []) = true := by decide
example : provides .first newKindsWitness = true ∧ provides .last newKindsWitness = true := by decide
example : positive loopWitness (.dict [("v", 1/2)]) = true := by decide

/-- the five constructors added in round 2 in one tree (`newKindsWitness`): all hypotheses of the `_partial` theorems
hold, the template denotes a pulse and the closed forms evaluate -- to the values of the pulse -/
theorem new_constructors_nonvacuous :
    supported newKindsWitness = true ∧ regular newKindsWitness (.dict []) = true ∧
    keeps newKindsWitness newKindsCm = true ∧
    (match denote newKindsWitness (.dict []) [] newKindsCm with
     | .ok P => plIntegral (pulseVal P "A") == 18 && plEnd .last (pulseVal P "A") == some 12 && P.dur == 2
     | .error _ => false) = true ∧
    (match integralOf newKindsWitness (.dict []) "A", finalOf newKindsWitness (.dict []) "A",
        pathTags .last newKindsWitness (.dict []) [] newKindsCm "A" with
     | .ok i, .ok f, .ok tags => i == 18 && f == 12 && tags.isEmpty
     | _, _, _ => false) = true :=
  newKinds_eval

end QP.Props.C07
