import QP.Proofs.C08f
/-!
# Property theorems for C08 — waveforms honour their contract

All statements are about the model `QP.C08` (QP/Model/C08.lean), which describes the tree with the
repairs PF-01, PF-02, PF-04 applied.  `wf` is the well-formedness the constructors do not check
(table times start at 0 and do not decrease, equal durations of parallel / arithmetic operands,
transformations applicable to the inner channels, non-negative durations).
-/
namespace QP.Props.C08
open QP.C08 QP.C08.Wf

/-! ## the judge -/

/-- the judge `constSpecB` decides `ConstSpec` -/
theorem constSpecB_iff (c : Rat) (vs : List (Option Rat)) : constSpecB c vs = true ↔ ConstSpec c vs := by
  simp [constSpecB, ConstSpec]

/-- the judge `sameSpecB` decides `SameSpec` -/
theorem sameSpecB_iff (vs ws : List (Option Rat)) : sameSpecB vs ws = true ↔ SameSpec vs ws := by
  simp [sameSpecB, SameSpec]

/-- the judge `totalSpecB` decides `TotalSpec` -/
theorem totalSpecB_iff (vs : List (Option Rat)) : totalSpecB vs = true ↔ TotalSpec vs := by
  simp [totalSpecB, TotalSpec, Option.isSome_iff_ne_none]

/-! ## constants -/

/-- a reported constant value of a channel equals every sample of that channel -/
theorem constant_sound (w : Wf) (hw : wf w = true) (ch : Chan) (c t : Rat) (hch : ch ∈ channels w)
    (h : constantValue w ch = some c) (h0 : 0 ≤ t) (hle : t ≤ duration w) : sample w ch t = some c :=
  constant_sound_aux w hw ch c t hch h h0 hle

/-- `constant_value_dict()` lists exactly the defined channels, agrees with `constant_value` and with
every sample -/
theorem constant_dict_sound (w : Wf) (hw : wf w = true) (d : List (Chan × Rat))
    (h : constantValueDict w = some d) :
    (∀ k, k ∈ channels w ↔ k ∈ dkeys d) ∧
    ∀ k x, (k, x) ∈ d → constantValue w k = some x ∧
      ∀ t, 0 ≤ t → t ≤ duration w → sample w k t = some x := by
  obtain ⟨a1, a2⟩ := cvd_sound w hw d h
  refine ⟨fun k => ⟨a2 k, fun hk => ?_⟩, fun k x hk => ⟨(a1 k x hk).2, fun t h0 hle => cvd_sample w hw d h k x hk t h0 hle⟩⟩
  obtain ⟨x, hx⟩ := keys_mem d k hk
  exact (a1 k x hx).1

/-! ## sampling is total -/

/-- every time in `[0, duration]` yields a finite value on every defined channel -/
theorem sample_total (w : Wf) (hw : wf w = true) (ch : Chan) (t : Rat) (hch : ch ∈ channels w)
    (h0 : 0 ≤ t) (hle : t ≤ duration w) : (sample w ch t).isSome = true :=
  sample_total_aux w hw ch t hch h0 hle

/-- the judge's reading of `sample_total` on a grid -/
theorem sample_total_grid (w : Wf) (hw : wf w = true) (ch : Chan) (hch : ch ∈ channels w) (ts : List Rat)
    (h : ∀ t ∈ ts, 0 ≤ t ∧ t ≤ duration w) : TotalSpec (ts.map (sample w ch)) := by
  intro v hv
  simp only [List.mem_map] at hv
  obtain ⟨t, ht, rfl⟩ := hv
  have := sample_total w hw ch t hch (h t ht).1 (h t ht).2
  intro e; rw [e] at this; simp at this

/-- open finding PF-C08d: the witness chain (a parallel-channel transformation that produces an input of
a later linear transformation) is outside `wf` -/
theorem pf27_witness_not_wf :
    wf (.trans (.multi [.const 1 3 "a", .const 1 1 "Z", .const 1 2 "b"])
      (.chain [.parallel [("B", .num (1/2)), ("b", .num (-1))],
               .linear [[1, 1/2, -1]] ["Z", "a", "b"] ["b"]])) = false := by decide +kernel

/-! ## reversal -/

/-- `w.reversed()` sampled at `t` is `w` sampled at `duration - t` (no side condition) -/
theorem reversed_sample (w : Wf) (ch : Chan) (t : Rat) :
    sample (reversedM w) ch t = sample w ch (duration w - t) ∧
    duration (reversedM w) = duration w ∧ channels (reversedM w) = channels w :=
  ⟨reversedM_sample w ch t, reversedM_duration w, reversedM_channels w⟩

/-- the plain `ReversedWaveform(w)` -/
theorem reversed_sample_plain (w : Wf) (ch : Chan) (t : Rat) :
    sample (.reversed w) ch t = sample w ch (duration w - t) := by simp [sample]

/-- reversing twice is the identity on samples, channels and duration -/
theorem reversed_reversed (w : Wf) (ch : Chan) (t : Rat) :
    sample (reversedM (reversedM w)) ch t = sample w ch t ∧
    duration (reversedM (reversedM w)) = duration w ∧ channels (reversedM (reversedM w)) = channels w := by
  refine ⟨?_, by rw [reversedM_duration, reversedM_duration], by rw [reversedM_channels, reversedM_channels]⟩
  rw [reversedM_sample, reversedM_sample, reversedM_duration]
  congr 1
  grind

/-- reversing twice gives the same object again, except for the plain `ReversedWaveform` of a constant
or of a reversed waveform (where `reversed()` unwraps) -/
theorem reversed_reversed_struct (w : Wf)
    (h : ∀ i, w = .reversed i → (∀ d a c, i ≠ .const d a c) ∧ ∀ j, i ≠ .reversed j) :
    reversedM (reversedM w) = w := by
  cases w with
  | reversed i =>
    obtain ⟨h1, h2⟩ := h i rfl
    cases i with
    | const d a c => exact absurd rfl (h1 d a c)
    | reversed j => exact absurd rfl (h2 j)
    | _ => simp [reversedM]
  | _ => simp [reversedM]

/-! ## equality -/

/-- waveforms that compare equal are the same tree: they have equal hashes (a function of the slots),
channels, durations, constant values and samples -/
theorem eq_congr (a b : Wf) (h : eqv a b = true) :
    a = b ∧ channels a = channels b ∧ duration a = duration b ∧
    (∀ ch, constantValue a ch = constantValue b ch) ∧ ∀ ch t, sample a ch t = sample b ch t := by
  have := eqv_eq a b h
  subst this
  exact ⟨rfl, rfl, rfl, fun _ => rfl, fun _ _ => rfl⟩

/-- `==` is reflexive: rebuilt waveforms compare equal -/
theorem eq_refl (a : Wf) : eqv a a = true := eqv_refl a

/-! ## optimising constructors sample like the plain composite

`SamplesAlike s p`: equal duration, same channel set, equal samples on `[0, duration]`. -/

/-- `from_table` vs `TableWaveform` — proved outside the class of open finding PF-C08c (`endOk`: the
table does not end with a zero-length `hold` segment).  Full statement: without `hend`; it is false,
see `validate_dedup_counterexample`. -/
theorem smart_eq_plain_table_partial (ch : Chan) (raw : List Entry) (s : Wf)
    (h : fromTable ch raw = .ok s) (hend : endOk raw) : SamplesAlike s (.table ch raw) :=
  smart_table_aux ch raw s h hend

/-- the de-duplicated table samples like the raw table at every time (outside the PF-C08c class) -/
theorem validate_dedup_sound_partial (raw es : List Entry) (h : validateInput raw = .ok (.entries es))
    (hend : endOk raw) (t : Rat) : tableSample es t = tableSample raw t :=
  validate_dedup_aux raw es h hend t

/-- PF-C08c: with three entries at the final time and `hold`, de-duplication changes the last sample -/
theorem validate_dedup_counterexample :
    (match validateInput [⟨0, 0, .hold⟩, ⟨1, 1, .hold⟩, ⟨1, 2, .hold⟩, ⟨1, 3, .hold⟩] with
      | .ok (.entries es) => tableSample es 1
      | _ => none) = some 1 ∧
    tableSample [⟨0, 0, .hold⟩, ⟨1, 1, .hold⟩, ⟨1, 2, .hold⟩, ⟨1, 3, .hold⟩] 1 = some 2 ∧
    ¬ endOk [⟨0, 0, .hold⟩, ⟨1, 1, .hold⟩, ⟨1, 2, .hold⟩, ⟨1, 3, .hold⟩] := by
  refine ⟨by decide +kernel, by decide +kernel, by simp [endOk]⟩

/-- constant detection of `_validate_input` (PF-01 repaired): a table reported constant samples that
constant everywhere -/
theorem validate_const_sound (ch : Chan) (raw : List Entry) (d c : Rat)
    (h : validateInput raw = .ok (.constant d c)) (t : Rat) (h0 : 0 ≤ t) (hle : t ≤ d) :
    tableSample raw t = some c ∧ d = duration (.table ch raw) := by
  have hf : fromTable ch raw = .ok (.const d c ch) := by simp [fromTable, h]
  have hend : endOk raw ∨ ¬ endOk raw := Classical.em _
  -- the constant branch does not use `endOk`: re-run the proof of `smart_table_aux` through a table
  -- that ends differently is not needed, the hypothesis is only used in the `entries` branch
  have key : SamplesAlike (.const d c ch) (.table ch raw) := by
    simp only [fromTable] at hf
    match raw, h with
    | [], h => simp [validateInput] at h
    | [_], h =>
      simp only [validateInput] at h
      split at h <;> cases h
    | first :: second :: rest, hv =>
      simp only [validateInput] at hv
      split at hv
      · cases hv
      · rename_i h00
        have h0' : first.t = 0 := by simpa using h00
        split at hv
        · cases hv
        · rename_i hneg
          have hfe : (⟨0, first.v, first.interp⟩ : Entry) = first := by
            cases first; simp_all
          rw [hfe] at hv
          cases hl : validateLoop first second (segConst second.interp first second) [first] rest with
          | error e => simp [hl] at hv
          | ok r3 =>
            obtain ⟨last, cv, out'⟩ := r3
            simp only [hl] at hv
            obtain ⟨hm, hlast, hc⟩ := validateLoop_facts rest first second _ [first] last cv out' hl
            have hs : first.t ≤ second.t := by rw [h0']; exact Rat.not_lt.mp hneg
            have hraw_last : (first :: second :: rest).getLast? = some last := by
              simpa [List.getLast?_cons_cons] using hlast
            have hdur : duration (.table ch (first :: second :: rest)) = last.t := by
              simp only [duration, hraw_last]
            split at hv
            · cases hv
            · cases cv with
              | none => simp at hv
              | some c' =>
                simp at hv
                obtain ⟨e1, e2⟩ := hv
                subst e1; subst e2
                refine ⟨by rw [hdur]; simp [duration], by simp [channels], ?_⟩
                intro k _ t h0t hle
                rw [hdur] at hle
                obtain ⟨c1, c2⟩ := hc c' rfl
                have hall : allSegConst c' (first :: second :: rest) := by
                  simp only [allSegConst]; exact ⟨c1, c2⟩
                have hmono : tableOk.mono (first :: second :: rest) = true := by
                  simp [tableOk.mono, hs, hm]
                have hsome := tableGo_covered t (second :: rest) first none hmono (by simp)
                  (by rw [h0']; exact h0t)
                  (by intro l hl'; rw [hraw_last] at hl'; injection hl' with e; rw [← e]; exact hle)
                simp only [sample, tableSample]
                rcases tableGo_const t c' _ none hall (Or.inl rfl) with hn | hc'
                · rw [hn] at hsome; simp at hsome
                · exact hc'.symm
  obtain ⟨k1, _, k3⟩ := key
  have hd : d = duration (.table ch raw) := by simpa [duration] using k1
  refine ⟨?_, hd⟩
  have := k3 ch (by simp [channels]) t h0 (by rw [← hd]; exact hle)
  simpa [sample] using this.symm

/-- `FunctionWaveform.from_expression` (expressions `slope*t + icpt`) -/
theorem smart_eq_plain_expression (slope icpt dur : Rat) (ch : Chan) :
    SamplesAlike (fromExpression slope icpt dur ch) (.func slope icpt dur ch) :=
  smart_expression slope icpt dur ch

/-- `SequenceWaveform.from_sequence` (flattening and constant folding) vs `SequenceWaveform` -/
theorem smart_eq_plain_sequence (ws : List Wf) (p s : Wf) (hw : ∀ w ∈ ws, wf w = true)
    (hp : mkSeq ws = .ok p) (hs : fromSequence ws = .ok s) : SamplesAlike s p :=
  smart_seq ws p s hw hp hs

/-- `MultiChannelWaveform.from_parallel` (flattening) vs `MultiChannelWaveform` -/
theorem smart_eq_plain_parallel (ws : List Wf) (p s : Wf) (hp : mkMulti ws = .ok p) (hwp : wf p = true)
    (hs : fromParallel ws = .ok s) : SamplesAlike s p :=
  smart_multi ws p s hp hwp hs

/-- `RepetitionWaveform.from_repetition_count` vs `RepetitionWaveform` -/
theorem smart_eq_plain_repetition (b : Wf) (n : Int) (p s : Wf) (hb : wf b = true)
    (hp : mkRep b n = .ok p) (hs : fromRepetitionCount b n = .ok s) : SamplesAlike s p :=
  smart_rep b n p s hb hp hs

/-- `TransformingWaveform.from_transformation` vs `TransformingWaveform` -/
theorem smart_eq_plain_transformation (i : Wf) (tr : Trafo) (s : Wf) (hw : wf (.trans i tr) = true)
    (hs : fromTransformation i tr = .ok s) : SamplesAlike s (.trans i tr) :=
  smart_transformation i tr s hw hs

/-- `ArithmeticWaveform.from_operator` vs `ArithmeticWaveform` -/
theorem smart_eq_plain_operator (l : Wf) (op : ArithOp) (r : Wf) (s : Wf) (hw : wf (.arith l op r) = true)
    (hs : fromOperator l op r = .ok s) : SamplesAlike s (.arith l op r) :=
  smart_operator l op r s hw hs

/-- `FunctorWaveform.from_functor` vs `FunctorWaveform` -/
theorem smart_eq_plain_functor (i : Wf) (fs : List (Chan × Fn)) (p s : Wf) (hi : wf i = true)
    (hp : mkFunctor i fs = .ok p) (hs : fromFunctor i fs = .ok s) : SamplesAlike s p :=
  smart_functor i fs p s hi hp hs

/-- `ReversedWaveform.from_to_reverse` vs `ReversedWaveform` -/
theorem smart_eq_plain_reverse (i : Wf) (hi : wf i = true) : SamplesAlike (fromToReverse i) (.reversed i) :=
  smart_reverse i hi

/-! ## channel subsets -/

/-- `get_subset_for_channels(chs)` of a well-formed waveform is well-formed again, defines exactly the
channels `chs`, keeps the duration, and leaves the samples of the remaining channels unchanged -/
theorem subset_sample (w : Wf) (hw : wf w = true) (chs : List Chan) (s : Wf) (hne : chs ≠ [])
    (h : getSubset w chs = .ok s) :
    wf s = true ∧ duration s = duration w ∧ (∀ k, k ∈ channels s ↔ k ∈ chs) ∧
    ∀ k, k ∈ chs → ∀ t, 0 ≤ t → t ≤ duration w → sample s k t = sample w k t :=
  getSubset_alike w hw chs s hne h

/-- the unchecked variant `unsafe_get_subset_for_channels(chs)` for `chs ⊆ defined_channels` -/
theorem unsafe_subset_sample (w : Wf) (hw : wf w = true) (chs : List Chan) (s : Wf) (hne : chs ≠ [])
    (hsub : ∀ c ∈ chs, c ∈ channels w) (h : unsafeSubset w chs = .ok s) :
    wf s = true ∧ duration s = duration w ∧ (∀ k, k ∈ channels s ↔ k ∈ chs) ∧
    ∀ k, k ∈ chs → ∀ t, 0 ≤ t → t ≤ duration w → sample s k t = sample w k t :=
  subset_aux w hw chs s hne hsub h

/-- a channel set that is not contained in the defined channels is rejected, never restricted -/
theorem subset_rejects (w : Wf) (chs : List Chan) (h : subsetOf chs (channels w) = false) :
    getSubset w chs = .error .keyError := by
  simp [getSubset, h]

/-! ## hypotheses are satisfiable -/

/-- a nested waveform with all eleven classes is well-formed -/
example : wf (.seq [
    .arith (.reversed (.rep (.table "A" [⟨0, 0, .hold⟩, ⟨1, 2, .linear⟩, ⟨1, 3, .jump⟩]) 2)) .plus
      (.functor (.func 1 0 2 "A") [("A", .neg)]),
    .subset (.functor (.trans (.multi [.const 2 1 "A", .const 2 2 "B"])
      (.chain [.offset [("A", .num 1)], .linear [[1, 1]] ["A", "B"] ["C"], .parallel [("A", .expr 1 0)]]))
      [("A", .abs), ("C", .pos)]) ["A"]]) = true := by
  decide +kernel

/-- … and it reports no constant although the second piece folds: hypotheses of `constant_sound` are
satisfiable on a composite -/
example : constantValue (.seq [.multi [.const 1 2 "A", .const 1 3 "B"], .multi [.const 2 2 "A", .const 2 4 "B"]]) "A"
    = some 2 := by decide +kernel

example : endOk [⟨0, 1, .hold⟩, ⟨1, 1, .hold⟩, ⟨2, 3, .linear⟩] := by simp [endOk]

/-- `subset_sample` is not vacuous: a two-channel sequence restricted to one channel folds to a constant -/
example : (getSubset (.seq [.multi [.const 1 2 "A", .const 1 3 "B"], .multi [.const 2 2 "A", .const 2 4 "B"]]) ["A"]
    |>.toOption.map (fun s => (channels s, duration s, sample s "A" 3))) = some (["A"], 3, some 2) := by
  decide +kernel

end QP.Props.C08
