import QP.Model.C08
/-! Property theorems for C08 (waveforms honour their contract). -/
namespace QP.Props.C08
open QP.C08

/-- the judge `constSpecB` decides `ConstSpec` -/
theorem constSpecB_iff (c : Rat) (vs : List (Option Rat)) : constSpecB c vs = true ↔ ConstSpec c vs := by
  simp [constSpecB, ConstSpec]

/-- the judge `sameSpecB` decides `SameSpec` -/
theorem sameSpecB_iff (vs ws : List (Option Rat)) : sameSpecB vs ws = true ↔ SameSpec vs ws := by
  simp [sameSpecB, SameSpec]

/-- the judge `totalSpecB` decides `TotalSpec` -/
theorem totalSpecB_iff (vs : List (Option Rat)) : totalSpecB vs = true ↔ TotalSpec vs := by
  simp [totalSpecB, TotalSpec, Option.isSome_iff_ne_none]

end QP.Props.C08
