import QP.Proofs.C03Internal
/-!
# Property theorems for C03 — declared parameters suffice, declared constraints are enforced

All theorems are about the shared pulse-template model `QP.PT.createProgram` (tied to the real
`PulseTemplate.create_program` by the correspondence in `harness/c03.py`) and hold for **every** template
tree (structural induction over all thirteen constructors, no size bound).  Hypotheses:

* `WF pt` — every `MappingPulseTemplate` maps all parameters of its body (established by its constructor;
  checked on every generated tree by the harness through `wfB`),
* `NoReservedT pt` — the reserved time variable `t` is not used outside a function template's formula
  (otherwise the tree is in the class of the open finding PF-14).
-/
namespace QP.Props.C03
open QP QP.PT QP.C03

/-- **Extra names never matter** (`_create_program` level): scopes that answer equally on the declared names
give the same result. -/
theorem compile_frame (pt : PT) (σ σ' : Scope) (mm : List (MName × Option MName)) (cm : List (Chan × Option Chan))
    (trafo : Chain) (single : List String) (hW : WF pt) (hT : NoReservedT pt) (hR : Rel (parameterNames pt) σ σ') :
    compile pt ⟨σ, mm, cm, trafo, single⟩ = compile pt ⟨σ', mm, cm, trafo, single⟩ := by
  unfold compile
  exact wrapSingle_congr (fun T => int_congr pt σ σ' mm cm T single hW hT hR)

/-- **Extra names never matter**: two parameter dictionaries that agree on `parameterNames pt` (in particular a
dictionary and the same dictionary with values for any other names added) instantiate to the same result —
the same program or the same error. -/
theorem frame (pt : PT) (kv kv' : List (String × Rat)) (mm : Option (List (MName × Option MName)))
    (cmUser : List (Chan × Option Chan)) (single : List String) (hW : WF pt) (hT : NoReservedT pt)
    (h : ∀ n ∈ parameterNames pt, kv.lookup n = kv'.lookup n) :
    createProgram pt kv mm cmUser single = createProgram pt kv' mm cmUser single := by
  unfold createProgram topCtx
  dsimp only
  split
  · rfl
  · simp only [ok_bind]
    rw [compile_frame pt (.dict kv) (.dict kv') _ _ [] single hW hT (rel_dict h)]

/-- the `frame` hypothesis is satisfiable with genuinely different dictionaries -/
example : ∀ n ∈ parameterNames (.const none (.var "d") [("A", .var "v")] []),
    ([("d", 1), ("v", 2)] : List (String × Rat)).lookup n = ([("x", 5), ("v", 2), ("d", 1), ("i", 0)] : List (String × Rat)).lookup n := by
  decide

/-- **Declared names suffice** (`_create_program` level) -/
theorem compile_sufficient (pt : PT) (kv : List (String × Rat)) (mm : List (MName × Option MName))
    (cm : List (Chan × Option Chan)) (trafo : Chain) (single : List String) (hW : WF pt) (hT : NoReservedT pt)
    (h : ∀ n ∈ parameterNames pt, n ∈ kv.map (·.1)) :
    compile pt ⟨.dict kv, mm, cm, trafo, single⟩ ≠ .error .parameterMissing ∧
    compile pt ⟨.dict kv, mm, cm, trafo, single⟩ ≠ .error .exprVarMissing := by
  have hG : Good (fun e => e = .parameterMissing ∨ e = .exprVarMissing) (parameterNames pt) (.dict kv) := good_dict h
  have hcv : ¬ ((Err.constraintViolation = .parameterMissing) ∨ (Err.constraintViolation = .exprVarMissing)) := by simp
  have hA : Avoid (fun e => e = .parameterMissing ∨ e = .exprVarMissing) (compile pt ⟨.dict kv, mm, cm, trafo, single⟩) := by
    unfold compile
    exact wrapSingle_avoid subSc_miss (int_avoid eclass_miss hcv pt _ mm cm trafo single hW hT hG)
      (int_avoid eclass_miss hcv pt _ mm cm [] single hW hT hG)
  exact ⟨fun he => avoid_iff.mp hA _ he (Or.inl rfl), fun he => avoid_iff.mp hA _ he (Or.inr rfl)⟩

/-- **Declared names suffice**: if the dictionary has a value for every name in `parameterNames pt`,
instantiation never fails for want of a parameter (neither `ParameterNotProvidedException` nor
`ExpressionVariableMissingException`). -/
theorem sufficient (pt : PT) (kv : List (String × Rat)) (mm : Option (List (MName × Option MName)))
    (cmUser : List (Chan × Option Chan)) (single : List String) (hW : WF pt) (hT : NoReservedT pt)
    (h : ∀ n ∈ parameterNames pt, n ∈ kv.map (·.1)) :
    createProgram pt kv mm cmUser single ≠ .error .parameterMissing ∧
    createProgram pt kv mm cmUser single ≠ .error .exprVarMissing := by
  unfold createProgram topCtx
  dsimp only
  split
  · exact ⟨by simp, by simp⟩
  · simp only [ok_bind]
    have := compile_sufficient pt kv
      (match mm with | some m => m | none => (dedup pt.measurementNames).map (fun n => (n, some n)))
      (cmUser.foldl (fun d (k, v) => cmUpdate d k v) (pt.definedChannels.map (fun c => (c, some c)))) [] single hW hT h
    constructor
    · intro he
      rcases bind_err.mp he with he | ⟨_, _, he⟩
      · exact this.1 he
      · cases he
    · intro he
      rcases bind_err.mp he with he | ⟨_, _, he⟩
      · exact this.2 he
      · cases he

end QP.Props.C03
