import QP.Proofs.C03Strip
/-!
# Property theorems for C03 — declared parameters suffice, declared constraints are enforced

All theorems are about the shared pulse-template model `QP.PT.createProgram` (tied to the real
`PulseTemplate.create_program` by the correspondence in `harness/c03.py`) and hold for **every** template
tree (structural induction over all thirteen constructors, no size bound).  Hypotheses:

* `WF pt` — every `MappingPulseTemplate` maps all parameters of its body (established by its constructor;
  checked on every generated tree by the harness through `wfB`),
* `NoReservedT pt` — the reserved time variable `t` is not used outside a function template's formula
  (otherwise the tree is in the class of the open finding PF-14).  The full-strength statements
  `frame : WF pt → (∀ n ∈ parameterNames pt, kv.lookup n = kv'.lookup n) → createProgram pt kv … = createProgram pt kv' …`
  and `sufficient : WF pt → parameterNames pt ⊆ dom kv → createProgram pt kv … ∉ {parameter_missing, …}` are **false**
  without it (`frame_counterexample`), hence the `_partial` names; they cover every tree outside that class.
-/
namespace QP.Props.C03
open QP QP.PT QP.C03

/-- **Extra names never matter** (`_create_program` level): scopes that answer equally on the declared names
give the same result. -/
theorem compile_frame_partial (pt : PT) (σ σ' : Scope) (mm : List (MName × Option MName)) (cm : List (Chan × Option Chan))
    (trafo : Chain) (single : List String) (hW : WF pt) (hT : NoReservedT pt) (hR : Rel (parameterNames pt) σ σ') :
    compile pt ⟨σ, mm, cm, trafo, single⟩ = compile pt ⟨σ', mm, cm, trafo, single⟩ := by
  unfold compile
  exact wrapSingle_congr (fun T => int_congr pt σ σ' mm cm T single hW hT hR)

/-- **Extra names never matter**: two parameter dictionaries that agree on `parameterNames pt` (in particular a
dictionary and the same dictionary with values for any other names added) instantiate to the same result —
the same program or the same error. -/
theorem frame_partial (pt : PT) (kv kv' : List (String × Rat)) (mm : Option (List (MName × Option MName)))
    (cmUser : List (Chan × Option Chan)) (single : List String) (hW : WF pt) (hT : NoReservedT pt)
    (h : ∀ n ∈ parameterNames pt, kv.lookup n = kv'.lookup n) :
    createProgram pt kv mm cmUser single = createProgram pt kv' mm cmUser single := by
  unfold createProgram topCtx
  dsimp only
  split
  · rfl
  · simp only [ok_bind]
    rw [compile_frame_partial pt (.dict kv) (.dict kv') _ _ [] single hW hT (rel_dict h)]

/-- the `frame_partial` hypothesis is satisfiable with genuinely different dictionaries -/
example : ∀ n ∈ parameterNames (.const none (.var "d") [("A", .var "v")] []),
    ([("d", 1), ("v", 2)] : List (String × Rat)).lookup n = ([("x", 5), ("v", 2), ("d", 1), ("i", 0)] : List (String × Rat)).lookup n := by
  decide

/-- **Declared names suffice** (`_create_program` level) -/
theorem compile_sufficient_partial (pt : PT) (kv : List (String × Rat)) (mm : List (MName × Option MName))
    (cm : List (Chan × Option Chan)) (trafo : Chain) (single : List String) (hW : WF pt) (hT : NoReservedT pt)
    (h : ∀ n ∈ parameterNames pt, n ∈ kv.map (·.1)) :
    compile pt ⟨.dict kv, mm, cm, trafo, single⟩ ≠ .error .parameterMissing ∧
    compile pt ⟨.dict kv, mm, cm, trafo, single⟩ ≠ .error .exprVarMissing := by
  have hG : Good (fun e => e = .parameterMissing ∨ e = .exprVarMissing) (parameterNames pt) (.dict kv) := good_dict h
  have hcv : ¬ ((Err.constraintViolation = .parameterMissing) ∨ (Err.constraintViolation = .exprVarMissing)) := by simp
  have hA : Avoid (fun e => e = .parameterMissing ∨ e = .exprVarMissing) (compile pt ⟨.dict kv, mm, cm, trafo, single⟩) := by
    unfold compile
    exact wrapSingle_avoid subSc_miss (int_avoid eclass_miss hcv pt _ mm cm trafo single hW hT hG)
      (int_avoid eclass_miss hcv pt _ mm cm [] single hW hT hG)
  exact ⟨fun he => avoid_iff.mp hA _ he (Or.inl rfl), fun he => avoid_iff.mp hA _ he (Or.inr rfl)⟩

/-- **Declared names suffice**: if the dictionary has a value for every name in `parameterNames pt`,
instantiation never fails for want of a parameter (neither `ParameterNotProvidedException` nor
`ExpressionVariableMissingException`). -/
theorem sufficient_partial (pt : PT) (kv : List (String × Rat)) (mm : Option (List (MName × Option MName)))
    (cmUser : List (Chan × Option Chan)) (single : List String) (hW : WF pt) (hT : NoReservedT pt)
    (h : ∀ n ∈ parameterNames pt, n ∈ kv.map (·.1)) :
    createProgram pt kv mm cmUser single ≠ .error .parameterMissing ∧
    createProgram pt kv mm cmUser single ≠ .error .exprVarMissing := by
  unfold createProgram topCtx
  dsimp only
  split
  · exact ⟨by simp, by simp⟩
  · simp only [ok_bind]
    have := compile_sufficient_partial pt kv
      (match mm with | some m => m | none => (dedup pt.measurementNames).map (fun n => (n, some n)))
      (cmUser.foldl (fun d (k, v) => cmUpdate d k v) (pt.definedChannels.map (fun c => (c, some c)))) [] single hW hT h
    constructor
    · intro he
      rcases bind_err.mp he with he | ⟨_, _, he⟩
      · exact this.1 he
      · cases he
    · intro he
      rcases bind_err.mp he with he | ⟨_, _, he⟩
      · exact this.2 he
      · cases he

/-! ## constraints -/

/-- a template with a constraint on a mapped name below an iteration: a satisfying and a violating assignment -/
def exampleTree : PT :=
  .forLoop none
    (.mapping none (.func none "A" (.lit 1) (.var "a") [] [.cmp .le (.var "a") (.lit 2)])
      [("a", .add (.var "x") (.var "i"))] [] [("A", some "A")] [])
    "i" (.lit 0) (.lit 2) (.lit 1) [] []

example : WF exampleTree ∧ NoReservedT exampleTree := by
  simp [exampleTree, WF, NoReservedT, parameterNames, consVars, measVars, noT, Expr.vars]



/-- instantiation tracks the visible entries (`_create_program` level) -/
theorem compile_tracks (pt : PT) (σ : Scope) (mm : List (MName × Option MName)) (cm : List (Chan × Option Chan))
    (trafo : Chain) (single : List String) :
    Tracks (compile pt ⟨σ, mm, cm, trafo, single⟩) (visOutcome (visible pt σ)) := by
  unfold compile
  exact wrapSingle_tracks (int_tracks pt σ mm cm trafo single) (int_tracks pt σ mm cm [] single)

theorem createProgram_tracks (pt : PT) (kv : List (String × Rat)) (mm : Option (List (MName × Option MName)))
    (cmUser : List (Chan × Option Chan)) (single : List String) :
    Tracks (createProgram pt kv mm cmUser single) (visOutcome (visible pt (.dict kv))) := by
  unfold createProgram topCtx
  dsimp only
  split
  · exact tracks_error (by simp) _
  · simp only [ok_bind]
    exact tracks_bind_last (compile_tracks pt (.dict kv) _ _ [] single) (fun _ _ => avoid_pure _)

/-- what the judge's verdict means: every visible entry is fine (`Vis.Fine`: a demanded key is present, a needed
expression evaluates, a constraint evaluates to true) -/
theorem visOutcome_ok_iff (l : List Vis) : visOutcome l = .ok () ↔ ∀ v ∈ l, v.Fine := by
  induction l with
  | nil => simp
  | cons v l ih =>
    rw [visOutcome_cons]
    constructor
    · intro h
      obtain ⟨u, hu, h⟩ := bind_ok.mp h
      cases u
      intro w hw
      rcases List.mem_cons.mp hw with rfl | hw
      · exact (checkVis_ok_iff _).mp hu
      · exact ih.mp h w hw
    · intro h
      rw [(checkVis_ok_iff v).mpr (h v (by simp)), ok_bind]
      exact ih.mpr (fun w hw => h w (by simp [hw]))

/-- the judge raises a constraint violation exactly when the first visible entry that is not fine is a
constraint evaluating to false -/
theorem visOutcome_cv_iff (l : List Vis) :
    visOutcome l = .error .constraintViolation ↔
      ∃ pre v post, l = pre ++ v :: post ∧ visOutcome pre = .ok () ∧ v.key = none ∧ v.isCons = true ∧
        v.scope.eval v.expr = .ok 0 := by
  induction l with
  | nil =>
    constructor
    · intro h; cases h
    · rintro ⟨pre, v, post, h, _⟩
      cases pre <;> cases h
  | cons w l ih =>
    rw [visOutcome_cons]
    constructor
    · intro h
      rcases bind_err.mp h with h | ⟨u, hu, h⟩
      · exact ⟨[], w, l, rfl, rfl, (checkVis_cv_iff w).mp h⟩
      · obtain ⟨pre, v, post, hl, hpre, hv⟩ := ih.mp h
        refine ⟨w :: pre, v, post, by rw [hl]; rfl, ?_, hv⟩
        rw [visOutcome_cons, hu, ok_bind]
        exact hpre
    · rintro ⟨pre, v, post, hl, hpre, hv⟩
      cases pre with
      | nil =>
        simp only [List.nil_append, List.cons.injEq] at hl
        obtain ⟨rfl, rfl⟩ := hl
        rw [(checkVis_cv_iff w).mpr hv]
        rfl
      | cons p pre =>
        simp only [List.cons_append, List.cons.injEq] at hl
        obtain ⟨rfl, rfl⟩ := hl
        rw [visOutcome_cons] at hpre
        obtain ⟨u, hu, hpre⟩ := bind_ok.mp hpre
        rw [hu, ok_bind]
        exact ih.mpr ⟨pre, v, post, rfl, hpre, hv⟩

/-- **A program only if all constraints hold.** If instantiation returns (a program, or nothing to play), then
every constraint of every visited node evaluates true in the scope that node sees — after all enclosing
mappings and loop indices — and every other visible entry is fine: the expressions a visited node needs could be
evaluated and the keys it demands are present. -/
theorem constraints_enforced (pt : PT) (kv : List (String × Rat)) (mm : Option (List (MName × Option MName)))
    (cmUser : List (Chan × Option Chan)) (single : List String) (prog : Option Loop)
    (h : createProgram pt kv mm cmUser single = .ok prog) :
    AllTrue (visibleConstraints pt (.dict kv)) ∧ (∀ v ∈ visible pt (.dict kv), v.Fine) := by
  have hok := (visOutcome_ok_iff _).mp ((createProgram_tracks pt kv mm cmUser single).1 prog h)
  refine ⟨?_, hok⟩
  intro se hse
  obtain ⟨v, hv, hk, hc, rfl⟩ := mem_visibleConstraints.mp hse
  have := hok v hv
  unfold Vis.Fine at this
  rw [hk] at this
  obtain ⟨x, hx, hx0⟩ := this
  exact ⟨x, hx, hx0 hc⟩

/-- **A violation only if a constraint is false, and nothing visible failed before it.** If instantiation
raises `ParameterConstraintViolation`, the first entry (in visiting order) among the constraints and needed
expressions of the visited nodes that is not fine is a constraint that evaluates to false in the scope its node
sees. -/
theorem violation_sound (pt : PT) (kv : List (String × Rat)) (mm : Option (List (MName × Option MName)))
    (cmUser : List (Chan × Option Chan)) (single : List String)
    (h : createProgram pt kv mm cmUser single = .error .constraintViolation) :
    ∃ pre v post, visible pt (.dict kv) = pre ++ v :: post ∧ visOutcome pre = .ok () ∧ v.key = none ∧
      v.isCons = true ∧ v.scope.eval v.expr = .ok 0 :=
  (visOutcome_cv_iff _).mp ((createProgram_tracks pt kv mm cmUser single).2 h)

/-- **Never rejects a satisfying assignment**: if every constraint of every visited node evaluates true,
instantiation does not raise `ParameterConstraintViolation`. -/
theorem never_rejects_satisfying (pt : PT) (kv : List (String × Rat)) (mm : Option (List (MName × Option MName)))
    (cmUser : List (Chan × Option Chan)) (single : List String)
    (h : AllTrue (visibleConstraints pt (.dict kv))) :
    createProgram pt kv mm cmUser single ≠ .error .constraintViolation := by
  intro hcv
  obtain ⟨pre, v, post, hl, _, hk, hc, hv⟩ := violation_sound pt kv mm cmUser single hcv
  obtain ⟨x, hx, hx0⟩ := h (v.scope, v.expr) (mem_visibleConstraints.mpr ⟨v, by rw [hl]; simp, hk, hc, rfl⟩)
  rw [hv] at hx
  cases hx
  exact hx0 rfl

/-- **Constraints only gate.** If the template without its constraints (`stripCons pt`) instantiates to `prog`,
then instantiating the template itself is exactly: validate the visible entries (the constraints of the visited
nodes, each in the scope its node sees) in visiting order, then return the same `prog`. -/
theorem constraints_only_gate (pt : PT) (kv : List (String × Rat)) (mm : Option (List (MName × Option MName)))
    (cmUser : List (Chan × Option Chan)) (single : List String) (prog : Option Loop)
    (h : createProgram (stripCons pt) kv mm cmUser single = .ok prog) :
    createProgram pt kv mm cmUser single = visOutcome (visible pt (.dict kv)) >>= fun _ => .ok prog :=
  createProgram_det pt kv mm cmUser single prog h

/-- **The equivalence** (full strength). If nothing but constraints can fail — the template without its
constraints instantiates — then instantiation raises `ParameterConstraintViolation` exactly if some visited node
has a constraint that evaluates false in the scope it sees and no visible entry earlier in visiting order fails
to evaluate or is false. -/
theorem constraint_iff (pt : PT) (kv : List (String × Rat)) (mm : Option (List (MName × Option MName)))
    (cmUser : List (Chan × Option Chan)) (single : List String) (prog : Option Loop)
    (h : createProgram (stripCons pt) kv mm cmUser single = .ok prog) :
    createProgram pt kv mm cmUser single = .error .constraintViolation ↔
      ∃ pre v post, visible pt (.dict kv) = pre ++ v :: post ∧ visOutcome pre = .ok () ∧ v.key = none ∧
        v.isCons = true ∧ v.scope.eval v.expr = .ok 0 := by
  rw [constraints_only_gate pt kv mm cmUser single prog h, ← visOutcome_cv_iff]
  cases visOutcome (visible pt (.dict kv)) with
  | error e => simp
  | ok u => simp

/-- … and it returns the program — the same one the constraint-free template yields — exactly if every
constraint of every visited node evaluates true; there is no third outcome besides the errors of the judge. -/
theorem program_iff (pt : PT) (kv : List (String × Rat)) (mm : Option (List (MName × Option MName)))
    (cmUser : List (Chan × Option Chan)) (single : List String) (prog : Option Loop)
    (h : createProgram (stripCons pt) kv mm cmUser single = .ok prog) :
    createProgram pt kv mm cmUser single = .ok prog ↔ ∀ v ∈ visible pt (.dict kv), v.Fine := by
  rw [constraints_only_gate pt kv mm cmUser single prog h, ← visOutcome_ok_iff]
  cases visOutcome (visible pt (.dict kv)) with
  | error e => simp
  | ok u => simp

/-- the hypothesis of `constraint_iff` is satisfiable, with both outcomes (`a = x + i ≤ 2` for `i = 0, 1`) -/
example : (∃ p, createProgram (stripCons exampleTree) [("x", 1)] none [] [] = .ok p) ∧
    (∃ p, createProgram exampleTree [("x", 1)] none [] [] = .ok p) ∧
    (∃ p, createProgram (stripCons exampleTree) [("x", 2)] none [] [] = .ok p) ∧
    createProgram exampleTree [("x", 2)] none [] [] = .error .constraintViolation :=
  ⟨⟨_, by with_unfolding_all rfl⟩, ⟨_, by with_unfolding_all rfl⟩, ⟨_, by with_unfolding_all rfl⟩,
    by with_unfolding_all rfl⟩

/-- **A missing parameter never yields a program.** If a visible entry is not fine — an expression that a
visited node evaluates unconditionally (a constraint, a repetition count, a loop bound, a constant duration, a
table entry, an eagerly mapped parameter) cannot be evaluated in the scope the node sees, in particular because
a parameter it needs is missing, or a key an eagerly mapping node demands is absent — instantiation fails; it
never returns a program. -/
theorem missing_never_program (pt : PT) (kv : List (String × Rat)) (mm : Option (List (MName × Option MName)))
    (cmUser : List (Chan × Option Chan)) (single : List String)
    (h : ∃ v ∈ visible pt (.dict kv), ¬ v.Fine) :
    ∀ prog, createProgram pt kv mm cmUser single ≠ .ok prog := by
  intro prog hprog
  obtain ⟨v, hv, hnf⟩ := h
  exact hnf ((visOutcome_ok_iff _).mp ((createProgram_tracks pt kv mm cmUser single).1 prog hprog) v hv)

/-- in particular: an entry whose expression fails to evaluate (e.g. with `parameter_missing`) is not fine -/
theorem not_fine_of_eval_error {v : Vis} {e : Err} (hk : v.key = none) (he : v.scope.eval v.expr = .error e) :
    ¬ v.Fine := by
  unfold Vis.Fine
  rw [hk]
  rintro ⟨x, hx, _⟩
  rw [he] at hx
  cases hx

/-- the judge used by the harness (`consOutcome` on the constraints only) agrees with the tracked outcome -/
theorem judge_agrees (l : List Vis) :
    (visOutcome l = .ok () → consOutcome (consOf l) = .ok ()) ∧
    (visOutcome l = .error .constraintViolation → consOutcome (consOf l) = .error .constraintViolation) := by
  induction l with
  | nil => exact ⟨fun _ => rfl, fun h => by cases h⟩
  | cons v l ih =>
    rw [visOutcome_cons]
    cases hc : v.isConstraint with
    | true =>
      have hco : consOutcome (consOf (v :: l)) = checkOne (v.scope, v.expr) >>= fun _ => consOutcome (consOf l) := by
        simp only [consOf, List.filter_cons, hc, if_true, List.map_cons, consOutcome, List.forM_eq_forM, List.forM_cons]
      rw [hco, checkVis_of_constraint hc]
      constructor
      · intro h
        obtain ⟨u, hu, h⟩ := bind_ok.mp h
        rw [hu, ok_bind]
        exact ih.1 h
      · intro h
        rcases bind_err.mp h with h | ⟨u, hu, h⟩
        · rw [h]; rfl
        · rw [hu, ok_bind]
          exact ih.2 h
    | false =>
      have hco : consOf (v :: l) = consOf l := by
        simp only [consOf, List.filter_cons, hc, Bool.false_eq_true, if_false]
      rw [hco]
      have hck := checkVis_noCV_of_not_constraint hc
      constructor
      · intro h
        obtain ⟨u, _, h⟩ := bind_ok.mp h
        exact ih.1 h
      · intro h
        rcases bind_err.mp h with h | ⟨u, _, h⟩
        · exact absurd rfl (avoid_iff.mp hck _ h)
        · exact ih.2 h

/-! ## non-vacuity and the known defect classes -/

/-- PF-13 (repaired in the model): the pinned `parameter_names` of an `ArithmeticAtomicPulseTemplate` omits the
parameters of its own measurement declarations, so the declared names do not suffice -/
theorem pf13_counterexample :
    let pt : PT := .arithAtomic none (.func none "A" (.lit 2) (.lit 1) [] []) false (.func none "A" (.lit 2) (.lit 2) [] [])
      [⟨"m", .var "b", .lit 1⟩]
    parameterNamesPinned pt = [] ∧ parameterNames pt = ["b"] := by
  decide

/-- PF-14: the `NoReservedT` hypothesis of `frame` cannot be dropped — a value for the undeclared name `t`
changes the model's result when a `ParallelChannelPulseTemplate` channel value mentions `t` -/
theorem frame_counterexample :
    let pt : PT := .parallel none (.func none "A" (.lit 2) (.lit 1) [] []) [("B", .var "t")]
    parameterNames pt = [] ∧ WF pt ∧
      createProgram pt [] none [] [] ≠ createProgram pt [("t", 1)] none [] [] := by
  refine ⟨by decide, by simp [WF], ?_⟩
  intro h
  have h1 : createProgram (.parallel none (.func none "A" (.lit 2) (.lit 1) [] []) [("B", .var "t")]) [] none [] [] =
      .error .parameterMissing := by rfl
  obtain ⟨x, hx⟩ : ∃ x, createProgram (.parallel none (.func none "A" (.lit 2) (.lit 1) [] []) [("B", .var "t")])
      [("t", 1)] none [] [] = .ok x := ⟨_, rfl⟩
  rw [h1, hx] at h
  cases h

end QP.Props.C03
