import QP.Proofs.C03Basic
/-! Property theorems for C03 (declared parameters suffice, declared constraints are enforced). -/
namespace QP.Props.C03
open QP QP.PT QP.C03

/-- the judge over an empty enumeration accepts -/
theorem consOutcome_nil : consOutcome [] = .ok () := rfl

end QP.Props.C03
