import QP.Proofs.C09Err
/-!
# C09 — program-tree bookkeeping stays coherent under every sequence of edits

`Coherent t` (`QP/Model/C09.lean`): in every node the cached body duration is empty or equals the
duration recomputed from the leaves and repetition counts, every child records its position, and
every child's parent pointer is the node that lists it.  The operations are the model `applyR` of
the public editing operations of `Loop` / `Node` (with the repairs PF-05, PF-06, PF-12, PF-C09-1).
Proofs are in `QP/Proofs/C09*.lean`.
-/
namespace QP.Props.C09
open QP.C09

/-- A freshly constructed program (`Loop(children=…)`, bottom-up) is coherent. -/
theorem coherent_init (uid : Nat) (rep : Int) (vol : Bool) (wf : Option Wf) (meas : List Meas) (kids : List T)
    (h : CoherentL kids) : Coherent (mkNode uid rep vol wf meas kids) :=
  Main.coherent_init uid rep vol wf meas kids h

/-- `copy_tree_structure` yields a coherent program whatever it copies. -/
theorem copy_coherent (par : Option Nat) (pidx : Option Int) (t : T) (n : Nat) :
    Coherent (copyT par pidx t n).1 := Main.copy_coherent par pidx t n

/-- The copy handed out by the `copy` operation is a coherent program of its own. -/
theorem copy_result_coherent (p : Path) (kp : CopyPar) (s : St) (c : T)
    (h : (applyR (.copy p kp) s).out = some c) : Coherent c := Main.copy_result_coherent p kp s c h

/-- `copy_tree_structure(new_parent=…)`: the copy's root has exactly the requested parent — the original's
(default), none (`new_parent=None`), or the given loop, be it childless or not — and no recorded position. -/
theorem copy_parent_requested (p : Path) (kp : CopyPar) (s : St) (c : T)
    (h : (applyR (.copy p kp) s).out = some c) :
    ∃ n, locate s.tree p = some n ∧ c.info.par = kp.request n ∧ c.info.pidx = none :=
  Main.copy_parent_requested p kp s c h

/-- Every public operation (query, append_child, item / slice assignment, waveform / repetition
setters, unroll, unroll_children, split_one_child, encapsulate, _merge_single_child, cleanup,
reverse_inplace, roll_constant_waveforms, copy_tree_structure, add_measurements,
get_measurement_windows(drop=True)) preserves coherence, whatever its
arguments and whether or not it raises.  `Pre`: sub-trees handed in are coherent programs (fresh or
detached); children are appended only to nodes without waveform. -/
theorem op_preserves (op : Op) (s : St) (hs : Coherent s.tree) (hp : Pre op s) :
    Coherent (apply op s).tree := Main.op_preserves op s hs hp

/-- Coherence is an invariant of ARBITRARY histories: any finite list of operations with any
arguments, duration queries (`Op.query`, which populate caches) interleaved anywhere. -/
theorem history (ops : List Op) (s : St) (hs : Coherent s.tree) (hp : PreAll ops s) :
    Coherent (ops.foldl (fun s op => apply op s) s).tree := Main.history ops s hs hp

/-- The executable judge decides exactly the specification. -/
theorem coherentB_iff (t : T) : coherentB t = true ↔ Coherent t := Main.coherentB_iff t

/-- `Coherent` says, node by node: the cache is empty or right, and the children are linked. -/
theorem coherent_iff_nodes (t : T) :
    Coherent t ↔ ∀ p n, locate t p = some n → cacheOkHere n ∧ linksOkHere n := Main.coherent_iff_nodes t

/-- The duration reported by any node (`Loop.duration`, reading and filling caches) equals the
duration recomputed from its leaves and repetition counts. -/
theorem reported_duration_eq (t : T) (h : Coherent t) (p : Path) (n : T) (hn : locate t p = some n) :
    reportedDur n = dur n := Main.reported_duration_eq t h p n hn

/-- The chain of recorded positions along a path is that path: `root.locate(n.get_location())` is `n`. -/
theorem locate_location (t : T) (h : Coherent t) (p : Path) (n : T) (hn : locate t p = some n) :
    recordedLoc t p = some (p.map (fun (k : Nat) => some (k : Int))) := Main.locate_location t h p n hn

/-- Every child's parent is the node that lists it, at the position it records. -/
theorem child_parent (t : T) (h : Coherent t) (p : Path) (n c : T) (k : Nat) (hn : locate t p = some n)
    (hc : n.kids[k]? = some c) : c.info.par = some n.info.uid ∧ c.info.pidx = some (k : Int) :=
  Main.child_parent t h p n c k hn hc

/-- `Loop.__eq__` is decided by structure, counts, waveforms and measurements only: two programs are
equal iff they agree after forgetting identity, caches, positions and parent pointers. -/
theorem eq_structural (a b : T) : eqStruct a b = true ↔ erase a = erase b := Main.eq_structural a b


/-- Rejected, never altered: when an operation raises (`TypeError`, `IndexError`, `ValueError`,
`RuntimeError`, `AssertionError`; also the model's own `unsupported`/`badPath`) the tree is exactly
what it was.  The one exception is the `AttributeError` of `reverse_inplace` on a leaf without
waveform, which stops a traversal half-way; `op_preserves` covers that state too. -/
theorem rejected_unchanged (op : Op) (s : St) (e : Err) (h : (applyR op s).err = some e)
    (he : e ≠ .attributeError) : (applyR op s).st.tree = s.tree := by
  unfold applyR at h ⊢
  split at h
  · rfl
  · split at h
    · rfl
    · rename_i r hr
      simp only at h ⊢
      rcases atPath_unchanged _ _ _ r hr (fun n _ => loc_errShape op s.next n) with h1 | h1 | h1
      · rw [h1] at h; cases h
      · rw [h1] at h; cases h; exact absurd rfl he
      · exact h1.1

/-! ### the hypotheses are satisfiable (non-vacuity) -/

/-- `exTree`, `exOps` (QP/Proofs/C09Err.lean): a concrete coherent program and a history with queries,
an append, an unroll, a split, an extended-slice assignment, a roll, a reversal, a count change -/
example : Coherent exTree := (coherentB_iff _).1 (by decide +kernel)

example : Coherent (exOps.foldl (fun s op => apply op s) ⟨exTree, 4⟩).tree :=
  history exOps ⟨exTree, 4⟩ ((coherentB_iff _).1 (by decide +kernel)) ex_pre

/-- the history really changes the program (8 children afterwards) and really fails somewhere else -/
example : (exOps.foldl (fun s op => apply op s) ⟨exTree, 4⟩).tree.kids.length = 8 := by decide +kernel
example : (applyR (.unroll [1]) ⟨exTree, 4⟩).err = some .runtimeError := by decide +kernel

/-! ### PF-C09-2 (open finding): edits of a detached sub-tree or of a copy

Full-strength statement, FALSE of the code (and of the model `applyBeside`, which keeps the defective
behaviour): for every tree `t`, every other tree `d` and every operation on `d`,
`Coherent t → Coherent d.tree → Pre op d → Coherent (applyBeside op t d).1`. -/

/-- Outside the known class (the edited tree's root does not point to a node of `t`) an operation
on another tree leaves `t` alone, so `t` stays coherent. -/
theorem beside_partial (op : Op) (t : T) (d : St) (ht : Coherent t) (h : ¬ InKnownClass t d) :
    Coherent (applyBeside op t d).1 := by
  rw [beside_untouched op t d h]; exact ht

/-- The edited tree itself stays coherent in every case. -/
theorem beside_edited_coherent (op : Op) (t : T) (d : St) (hd : Coherent d.tree) (hp : Pre op d) :
    Coherent (applyBeside op t d).2.st.tree := by
  have : (applyBeside op t d).2 = applyR op d := by
    unfold applyBeside; simp only; split <;> (try split) <;> rfl
  rw [this]; exact Main.op_preserves op d hd hp

/-- Inside the class the property fails: after `root.duration`, `c = root[1].copy_tree_structure()`,
`c.append_child(leaf of duration 5)` the ORIGINAL root caches 8 where 3 is right. -/
theorem beside_counterexample :
    Coherent witT ∧ Coherent witD.tree ∧ Pre witOp witD ∧ InKnownClass witT witD ∧
    ¬ Coherent (applyBeside witOp witT witD).1 := by
  refine ⟨(coherentB_iff _).1 (by decide +kernel), (coherentB_iff _).1 (by decide +kernel),
    ⟨(coherentB_iff _).1 (by decide +kernel), ?_⟩, ⟨0, by decide +kernel, by decide +kernel⟩, ?_⟩
  · intro n hn
    simp only [locate, Option.some.injEq] at hn
    subst hn
    decide +kernel
  · intro h
    have := (coherentB_iff _).2 h
    revert this
    decide +kernel

end QP.Props.C09
