import QP.Model.C09
namespace QP.Props.C09
open QP.C09

theorem placeholder_leaf (i : Info) : bodyDur (.mk i []) = leafDur i.wf := by
  simp [bodyDur]

end QP.Props.C09
