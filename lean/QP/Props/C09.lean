import QP.Proofs.C09Ops3
/-!
# C09 — program-tree bookkeeping stays coherent under every sequence of edits

`Coherent t` (`QP/Model/C09.lean`): in every node the cached body duration is empty or equals the
duration recomputed from the leaves and repetition counts, every child records its position, and
every child's parent pointer is the node that lists it.
-/
namespace QP.Props.C09
open QP.C09

/-- A freshly constructed program (`Loop(children=…)`, bottom-up) is coherent. -/
theorem coherent_init (uid : Nat) (rep : Int) (vol : Bool) (wf : Option Wf) (meas : List Meas) (kids : List T)
    (h : CoherentL kids) : Coherent (mkNode uid rep vol wf meas kids) := by
  unfold mkNode
  apply coherent_of_links _ _ rfl
  · intro k c hk
    simp only [List.getElem?_mapIdx, Option.map_eq_some_iff] at hk
    obtain ⟨x, _, rfl⟩ := hk
    simp
  · intro d hd
    simp only [List.mem_mapIdx] at hd
    obtain ⟨j, hj, rfl⟩ := hd
    exact coherent_withPidx _ _ (coherent_withPar _ _ (coherentL_mem h _ (List.getElem_mem hj)))

/-- `copy_tree_structure` yields a coherent program whatever it copies. -/
theorem copy_coherent (par : Option Nat) (pidx : Option Int) (t : T) (n : Nat) :
    Coherent (copyT par pidx t n).1 := copyT_coherent par pidx t n

/-- Every public operation preserves coherence (`Pre`: sub-trees handed in are coherent programs;
children are appended only to nodes without waveform). -/
theorem op_preserves (op : Op) (s : St) (hs : Coherent s.tree) (hp : Pre op s) :
    Coherent (apply op s).tree := by
  have key : ∀ (f : T → Loc) (p : Path),
      (∀ n, locate s.tree p = some n → Coherent n → LocOk n (f n)) →
      Coherent (match atPath f p s.tree with
        | none => ({ st := s, err := some .badPath } : Res)
        | some r => { st := ⟨r.node, r.next⟩, removed := r.removed, out := r.out, err := r.err }).st.tree := by
    intro f p hf
    cases h : atPath f p s.tree with
    | none => exact hs
    | some r => exact (atPath_ok f p s.tree hs hf r h).1
  cases op with
  | query p => exact key _ _ (fun n _ hc => query_ok _ n hc)
  | append p a => exact key _ _ (fun n hn hc => append_ok a _ n hc hp.1 (hp.2 n hn))
  | setItem p idx v => exact key _ _ (fun n _ hc => setItem_ok idx v _ n hc hp)
  | setSlice p a b c vs => exact key _ _ (fun n _ hc => setSlice_ok a b c vs _ n hc (coherentL_mem hp))
  | setWf p w => exact key _ _ (fun n _ hc => setWf_ok w _ n hc)
  | setRep p r v => exact key _ _ (fun n _ hc => setRep_ok r v _ n hc)
  | unroll p =>
    cases p with
    | nil => exact hs
    | cons k p =>
      have : apply (.unroll (k :: p)) s =
          (match atPath ((Op.unroll (k :: p)).loc s.next) (Op.unroll (k :: p)).target s.tree with
            | none => ({ st := s, err := some .badPath } : Res)
            | some r => { st := ⟨r.node, r.next⟩, removed := r.removed, out := r.out, err := r.err }).st := rfl
      rw [this]
      apply key
      intro n _ hc
      simp only [Op.loc]
      cases (k :: p).getLast? with
      | some j => exact unroll_ok _ _ n hc
      | none => exact locOk_err n _ _ hc
  | unrollChildren p => exact key _ _ (fun n _ hc => unrollChildren_ok _ n hc)
  | split p idx => exact key _ _ (fun n _ hc => split_ok idx _ n hc)
  | encapsulate p => exact key _ _ (fun n _ hc => encapsulate_ok _ n hc)
  | merge p => exact key _ _ (fun n _ hc => merge_ok _ n hc)
  | cleanup p re mg => exact key _ _ (fun n _ hc => cleanup_ok re mg _ n hc)
  | reverse p => exact key _ _ (fun n _ hc => reverse_ok _ n hc)
  | roll p mq q sr => exact key _ _ (fun n _ hc => roll_ok mq q sr _ n hc)
  | copy p kp => exact key _ _ (fun n _ hc => copy_ok kp _ n hc)

/-- Coherence is an invariant of arbitrary histories: any finite list of operations, duration
queries (`Op.query`, which populate caches) interleaved anywhere. -/
theorem history (ops : List Op) (s : St) (hs : Coherent s.tree) (hp : PreAll ops s) :
    Coherent (ops.foldl (fun s op => apply op s) s).tree := by
  induction ops generalizing s with
  | nil => exact hs
  | cons op ops ih => exact ih (apply op s) (op_preserves op s hs hp.1) hp.2

end QP.Props.C09
