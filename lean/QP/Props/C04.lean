import QP.Model.PT
import QP.Proofs.PTArith
import QP.Proofs.PTTop
import QP.Proofs.PTTopW
import QP.Proofs.PTTop2W
import QP.Proofs.PTTop3W
import QP.Proofs.PTSingle
import QP.Proofs.PTDurTop
import QP.Proofs.PTDurTable
/-!
# C04 — durations are exact and the template, the program and its pieces agree on them

Full statement (DESIGN 4/C04): for every template, `createProgram … = .ok (some prog)` implies
`templateDuration pt σ = prog.duration = (toWaveform prog).duration = Σ (play prog).map duration
= (denoteTop …).dur` (an empty program counting as 0).

Proved here: the program-side equalities for **every** `Loop` (`duration_eq_pieces`, `duration_eq_play`,
`no_accumulation`), the closed form of `ForLoopPulseTemplate.duration` for every integer range with
`step ≠ 0` (`forloop_duration_closed_form`, with `range_spec` pinning down Python's `range`), and
`duration_agree_partial` (program duration = duration of the denoted pulse) for `Stage3R` — the proved atoms
composed by ALL seven composite constructors, no positivity assumption —, `duration_agree_single_partial` for every
`to_single_waveform` set (C05), and `template_duration_agree_partial`: `templateDuration = prog.duration` for all
composite constructors over atoms at which it holds (`Live`; proved for `ConstantPT` / `FunctionPT` that keep a
channel).  `(toWaveform prog).duration` is C05's `toWaveform_duration`.
All durations are `Rat`: there is no rounding in the model at all — that the implementation computes the same
rationals is what the correspondence run establishes on every check.
-/
namespace QP.Props.C04
open QP.PT

/-- Python's `range(start, stop, step)` for `step ≠ 0` -/
theorem range_spec (a b s x : Int) (hs : s ≠ 0) :
    x ∈ pyRange a b s ↔ ∃ k : Nat, x = a + s * k ∧ (if 0 < s then x < b else b < x) :=
  mem_pyRange a b s x hs

/-- **closed form of the iteration duration**: `Piecewise((0, ⌈(stop-start)/step⌉ ≤ 0), (Σ_{k=0}^{max(⌈…⌉,1)-1}
body(start + k·step), True))` equals the sum of the body durations over Python's `range(start, stop, step)` —
for every integer triple with `step ≠ 0`: empty, single, negative and non-dividing steps included. -/
theorem forloop_duration_closed_form (g : Rat → Except Err Rat) (a b s : Int) (hs : s ≠ 0) :
    forLoopClosedForm g a b s =
      (do let ds ← (pyRange a b s).mapM (fun (i : Int) => g (i : Rat)); pure (sumList ds)) :=
  closedForm_eq_range g a b s hs

/-- the same for the template: the symbolic duration of a `ForLoopPT` whose range expressions evaluate to the
integers `a, b, s` -/
theorem forloop_template_duration (id : Option String) (body : PT) (idx : String) (start stop step : Expr)
    (meas : List MeasDecl) (cons : List Expr) (σ : Scope) (a b s : Int) (hs : s ≠ 0)
    (ha : σ.eval start = .ok (a : Rat)) (hb : σ.eval stop = .ok (b : Rat)) (hst : σ.eval step = .ok (s : Rat)) :
    templateDuration (.forLoop id body idx start stop step meas cons) σ =
      (do let ds ← (pyRange a b s).mapM (fun (i : Int) => templateDuration body (.range σ idx (i : Rat)))
          pure (sumList ds)) :=
  forLoop_templateDuration id body idx start stop step meas cons σ a b s hs ha hb hst

/-- the duration a program reports is the sum over its leaves, each counted as often as it is played -/
theorem duration_eq_pieces (l : Loop) : l.duration = l.piecesSum := Loop.duration_eq_piecesSum l

/-- … and the sum over the fully unrolled sequence of played waveforms -/
theorem duration_eq_play (l : Loop) : l.duration = sumList (l.play.map Wf.duration) := Loop.duration_eq_play l

/-- **no accumulation**: repeating a body `n` times lasts exactly `n` times the body, in exact rationals -/
theorem no_accumulation (n : Nat) (ms : List Window) (cs : List Loop) :
    (Loop.mk n none ms cs).duration = Loop.durationList cs * n := duration_none n ms cs

/-- an empty program part has duration zero -/
theorem empty_is_zero (n : Nat) (ms : List Window) : (Loop.mk n none ms []).duration = 0 := by
  simp [duration_none, Loop.durationList]

/-- **durations agree (partial)**: for `Stage3R` templates (all composite constructors over the proved atoms; no
positivity assumption, no PF-11 exclusion) the program lasts exactly as long as the denoted pulse -/
theorem duration_agree_partial {pt : PT} (hs : Stage3R pt) (params : List (String × Rat))
    (mm : Option (List (MName × Option MName))) (cm : List (Chan × Option Chan)) (prog : Loop) (P : Pulse)
    (hprog : createProgram pt params mm cm [] = .ok (some prog))
    (hden : denoteTop pt params mm cm = .ok P) :
    prog.duration = P.dur ∧ prog.piecesSum = P.dur ∧ sumList (prog.play.map Wf.duration) = P.dur := by
  have h := (createProgram_relWT_basic hs.basic params mm cm (some prog) P hprog hden).1
  exact ⟨h, by rw [← duration_eq_pieces, h], by rw [← duration_eq_play, h]⟩

/-- **durations agree incl. the empty program (partial)**: `Stage3R`, no positivity
assumption; an empty program corresponds to a denoted duration of zero. -/
theorem duration_agree_reversal_partial {pt : PT} (hs : Stage3R pt) (params : List (String × Rat))
    (mm : Option (List (MName × Option MName))) (cm : List (Chan × Option Chan)) (prog? : Option Loop) (P : Pulse)
    (hprog : createProgram pt params mm cm [] = .ok prog?) (hden : denoteTop pt params mm cm = .ok P) :
    (match prog? with | some prog => prog.duration | none => 0) = P.dur := by
  have := createProgram_relWT_basic hs.basic params mm cm prog? P hprog hden
  cases prog? with
  | some prog => exact this.1
  | none => exact this.1.symm

/-- **durations for every `to_single_waveform` set** (C05 `collapse_invariant_partial` on top of
`duration_agree_partial`): all composite constructors incl. time reversal, outside C05's exclusion class `cleanW`,
under C05's output-checkable side conditions. -/
theorem duration_agree_single_partial {pt : PT} (hs : Stage3R pt) (params : List (String × Rat))
    (mm : Option (List (MName × Option MName))) (cm : List (Chan × Option Chan)) (S : List String)
    (prog0 progS : Loop) (P : Pulse)
    (h0 : createProgram pt params mm cm [] = .ok (some prog0))
    (hnn0 : QP.C05.allLeaves QP.C05.nonnegW prog0 = true)
    (hS : createProgram pt params mm cm S = .ok (some progS))
    (hden : denoteTop pt params mm cm = .ok P)
    (hclean : QP.C05.cleanW S false false pt = true)
    (c : Chan) (ht0 : QP.C05.allLeaves (QP.C05.tidy c) prog0 = true)
    (htS : QP.C05.allLeaves (QP.C05.tidy c) progS = true) :
    progS.duration = P.dur :=
  (createProgram_single_W hs params mm cm S prog0 progS P h0 hnn0 hS hden hclean c ht0 htS).1

/-- **`pt.duration` at the parameters = duration of the program** (C04 full strength, `_partial`): for every template
built from the proved atoms by ALL composite constructors (`Stage3R`: sequence, repetition, iteration, mapping, time
reversal, parallel channels, arithmetic with a scalar), whenever the instance is `Live` — the statement holds at its
atoms in the scopes they are instantiated in (`DurAtom`; `template_duration_const`, `template_duration_func` give
sufficient conditions: a channel is kept, no negative duration), repetition counts are exact naturals and loop bounds
exact integers — the symbolic duration expression of the class, evaluated at the parameters, is the duration of the
program `create_program` returns (0 if it returns none). -/
theorem template_duration_agree_partial {pt : PT} (hs : Stage3R pt) (params : List (String × Rat))
    (mm : Option (List (MName × Option MName))) (cm : List (Chan × Option Chan)) (prog? : Option Loop) (P : Pulse)
    (d : Rat) (hl : Live pt (.dict params) (topCm pt cm))
    (hprog : createProgram pt params mm cm [] = .ok prog?) (hden : denoteTop pt params mm cm = .ok P)
    (hd : templateDuration pt (.dict params) = .ok d) :
    d = (match prog? with | some prog => prog.duration | none => 0) :=
  templateDuration_program hs params mm cm prog? P d hl hprog hden hd

/-- … and of the denoted pulse, in any scope and under any mappings (all 7 composite constructors, any atoms for
which it holds); an empty pulse lasts 0 -/
theorem template_duration_denoted {pt : PT} {σ : Scope} {cm : List (Chan × Option Chan)} (hl : Live pt σ cm)
    (mm : List (MName × Option MName)) (d : Rat) (P : Pulse)
    (hd : templateDuration pt σ = .ok d) (hden : denote pt σ mm cm = .ok P) :
    d = P.dur ∧ (P.chans = [] → P.dur = 0) := live_dur hl mm d P hd hden

/-- the atom statement for `ConstantPT`: it keeps a channel and its duration is not negative -/
theorem template_duration_const (id : Option String) (dur : Expr) (amps : List (Chan × Expr)) (meas : List MeasDecl)
    (σ : Scope) (cm : List (Chan × Option Chan))
    (hkeep : ∃ ch e o, (ch, e) ∈ amps ∧ cm.lookup ch = some (some o))
    (hnn : ∀ d, σ.eval dur = .ok d → 0 ≤ d) : Live (.const id dur amps meas) σ cm :=
  Live.atom (durAtom_const id dur amps meas σ cm hkeep hnn)

/-- the atom statement for `FunctionPT`: it keeps its channel -/
theorem template_duration_func (id : Option String) (ch : Chan) (dur e : Expr) (meas : List MeasDecl)
    (cons : List Expr) (σ : Scope) (cm : List (Chan × Option Chan)) (o : Chan)
    (hkeep : cm.lookup ch = some (some o)) : Live (.func id ch dur e meas cons) σ cm :=
  Live.atom (durAtom_func id ch dur e meas cons σ cm o hkeep)

/-- the atom statement for `TablePT`: it keeps a channel (`duration` = the maximum over ALL channels of the last entry
time; `get_entries_instantiated` pads every channel to exactly that time) -/
theorem template_duration_table (id : Option String) (entries : List (Chan × List TEntry)) (meas : List MeasDecl)
    (cons : List Expr) (σ : Scope) (cm : List (Chan × Option Chan))
    (hkeep : ∃ ch es o, (ch, es) ∈ entries ∧ cm.lookup ch = some (some o)) :
    Live (.table id entries meas cons) σ cm :=
  Live.atom (durAtom_table id entries meas cons σ cm hkeep)

/-- the atom statement for `PointPT`: it keeps a channel -/
theorem template_duration_point (id : Option String) (chans : List Chan) (entries : List PEntry)
    (meas : List MeasDecl) (cons : List Expr) (σ : Scope) (cm : List (Chan × Option Chan))
    (hkeep : ∃ c o, c ∈ chans ∧ cm.lookup c = some (some o)) :
    Live (.point id chans entries meas cons) σ cm :=
  Live.atom (durAtom_point id chans entries meas cons σ cm hkeep)

/-- the atom statement for `AtomicMultiChannelPT` (explicit `duration` or not): its first sub-template satisfies the
statement and denotes a non-empty pulse -/
theorem template_duration_atomicMulti (id : Option String) (p1 : PT) (ps : List PT) (dur : Option Expr)
    (meas : List MeasDecl) (cons : List Expr) (σ : Scope) (cm : List (Chan × Option Chan))
    (h1 : DurAtom p1 σ cm) (hne : ∀ mm P1, denote p1 σ mm cm = .ok P1 → P1.chans ≠ []) :
    Live (.atomicMulti id (p1 :: ps) dur meas cons) σ cm :=
  Live.atom (durAtom_atomicMulti id p1 ps dur meas cons σ cm h1 hne)

/-- the atom statement for `ArithmeticAtomicPT`: both operands satisfy it and denote non-empty pulses -/
theorem template_duration_arithAtomic (id : Option String) (lhs : PT) (minus : Bool) (rhs : PT)
    (meas : List MeasDecl) (σ : Scope) (cm : List (Chan × Option Chan))
    (hl : DurAtom lhs σ cm) (hr : DurAtom rhs σ cm)
    (hnl : ∀ mm P, denote lhs σ mm cm = .ok P → P.chans ≠ [])
    (hnr : ∀ mm P, denote rhs σ mm cm = .ok P → P.chans ≠ []) :
    Live (.arithAtomic id lhs minus rhs meas) σ cm :=
  Live.atom (durAtom_arithAtomic id lhs minus rhs meas σ cm hl hr hnl hnr)

/-- the hypotheses matter: a `ConstantPT` all of whose channels are dropped has `duration = 2` and no program -/
example : templateDuration exPt (.dict []) = .ok 2 ∧ denote exPt (.dict []) [] [("A", none)] = .ok Pulse.empty := by
  constructor
  · simp [templateDuration, exPt, Scope.eval, Expr.eval]
  · norm_num [denote, exPt, Scope.eval, Expr.eval, chanLookup, dictOfList, List.filterMapM_cons, List.filterMapM_nil,
      bind, Except.bind, pure, Except.pure]

/-! ## Non-vacuity -/

example : pyRange 5 0 (-2) = [5, 3, 1] := by decide
example : pyRange 0 5 2 = [0, 2, 4] := by decide
example : pyRange 3 1 1 = [] := by decide

end QP.Props.C04
