import QP.Model.C15
import QP.Proofs.C15
import QP.Proofs.C15Float
/-!
# C15 — updating volatile parameters equals re-instantiating with the new values

All theorems quantify over every template tree, scope stack, volatile set and update (sequence); none
bounds a size.  Notation of the statements:

* `createProgram pt params vol`     — `pt.create_program(parameters=params, volatile=vol)`
* `P.update new`                    — `update_volatile_dependencies(new)` on every volatile count of `P`
* `params.map (override new)`       — the parameter values a fresh instantiation is given ("params ⊕ new")
* `pt.inside s`                     — the instantiation is inside the quantifier: every count that depends on a
                                      volatile parameter is positive and no for-loop range is volatile
* `cleanupF`                        — `Loop.cleanup()`; `RepDef.prod` — the product of `_merge_single_child`
-/
namespace QP.Props.C15
open QP.C15

/-! ## marking -/

/-- `marked_iff` (1): a compiled count is marked volatile iff its expression mentions a name that is in the
volatile keys of the scope it is evaluated in -/
theorem marked_iff_volatile_keys (e : Expr) (s : Scope) (n : Nat) :
    (markRd e s n).isVol = true ↔ ∃ x, x ∈ e.vars ∧ s.isVol x = true := by
  unfold markRd
  by_cases h : e.vars.any s.isVol = true
  · simp only [h, if_true, RepDef.isVol, true_iff]
    exact List.any_eq_true.mp h
  · simp only [h, if_false, RepDef.isVol, Bool.false_eq_true, false_iff]
    intro ⟨x, hx, hv⟩
    exact h (List.any_eq_true.mpr ⟨x, hx, hv⟩)

/-- the executable membership test `isVol` is the spec `Depends` (a defining-expression chain reaches a
top-level volatile parameter without passing a shadowing mapping or loop index) -/
theorem isVol_iff_depends (s : Scope) (x : Name) : s.isVol x = true ↔ Depends s x :=
  QP.C15.isVol_iff_depends s x

/-- `marked_iff` (2): … iff the count depends on a volatile top-level parameter -/
theorem marked_iff (e : Expr) (s : Scope) (n : Nat) :
    (markRd e s n).isVol = true ↔ ∃ x, x ∈ e.vars ∧ Depends s x := by
  rw [marked_iff_volatile_keys]
  constructor
  · intro ⟨x, hx, hv⟩; exact ⟨x, hx, (QP.C15.isVol_iff_depends s x).mp hv⟩
  · intro ⟨x, hx, hd⟩; exact ⟨x, hx, (QP.C15.isVol_iff_depends s x).mpr hd⟩

/-- a name is volatile iff it has a volatile root, and every root is a volatile name of the bottom scope(s) -/
theorem volatile_iff_has_root (s : Scope) (x : Name) :
    s.isVol x = true ↔ (s.roots x ≠ [] ∧ ∀ r, r ∈ s.roots x → r ∈ s.baseVol) :=
  ⟨fun h => ⟨(roots_ne_nil_iff s x).mpr h, fun r hr => roots_subset_baseVol s x r hr⟩,
   fun h => (roots_ne_nil_iff s x).mp h.1⟩

/-- the compilation is "count structure, then mark exactly the dependent counts" at every position -/
theorem compile_eq_markVolatile (pt : PT) (s : Scope) :
    compile pt s = mapOk markVolatile (compileCounts pt s) :=
  compile_eq_mark pt s

/-- only dependent counts are ever marked: in a compiled program … -/
theorem compiled_marks_depend (pt : PT) (s : Scope) (F : Forest) (h : compile pt s = .ok F) :
    F.All RepDef.Dep := by
  rw [compile_eq_mark] at h
  cases hc : compileCounts pt s with
  | error e => simp [hc, mapOk] at h
  | ok t =>
    simp only [hc, mapOk] at h
    cases h
    exact markVolatile_all_dep t

/-- … after any update … -/
theorem update_preserves_marks (new : Assign) (F : Forest) (h : F.All RepDef.Dep) :
    (F.update new).All RepDef.Dep :=
  update_all_dep new F h

/-- … and after `cleanup()` (merged products included) -/
theorem cleanup_preserves_marks (F : Forest) (h : F.All RepDef.Dep) : (cleanupF F).All RepDef.Dep :=
  cleanupF_all_dep F h

/-- the merged count is volatile iff one of the factors is: no mark is lost in `_merge_single_child` -/
theorem merge_marked_iff (p c : RepDef) : (p.prod c).isVol = (p.isVol || c.isVol) :=
  prod_isVol p c

/-- the volatility of a name never changes under `change_constants` -/
theorem isVol_change (new : Assign) (s : Scope) (x : Name) : (s.change new).isVol x = s.isVol x :=
  QP.C15.isVol_change new s x

/-! ## update = fresh instantiation -/

/-- only volatile parameters are given new values -/
def OnlyVolatile (new params : Assign) (vol : List Name) : Prop :=
  ∀ k, (new.lookup k).isSome → (params.lookup k).isSome → vol.contains k = true

/-- scope-level form, for every scope stack: compiling in the changed scope gives the updated program -/
theorem compile_update_eq_fresh (new : Assign) (pt : PT) (s : Scope) (F : Forest)
    (h : compile pt s = .ok F) (hnew : NewOK new s)
    (hin : pt.inside s = true) (hin' : pt.inside (s.change new) = true) :
    compile pt (s.change new) = .ok (F.update new) :=
  compile_change new pt s F h hnew hin hin'

/-- `update_eq_fresh`: updating the volatile parameters of an instantiated program gives, node by node,
the program a fresh instantiation with the new values produces -/
theorem update_eq_fresh (pt : PT) (params : Assign) (vol : List Name) (new : Assign) (P : Forest)
    (h : createProgram pt params vol = .ok P) (hnew : OnlyVolatile new params vol)
    (hin : pt.inside (.dict params vol) = true)
    (hin' : pt.inside (.dict (params.map (override new)) vol) = true) :
    createProgram pt (params.map (override new)) vol = .ok (P.update new) := by
  simp only [createProgram] at h ⊢
  cases hc : compile pt (.dict params vol) with
  | error e => simp [hc] at h
  | ok F =>
    simp only [hc] at h
    have hch := compile_change new pt (.dict params vol) F hc hnew hin (by rw [change_dict]; exact hin')
    rw [change_dict] at hch
    simp only [hch, isNil_update]
    split at h
    · rename_i hn; cases h; simp [hn, Forest.update]
    · rename_i hn; cases h; simp [hn, Forest.update, RepDef.update]

/-- … in particular all repetition counts and volatility flags agree position by position -/
theorem update_counts_eq_fresh (pt : PT) (params : Assign) (vol : List Name) (new : Assign) (P P' : Forest)
    (h : createProgram pt params vol = .ok P) (hnew : OnlyVolatile new params vol)
    (hin : pt.inside (.dict params vol) = true)
    (hin' : pt.inside (.dict (params.map (override new)) vol) = true)
    (h' : createProgram pt (params.map (override new)) vol = .ok P') :
    (P.update new).counts = P'.counts := by
  rw [update_eq_fresh pt params vol new P h hnew hin hin'] at h'
  cases h'; rfl

/-- new values that make volatile counts 0 (a fresh instantiation then has no such loop): the updated program
and the fresh one play the same waveform sequence -/
theorem update_play_eq_fresh (pt : PT) (params : Assign) (vol : List Name) (new : Assign) (P : Forest)
    (h : createProgram pt params vol = .ok P) (hnew : OnlyVolatile new params vol)
    (hin : pt.inside (.dict params vol) = true) :
    ∃ P', createProgram pt (params.map (override new)) vol = .ok P' ∧
      ∀ c, (P.update new).counts = .ok c → ∃ c', P'.counts = .ok c' ∧ c'.play = c.play := by
  simp only [createProgram] at h ⊢
  cases hc : compile pt (.dict params vol) with
  | error e => simp [hc] at h
  | ok F =>
    simp only [hc] at h
    obtain ⟨F', hF', z⟩ := compile_change_zero new pt (.dict params vol) F hc hnew hin
    rw [change_dict] at hF'
    simp only [hF']
    by_cases hn : F.isNil = true
    · rw [if_pos hn] at h
      cases h
      have hFn : F = .nil := by cases F <;> simp_all [Forest.isNil]
      subst hFn
      have : F' = .nil := ZeroEq.nil_left (by simpa [Forest.update] using z)
      subst this
      exact ⟨.nil, by simp [Forest.isNil], fun c hc' => ⟨c, hc', rfl⟩⟩
    · rw [if_neg hn] at h
      cases h
      by_cases hn' : F'.isNil = true
      · have hFn : F' = .nil := by cases F' <;> simp_all [Forest.isNil]
        subst hFn
        refine ⟨.nil, by simp [Forest.isNil], ?_⟩
        have hz : ZeroEq ((Forest.node (.const 1) F .nil).update new) .nil := by
          simp only [Forest.update, RepDef.update]; exact .dropEmpty z .nil
        exact ZeroEq.play hz
      · refine ⟨.node (.const 1) F' .nil, by simp [hn'], ?_⟩
        have hz : ZeroEq ((Forest.node (.const 1) F .nil).update new) (.node (.const 1) F' .nil) := by
          simp only [Forest.update, RepDef.update]; exact .node z .nil
        exact ZeroEq.play hz

/-! ## sequences of updates -/

/-- every update of the sequence changes volatile parameters only and leads to an instantiation inside the
quantifier -/
def UpdatesOK (pt : PT) (vol : List Name) : Assign → List Assign → Prop
  | _, [] => True
  | params, new :: rest =>
      OnlyVolatile new params vol ∧ pt.inside (.dict (params.map (override new)) vol) = true ∧
      UpdatesOK pt vol (params.map (override new)) rest

/-- `updates_fold`: any sequence of updates equals one fresh instantiation at the accumulated values -/
theorem updates_fold (pt : PT) (vol : List Name) (news : List Assign) :
    ∀ (params : Assign) (P : Forest), createProgram pt params vol = .ok P →
      pt.inside (.dict params vol) = true → UpdatesOK pt vol params news →
      createProgram pt (overrideAll params news) vol = .ok (news.foldl (fun g new => g.update new) P) := by
  induction news with
  | nil => intro params P h _ _; exact h
  | cons new rest ih =>
    intro params P h hin hok
    obtain ⟨h1, h2, h3⟩ := hok
    have := update_eq_fresh pt params vol new P h h1 hin h2
    simpa [overrideAll] using ih (params.map (override new)) (P.update new) this h2 h3

/-! ## preparation pipelines -/

/-- the merge product commutes with an update -/
theorem merge_update (new : Assign) (p c : RepDef) :
    (p.prod c).update new = (p.update new).prod (c.update new) :=
  prod_update new p c

/-- the merged loop repeats parent × child times, in all four cases of `_merge_single_child` and for all values
(negative raw values are clamped factor by factor, as in the unmerged loops — PF-C15d repaired) -/
theorem merge_counts (p c : RepDef) (a b : Nat) (hp : p.intOf = .ok a) (hc : c.intOf = .ok b) :
    (p.prod c).intOf = .ok (a * b) :=
  prod_counts p c a b hp hc

/-- `cleanup()` commutes with updating -/
theorem cleanup_update (new : Assign) (F : Forest) : cleanupF (F.update new) = (cleanupF F).update new :=
  cleanupF_update new F

/-- updating a cleaned-up program equals cleaning up a fresh instantiation at the new values -/
theorem cleanup_update_eq_fresh (pt : PT) (params : Assign) (vol : List Name) (new : Assign) (P : Forest)
    (h : createProgram pt params vol = .ok P) (hnew : OnlyVolatile new params vol)
    (hin : pt.inside (.dict params vol) = true)
    (hin' : pt.inside (.dict (params.map (override new)) vol) = true) :
    (createProgram pt (params.map (override new)) vol).map cleanupF = .ok ((cleanupF P).update new) := by
  rw [update_eq_fresh pt params vol new P h hnew hin hin', ← cleanupF_update]
  rfl

/-- … for any sequence of updates -/
theorem cleanup_updates_fold (news : List Assign) (F : Forest) :
    news.foldl (fun g new => g.update new) (cleanupF F) = cleanupF (news.foldl (fun g new => g.update new) F) := by
  induction news generalizing F with
  | nil => rfl
  | cons new rest ih => simp only [List.foldl_cons, ← cleanupF_update, ih]

/-! ## instrument tables (`TaborProgram.update_volatile_parameters`) -/

/-- after the update every volatile table position holds the value of its count at the new constants
(= the value a fresh compilation writes there, by `update_eq_fresh`) -/
theorem tabor_update_eq_recompile (new : Assign) (vpos : List (Nat × RepDef)) (cells : List Nat)
    (hok : TableOK new vpos cells) (i : Nat) (rd : RepDef) (v : Nat)
    (hm : (i, rd) ∈ vpos) (hv : (rd.update new).intOf = .ok v) :
    (tableUpdate new vpos cells).1[i]? = some v :=
  tableUpdate_final new vpos cells hok i rd v hm hv

/-- entries that are not volatile positions are never touched -/
theorem tabor_update_untouched (new : Assign) (vpos : List (Nat × RepDef)) (cells : List Nat) (j : Nat)
    (hj : ∀ i rd, (i, rd) ∈ vpos → i ≠ j) : (tableUpdate new vpos cells).1[j]? = cells[j]? :=
  tableUpdate_untouched new vpos cells j hj

/-- `reports_exactly_changed`: an entry is reported iff its content changed … -/
theorem reports_exactly_changed (new : Assign) (vpos : List (Nat × RepDef)) (cells : List Nat)
    (hok : TableOK new vpos cells) (j : Nat) :
    (∃ v, (j, v) ∈ (tableUpdate new vpos cells).2) ↔ (tableUpdate new vpos cells).1[j]? ≠ cells[j]? :=
  tableUpdate_reports new vpos cells hok j

/-- … and is reported with its new content -/
theorem reports_new_content (new : Assign) (vpos : List (Nat × RepDef)) (cells : List Nat)
    (hok : TableOK new vpos cells) (j v : Nat) (h : (j, v) ∈ (tableUpdate new vpos cells).2) :
    (tableUpdate new vpos cells).1[j]? = some v :=
  tableUpdate_reported_value new vpos cells hok j v h

/-! ## float-valued counts -/

/-- Spec for float inputs: the count of a float-valued count expression is the integer nearest to its exact
value — so a quotient like `0.3/0.1 = 2.9999999999999996` (just below) or `0.7/0.1 = 6.999999999999999`,
`0.6/0.2 = 2.9999999999999996`, or a value just above an integer, all give that integer.  `floatCount` is what
both the instantiation (`checked_int_cast`) and the update (`VolatileRepetitionCount.__int__`) compute, so the
updated count equals the freshly instantiated one. -/
theorem floatCount_nearest (q : Rat) (k : Nat) (h : |q - (k : Rat)| < 1 / 2) : floatCount q = k := by
  have := roundHalfEven_eq_of_near q (k : Int) (by simpa using h)
  simp [floatCount, this]

/-- negative float values give the count 0 -/
theorem floatCount_negative (q : Rat) (k : Nat) (h : |q + (k : Rat)| < 1 / 2) : floatCount q = 0 := by
  have := roundHalfEven_eq_of_near q (-(k : Int)) (by simpa [sub_neg_eq_add] using h)
  simp [floatCount, this]

/-- `0.3 / 0.1` in IEEE double arithmetic is 6755399441055743 / 2^51 = 2.9999999999999996: count 3 -/
example : floatCount (mkRat 6755399441055743 2251799813685248) = 3 := by
  apply floatCount_nearest
  rw [abs_lt]; constructor <;> norm_num

/-! ## the hypotheses are satisfiable and necessary -/

/-- `RepetitionPT(MappingPT(RepetitionPT(SequencePT(a, b), 'k'), {k: 2*n+m}), 'n')` -/
def exPT : PT :=
  .rep (.var "n") (.map [("k", .add (.mul (.lit 2) (.var "n")) (.var "m"))]
    (.rep (.var "k") (.seq (.atom 0 []) (.atom 1 []))))

example : exPT.inside (.dict [("n", 2), ("m", 3)] ["n"]) = true := by decide
example : exPT.inside (.dict ([("n", 2), ("m", 3)].map (override [("n", 5)])) ["n"]) = true := by decide
example : OnlyVolatile [("n", 5)] [("n", 2), ("m", 3)] ["n"] := by
  intro k h1 _
  have : k = "n" := by
    by_cases hk : k = "n"
    · exact hk
    · have hb : (k == "n") = false := by simpa using hk
      simp [List.lookup, hb] at h1
  subst this; decide
example : UpdatesOK exPT ["n"] [("n", 2), ("m", 3)] [[("n", 5)]] := by
  refine ⟨?_, by decide, trivial⟩
  intro k h1 _
  have : k = "n" := by
    by_cases hk : k = "n"
    · exact hk
    · have hb : (k == "n") = false := by simpa using hk
      simp [List.lookup, hb] at h1
  subst this; decide
example : ∃ P, createProgram exPT [("n", 2), ("m", 3)] ["n"] = .ok P ∧ ¬ P.isNil = true :=
  ⟨_, rfl, by decide⟩
example : TableOK [("n", 5)] [(0, .vol (.var "n") (.dict [("n", 2)] ["n"]))] [2, 1] :=
  ⟨by intro i rd h; simp at h; obtain ⟨rfl, _⟩ := h; simp,
   by intro i rd h; simp at h; obtain ⟨_, rfl⟩ := h; exact ⟨5, rfl⟩,
   by intro i rd rd' h h'; simp at h h'; rw [h.2, h'.2]⟩

/-- without `inside` the statement is false: a volatile count that is 0 at instantiation creates no loop,
so no later update can bring it back (`RepetitionPT(a, 'n')`, `n = 0` volatile, updated to 2) -/
theorem update_eq_fresh_counterexample_zero_at_instantiation :
    ∃ P P', createProgram (.rep (.var "n") (.atom 0 [])) [("n", 0)] ["n"] = .ok P ∧
      createProgram (.rep (.var "n") (.atom 0 [])) ([("n", 0)].map (override [("n", 2)])) ["n"] = .ok P' ∧
      (P.update [("n", 2)]).isNil = true ∧ P'.isNil = false :=
  ⟨_, _, rfl, rfl, by decide, by decide⟩

/-- without `TableOK.consistent` (two positions sharing one table cell although their counts differ at the
new constants — what the unrepaired table sharing PF-C15a produced) the first position ends with the wrong value -/
theorem tabor_shared_cell_counterexample :
    ∃ new vpos cells i rd v, (i, rd) ∈ vpos ∧ (RepDef.update new rd).intOf = .ok v ∧
      (tableUpdate new vpos cells).1[i]? ≠ some v :=
  ⟨[("n", 2)],
   [(0, .vol (.add (.mul (.var "n") (.var "i")) (.lit 1)) (.range (.dict [("n", 0)] ["n"]) "i" 0)),
    (0, .vol (.add (.mul (.var "n") (.var "i")) (.lit 1)) (.range (.dict [("n", 0)] ["n"]) "i" 1))],
   [1], 0, .vol (.add (.mul (.var "n") (.var "i")) (.lit 1)) (.range (.dict [("n", 0)] ["n"]) "i" 0), 1,
   by simp, rfl, by decide⟩

/-- two negative raw values (PF-C15d witness): the merged count is 0 like the product of the unmerged counts -/
example : ∃ p c : RepDef, p.intOf = .ok 0 ∧ c.intOf = .ok 0 ∧ (p.prod c).intOf = .ok 0 :=
  ⟨.vol (.var "a") (.dict [("a", -2)] ["a"]), .vol (.var "b") (.dict [("b", -3)] ["b"]), rfl, rfl, rfl⟩

end QP.Props.C15
