import QP.Model.PT
import QP.Proofs.PTExamples
import QP.Proofs.PTTop2
import QP.Proofs.PTTop3
import QP.Proofs.PTSingle
import QP.Proofs.PTTopA
import QP.Proofs.PTExistTop
import QP.Proofs.PTTable
/-!
# C01 — an instantiated program plays exactly the voltages the template describes

Full statement (DESIGN 4/C01), for every template `pt` and every `to_single_waveform` set:

    createProgram pt params mm cm single = .ok (some prog) →
      ∃ P, denoteTop pt params mm cm = .ok P ∧ channels prog = P.chanNames ∧
        ∀ c ∈ P.chanNames, ∀ t, 0 ≤ t → t < P.dur → prog.sample c t = some ((P.val c).at t)

Proved here (`_partial`, see notes/C01.md for the table): the statement
* for `Stage3` — constant, function, table, point atoms, `AtomicMultiChannelPT`s of them and `ArithmeticAtomicPT`s
  of such atoms (12 of the 13 node kinds), composed by sequencing,
  repetition, indexed iteration, mapping, `ParallelChannelPT` and `ArithmeticPT` (scalar) in any nesting — exactly
  outside the class of PF-11 (`compile_correct_partial`), under any global transformation
  (`compile_correct_under_trafo`, `compile_correct_global_trafo_partial`) and for every `to_single_waveform` set
  (`compile_correct_single_partial`, through C05's `collapse_invariant_partial`);
* for `Stage1R` — constant and function atoms with `TimeReversalPT` in any nesting — with the judge's tolerance at
  junctions inside reversed parts (`compile_correct_reversal_partial`);
always for programs all of whose pieces have positive duration and *given* that the denotation exists
(`denoteTop … = .ok P`; its existence is not proved: the denotation additionally demands affine function expressions
that evaluate, and equal channel sets of sequenced parts).  Wrappers in atomic context and time
reversal over table-like atoms are covered by the correspondence + judge only; `builder_correct_over_atoms` shows
that the builder part of the proof does not depend on which atoms are used.
-/
namespace QP.Props.C01
open QP.PT

/-- **compile correctness (partial)**: for a stage-3 template (`Stage3`: constant, function, table, point atoms,
`AtomicMultiChannelPT`s of them and `ArithmeticAtomicPT`s of such atoms, composed by sequencing, repetition, indexed iteration, mapping,
`ParallelChannelPT` and `ArithmeticPT` with a scalar, in any nesting) **outside the class of the open finding
PF-11** (`inPF11 … = false`: no channel overwritten by a `ParallelChannelPT` is touched by a transformation of an
enclosing template), the compiled program, sampled anywhere in `[0, duration)`, yields on every channel of the
denoted pulse exactly the denoted voltage — a value, never NaN — and every played piece defines exactly the
channels of the denoted pulse (dropped channels absent, overwritten channels present, no other channel). -/
theorem compile_correct_partial {pt : PT} (hs : Stage3 pt) (params : List (String × Rat))
    (mm : Option (List (MName × Option MName))) (cm : List (Chan × Option Chan)) (prog : Loop) (P : Pulse)
    (hpf : inPF11 pt (topCm pt cm) = false)
    (hprog : createProgram pt params mm cm [] = .ok (some prog))
    (hden : denoteTop pt params mm cm = .ok P) (hpos : prog.allPos) :
    (∀ cs ∈ prog.leafChannels, ∀ x, x ∈ cs ↔ x ∈ P.chanNames) ∧
    ∀ c pl, P.chans.lookup c = some pl → ∀ t, 0 ≤ t → t < P.dur →
      ∃ v, prog.sample c t = some v ∧ PL.at pl t = some v := by
  obtain ⟨_, hsample, _, hch, hplDur⟩ := createProgram_relT hs params mm cm prog P hpf hprog hden hpos
  refine ⟨hch, ?_⟩
  intro c pl hc t ht0 ht
  have := hsample c pl hc t ht0 ht
  -- the denoted function is defined on the whole of `[0, duration)`
  obtain ⟨v, hv⟩ := PL.at_isSome pl t ht0 (by rw [hplDur c pl hc]; exact ht)
  exact ⟨v, by rw [this, hv], hv⟩

/-- the same without parallel channels / arithmetic (`Stage2`): no exclusion is needed -/
theorem compile_correct_stage2 {pt : PT} (hs : Stage2 pt) (params : List (String × Rat))
    (mm : Option (List (MName × Option MName))) (cm : List (Chan × Option Chan)) (prog : Loop) (P : Pulse)
    (hprog : createProgram pt params mm cm [] = .ok (some prog))
    (hden : denoteTop pt params mm cm = .ok P) (hpos : prog.allPos) :
    (∀ cs ∈ prog.leafChannels, ∀ x, x ∈ cs ↔ x ∈ P.chanNames) ∧
    ∀ c pl, P.chans.lookup c = some pl → ∀ t, 0 ≤ t → t < P.dur →
      ∃ v, prog.sample c t = some v ∧ PL.at pl t = some v := by
  obtain ⟨_, hsample, _, hch, hplDur⟩ := createProgram_rel_basic hs.basic params mm cm prog P hprog hden hpos
  refine ⟨hch, ?_⟩
  intro c pl hc t ht0 ht
  have := hsample c pl hc t ht0 ht
  obtain ⟨v, hv⟩ := PL.at_isSome pl t ht0 (by rw [hplDur c pl hc]; exact ht)
  exact ⟨v, by rw [this, hv], hv⟩

/-- **existence of the denotation** (`compile … = ok → ∃ P, denoteTop … = ok P`) for the well-formed fragment `Stage2E`:
constant, table, point templates and function templates whose expression is affine in `t` and cannot fail by itself
(`Expr.safe`: no unsupported function, no negative power), composed by sequencing, repetition, indexed iteration and
mapping.  Hypotheses on the *compiled program* only: all played pieces have positive duration and all played
waveforms define the same channel set `S` (what sequencing demands of its parts; the code does not check it). -/
theorem denotation_exists_partial {pt : PT} (hs : Stage2E pt) (params : List (String × Rat))
    (mm : Option (List (MName × Option MName))) (cm : List (Chan × Option Chan)) (prog : Loop) (S : List Chan)
    (hprog : createProgram pt params mm cm [] = .ok (some prog)) (hpos : prog.allPos)
    (hu : ∀ cs ∈ prog.leafChannels, ∀ x, x ∈ cs ↔ x ∈ S) :
    ∃ P, denoteTop pt params mm cm = .ok P :=
  createProgram_exists_basic hs.basicE params mm cm prog S hprog hpos hu

/-- **compile correctness without assuming the denotation** (fragment `Stage2E`): the template denotes a pulse `P`,
and the compiled program plays it — every sample in `[0, duration)` on every channel of `P` is the denoted voltage
(never NaN), and every played piece defines exactly the channels of `P`. -/
theorem compile_correct_total_partial {pt : PT} (hs : Stage2E pt) (params : List (String × Rat))
    (mm : Option (List (MName × Option MName))) (cm : List (Chan × Option Chan)) (prog : Loop) (S : List Chan)
    (hprog : createProgram pt params mm cm [] = .ok (some prog)) (hpos : prog.allPos)
    (hu : ∀ cs ∈ prog.leafChannels, ∀ x, x ∈ cs ↔ x ∈ S) :
    ∃ P, denoteTop pt params mm cm = .ok P ∧ prog.duration = P.dur ∧
      (∀ cs ∈ prog.leafChannels, ∀ x, x ∈ cs ↔ x ∈ P.chanNames) ∧
      ∀ c pl, P.chans.lookup c = some pl → ∀ t, 0 ≤ t → t < P.dur →
        ∃ v, prog.sample c t = some v ∧ PL.at pl t = some v := by
  obtain ⟨P, hP⟩ := denotation_exists_partial hs params mm cm prog S hprog hpos hu
  obtain ⟨h1, h2⟩ := compile_correct_stage2 hs.stage2 params mm cm prog P hprog hP hpos
  exact ⟨P, hP, (createProgram_rel_basic hs.stage2.basic params mm cm prog P hprog hP hpos).1, h1, h2⟩

/-- **under a global transformation**: what a stage-3 template compiles to inside a context that carries the chain
`T` (pushed by enclosing arithmetic / parallel-channel templates) plays `T` applied, channel by channel, to the
denoted pulse — provided no transformation of `T` or below touches an overwritten channel (`pf11Chans … = []`). -/
theorem compile_correct_under_trafo {pt : PT} (hs : Stage3 pt) : CompileOKT pt := compile_relT hs.basicT

/-- **`create_program(global_transformation = T)`**: the program of a stage-3 template plays the chain `T` applied,
channel by channel (`Chain.chanF`: `none` = channel absent), to the denoted pulse, for every chain of offset / scaling /
parallel-constant transformations — outside PF-11 relative to the channels `T` names. -/
theorem compile_correct_global_trafo_partial {pt : PT} (hs : Stage3 pt) (params : List (String × Rat))
    (mm : Option (List (MName × Option MName))) (cm : List (Chan × Option Chan)) (T : Chain) (prog : Loop) (P : Pulse)
    (hpf : pf11Chans pt (topCm pt cm) (Chain.keys T) = [])
    (hprog : QP.C05.createProgramT pt params mm cm [] T = .ok (some prog)) (hden : denoteTop pt params mm cm = .ok P)
    (hpos : prog.allPos) :
    prog.duration = P.dur ∧
    (∀ c t, 0 ≤ t → t < P.dur → ∀ v, QP.C05.Chain.chanF T c (P.val c t) = some v → prog.sample c t = v) ∧
    (∀ cs ∈ prog.leafChannels, ∀ x, x ∈ cs ↔ QP.C05.Chain.presF T x (P.chanNames.contains x) = true) := by
  obtain ⟨h1, h2, _, h4⟩ := createProgramT_rel hs params mm cm T prog P hpf hprog hden hpos
  exact ⟨h1, h2, h4⟩

/-- **every `to_single_waveform` set**: the default program is correct (`compile_correct_partial`) and collapsing
sub-templates into single waveforms changes nothing observable (C05 `collapse_invariant_partial`), so the program
compiled with any set `S` plays the denoted pulse too — per channel `c` of the pulse, outside PF-11 and outside C05's
exclusion class `cleanW` (PF-11 below a collapsed template, time reversal around a collapsed template), under C05's
output-checkable side conditions `tidy c` on the sequence waveforms of the two programs. -/
theorem compile_correct_single_partial {pt : PT} (hs : Stage3 pt) (params : List (String × Rat))
    (mm : Option (List (MName × Option MName))) (cm : List (Chan × Option Chan)) (S : List String)
    (prog0 progS : Loop) (P : Pulse)
    (hpf : inPF11 pt (topCm pt cm) = false)
    (h0 : createProgram pt params mm cm [] = .ok (some prog0)) (hpos : prog0.allPos)
    (hS : createProgram pt params mm cm S = .ok (some progS))
    (hden : denoteTop pt params mm cm = .ok P)
    (hclean : QP.C05.cleanW S false false pt = true)
    (c : Chan) (pl : PL) (hc : P.chans.lookup c = some pl)
    (ht0 : QP.C05.allLeaves (QP.C05.tidy c) prog0 = true) (htS : QP.C05.allLeaves (QP.C05.tidy c) progS = true) :
    progS.duration = P.dur ∧
    QP.C05.allLeaves (fun x => x.channels.contains c) progS = true ∧
    ∀ t, 0 ≤ t → t < P.dur → progS.sample c t = PL.at pl t := by
  obtain ⟨h1, _, h3, h4⟩ := createProgram_single hs params mm cm S prog0 progS P hpf h0 hpos hS hden hclean c pl hc ht0 htS
  exact ⟨h1, h3, h4⟩

/-- **time reversal, with the judge's junction tolerance**: for constant and function atoms composed by sequencing,
repetition, indexed iteration, mapping **and `TimeReversalPT`** in any nesting (`Stage1R`), every sample of the
compiled program in `[0, duration)` is a value — never NaN — that the judge admits for the denoted pulse
(`PL.adm`, see `judge_is_at` / `judge_contains_at`: the right-open value of the piecewise linear function, and at a
junction inside a time reversed part also the left limit).  The proof carries the mirror image along (left-closed
playback `Loop.sampleL` against left-closed evaluation `PL.atL`); `Loop.reverse_inplace` exchanges the two
(`rev_sample`, `rev_sampleL` for every program tree with positive pieces). -/
theorem compile_correct_reversal_partial {pt : PT} (hs : Stage1R pt) (params : List (String × Rat))
    (mm : Option (List (MName × Option MName))) (cm : List (Chan × Option Chan)) (prog : Loop) (P : Pulse)
    (hprog : createProgram pt params mm cm [] = .ok (some prog))
    (hden : denoteTop pt params mm cm = .ok P) (hpos : prog.allPos) :
    prog.duration = P.dur ∧
    ∀ c pl, P.chans.lookup c = some pl → ∀ t, 0 ≤ t → t < P.dur →
      ∃ v, prog.sample c t = some v ∧ v ∈ PL.adm none pl t :=
  createProgram_relA hs params mm cm prog P hprog hden hpos

/-- `Loop.reverse_inplace` plays the original backwards: right-open playback of the reversed program at `t` is
left-closed playback of the original at `duration - t` — for every program tree whose pieces have positive
duration -/
theorem reverse_plays_backwards (l : Loop) (h : l.allPos) (c : Chan) (t : Rat) (h0 : 0 ≤ t) (h1 : t < l.duration) :
    l.reverseInplace.sample c t = l.sampleL c (l.duration - t) := rev_sample c l h t h0 h1

/-- the reversed piecewise linear function, evaluated right-open at `t`, is the original evaluated left-closed at
`duration - t`; and the original's right-open value there is admitted by the judge as well -/
theorem reversed_function (p : PL) (hp : p.pos) (t : Rat) (h0 : 0 ≤ t) (h1 : t < PL.dur p) :
    PL.at p.reversed t = PL.atL p (PL.dur p - t) ∧
    (0 < t → ∃ v, PL.at p (PL.dur p - t) = some v ∧ v ∈ PL.adm none p.reversed t) := by
  refine ⟨by rw [PL.at_reversed]; exact PL.at_revAmb p hp t h0 h1, ?_⟩
  intro ht
  obtain ⟨v, hv, hmem⟩ := PL.adm_revAmb p hp none (PL.dur p - t) (by linarith) (by linarith)
  refine ⟨v, hv, ?_⟩
  rw [PL.adm_none_reversed]
  have e : PL.dur p - (PL.dur p - t) = t := by ring
  rw [e] at hmem
  exact hmem

/-- **the builder is correct whatever the atoms are**: sequences, repetitions, iterations and mappings of
atomic templates that satisfy the relation `Rel` (leaf and windows = denoted pulse) satisfy it again — this is
the `LoopBuilder` part of compile correctness (`LoopGuard`, `_try_append`, `with_repetition`,
`with_iteration`, scope / mapping threading), independent of the waveform classes. -/
theorem builder_correct_over_atoms {pt : PT} (hb : Basic pt) : CompileOK pt := compile_rel hb

/-- a function template whose expression is syntactically affine in `t` denotes a straight line -/
theorem function_affine (e : Expr) (look : String → Except Err Rat) (h : e.affineIn "t" = true)
    (a b : Rat) (h0 : e.eval (withT "t" look 0) = .ok a) (h1 : e.eval (withT "t" look 1) = .ok b) :
    ∀ t, e.eval (withT "t" look t) = .ok (a + (b - a) * t) := affine_eval e "t" look h a b h0 h1

/-- **the judge**: the values the harness accepts for a sample (`PL.adm`, printed by the driver) are exactly the
right-open value `PL.at` of the theorem above wherever no time reversal is involved … -/
theorem judge_is_at (pl : PL) (h : ∀ s ∈ pl, s.amb = false) (t : Rat) :
    PL.adm none pl t = (PL.at pl t).toList := adm_eq_at pl h none t

/-- … and always contain it (inside a reversed part the left limit at a junction may follow) -/
theorem judge_contains_at (pl : PL) (t v : Rat) (h : PL.at pl t = some v) :
    ∃ rest, PL.adm none pl t = v :: rest := adm_head pl none t v h

/-- **PF-01 (repaired): the constant detection of `TableWaveform.from_table` is sound.** When a table is folded
into a constant waveform of value `c`, every one of its segments — judged with its *own* interpolation — is the
constant `c`, so the table denotes the constant function `c` of the same duration. -/
theorem table_const_detection_sound (ch ch' : Chan) (es : List WEntry) (d c : Rat)
    (h : fromTable ch es = .ok (.const d ch' c)) :
    d = lastT es ∧ ch' = ch ∧ ∀ s ∈ entriesToPL es, s.v0 = c ∧ s.v1 = c := by
  obtain ⟨hp, hd, hch⟩ := fromTable_const_sound ch ch' es d c h
  exact ⟨hd, hch, entriesToPL_const c es hp⟩

/-- PF-01 on its witness `[(0, 1), (1, 1, 'hold'), (2, 3, 'linear')]`: the detection as it was (next segment judged
with the previous entry's interpolation) calls the table constant 1, the repaired one does not, and the table
denotes a ramp from 1 to 3 on `[1, 2)`. -/
theorem pf01_counterexample :
    (validateLoopOld [⟨2, 3, .linear⟩] 0 1 ⟨1, 1, .hold⟩ (interpConst .hold 1 1) [⟨0, 1, .hold⟩]).map (·.2.1)
      = .ok (some 1) ∧
    (validateLoop [⟨2, 3, .linear⟩] 0 1 ⟨1, 1, .hold⟩ (interpConst .hold 1 1) [⟨0, 1, .hold⟩]).map (·.2.1)
      = .ok none ∧
    entriesToPL pf01Table = [{ len := 1, v0 := 1, v1 := 1 }, { len := 1, v0 := 1, v1 := 3 }] := pf01_witness

/-- `LoopGuard`: a sequence / iteration that appends nothing leaves nothing behind, its own windows included -/
theorem guard_drops_empty (ms : List Window) : guardRun ms [] = [] := by
  simp [guardRun]

/-- `LoopGuard` never changes which nodes are appended -/
theorem guard_keeps_nodes (ms : List Window) (items : List Item) : nodesOf (guardRun ms items) = nodesOf items :=
  nodesOf_guardRun items ms

/-! ## Non-vacuity: the hypotheses of `compile_correct_partial` are satisfiable
(`QP/Proofs/PTExamples.lean` evaluates `createProgram`, `denoteTop` and `allPos` on `exPt`) -/

example : Stage2 (.seq none [exPt, .rep none exPt (.var "n") [] []] [] []) :=
  Stage2.seq (by
    intro p hp
    simp only [List.mem_cons, List.not_mem_nil, or_false] at hp
    rcases hp with rfl | rfl
    · exact Stage2.atom (AtomTreeP.base AtomTree.const)
    · exact Stage2.rep (Stage2.atom (AtomTreeP.base AtomTree.const)))

example : ∃ prog P, createProgram exPt [] none [] [] = .ok (some prog) ∧ denoteTop exPt [] none [] = .ok P ∧
    prog.allPos := ⟨exProg, _, exPt_program, exPt_denote, exProg_allPos⟩

/-- non-vacuity of `denotation_exists_partial`: its hypotheses hold for the evaluated example -/
example : ∃ P, denoteTop exPt [] none [] = .ok P :=
  denotation_exists_partial Stage2E.const [] none [] exProg ["A"] exPt_program exProg_allPos (by
    intro cs hcs x
    simp [exProg, Loop.leafChannels, Loop.leafChannelsList, Wf.channels] at hcs
    subst hcs
    rfl)

/-- `ArithmeticAtomicPT` (here `exPt - exPt` under a sequence) is in the scope of `compile_correct_partial` -/
example : Stage3 (.seq none [.arithAtomic none exPt true exPt []] [] []) :=
  Stage3.seq (by
    intro p hp
    simp only [List.mem_singleton] at hp
    subst hp
    exact Stage3.atom (AtomTreeP.arithAtomic (AtomTreeP.base AtomTree.const) (AtomTreeP.base AtomTree.const)))

/-- a parallel-channel template below an arithmetic one, outside PF-11: in the scope of `compile_correct_partial` -/
example : Stage3 pf11SafePt ∧ inPF11 pf11SafePt (topCm pf11SafePt []) = false :=
  ⟨Stage3.arith (Stage3.parallel (Stage3.atom (AtomTreeP.base AtomTree.func))) (by
    intro x hx
    simp only [List.mem_singleton] at hx
    subst hx
    decide), by decide⟩

/-- the PF-11 witness is a stage-3 template; the only hypothesis of `compile_correct_partial` it violates is the
class predicate -/
example : Stage3 pf11Pt ∧ inPF11 pf11Pt (topCm pf11Pt []) = true :=
  ⟨Stage3.arith (Stage3.parallel (Stage3.atom (AtomTreeP.base AtomTree.func))) trivial, by decide⟩

/-! ## PF-11 (open finding): `ParallelChannelPulseTemplate` chains `(global, parallel)`

The full statement is **false** of the code: a channel overwritten by a `ParallelChannelPT` that lies below an
`ArithmeticPT` (or another `ParallelChannelPT`) touching that channel does not see the enclosing
transformation.  `compile_correct_partial` assumes `inPF11 … = false`, i.e. is stated for exactly the complement of the class;
`inPF11` is the class predicate the harness uses (`ptcheck.pf11_channels`). -/

/-- **PF-11, the negation of the full statement on the witness** `2 * ParallelChannelPT(FunctionPT('t', 2, 'A'),
{'B': 1})`: the compiled program plays `B = 1` at `t = 0`, the template denotes `B = 2`; the witness is in the
recorded class. -/
theorem pf11_counterexample :
    createProgram pf11Pt [] none [] [] = .ok (some pf11Prog) ∧
    denoteTop pf11Pt [] none [] = .ok pf11Pulse ∧
    pf11Prog.sample "B" 0 = some 1 ∧
    (pf11Pulse.chans.lookup "B").map (fun pl => PL.at pl 0) = some (some 2) := pf11_witness

end QP.Props.C01
