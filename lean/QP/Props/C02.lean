import QP.Model.PT
import QP.Proofs.PTExamples
import QP.Proofs.PTTop
import QP.Proofs.PTReverse
import QP.Proofs.PTTopW
import QP.Proofs.PTTop2W
import QP.Proofs.PTTop3W
import QP.Proofs.PTSingle
import Mathlib.Tactic.Linarith
/-!
# C02 — measurement windows of a program are the declared windows in absolute time

Full statement (DESIGN 4/C02): `createProgram … = .ok (some prog) → prog.windows ~ (denoteTop …).windows`
(permutation) for every template, and every window declared inside its node lies inside `[0, duration]`.

Proved here: `windows_correct_partial` / `windows_correct_reversal_partial` for `Stage3R` — the proved atoms
(constant, function, table, point, `AtomicMultiChannelPT` of them) composed by ALL seven composite constructors
(sequence, repetition, iteration, mapping, time reversal, parallel channels, arithmetic with a scalar), without
positivity assumption and for the empty program —, `windows_correct_single_partial` for every `to_single_waveform`
set (C05), `reverse_mirrors_windows` for `Loop.reverse_inplace` on every program tree, and the "inside" property as
preservation theorems on the denotation: sequencing, repetition, own windows of a node and time reversal keep windows
inside the pulse.  `ArithmeticAtomicPT` and wrappers in atomic context: correspondence + judge only.
-/
namespace QP.Props.C02
open QP.PT

/-- **windows (partial)**: for `Stage3R` (all composite constructors over the proved atoms) the windows of the compiled
program are, as a multiset, the windows the template denotes — one per execution of the declaring node, at execution
start + begin, under the mapped name; no positivity assumption, no PF-11 exclusion. -/
theorem windows_correct_partial {pt : PT} (hs : Stage3R pt) (params : List (String × Rat))
    (mm : Option (List (MName × Option MName))) (cm : List (Chan × Option Chan)) (prog : Loop) (P : Pulse)
    (hprog : createProgram pt params mm cm [] = .ok (some prog))
    (hden : denoteTop pt params mm cm = .ok P) :
    prog.windows.Perm P.windows :=
  (createProgram_relWT_basic hs.basic params mm cm (some prog) P hprog hden).2

/-- **windows incl. the empty program (partial)**: for `Stage3R`,
without any positivity assumption: the program's windows are the denoted windows — inside a time reversed part
mirrored about that part's duration —, and if no program is produced nothing is denoted either. -/
theorem windows_correct_reversal_partial {pt : PT} (hs : Stage3R pt) (params : List (String × Rat))
    (mm : Option (List (MName × Option MName))) (cm : List (Chan × Option Chan)) (prog? : Option Loop) (P : Pulse)
    (hprog : createProgram pt params mm cm [] = .ok prog?) (hden : denoteTop pt params mm cm = .ok P) :
    match prog? with
    | some prog => prog.windows.Perm P.windows
    | none => P.windows = [] := by
  have := createProgram_relWT_basic hs.basic params mm cm prog? P hprog hden
  cases prog? with
  | some prog => exact this.2
  | none => exact this.2

/-- **windows for every `to_single_waveform` set**: collapsing sub-templates into single waveforms keeps the windows
(C05 `collapse_invariant_partial`), so they are the denoted ones for every set `S` — all composite constructors incl.
time reversal, outside C05's exclusion class `cleanW`, under C05's output-checkable side conditions (`nonnegW`: no
played waveform of negative duration; `tidy c` for some channel `c`). -/
theorem windows_correct_single_partial {pt : PT} (hs : Stage3R pt) (params : List (String × Rat))
    (mm : Option (List (MName × Option MName))) (cm : List (Chan × Option Chan)) (S : List String)
    (prog0 progS : Loop) (P : Pulse)
    (h0 : createProgram pt params mm cm [] = .ok (some prog0))
    (hnn0 : QP.C05.allLeaves QP.C05.nonnegW prog0 = true)
    (hS : createProgram pt params mm cm S = .ok (some progS))
    (hden : denoteTop pt params mm cm = .ok P)
    (hclean : QP.C05.cleanW S false false pt = true)
    (c : Chan) (ht0 : QP.C05.allLeaves (QP.C05.tidy c) prog0 = true)
    (htS : QP.C05.allLeaves (QP.C05.tidy c) progS = true) :
    progS.windows.Perm P.windows :=
  (createProgram_single_W hs params mm cm S prog0 progS P h0 hnn0 hS hden hclean c ht0 htS).2

/-- non-vacuity: a tree with time reversal, scalar arithmetic, parallel channels and an `ArithmeticAtomicPT` is in
the scope of the window theorems -/
example : Stage3R (.timeReversal none (.arith none (.parallel none
    (.arithAtomic none exPt false exPt []) [("B", .lit 1)]) .plus (.uniform (.lit 1)) true)) :=
  Stage3R.timeReversal (Stage3R.arith (Stage3R.parallel (Stage3R.atom
    (AtomTreeW.arithAtomic (AtomTreeW.base AtomTree.const) (AtomTreeW.base AtomTree.const)))))

/-- all windows of a pulse lie inside `[0, duration]` -/
def Inside (P : Pulse) : Prop := ∀ w ∈ P.windows, 0 ≤ w.2.1 ∧ w.2.1 + w.2.2 ≤ P.dur

/-- sequencing keeps windows inside -/
theorem inside_append {p q r : Pulse} (hp : Inside p) (hq : Inside q) (hpd : 0 ≤ p.dur) (hqd : 0 ≤ q.dur)
    (h : p.append q = .ok r) : Inside r := by
  unfold Pulse.append at h
  rcases Bool.eq_false_or_eq_true p.isEmpty with h1 | h1
  · simp only [h1, if_true, Except.ok.injEq] at h; subst h; exact hq
  · simp only [h1, Bool.false_eq_true, if_false] at h
    rcases Bool.eq_false_or_eq_true q.isEmpty with h2 | h2
    · simp only [h2, if_true, Except.ok.injEq] at h; subst h; exact hp
    · simp only [h2, Bool.false_eq_true, if_false] at h
      rcases Bool.eq_false_or_eq_true (sameSet p.chanNames q.chanNames) with h3 | h3
      · simp only [h3, Bool.not_true, Bool.false_eq_true, if_false, Except.ok.injEq] at h
        subst h
        intro w hw
        simp only [List.mem_append, List.mem_map] at hw
        rcases hw with hw | ⟨w', hw', rfl⟩
        · have := hp w hw
          exact ⟨this.1, by simp only; linarith [this.2]⟩
        · have := hq w' hw'
          simp only [shiftW]
          exact ⟨by linarith [this.1], by linarith [this.2]⟩
      · simp [h3] at h

/-- the windows a node declares on itself: inside if they are inside the node -/
theorem inside_withOwn {p : Pulse} (ms : List Window) (hp : Inside p)
    (hms : ∀ w ∈ ms, 0 ≤ w.2.1 ∧ w.2.1 + w.2.2 ≤ p.dur) : Inside (p.withOwn ms) := by
  unfold Pulse.withOwn
  rcases Bool.eq_false_or_eq_true p.isEmpty with he | he
  · simp only [he, if_true]; exact hp
  · simp only [he, Bool.false_eq_true, if_false]
    intro w hw
    simp only [List.mem_append] at hw
    rcases hw with hw | hw
    · exact hms w hw
    · exact hp w hw

/-- repeating a pulse `n` times keeps the repeated windows inside `[0, n * duration]` -/
theorem inside_repeat (ws : List Window) (n : Nat) (d : Rat) (hd : 0 ≤ d)
    (h : ∀ w ∈ ws, 0 ≤ w.2.1 ∧ w.2.1 + w.2.2 ≤ d) :
    ∀ w ∈ repeatWindows ws n d, 0 ≤ w.2.1 ∧ w.2.1 + w.2.2 ≤ d * n := by
  intro w hw
  simp only [repeatWindows, List.mem_flatMap, List.mem_range, List.mem_map] at hw
  obtain ⟨k, hk, w', hw', rfl⟩ := hw
  have := h w' hw'
  have hk1 : (k : Rat) + 1 ≤ n := by exact_mod_cast hk
  have hk0 : (0 : Rat) ≤ k := by exact_mod_cast Nat.zero_le k
  simp only [shiftW]
  constructor
  · nlinarith [this.1]
  · nlinarith [this.2]

/-- **time reversal mirrors every window about the duration of the reversed part and keeps it inside** -/
theorem inside_reversed (D : Rat) (ws : List Window) (h : ∀ w ∈ ws, 0 ≤ w.2.1 ∧ 0 ≤ w.2.2 ∧ w.2.1 + w.2.2 ≤ D) :
    ∀ w ∈ ws.map (fun (w : Window) => (w.1, D - (w.2.1 + w.2.2), w.2.2)), 0 ≤ w.2.1 ∧ w.2.1 + w.2.2 ≤ D := by
  intro w hw
  simp only [List.mem_map] at hw
  obtain ⟨w', hw', rfl⟩ := hw
  have := h w' hw'
  constructor
  · simp only; linarith [this.2.2]
  · simp only; linarith [this.1]

/-- reversing twice gives the original windows back -/
theorem reversed_reversed (D : Rat) (w : Window) :
    (fun (w : Window) => (w.1, D - (w.2.1 + w.2.2), w.2.2)) ((fun (w : Window) => (w.1, D - (w.2.1 + w.2.2), w.2.2)) w) = w := by
  obtain ⟨n, b, l⟩ := w
  simp only [Prod.mk.injEq, true_and, and_true]
  ring

/-- **program side of time reversal** (`Loop.reverse_inplace`, PF-03 repaired): for *every* program tree the
windows of the reversed program are the windows of the original, each mirrored about the program's duration —
repetitions, nesting and windows stored on repeated loops included. -/
theorem reverse_mirrors_windows (l : Loop) :
    l.reverseInplace.windows.Perm (l.windows.map (mirrorW l.duration)) := reverse_windows l

/-- … and the reversed program lasts as long as the original -/
theorem reverse_keeps_duration (l : Loop) : l.reverseInplace.duration = l.duration := reverse_duration l

/-! ## Non-vacuity -/

example : Inside { dur := 2, chans := [], windows := [("m", 0, 1), ("n", 1, 1)] } := by
  intro w hw
  simp only [List.mem_cons, List.not_mem_nil, or_false] at hw
  rcases hw with rfl | rfl <;> norm_num

end QP.Props.C02
