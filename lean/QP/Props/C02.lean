import QP.Model.PT
/-! Property theorems for C02 (an instantiated program plays the voltages the template denotes). -/
namespace QP.Props.C02
open QP.PT

/-- a guarded composite that appends nothing leaves nothing behind (its own windows are dropped) -/
theorem guardRun_no_node (ms : List Window) : guardRun ms [] = [] := by
  simp [guardRun]

end QP.Props.C02
