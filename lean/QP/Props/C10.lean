import QP.Model.C10
/-! Property theorems for C10 (stored pulse templates load back as the same pulse). -/
namespace QP.Props.C10
open QP.C10

/-- storing under a foreign identifier is rejected -/
theorem setitem_wrong_identifier (st : St) (i : Id) (t : T) (h : t.id ≠ some i) :
    setitem st i t = .error .valueError := by
  simp [setitem, h]; rfl

end QP.Props.C10
