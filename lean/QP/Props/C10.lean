import QP.Proofs.C10Multi
/-!
# Property theorems for C10 — stored pulse templates load back as the same pulse

All statements are about the model `QP.C10` (`QP/Model/C10.lean`), for **all** template trees / forests
(structural induction, no bound on size, depth or number of identifiers).

* `UniqueIds F` — two named nodes of the forest with the same identifier are the same object (so a named
  object may be shared by several parents, and by several roots).
* `t.wf` — the node is an object the constructors can produce: attributes aligned with the class schema,
  data free of `#type` keys, non-empty template lists, no anonymous mapping directly inside a mapping.
* `storeAll {} F` — `storage[r.identifier] = r` for every `r` of `F`, in list order, on a fresh
  `PulseStorage` over an empty backend; the result is the final state and the sequence of `put`s.
* `load f b i` — `PulseStorage(backend)[i]` on a fresh storage (recursion depth `f`).
-/
namespace QP.Props.C10
open QP.C10

/-- the final state of `storeAll {} F` together with what the helper lemmas know about it -/
private theorem session {F : List T} (hu : UniqueIds F) (hn : ∀ r ∈ F, r.named = true)
    {st : St} {log : List (Id × J)} (h : storeAll {} F = .ok (st, log)) :
    Inv F st ∧ (∀ r ∈ F, ∀ i, r.id = some i → lookup i st.temp = some r) := by
  obtain ⟨st', log', h', hinv, hroots, _⟩ := storeAll_inv hu F {} (inv_empty F) (fun r hr => ⟨hr, hn r hr⟩)
  rw [h] at h'
  simp only [Except.ok.injEq, Prod.mk.injEq] at h'
  rw [h'.1]; exact ⟨hinv, hroots⟩

/-- Storing never fails for a forest of named roots with unique identifiers. -/
theorem store_succeeds (F : List T) (hu : UniqueIds F) (hn : ∀ r ∈ F, r.named = true) :
    ∃ st log, storeAll {} F = .ok (st, log) := by
  obtain ⟨st', log', h', _⟩ := storeAll_inv hu F {} (inv_empty F) (fun r hr => ⟨hr, hn r hr⟩)
  exact ⟨st', log', h'⟩

/-- **roundtrip** (forest form): after storing the roots in any order, a fresh storage over the same
backend loads *every* named node of the forest — root or shared sub-template — as the original object. -/
theorem roundtrip_forest (F : List T) (hu : UniqueIds F) (hwf : ∀ r ∈ F, r.wf = true)
    (hn : ∀ r ∈ F, r.named = true) {st : St} {log : List (Id × J)} (h : storeAll {} F = .ok (st, log)) :
    ∀ c ∈ F.flatMap namedSub, ∀ j, c.id = some j → ∀ f, 2 * depth c ≤ f → load f st.backend j = .ok c := by
  obtain ⟨hinv, hroots⟩ := session hu hn h
  intro c hc j hj f hf
  have hcU := (mem_namedSub_flat.mp hc).1
  obtain ⟨r, hr, hcr⟩ := List.mem_flatMap.mp hcU
  apply load_of_closed st.backend c j hj (wf_subterms r (hwf r hr) c hcr) _ f hf
  intro c' hc' k hk
  exact (stored_of_inv hu hinv hroots hn (mem_univ_of_root hr (subterms_trans r c hcr c' hc')) hk).2

/-- **roundtrip**: `UniqueIds t → load (store ∅ t) (id t) = .ok t`. -/
theorem roundtrip (t : T) (i : Id) (hu : UniqueIds [t]) (hwf : t.wf = true) (hid : t.id = some i) :
    ∃ st log, store t = .ok (st, log) ∧ ∀ f, 2 * depth t ≤ f → load f st.backend i = .ok t := by
  have hn : ∀ r ∈ [t], r.named = true := by
    intro r hr; simp only [List.mem_singleton] at hr; subst hr; simp [T.named, hid]
  obtain ⟨st, log, h⟩ := store_succeeds [t] hu hn
  refine ⟨st, log, h, fun f hf => ?_⟩
  have hwf' : ∀ r ∈ [t], r.wf = true := by
    intro r hr; simp only [List.mem_singleton] at hr; subst hr; exact hwf
  apply roundtrip_forest [t] hu hwf' hn h t _ i hid f hf
  simp only [List.flatMap_cons, List.flatMap_nil, List.append_nil, namedSub, List.mem_filter]
  exact ⟨self_mem_subterms t, by simp [T.named, hid]⟩

/-- **named_once**: the backend has no duplicate key, and its entries are exactly the documents of the
named nodes of the forest: each identifier has exactly one entry, written as that node's own document. -/
theorem named_once (F : List T) (hu : UniqueIds F) (hn : ∀ r ∈ F, r.named = true)
    {st : St} {log : List (Id × J)} (h : storeAll {} F = .ok (st, log)) :
    (st.backend.map Prod.fst).Nodup ∧
    ∀ j d, lookup j st.backend = some d ↔ ∃ c ∈ F.flatMap namedSub, c.id = some j ∧ d = body c := by
  obtain ⟨hinv, hroots⟩ := session hu hn h
  refine ⟨storeAll_nodup F {} st log h (by simp), fun j d => ?_⟩
  rw [backend_char hu hinv hroots hn j d]
  constructor
  · rintro ⟨c, hc, hj, hd⟩
    exact ⟨c, mem_namedSub_flat.mpr ⟨hc, by simp [T.named, hj]⟩, hj, hd⟩
  · rintro ⟨c, hc, hj, hd⟩
    exact ⟨c, (mem_namedSub_flat.mp hc).1, hj, hd⟩

/-- **refs_closed**: every reference in every stored document resolves in the store. -/
theorem refs_closed (F : List T) (hu : UniqueIds F) (hwf : ∀ r ∈ F, r.wf = true)
    (hn : ∀ r ∈ F, r.named = true) {st : St} {log : List (Id × J)} (h : storeAll {} F = .ok (st, log)) :
    ∀ e ∈ st.backend, ∀ r ∈ e.2.refs, hasKey r st.backend = true := by
  obtain ⟨hinv, hroots⟩ := session hu hn h
  have hnodup := storeAll_nodup F {} st log h (by simp)
  rintro ⟨j, d⟩ he r hr
  have hl : lookup j st.backend = some d := lookup_of_mem_nodup hnodup he
  obtain ⟨o, hoU, hoj, hd⟩ := (backend_char hu hinv hroots hn j d).mp hl
  obtain ⟨root, hroot, horoot⟩ := List.mem_flatMap.mp hoU
  have howf : o.wf = true := wf_subterms root (hwf root hroot) o horoot
  simp only at hr
  rw [hd] at hr
  obtain ⟨c, hc, hcr⟩ := refs_body o howf r hr
  have hcU : c ∈ Univ F := by
    apply mem_univ_of_root hroot
    apply subterms_trans root o horoot c
    cases o with
    | node cls id items => rw [subterms_node]; exact List.mem_append_left _ hc
  have := (stored_of_inv hu hinv hroots hn hcU hcr).2
  exact (hasKey_true_iff _ _).mpr ⟨_, this⟩

/-- **children_first**: in the sequence of `put`s of the whole session, every reference of a written
document points to a document written earlier — entries are written child-before-parent (the order the
code uses: post-order of the encoder's sorted-key traversal, first occurrence of a shared object). -/
theorem children_first (F : List T) (hu : UniqueIds F) (hwf : ∀ r ∈ F, r.wf = true)
    (hn : ∀ r ∈ F, r.named = true) {st : St} {log : List (Id × J)} (h : storeAll {} F = .ok (st, log)) :
    ∀ pre e post, log = pre ++ e :: post → ∀ r ∈ e.2.refs, r ∈ pre.map Prod.fst := by
  have hwfU : ∀ c ∈ Univ F, c.wf = true := by
    intro c hc
    obtain ⟨r, hr, hcr⟩ := List.mem_flatMap.mp hc
    exact wf_subterms r (hwf r hr) c hcr
  have := (storeAll_cf hu hwfU F {} [] (inv_empty F) (fun r hr => ⟨hr, hn r hr⟩)
    (fun r hr => by simp [St.has, hasKey] at hr) trivial st log h).1
  intro pre e post hlog r hr
  rw [List.nil_append, hlog] at this
  rcases cf_split _ pre e post [] this r hr with h' | h'
  · exact absurd h' id
  · simpa using h'

/-- **order_independent**: storing the same set of templates in any order yields the same store. -/
theorem order_independent (F F' : List T) (hp : F.Perm F') (hu : UniqueIds F) (hn : ∀ r ∈ F, r.named = true)
    {st st' : St} {log log' : List (Id × J)}
    (h : storeAll {} F = .ok (st, log)) (h' : storeAll {} F' = .ok (st', log')) :
    ∀ j, lookup j st.backend = lookup j st'.backend := by
  have hmem : ∀ a, a ∈ F.flatMap namedSub ↔ a ∈ F'.flatMap namedSub := by
    intro a
    simp only [List.mem_flatMap]
    constructor
    · rintro ⟨r, hr, ha⟩; exact ⟨r, hp.mem_iff.mp hr, ha⟩
    · rintro ⟨r, hr, ha⟩; exact ⟨r, hp.mem_iff.mpr hr, ha⟩
  have hu' : UniqueIds F' := fun a ha b hb hab => hu a ((hmem a).mpr ha) b ((hmem b).mpr hb) hab
  have hn' : ∀ r ∈ F', r.named = true := fun r hr => hn r (hp.mem_iff.mpr hr)
  have hc := (named_once F hu hn h).2
  have hc' := (named_once F' hu' hn' h').2
  intro j
  cases hl : lookup j st.backend with
  | some d =>
    obtain ⟨c, hcm, hj, hd⟩ := (hc j d).mp hl
    exact ((hc' j d).mpr ⟨c, (hmem c).mp hcm, hj, hd⟩).symm
  | none =>
    cases hl' : lookup j st'.backend with
    | none => rfl
    | some d =>
      obtain ⟨c, hcm, hj, hd⟩ := (hc' j d).mp hl'
      rw [(hc j d).mpr ⟨c, (hmem c).mpr hcm, hj, hd⟩] at hl
      exact absurd hl (by simp)

/-- **shared_once**: loading through a storage with a temporary storage (cache) that is *good* — every
cached object is the forest's node of that identifier, `built` lists the cached identifiers without
repetition — returns the original node, leaves the cache good and keeps what was cached. Starting from
the empty cache, whatever identifiers are requested in whatever order: every identifier is deserialised
at most once and every parent's reference to it yields that one object. -/
theorem shared_once (F : List T) (hu : UniqueIds F) (hwf : ∀ r ∈ F, r.wf = true)
    (hn : ∀ r ∈ F, r.named = true) {st : St} {log : List (Id × J)} (h : storeAll {} F = .ok (st, log)) :
    ∀ c ∈ F.flatMap namedSub, ∀ j, c.id = some j → ∀ f, 2 * depth c ≤ f →
    ∀ cache, GoodCache F cache →
      ∃ cache', loadC f st.backend cache j = .ok (c, cache') ∧ GoodCache F cache' ∧ Ext cache cache' := by
  obtain ⟨hinv, hroots⟩ := session hu hn h
  intro c hc j hj f hf cache hg
  have hcU := (mem_namedSub_flat.mp hc).1
  obtain ⟨r, hr, hcr⟩ := List.mem_flatMap.mp hcU
  have hsubU : ∀ x ∈ subterms c, x ∈ Univ F := fun x hx => mem_univ_of_root hr (subterms_trans r c hcr x hx)
  have hcl : Closed st.backend (subterms c) := fun x hx k hk => (stored_of_inv hu hinv hroots hn (hsubU x hx) hk).2
  have hb := decC_body hu st.backend c (wf_subterms r (hwf r hr) c hcr) hsubU hcl
  have hself : ∀ i, c.id = some i → lookup i st.backend = some (body c) :=
    fun i hi => hcl c (self_mem_subterms c) i hi
  obtain ⟨cache', h1, s1⟩ := decC_emit_of_body hu st.backend hcU hb hself (f + 1) (by omega) cache hg
  refine ⟨cache', ?_, s1.good, s1.ext⟩
  have : emit c = ref j := by cases c with | node cls id items => simp only [T.id] at hj; subst hj; simp only [emit]
  rw [this, decTC_ref] at h1
  exact h1

/-- the empty temporary storage of a fresh `PulseStorage` is good -/
theorem fresh_cache_good (F : List T) : GoodCache F {} := goodCache_empty F

/-- the executable twin of `UniqueIds` -/
theorem uniqueIds_iff (F : List T) : uniqueIdsB F = true ↔ UniqueIds F := by
  simp only [uniqueIdsB, UniqueIds, List.all_eq_true, Bool.or_eq_true, decide_eq_true_eq, ne_eq]
  constructor
  · intro h a ha b hb hab
    rcases h a ha b hb with h' | h'
    · exact absurd hab h'
    · exact h'
  · intro h a ha b hb
    by_cases hab : a.id = b.id
    · exact Or.inr (h a ha b hb hab)
    · exact Or.inl hab

/-! ### error branches: rejected, never altered -/

/-- storing under a foreign identifier is rejected (`ValueError`) -/
theorem setitem_wrong_identifier (st : St) (i : Id) (t : T) (h : t.id ≠ some i) :
    setitem st i t = .error .valueError := by
  simp [setitem, h]; rfl

/-- an identifier that is taken by another object is rejected (`RuntimeError`) -/
theorem setitem_identifier_taken (st : St) (i : Id) (t o : T) (hid : t.id = some i)
    (ho : lookup i st.temp = some o) (hne : o ≠ t) : setitem st i t = .error .idTaken := by
  simp [setitem, hid, ho, hne]; rfl

/-- an identifier that is only in the backend (stored by another session) is rejected (`RuntimeError`) -/
theorem setitem_identifier_in_backend (st : St) (i : Id) (t : T) (hid : t.id = some i)
    (ho : lookup i st.temp = none) (hb : hasKey i st.backend = true) : setitem st i t = .error .idTaken := by
  simp [setitem, hid, ho, hb]; rfl

/-- a store that raises leaves the storage as it was (`overwrite` closes the transaction in its `finally` block and
nothing is `put` before the whole transaction is encoded): later stores behave as if it had never been tried -/
theorem rejected_store_unchanged (st : St) (i : Id) (t : T) (e : Err) (h : setitem st i t = .error e) :
    setitemTry st i t = (st, [], false) := by
  simp [setitemTry, h]

/-- **a store always writes**: when `overwrite` returns, every document of its transaction — the root's among them — is
what the backend holds under that identifier, whatever the storage's own temporary storage (possibly stale: other
storages may work on the same backend) or the backend contained before. The backend is the single source of truth. -/
theorem store_always_writes (st st' : St) (i : Id) (t : T) (log : List (Id × J))
    (h : overwrite st i t = .ok (st', log)) :
    (∀ e ∈ log, lookup e.1 st'.backend = some e.2) ∧ i ∈ log.map Prod.fst :=
  overwrite_writes st st' i t log h

/-- a reference to an identifier that is not in the backend cannot be loaded (`KeyError`) -/
theorem load_missing (f : Nat) (s : Store) (i : Id) (h : lookup i s = none) : load f s i = .error .keyError := by
  simp [load, h]; rfl

/-! ### the hypotheses are satisfiable: a sequence of a time-reversed and a repeated use of one shared
named constant pulse, and the shared pulse itself -/

private def shared : T := T.const (some "sh") (.atom "1") (.atom "{X:v0}") (.atom "n") [.atom "m"]
private def example_root : T :=
  T.seq (some "root") [T.timeRev (some "c2") shared, T.rep none shared (.atom "2") [] [], shared] [] [.atom "c"]

example : example_root.wf = true := by decide
example : uniqueIdsB [example_root] = true := by decide
example : (store example_root).toOption.map (fun r => r.2.map Prod.fst) = some ["sh", "c2", "root"] := by decide
example : ((store example_root).toOption.bind fun r => (load 10 r.1.backend "root").toOption) = some example_root := by
  decide
example : ((store example_root).toOption.bind fun r => (load 10 r.1.backend "sh").toOption) = some shared := by
  decide
/-- the caching loader builds the shared pulse once -/
example : ((store example_root).toOption.bind fun r => (loadC 10 r.1.backend {} "root").toOption).map
    (fun r => r.2.built) = some ["sh", "c2", "root"] := by decide

/-- two different objects with one identifier inside one store operation are rejected (`RuntimeError`), also when
the clash is with the root -/
example : store (T.seq (some "s") [T.const (some "a") (.atom "1") (.atom "x") (.atom "n") [],
                                   T.const (some "a") (.atom "2") (.atom "x") (.atom "n") []] [] []) = .error .idTaken := by
  rfl
example : store (T.timeRev (some "s") (T.const (some "s") (.atom "1") (.atom "x") (.atom "n") [])) = .error .idTaken := by
  rfl
/-- the same object twice inside one store operation is collected once -/
example : (store (T.seq (some "s") [shared, shared] [] [])).toOption.map (fun r => r.2.map Prod.fst) = some ["sh", "s"] := by
  decide

/-! every class constructor yields a well-formed node on plain data -/
private def a : J := .atom "x"
private def leafA : T := T.const none a a a []
example : (T.table (some "t") a [a] [] false).wf = true := by decide
example : (T.point none a a [] [a]).wf = true := by decide
example : (T.func none a a a [a] [a]).wf = true := by decide
example : (T.const (some "c") a a a [a]).wf = true := by decide
example : (T.seq none [leafA, leafA] [a] []).wf = true := by decide
example : (T.rep none leafA a [] [a]).wf = true := by decide
example : (T.forLoop (some "f") leafA a a [a] [a]).wf = true := by decide
example : (T.mapping none leafA [("p", a)] [] [("c", a)] [a]).wf = true := by decide
example : (T.amc none [leafA, leafA] [] [] (some a)).wf = true := by decide
example : (T.amc none [leafA] [a] [a]).wf = true := by decide
example : (T.par none leafA a).wf = true := by decide
example : (T.arithAtomic none leafA a leafA [a]).wf = true := by decide
example : (T.arithL none leafA a a).wf = true := by decide
example : (T.arithR none a a leafA).wf = true := by decide
example : (T.timeRev (some "r") leafA).wf = true := by decide
example : (T.abstr "abs" [("defined_channels", a), ("integral", a)]).wf = true := by decide
/-- outside the constructors' range: an anonymous mapping without constraints directly inside a mapping (it is merged on
construction); one that carries parameter constraints is kept -/
example : (T.mapping none (T.mapping none leafA [] [] [] []) [] [] [] []).wf = false := by decide
example : (T.mapping none (T.mapping none leafA [] [] [] [a]) [] [] [] []).wf = true := by decide

end QP.Props.C10
