import QP.Proofs.C19Upload
/-!
# C19 — waveform-memory placement never damages a segment that is still in use

Property theorems about the model `QP.C19` (`QP/Model/C19.lean`): the placement decision
`findPlace` (= `find_place_for_segments_in_memory` with `find_positions`) and the bookkeeping state
machine `step` (= `TaborChannelPair.upload / free_program / remove / cleanup / clear`).
All statements hold for every input: any number of slots and new segments, any history.
-/
namespace QP.Props.C19
open QP.C19

/-- the executable judge is the specification -/
theorem placeSafeB_iff (i : Inp) (o : Out) : placeSafeB i o = true ↔ PlaceSafe i o := by
  simp [placeSafeB]

/-- **Decision.** Whatever the memory looks like, a placement that is returned
re-uses a slot only for the identical hash, overwrites only unreferenced, sufficiently large, pairwise
distinct slots that are not re-used at the same time, accounts for every new segment in one of the three
ways, and appends only what fits (with 16 points overhead per segment) behind the last used slot. -/
theorem place_safe (i : Inp) (o : Out) (h : findPlace i = .ok o) : PlaceSafe i o :=
  findPlace_safe i o h

/-- … and the judge accepts every answer of the model -/
theorem place_safe_judge (i : Inp) (o : Out) (h : findPlace i = .ok o) : placeSafeB i o = true :=
  (placeSafeB_iff i o).mpr (findPlace_safe i o h)

/-- the three ways of accounting for a new segment exclude each other: "exactly once" -/
theorem place_accounting_exclusive (i : Inp) (o : Out) (k : Nat) :
    ¬ (IsKnown i o k ∧ IsInsert i o k) ∧ ¬ (IsKnown i o k ∧ IsAmend i o k) ∧
    ¬ (IsInsert i o k ∧ IsAmend i o k) := by
  refine ⟨?_, ?_, ?_⟩
  · rintro ⟨hK, hI⟩
    obtain ⟨_, _, _, _, _, _, _, hi⟩ := hK.elim'
    obtain ⟨_, _, t, _, _, ht, _, h0, _⟩ := hI.elim'
    rw [hi] at ht
    have := Option.some.inj ht
    omega
  · rintro ⟨hK, hA⟩
    have h1 := hK.1
    rw [hA.2.1] at h1
    cases h1
  · rintro ⟨hI, hA⟩
    have h1 := hI.2.1
    rw [hA.2.1] at h1
    cases h1

/-- `find_positions`: a reported position holds the value that was looked for -/
theorem find_positions_sound (data : List Int) (x : Int) (h : findPosition data x ≠ -1) :
    0 ≤ findPosition data x ∧ data[(findPosition data x).toNat]? = some x :=
  findPosition_sound rfl h

/-- `find_positions` is what its docstring says: the index of the **first** occurrence, `-1` exactly if
the value does not occur (this is where the stability of the argsort is used) -/
theorem find_positions_first (data : List Int) (x : Int) :
    (findPosition data x = -1 ∧ x ∉ data) ∨
    (∃ (i : Nat), findPosition data x = (i : Int) ∧ data[i]? = some x ∧
        ∀ (j : Nat), data[j]? = some x → i ≤ j) :=
  findPosition_first data x

/-- **Refusal is pure.** If the decision refuses (`Not enough free memory` / `Fragmentation …`) for a
name that is not uploaded, `upload` leaves the driver state exactly as it was. (The decision function
itself is a pure function of its arguments; the harness checks that the real one does not write to its
input arrays.) -/
theorem place_error_pure (m : Mem) (total idle : Int) (name : Nat) (force : Bool) (segs : List (Int × Nat))
    (e : Err) (hn : ∀ p, p ∈ m.progs → p.name ≠ name)
    (he : findPlace (inpOf m total segs) = .error e) :
    step total idle m (.upload name force segs) = (m, .error e) := by
  have hany : m.progs.any (fun p => p.name == name) = false := by
    rw [Bool.eq_false_iff]
    intro h
    rw [List.any_eq_true] at h
    obtain ⟨p, hp, hpn⟩ := h
    exact hn p hp (by simpa using hpn)
  unfold step
  simp only [hany]
  simp only [inpOf] at he
  simp [he]

/-- … and for a forced re-upload the state is the one `free_program` left (nothing else changed) -/
theorem place_error_after_free (m m0 : Mem) (total idle : Int) (name : Nat) (segs : List (Int × Nat))
    (e : Err) (hk : m.progs.any (fun p => p.name == name) = true)
    (hf : freeProgram m name = .ok m0) (he : findPlace (inpOf m0 total segs) = .error e) :
    step total idle m (.upload name true segs) = (m0, .error e) := by
  unfold step
  simp only [hk, if_true, hf]
  simp only [inpOf] at he
  simp [he]

/-- the invariant holds after `clear()` (the state the constructor establishes) -/
theorem inv_init (idle : Int) : Inv (Mem.init idle) := inv_init' idle

/-- **Every operation keeps the invariant**: upload (also forced, also refused), free_program, remove,
cleanup, clear; with any arguments. -/
theorem inv_step (total idle : Int) (m : Mem) (op : Op) (h : Inv m) : Inv (step total idle m op).1 :=
  step_inv h total idle op

/-- **Every history.** After any sequence of operations every uploaded program refers to slots whose
(ghost) contents are its own segments, and reference counts equal the number of referring programs. -/
theorem inv_history (total idle : Int) (ops : List Op) : Inv (run total idle (Mem.init idle) ops) :=
  run_inv (inv_init' idle) total idle ops

/-- under the invariant `upload` never runs into the guards of `_upload_segment` ('Reference count not
zero', 'Cannot upload segment here.') or an index error: it is refused as a whole (name taken / decision
refused, state as before the decision) or it succeeds -/
theorem upload_all_or_nothing (total idle : Int) (m : Mem) (h : Inv m) (name : Nat) (force : Bool)
    (segs : List (Int × Nat)) :
    (step total idle m (.upload name force segs)).2 = .ok ∨
    (step total idle m (.upload name force segs) = (m, .error .valueError)) ∨
    (∃ m0 e, (m0 = m ∨ freeProgram m name = .ok m0) ∧ findPlace (inpOf m0 total segs) = .error e ∧
       step total idle m (.upload name force segs) = (m0, .error e)) := by
  rcases upload_cases h total idle name force segs with h1 | ⟨m0, _, _, hm0, ⟨e, he, hs⟩ | ⟨o, _, hs, hok, _⟩⟩
  · exact Or.inr (Or.inl h1)
  · exact Or.inr (Or.inr ⟨m0, e, hm0, he, hs⟩)
  · left; rw [hs]; exact hok

/-- the invariant implies what the judge checks on the real driver's state -/
theorem inv_implies_obs (m : Mem) (h : Inv m) : InvObs m := by
  refine ⟨h.progs, ?_, ?_⟩
  · intro s hs hpos r hr
    have hc := h.count s hs
    rw [hr] at hc
    have : s ≠ 0 := by omega
    simp only [this, if_false] at hc
    have := Option.some.inj hc
    omega
  · intro r hr
    have hc := h.count 0 (by rw [h.lenR]; exact h.idle)
    rw [hr] at hc
    have := Option.some.inj hc
    simp at this
    omega

theorem invObsB_iff (m : Mem) : invObsB m = true ↔ InvObs m := by
  simp [invObsB]

/-- hence the judge accepts every state the model can reach -/
theorem history_obs (total idle : Int) (ops : List Op) : invObsB (run total idle (Mem.init idle) ops) = true :=
  (invObsB_iff _).mpr (inv_implies_obs _ (inv_history total idle ops))

/-! ### the hypotheses are satisfiable / the cases occur -/

/-- one known segment, one written into a free slot of the same length, one appended -/
example : findPlace ⟨[7, 8, 9, 7], [1, 0, 0, 1], [192, 208, 192, 192], 2000, [8, 5, 6], [208, 192, 320]⟩
    = .ok ⟨[1, -1, -1], [false, false, true], [-1, 2, -1]⟩ := by rfl

/-- a refusal -/
example : findPlace ⟨[7, 8], [1, 1], [192, 208], 500, [5], [192]⟩ = .error .noMemory := by rfl

/-- a history with re-use, overwrite, append, removal -/
example : (run 2000 0 (Mem.init 0)
    [.upload 1 false [(5, 192), (6, 208)], .upload 2 false [(5, 192), (8, 224)], .remove 1,
     .upload 3 false [(9, 192)]]).refs = [1, 1, 1, 1] := by decide

/-- Observation (outside the property): the decision measures the free space behind the last *used*
slot while `_amend_segments` appends behind the last *slot*; `upload(force=True)` frees without
`cleanup()`, so the recorded capacities can exceed the instrument's memory. No data is damaged. -/
example : (run 1000 0 (Mem.init 0)
    [.upload 0 false [(1, 384)], .upload 0 true [(2, 384)], .upload 0 true [(3, 384)]]).caps
    = [192, 384, 384, 384] := by decide

end QP.Props.C19
