import QP.Model.C19
/-! Property theorems for C19 (waveform-memory placement never damages a segment still in use). -/
namespace QP.Props.C19
open QP.C19

/-- the executable judge is the specification -/
theorem placeSafeB_iff (i : Inp) (o : Out) : placeSafeB i o = true ↔ PlaceSafe i o := by
  simp [placeSafeB]

end QP.Props.C19
