import QP.Proofs.C11
/-!
Property theorems for C11 — the pulse storage stays loadable whatever point a store operation fails at.

`atomic` is proved for the three backends as they are after `fixes/PF-17.diff` (`Backend.fixed`: `dir`,
`zip`, `dict`), for all transactions, all stored contents and all failure positions `k`.
For the code of the pinned tree (`dirPinned`, `zipPinned`) the statement is false: `*_counterexample`.
-/
namespace QP.Props.C11
open QP.C11

/-! ### the judge decides the spec -/

theorem loadsB_iff (s : Store) (i : Id) : loadsB s i = true ↔ Loads s.get i := loadsB_iff' s i

theorem loadableB_iff (s pre fin : Store) : loadableB s pre fin = true ↔ Loadable s.get pre.get fin.get := by
  simp [loadableB, Loadable, allLoadB_iff', oldOrNewB_iff']

theorem loadableFSB_iff (b : Backend) (fs : FS) (pre fin : Store) :
    loadableFSB b fs pre fin = true ↔ LoadableFS b fs pre fin := by
  unfold loadableFSB LoadableFS
  cases hv : view b fs with
  | none => simp
  | some s => simp [loadableB_iff]

theorem wfTxnB_iff (b : Backend) (fs : FS) (txn : Txn) (pre : Store) :
    wfTxnB b fs txn pre = true ↔ WFtxn b fs txn pre := by
  simp [wfTxnB, WFtxn, wfOpsB_iff, nodupB_iff]

/-! ### atomicity -/

/-- Every prefix of the steps of a well-formed transaction leaves a loadable storage: whatever position
`k` a failure (exception or crash) hits, a new backend object over the same directory / archive / dict
lists only identifiers that load with all references resolving, and every identifier holds its old or
its new content. All transactions, all contents, all `k`; backends `dir`, `zip`, `dict`. -/
theorem atomic (b : Backend) (hb : b.fixed = true) (fs₀ : FS) (pre : Store) (txn : Txn)
    (hview : view b fs₀ = some pre) (hload : AllLoad pre.get) (hwf : WFtxn b fs₀ txn pre) :
    ∀ k, LoadableFS b (run ((compileTxn b fs₀ txn).1.take k) fs₀) pre (finalStore b fs₀ txn pre) := by
  intro k
  obtain ⟨j, hv, _⟩ := compileTxn_prefix b hb fs₀ pre.get txn ⟨pre, hview, rfl⟩ k
  obtain ⟨s, hs, hg⟩ := hv
  refine ⟨s, hs, ?_⟩
  rw [hg]
  constructor
  · exact allLoad_take _ _ hload hwf.1 j
  · intro i
    unfold finalStore
    rw [applyOps_get]
    exact oldOrNew_take _ _ hwf.2 j i

theorem atomic_dir (fs₀ : FS) (pre : Store) (txn : Txn) (hview : view .dir fs₀ = some pre)
    (hload : AllLoad pre.get) (hwf : WFtxn .dir fs₀ txn pre) (k : Nat) :
    LoadableFS .dir (run ((compileTxn .dir fs₀ txn).1.take k) fs₀) pre (finalStore .dir fs₀ txn pre) :=
  atomic .dir rfl fs₀ pre txn hview hload hwf k

theorem atomic_zip (fs₀ : FS) (pre : Store) (txn : Txn) (hview : view .zip fs₀ = some pre)
    (hload : AllLoad pre.get) (hwf : WFtxn .zip fs₀ txn pre) (k : Nat) :
    LoadableFS .zip (run ((compileTxn .zip fs₀ txn).1.take k) fs₀) pre (finalStore .zip fs₀ txn pre) :=
  atomic .zip rfl fs₀ pre txn hview hload hwf k

theorem atomic_dict (fs₀ : FS) (pre : Store) (txn : Txn) (hview : view .dict fs₀ = some pre)
    (hload : AllLoad pre.get) (hwf : WFtxn .dict fs₀ txn pre) (k : Nat) :
    LoadableFS .dict (run ((compileTxn .dict fs₀ txn).1.take k) fs₀) pre (finalStore .dict fs₀ txn pre) :=
  atomic .dict rfl fs₀ pre txn hview hload hwf k

/-- when nothing fails and no call raises, the storage holds exactly the intended content -/
theorem commit_complete (b : Backend) (hb : b.fixed = true) (fs₀ : FS) (pre : Store) (txn : Txn)
    (hview : view b fs₀ = some pre) (hok : (compileTxn b fs₀ txn).2 = none) :
    ∃ s, view b (run (compileTxn b fs₀ txn).1 fs₀) = some s ∧ s.get = (finalStore b fs₀ txn pre).get := by
  have := compileTxn_final b hb fs₀ pre.get txn ⟨pre, hview, rfl⟩ hok
  obtain ⟨s, hs, hg⟩ := this
  exact ⟨s, hs, by rw [hg]; unfold finalStore; rw [applyOps_get]⟩

/-! ### no partial trace before the first write -/

/-- a failure of the front end (un-serializable nested object, identifier clash, wrong identifier) happens
before any step: nothing at all is changed, on any backend -/
theorem front_end_failure_no_trace (b : Backend) (fs₀ : FS) (txn : Txn) (e : Err)
    (h : plan b fs₀ txn = .error e) : ∀ k, run ((compileTxn b fs₀ txn).1.take k) fs₀ = fs₀ := by
  intro k
  simp [compileTxn, h, run]

/-- a failure anywhere before the last step of the first backend call (the first write) leaves directory
entries, archive, dict and the PulseStorage cache exactly as they were -/
theorem no_trace_before_first_write (b : Backend) (hb : b.fixed = true) (fs₀ : FS) (txn : Txn)
    (p : Plan) (op : Op) (ops : List Op) (ss : List Step)
    (hp : plan b fs₀ txn = .ok p) (hops : p.ops = op :: ops) (hc : compileOp b fs₀ op = .ok ss) :
    ∀ k, k < ss.length → (run ((compileTxn b fs₀ txn).1.take k) fs₀).durable = fs₀.durable := by
  intro k hk
  have hsteps : (compileTxn b fs₀ txn).1.take k = ss.take k := by
    simp only [compileTxn, hp, Plan.steps, hops, compileOps, hc]
    split <;> simp only [List.append_assoc] <;> rw [List.take_append_of_le_length (by omega)]
  rw [hsteps]
  exact compileOp_prefix b hb fs₀ op ss hc k hk

/-- the cache of the PulseStorage (`_temporary_storage`) is changed by the very last step only: entries are
published after all puts succeeded, a deleted entry is dropped after the backend deleted it -/
theorem cache_published_last (b : Backend) (hb : b.fixed = true) (fs₀ : FS) (pre : Store) (txn : Txn)
    (hview : view b fs₀ = some pre) :
    ∀ k, k < (compileTxn b fs₀ txn).1.length →
      (run ((compileTxn b fs₀ txn).1.take k) fs₀).cache = fs₀.cache := by
  intro k hk
  obtain ⟨_, _, h⟩ := compileTxn_prefix b hb fs₀ pre.get txn ⟨pre, hview, rfl⟩ k
  exact h hk

/-! ### PF-17: the pinned tree is not atomic -/

/-- directory backend of the pinned tree: overwriting entry 1; a failure between `open(…, 'w')` and
`write` leaves an empty listed file -/
theorem atomic_dirPinned_counterexample :
    let pre : Store := [(1, .doc 10 [])]
    let fs₀ := mkFS .dirPinned pre []
    let txn := Txn.store [(1, .doc 11 [])]
    view .dirPinned fs₀ = some pre ∧ allLoadB pre = true ∧ wfTxnB .dirPinned fs₀ txn pre = true ∧
    ¬ LoadableFS .dirPinned (run ((compileTxn .dirPinned fs₀ txn).1.take 1) fs₀) pre
        (finalStore .dirPinned fs₀ txn pre) := by
  simp only [← loadableFSB_iff]
  decide

/-- directory backend of the pinned tree: storing a *new* entry; the same failure leaves a partial trace
(an identifier that is listed but does not load) although nothing was written -/
theorem no_trace_dirPinned_counterexample :
    let fs₀ := mkFS .dirPinned [] []
    let txn := Txn.store [(1, .doc 10 [])]
    (run ((compileTxn .dirPinned fs₀ txn).1.take 1) fs₀).durable ≠ fs₀.durable ∧
    ¬ LoadableFS .dirPinned (run ((compileTxn .dirPinned fs₀ txn).1.take 1) fs₀) [] (finalStore .dirPinned fs₀ txn []) := by
  simp only [← loadableFSB_iff]
  decide

/-- zip backend of the pinned tree: between `os.remove` and `os.rename` there is no archive -/
theorem atomic_zipPinned_counterexample_missing :
    let pre : Store := [(1, .doc 10 []), (2, .doc 20 [1])]
    let fs₀ := mkFS .zipPinned pre []
    let txn := Txn.store [(1, .doc 11 [])]
    view .zipPinned fs₀ = some pre ∧ allLoadB pre = true ∧ wfTxnB .zipPinned fs₀ txn pre = true ∧
    view .zipPinned (run ((compileTxn .zipPinned fs₀ txn).1.take 3) fs₀) = none ∧
    ¬ LoadableFS .zipPinned (run ((compileTxn .zipPinned fs₀ txn).1.take 3) fs₀) pre
        (finalStore .zipPinned fs₀ txn pre) := by
  simp only [← loadableFSB_iff]
  decide

/-- zip backend of the pinned tree: between `os.rename` and the append the overwritten entry is gone and
the entry referring to it no longer loads -/
theorem atomic_zipPinned_counterexample_lost :
    let pre : Store := [(1, .doc 10 []), (2, .doc 20 [1])]
    let fs₀ := mkFS .zipPinned pre []
    let txn := Txn.store [(1, .doc 11 [])]
    (∃ s, view .zipPinned (run ((compileTxn .zipPinned fs₀ txn).1.take 4) fs₀) = some s ∧ s.get 1 = none ∧
      loadsB s 2 = false) ∧
    ¬ LoadableFS .zipPinned (run ((compileTxn .zipPinned fs₀ txn).1.take 4) fs₀) pre
        (finalStore .zipPinned fs₀ txn pre) := by
  simp only [← loadableFSB_iff]
  refine ⟨⟨_, rfl, ?_, ?_⟩, ?_⟩ <;> decide

/-- the pinned compilation is atomic where it has a single step: the dict backend is the same code -/
theorem atomic_partial (fs₀ : FS) (pre : Store) (txn : Txn) (b : Backend)
    (hclass : b ≠ .dirPinned ∧ b ≠ .zipPinned)
    (hview : view b fs₀ = some pre) (hload : AllLoad pre.get) (hwf : WFtxn b fs₀ txn pre) (k : Nat) :
    LoadableFS b (run ((compileTxn b fs₀ txn).1.take k) fs₀) pre (finalStore b fs₀ txn pre) := by
  have hb : b.fixed = true := by cases b <;> simp_all [Backend.fixed]
  exact atomic b hb fs₀ pre txn hview hload hwf k

/-! ### the PulseStorage front end produces well-formed transactions -/

/-- `PulseStorage.overwrite(top, n)` / `storage[top] = n` (with `fixes/PF-C11a.diff`): whatever the tree, if
collecting it succeeds the resulting puts are children-first, refer only to entries that load, and touch
no identifier twice. Hypotheses: the cache only holds stored entries; sub-templates taken from the storage
load without `top` (the new content of `top` does not refer back to `top`). -/
theorem collect_wf (b : Backend) (fs : FS) (pre : Store) (top : Id) (n : Node)
    (hview : view b fs = some pre) (hcache : ∀ i, fs.cache.get i ≠ none → pre.get i ≠ none)
    (hre : n.reusedOK (fun i => Loads (gerase pre.get top) i)) :
    WFtxn b fs (.overwrite top n) pre ∧ WFtxn b fs (.setitem top n) pre := by
  have hpres : ∀ i, presentB b fs i = true ↔ pre.get i ≠ none := by
    intro i
    have he : existsB b fs i = (pre.get i).isSome := by simp [existsB, hview]
    simp only [presentB, he, Bool.or_eq_true]
    constructor
    · rintro (h | h)
      · exact hcache i (by cases hc : fs.cache.get i <;> simp [hc] at h ⊢)
      · cases hp : pre.get i <;> simp [hp] at h ⊢
    · intro h
      right
      cases hp : pre.get i <;> simp [hp] at h ⊢
  have key : ∀ r : Except Err (List (Id × Data)), r = collect (presentB b fs) top n →
      WFops pre.get (match r.map Plan.puts with | .error _ => [] | .ok p => p.ops) ∧
      ((match r.map Plan.puts with | .error _ => [] | .ok p => p.ops).map Op.id).Nodup := by
    intro r hr
    cases r with
    | error e => simp [Except.map, WFops]
    | ok ws =>
      simp only [Except.map, Plan.ops]
      exact collect_wf' pre.get top (presentB b fs) hpres n hre ws hr.symm
  constructor
  · unfold WFtxn txnOps plan
    exact key _ rfl
  · unfold WFtxn txnOps
    by_cases h1 : n.id ≠ some top
    · simp [plan, h1, WFops]
    · by_cases h2 : (fs.cache.get top).isSome = true
      · by_cases h3 : n.reused = true <;> simp [plan, h1, h2, h3, WFops, Plan.ops]
      · by_cases h4 : existsB b fs top = true
        · simp [plan, h1, h2, h4, WFops]
        · have hp : plan b fs (.setitem top n) = (collect (presentB b fs) top n).map Plan.puts := by
            simp only [plan, h1, h2, h4, if_false, Bool.false_eq_true]
          rw [hp]
          exact key _ rfl

/-- atomicity of storing / overwriting a template tree, with hypotheses on the tree only -/
theorem atomic_overwrite (b : Backend) (hb : b.fixed = true) (fs₀ : FS) (pre : Store) (top : Id) (n : Node)
    (hview : view b fs₀ = some pre) (hload : AllLoad pre.get)
    (hcache : ∀ i, fs₀.cache.get i ≠ none → pre.get i ≠ none)
    (hre : n.reusedOK (fun i => Loads (gerase pre.get top) i)) :
    ∀ k, LoadableFS b (run ((compileTxn b fs₀ (.overwrite top n)).1.take k) fs₀) pre
      (finalStore b fs₀ (.overwrite top n) pre) :=
  atomic b hb fs₀ pre _ hview hload (collect_wf b fs₀ pre top n hview hcache hre).1

/-- PF-C11a: without the duplicate check the front end of the pinned tree turns the tree
`top[x₁, x₂[y]]` (two different sub-templates named `x` = 1, `y` = 2, `top` = 3) into the puts
`x ↦ doc(y), y, top`: not children-first, and a failure after the first put leaves `x` listed but unloadable
(even on the dict backend) -/
theorem children_first_counterexample :
    let fs₀ := mkFS .dict [] []
    let txn := Txn.store [(1, .doc 12 [2]), (2, .doc 20 []), (3, .doc 30 [1, 1])]
    wfTxnB .dict fs₀ txn [] = false ∧
    ¬ LoadableFS .dict (run ((compileTxn .dict fs₀ txn).1.take 1) fs₀) [] (finalStore .dict fs₀ txn []) := by
  simp only [← loadableFSB_iff]
  decide

/-- … and with the check the same tree is rejected before anything is written -/
theorem duplicate_identifier_rejected :
    let n := Node.mk (some 3) 0 30 true false
      [.mk (some 1) 1 10 true false [], .mk (some 1) 2 12 true false [.mk (some 2) 3 20 true false []]]
    compileTxn .dict (mkFS .dict [] []) (.setitem 3 n) = ([], some .clash) := by
  decide

/-! ### histories: `AllLoad` is an invariant of sequences of transactions with failures in between -/

/-- Several transactions on one PulseStorage object, each possibly cut off by a failure at its own position
`k`; each is compiled against the state (backend content and cache) its predecessor left. After every
prefix of the history a new backend object lists only identifiers that load. -/
theorem history_loadable (b : Backend) (hb : b.fixed = true) :
    ∀ (h : List (Txn × Nat)) (fs₀ : FS) (pre : Store), view b fs₀ = some pre → AllLoad pre.get →
      WFhistory b fs₀ h → ∀ j, ∃ s, view b (runHistory b fs₀ (h.take j)) = some s ∧ AllLoad s.get := by
  intro h
  induction h with
  | nil => intro fs₀ pre hv hl _ j; exact ⟨pre, by simpa [runHistory] using hv, hl⟩
  | cons e h ih =>
    obtain ⟨txn, k⟩ := e
    intro fs₀ pre hv hl hwf j
    cases j with
    | zero => exact ⟨pre, by simpa [runHistory] using hv, hl⟩
    | succ j =>
      obtain ⟨s, hs, hL⟩ := atomic b hb fs₀ pre txn hv hl (hwf.1 pre hv) k
      simp only [List.take_succ_cons, runHistory]
      exact ih (runTxn b fs₀ txn k) s hs hL.1 hwf.2 j

/-- the same for histories of stores / overwrites of template trees, with hypotheses on the trees only: the
front end produces a well-formed transaction each time (`collect_wf`) because the only state a PulseStorage
carries over — its cache — stays inside the stored content at every failure position -/
theorem history_overwrite_loadable (b : Backend) (hb : b.fixed = true) :
    ∀ (h : List (Txn × Nat)) (fs₀ : FS) (pre : Store), view b fs₀ = some pre → AllLoad pre.get → CacheOK b fs₀ →
      TreeHistory b fs₀ h → ∀ j, ∃ s, view b (runHistory b fs₀ (h.take j)) = some s ∧ AllLoad s.get := by
  intro h
  induction h with
  | nil => intro fs₀ pre hv hl _ _ j; exact ⟨pre, by simpa [runHistory] using hv, hl⟩
  | cons e h ih =>
    obtain ⟨txn, k⟩ := e
    intro fs₀ pre hv hl hc ht j
    cases j with
    | zero => exact ⟨pre, by simpa [runHistory] using hv, hl⟩
    | succ j =>
      obtain ⟨⟨top, n, hcase, hre⟩, hrest⟩ := ht
      have hwf : WFtxn b fs₀ txn pre := by
        have := collect_wf b fs₀ pre top n hv (hc pre hv) (hre pre hv)
        rcases hcase with e | e <;> subst e
        · exact this.1
        · exact this.2
      obtain ⟨s, hs, hL⟩ := atomic b hb fs₀ pre txn hv hl hwf k
      simp only [List.take_succ_cons, runHistory]
      exact ih (runTxn b fs₀ txn k) s hs hL.1 (cacheOK_tree b hb fs₀ top n txn hcase hc pre hv k) hrest j

/-! ### the hypotheses are satisfiable (and the conclusion is not trivial) -/

/-- overwriting a parent (4) with a new child (2) while 3 refers to the existing 1, zip backend -/
example :
    let pre : Store := [(1, .doc 10 []), (3, .doc 30 [1]), (4, .doc 40 [1])]
    let fs₀ := mkFS .zip pre []
    let txn := Txn.overwrite 4 (.mk (some 4) 0 41 true false [.mk (some 2) 1 20 true false [], .mk (some 1) 2 10 true true []])
    view .zip fs₀ = some pre ∧ allLoadB pre = true ∧ wfTxnB .zip fs₀ txn pre = true ∧
    (compileTxn .zip fs₀ txn).1.length = 13 ∧
    finalStore .zip fs₀ txn pre ≠ pre := by
  decide

/-- a history: storing `2[1]` fails after its first put, then `3[1]` (the same sub-template object) is stored -/
example : TreeHistory .dict (mkFS .dict [] [])
    [(.setitem 2 (.mk (some 2) 0 20 true false [.mk (some 1) 1 10 true false []]), 1),
     (.setitem 3 (.mk (some 3) 2 30 true false [.mk (some 1) 1 10 true false []]), 100)] := by
  refine ⟨⟨2, _, Or.inr rfl, ?_⟩, ⟨3, _, Or.inr rfl, ?_⟩, trivial⟩ <;>
    intro pre _ <;> simp [Node.reusedOK, reusedOKs]

example : WFtxn .dir (mkFS .dir [(1, .doc 10 [])] []) (.del 1) [(1, .doc 10 [])] := by
  rw [← wfTxnB_iff]; decide

end QP.Props.C11
