import QP.Proofs.C06
import QP.Proofs.C06Term
/-!
Property theorems for C06 — hardware-preparation rewrites of a program preserve what is played,
establish their postcondition, reject without altering, and terminate.

`play t` is the fully unrolled sequence of leaf-waveform atoms, `duration t` is `Loop.duration`
(`duration_eq_play`: it is the summed duration of `play t`).  All theorems quantify over every tree
(any depth, any repetition counts including 0, volatile / measurement flags, merged waveforms), every
target depth and every parameter triple.  Hypotheses:

* `noInnerWf t` — a node with children carries no waveform (half of the `Loop` docstring's
  validity).  Needed wherever a rewrite can remove all children of a node: the code would then
  start playing that node's stale waveform.
* `valid t` — additionally counts ≥ 1 and leaves carry waveforms; needed by `to_waveform`.
-/
namespace QP.Props.C06
open QP.C06

/-! ## the model's `duration` is the duration of what is played -/

theorem duration_is_played_duration (t : Loop) : duration t = sumDur (play t) := duration_eq_play t

/-! ## executable judges agree with the specifications -/

theorem samePulseB_iff (a b : Loop) : samePulseB a b = true ↔ SamePulse a b := by
  simp [samePulseB, SamePulse]

theorem flattenPostB_iff (d : Int) (t : Loop) : flattenPostB d t = true ↔ FlattenPost d t := by
  simp [flattenPostB, FlattenPost, List.all_eq_true]

theorem compatPostB_iff (a q : Nat) (rate : Rat) (t : Loop) : compatPostB a q rate t = true ↔ CompatPost a q rate t := by
  simp [compatPostB, CompatPost, List.all_eq_true]

/-- equal played sequences are in particular the same pulse -/
theorem samePulse_of_play_eq (a b : Loop) (h : play b = play a) : SamePulse a b :=
  ⟨by rw [h], by rw [duration_eq_play, duration_eq_play, h]⟩

/-! ## every rewrite preserves the played sequence and the duration -/

theorem encapsulate_preserves (t : Loop) :
    play (encapsulate t) = play t ∧ duration (encapsulate t) = duration t := by
  have h := encapsulate_play t
  exact ⟨h, by rw [duration_eq_play, duration_eq_play, h]⟩

theorem unrollChildren_preserves (t t' : Loop) (hv : noInnerWf t = true) (h : unrollChildren t = .ok t') :
    play t' = play t ∧ duration t' = duration t := by
  have h := unrollChildren_play t t' hv h
  exact ⟨h, by rw [duration_eq_play, duration_eq_play, h]⟩

/-- `unroll_children` of a leaf is rejected (repaired behaviour, PF-C06-1) -/
theorem unrollChildren_error (t : Loop) (e : Err) (h : unrollChildren t = .error e) : t.isLeaf = true ∧ e = .runtimeError := by
  cases t with
  | mk r v m w cs =>
    simp only [unrollChildren] at h
    split at h
    · rename_i hl; simp only [Except.error.injEq] at h; exact ⟨hl, h.symm⟩
    · simp at h

theorem unroll_preserves (p p' : Loop) (i : Nat) (hv : noInnerWf p = true) (h : unrollAt p i = .ok p') :
    play p' = play p ∧ duration p' = duration p := by
  have h := unrollAt_play p p' i hv h
  exact ⟨h, by rw [duration_eq_play, duration_eq_play, h]⟩

theorem mergeSingleChild_preserves (t t' : Loop) (h : mergeSingleChild t = .ok t') :
    play t' = play t ∧ duration t' = duration t := by
  have h := mergeSingleChild_play t t' h
  exact ⟨h, by rw [duration_eq_play, duration_eq_play, h]⟩

theorem splitOneChild_preserves (p p' : Loop) (idx : Option Int) (h : splitOneChild p idx = .ok p') :
    play p' = play p ∧ duration p' = duration p := by
  have h := splitOneChild_play p p' idx h
  exact ⟨h, by rw [duration_eq_play, duration_eq_play, h]⟩

theorem cleanup_preserves (re ms : Bool) (t t' : Loop) (hv : noInnerWf t = true) (h : cleanup re ms t = .ok t') :
    play t' = play t ∧ duration t' = duration t := by
  have h := cleanup_play re ms t t' hv h
  exact ⟨h, by rw [duration_eq_play, duration_eq_play, h]⟩

theorem flatten_preserves (fuel : Nat) (d : Int) (t t' : Loop) (hv : noInnerWf t = true) (h : flatten fuel d t = .ok t') :
    play t' = play t ∧ duration t' = duration t := by
  have hp : play t' = play t := by
    cases t with
    | mk r v m w cs =>
      have ⟨hw, hcs⟩ := noInnerWf_mk hv
      simp only [flatten] at h
      split at h
      · simp at h
      · rename_i cs' hcs'
        simp only [Except.ok.injEq] at h; subst h
        have := (flattenLoop_play_wf fuel d [] cs cs' rfl hcs hcs').1
        simp only [playL, List.nil_append] at this
        rcases hw with hw | hw
        · have : cs = [] := by simpa using hw
          subst this
          simp [flattenLoop] at hcs'; subst hcs'; rfl
        · rw [play_mk _ _ _ _ _ (Or.inr hw), play_mk _ _ _ _ _ (Or.inr hw), this]
  exact ⟨hp, by rw [duration_eq_play, duration_eq_play, hp]⟩

/-- requested depth and balance: every child of the root is balanced and has depth `max (d-1) 0` -/
theorem flatten_post (fuel : Nat) (d : Int) (t t' : Loop) (h : flatten fuel d t = .ok t') : FlattenPost d t' := by
  cases t with
  | mk r v m w cs =>
    simp only [flatten] at h
    split at h
    · simp at h
    · rename_i cs' hcs'
      simp only [Except.ok.injEq] at h; subst h
      exact flattenLoop_post fuel d [] cs cs' (by simp) hcs'

/-- `flatten_and_balance` terminates: for every tree and every target depth there is an amount of fuel
from which on the model's result no longer changes and is not "out of fuel" (no hypothesis on the
tree: repetition counts may be 0, nodes may be empty or carry stray waveforms) -/
theorem flatten_terminates (d : Int) (t : Loop) :
    ∃ n, flatten n d t ≠ .error .fuel ∧ ∀ m, n ≤ m → flatten m d t = flatten n d t := by
  cases t with
  | mk r v m w cs =>
    obtain ⟨n, R, hR, hn⟩ := flattenLoop_terminates d [] cs
    refine ⟨n, ?_, fun m' hm => ?_⟩
    · simp only [flatten, hn n (Nat.le_refl _)]
      cases R with
      | error e => simpa using hR
      | ok cs' => simp
    · simp only [flatten, hn m' hm, hn n (Nat.le_refl _)]

/-- on a tree whose inner nodes carry no waveform `flatten_and_balance` ends regularly (no error at
all), with the same played sequence and duration and with the requested depth and balance:
termination, preservation and postcondition in one statement -/
theorem flatten_total (d : Int) (t : Loop) (hv : noInnerWf t = true) :
    ∃ n t', (∀ m, n ≤ m → flatten m d t = .ok t') ∧
      play t' = play t ∧ duration t' = duration t ∧ FlattenPost d t' := by
  obtain ⟨n, hne, hn⟩ := flatten_terminates d t
  cases hr : flatten n d t with
  | error e =>
    exfalso
    cases t with
    | mk r v m w cs =>
      simp only [flatten] at hr
      split at hr
      · rename_i e' he'
        simp only [Except.error.injEq] at hr; subst hr
        have := flattenLoop_error_is_fuel n d [] cs e' (noInnerWf_mk hv).2 he'
        subst this
        apply hne
        simp [flatten, he']
      · simp at hr
  | ok t' =>
    refine ⟨n, t', fun m' hm => by rw [hn m' hm, hr], ?_⟩
    exact ⟨(flatten_preserves n d t t' hv hr).1, (flatten_preserves n d t t' hv hr).2, flatten_post n d t t' hr⟩

theorem makeCompatible_preserves (minLen q : Nat) (rate : Rat) (t t' : Loop) (hv : valid t = true)
    (h : makeCompatible minLen q rate t = .ok t') : play t' = play t ∧ duration t' = duration t := by
  have h := makeCompatible_play minLen q rate t t' hv h
  exact ⟨h, by rw [duration_eq_play, duration_eq_play, h]⟩

/-- every played waveform is long enough and a whole number of quanta long -/
theorem makeCompatible_post (minLen q : Nat) (rate : Rat) (t t' : Loop) (hv : valid t = true)
    (h : makeCompatible minLen q rate t = .ok t') : CompatPost minLen q rate t' := by
  unfold makeCompatible at h
  simp only at h
  split at h; · simp at h
  split at h; · simp at h
  split at h; · simp at h
  rename_i hq
  have hq1 : 1 ≤ q := by omega
  split at h
  · simp at h
  · simp at h
  · simp at h
  · rename_i hl
    simp only [Except.ok.injEq] at h; subst h
    exact (compat_post minLen q rate hq1 t hv).2 hl
  · rename_i hl
    simp only [Except.ok.injEq] at h; subst h
    exact (compat_post minLen q rate hq1 t hv).1 hl

/-- `make_compatible` only rejects programs whose *total* length is no whole number of samples, too
short, or no multiple of the quantum (or `quantum = 0`); the decision is taken before anything is
modified, so a rejected program is left as it was -/
theorem makeCompatible_error (minLen q : Nat) (rate : Rat) (t : Loop) (e : Err)
    (h : makeCompatible minLen q rate t = .error e) :
    (e = .zeroDivision ∧ q = 0) ∨
    (e = .valueError ∧ ((duration t * rate).den ≠ 1 ∨ duration t * rate < (minLen : Rat) ∨
      (isCompatible minLen q rate t).isIncompatible = true)) := by
  unfold makeCompatible at h
  simp only at h
  split at h
  · rename_i h1; simp only [Except.error.injEq] at h; exact Or.inr ⟨h.symm, Or.inl h1⟩
  split at h
  · rename_i h2; simp only [Except.error.injEq] at h; exact Or.inr ⟨h.symm, Or.inr (Or.inl h2)⟩
  split at h
  · rename_i h3; simp only [Except.error.injEq] at h; exact Or.inl ⟨h.symm, h3⟩
  split at h
  all_goals (try simp at h)
  all_goals (rename_i hl; subst h; exact Or.inr ⟨rfl, Or.inr (Or.inr (by rw [hl]; rfl))⟩)

/-- rolling constant waveforms (repaired behaviour, PF-06) plays the same voltages for the same time -/
theorem rollConstant_preserves (minQ q : Nat) (rate : Rat) (t t' : Loop) (hv : noInnerWf t = true)
    (h : rollConstant true minQ q rate t = .ok t') : SamePulse t t' := by
  have hp := rollConstant_play minQ q rate t t' hv h
  refine ⟨hp, ?_⟩
  rw [duration_eq_play, duration_eq_play, ← sumDur_norm, hp, sumDur_norm]

/-- the duration of a rewrite's result, `none` if it raised -/
def resultDuration (r : Except Err Loop) : Option Rat :=
  match r with
  | .ok t => some (duration t)
  | .error _ => none

/-- the pinned `roll_constant_waveforms` (floor division without divisibility test) shortens a
constant waveform of 70 samples to 4 × 16 = 64 samples (PF-06); the repaired one leaves it alone -/
theorem rollConstantPinned_counterexample :
    duration (.mk 1 false false (some [⟨0, 70, true⟩]) []) = 70 ∧
    resultDuration (rollConstant false 1 16 1 (.mk 1 false false (some [⟨0, 70, true⟩]) [])) = some 64 ∧
    resultDuration (rollConstant true 1 16 1 (.mk 1 false false (some [⟨0, 70, true⟩]) [])) = some 70 := by
  decide +kernel

/-- the pinned `unroll_children` turns a leaf played three times into a leaf played once (PF-C06-1) -/
theorem unrollChildrenPinned_counterexample :
    duration (.mk 3 false false (some [⟨0, 4, false⟩]) []) = 12 ∧
    duration (unrollChildrenPinned (.mk 3 false false (some [⟨0, 4, false⟩]) [])) = 4 := by
  decide +kernel

/-- `smallest_factor_ge(n, m)` is the smallest divisor of `n` that is `≥ m` -/
theorem smallestFactorGe_spec (n m f : Nat) (h : smallestFactorGe n m = .ok f) :
    m ≤ f ∧ f ∣ n ∧ ∀ g, m ≤ g → g ∣ n → f ≤ g := smallestFactorGe_ok n m f h

theorem smallestFactorGe_defined (n m : Nat) (hm : 1 ≤ m) (hmn : m ≤ n) : ∃ f, smallestFactorGe n m = .ok f :=
  smallestFactorGe_total n m hm hmn

/-! ## non-vacuity -/

/-- a valid program that `make_compatible` really changes (two leaves of 2 and 3 × 1/2 time units at
2 samples per unit are merged into one 7-sample waveform played twice) -/
example :
    let t : Loop := .mk 2 false false none [.mk 1 false false (some [⟨1, 2, false⟩]) [], .mk 3 false false (some [⟨2, 1/2, true⟩]) []]
    valid t = true ∧ (makeCompatible 4 1 2 t).toOption.map leafDurs = some [7/2] ∧ leafDurs t = [2, 1/2] := by
  decide +kernel

/-- a depth-2 unbalanced program flattened to depth 1 -/
example :
    let t : Loop := .mk 2 false false none [.mk 1 false false (some [⟨1, 2, false⟩]) [],
      .mk 3 false false none [.mk 2 false false (some [⟨2, 1/2, true⟩]) [], .mk 1 false false (some [⟨3, 1, false⟩]) []]]
    noInnerWf t = true ∧ depth t = 2 ∧ isBalanced t = false ∧
    (flatten 100 1 t).toOption.map (fun t' => (depth t', isBalanced t', (leafDurs t').length)) = some (1, true, 7) := by
  decide +kernel

/-- a 128-sample constant is rolled into 8 × 16 samples -/
example : (rollConstant true 1 16 1 (.mk 1 false false (some [⟨0, 128, true⟩]) [])).toOption.map (fun t' => (t'.rep, leafDurs t')) = some (8, [16]) := by
  decide +kernel

end QP.Props.C06
