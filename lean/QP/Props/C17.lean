import QP.Proofs.C17Scale
import QP.Proofs.C17Labels
/-! Property theorems for C17 (the increment-command program plays the same voltage staircase). -/
namespace QP.Props.C17
open QP.C17

instance instDecEqExcept {ε α : Type} [DecidableEq ε] [DecidableEq α] : DecidableEq (Except ε α)
  | .ok a, .ok b => if h : a = b then isTrue (by rw [h]) else isFalse (by intro h'; cases h'; exact h rfl)
  | .error a, .error b => if h : a = b then isTrue (by rw [h]) else isFalse (by intro h'; cases h'; exact h rfl)
  | .ok _, .error _ => isFalse (by intro h; cases h)
  | .error _, .ok _ => isFalse (by intro h; cases h)

/-- the documented increment resolution `DEFAULT_INCREMENT_RESOLUTION = 1e-9` -/
def res9 : Rat := 1 / 1000000000

/-! ## the judge is the specification -/

theorem valsMatchB_iff (tol : Rat) : ∀ (a b : List (Option Rat)), valsMatchB tol a b = true ↔ valsMatch tol a b
  | [], [] => by simp [valsMatchB, valsMatch]
  | [], _ :: _ => by simp [valsMatchB, valsMatch]
  | none :: _, _ => by simp [valsMatchB, valsMatch]
  | some _ :: _, [] => by simp [valsMatchB, valsMatch]
  | some _ :: _, none :: _ => by simp [valsMatchB, valsMatch]
  | some a :: as, some b :: bs => by
    simp only [valsMatchB, valsMatch, Bool.and_eq_true, decide_eq_true_eq, valsMatchB_iff tol as bs]

/-- the executable judge `stairsMatchB` decides `StairsMatch` -/
theorem stairsMatchB_iff (tol : Rat) : ∀ (a b : History), stairsMatchB tol a b = true ↔ StairsMatch tol a b
  | [], [] => by simp [stairsMatchB, StairsMatch]
  | [], _ :: _ => by simp [stairsMatchB, StairsMatch]
  | _ :: _, [] => by simp [stairsMatchB, StairsMatch]
  | (t, v) :: r, (t', v') :: r' => by
    simp only [stairsMatchB, StairsMatch, Bool.and_eq_true, decide_eq_true_eq, valsMatchB_iff,
      stairsMatchB_iff tol r r', and_assoc]

/-! ## hardware scaling -/

/-- `_transform_linspace_commands`: executing the amplitude/offset-scaled commands produces, for every
fuel, the affine image `(v - offset) / amplitude` of what the original commands produce (same times,
same duration, same errors) — for ALL command lists. -/
theorem scaling (amps offs : List Rat) (cmds cmds' : List Cmd) (h : scale amps offs cmds = .ok cmds')
    (fuel nch : Nat) :
    run fuel nch cmds' =
      match run fuel nch cmds with
      | .error e => .error e
      | .ok (hist, t) => .ok (affineHist amps offs hist, t) := by
  simp only [run, Scale.scale_buildTargets h]
  cases buildTargets cmds 0 (fun _ => none) with
  | error e => rfl
  | ok tg =>
    simp only
    rcases Scale.runLoop_rel h tg fuel 0 (fun _ => none) _ _ (Scale.rel_init amps offs nch) with
      ⟨e, h1, h2⟩ | ⟨w, w', h1, h2, hr⟩
    · rw [h1, h2]
    · rw [h1, h2]; simp only [hr.hist, hr.time]

/-- scaling fails exactly on amplitude 0 / missing channel entries, never silently -/
theorem scaling_rejects_zero_amplitude (offs : List Rat) (ch : Nat) (v : Rat) (k : Key) (rest : List Cmd)
    (amps : List Rat) (ha : amps[ch]? = some 0) (ho : offs[ch]?.isSome) :
    scale amps offs (.set ch v k :: rest) = .error .zeroDivision := by
  obtain ⟨o, ho⟩ := Option.isSome_iff_exists.mp ho
  simp [scale, scaleCmd, ha, ho]

/-! ## VM termination (all programs, including the known-finding classes) -/

/-- The command list produced by the translator always has distinct labels and properly nested loops,
so `set_commands` accepts it and the VM halts: beyond some fuel the run never reports `fuel`
and its result no longer depends on the fuel. -/
theorem vm_terminates (res : Rat) (prog : List Node) (cmds : List Cmd) (nch : Nat)
    (h : translate res prog = .ok cmds) :
    ∃ fuel0, ∀ fuel, fuel0 ≤ fuel →
      run fuel nch cmds ≠ .error .fuel ∧ run fuel nch cmds = run fuel0 nch cmds := by
  rw [Struct.translate_eq] at h
  cases ht : Struct.trSL prog (Struct.TS.init res) with
  | error e => rw [ht] at h; cases h
  | ok r =>
    obtain ⟨s, c⟩ := r
    rw [ht] at h
    cases h
    have hl := (Struct.trSL_labels prog _ _ _ ht).2.1
    obtain ⟨fuel0, hrun⟩ := Struct.run_flat s hl nch
    refine ⟨fuel0, fun fuel hf => ?_⟩
    rw [hrun fuel hf, hrun fuel0 (Nat.le_refl _)]
    refine ⟨?_, rfl⟩
    cases hx : VMS.execL s (VM.init nch) with
    | ok vm => simp
    | error e =>
      -- a structured execution never reports `fuel`
      have := VMS.execL_no_fuel s (VM.init nch)
      rw [hx] at this
      simpa using this

/-! ## PF-22 (open): repetitions inside a translation state their body changes -/

/-- PF-22 witness: `for i in range(3): repeat 1: hold(a = i)` -/
def pf22Witness : List Node := [.iter [.rep [.hold [0] [some [1]] 1] 1] 3]

theorem pf22_witness_in_class : inPF22 res9 1 pf22Witness = true := by decide +kernel

/-- on the witness the translated program plays every step twice: the property is false of the model -/
def pf22WitnessCmds : List Cmd :=
  [.set 0 0 [1000000000], .wait 1, .label 0 0, .wait 1, .jmp 0,
   .label 1 2, .inc 0 1 [1000000000], .wait 1, .label 2 0, .wait 1, .jmp 2, .jmp 1]

/-- on the witness the translated program plays every step twice: the full-strength statement
`run (translate prog) = unrollStairs prog` is false of the model (and of the code, replayed by the harness) -/
theorem vm_translate_counterexample :
    translate res9 pf22Witness = .ok pf22WitnessCmds ∧
      run 100 1 pf22WitnessCmds =
        .ok ([(0, [some 0]), (1, [some 0]), (2, [some 1]), (3, [some 1]), (4, [some 2]), (5, [some 2])], 6) ∧
      unrollStairs pf22Witness = ([(0, [0]), (1, [1]), (2, [2])], 3) := by
  refine ⟨?_, ?_, ?_⟩ <;> decide +kernel

end QP.Props.C17
