import QP.Proofs.C17Scale
import QP.Proofs.C17Final
import QP.Proofs.C17Judge
/-!
# Property theorems for C17 — the increment-command program plays the same voltage staircase

Full-strength statement (FALSE of the code and of the model, see `vm_translate_counterexample`):

    ∀ res nch prog (well-formed), ∃ cmds, translate res prog = .ok cmds ∧
      ∃ fuel0, ∀ fuel ≥ fuel0, run fuel nch cmds = .ok (asHistory (unrollStairs prog).1, (unrollStairs prog).2)

What is proved: the statement for the fragment `inFragment` (`vm_translate_partial`): programs of the
shape the builder produces that lie OUTSIDE the known-finding classes — outside `inPF22` (every
repetition-free program, and every program whose repetition nodes are visited only in translation
states their body does not disturb / are first-pass-unrolled with count >= 2), with faithful keys
(outside `inDepthClash` / `resCollision`) and outside `inZeroKey`. So, up to the builder shape, the
property holds exactly outside the three finding classes (`fragment_outside_finding_classes`,
`norep_in_fragment`); inside each class the negation is proved on a concrete witness. Furthermore VM
termination for ALL programs (`vm_terminates`) and hardware scaling for ALL command lists (`scaling`).
-/
namespace QP.Props.C17
open QP.C17

instance instDecEqExcept {ε α : Type} [DecidableEq ε] [DecidableEq α] : DecidableEq (Except ε α)
  | .ok a, .ok b => if h : a = b then isTrue (by rw [h]) else isFalse (by intro h'; cases h'; exact h rfl)
  | .error a, .error b => if h : a = b then isTrue (by rw [h]) else isFalse (by intro h'; cases h'; exact h rfl)
  | .ok _, .error _ => isFalse (by intro h; cases h)
  | .error _, .ok _ => isFalse (by intro h; cases h)

/-- the documented increment resolution `DEFAULT_INCREMENT_RESOLUTION = 1e-9` -/
def res9 : Rat := 1 / 1000000000

/-! ## the judge is the specification -/

/-- the executable judge `stairsMatchB` decides `StairsMatch` (same times, voltages within `tol`) -/
theorem stairsMatchB_iff (tol : Rat) (a b : History) : stairsMatchB tol a b = true ↔ StairsMatch tol a b :=
  Judge.stairsMatchB_iff tol a b

/-! ## the translated program plays the staircase (fragment) -/

/-- **vm_translate (partial).** For every program of the fragment (holds, nested and sibling iterations,
repetitions outside the PF-22 class), for every channel count and resolution: translation succeeds, and
the VM — for every sufficiently large fuel — halts with exactly the (start time, per-channel voltage)
steps of `unrollStairs` and its total duration. No bound on depth, lengths, counts or number of holds. -/
theorem vm_translate_partial (res : Rat) (nch : Nat) (prog : List Node) (h : inFragment res nch prog = true) :
    ∃ cmds, translate res prog = .ok cmds ∧
      ∃ fuel0, ∀ fuel, fuel0 ≤ fuel →
        run fuel nch cmds = .ok (asHistory (unrollStairs prog).1, (unrollStairs prog).2) :=
  Frag.fragment_run h

/-- the fragment lies outside the PF-22, depth-clash, zero-key and resolution-collision classes -/
theorem fragment_outside_finding_classes (res : Rat) (nch : Nat) (prog : List Node)
    (h : inFragment res nch prog = true) :
    inPF22 res nch prog = false ∧ inDepthClash res prog = false ∧ inZeroKey res prog = false ∧
      resCollision res prog = false :=
  Judge.fragment_outside res nch prog h

/-- all repetition-free programs of the builder's shape with faithful, separated keys are covered -/
theorem norep_in_fragment (res : Rat) (nch : Nat) (prog : List Node) (hn : hasRepList prog = false)
    (hw : wellFormedList nch 0 prog = true) (hk : keyInj res (touchesList prog) = true)
    (hs : separated res (touchesList prog) (plainsList prog) = true) : inFragment res nch prog = true :=
  Judge.norep_in_fragment res nch prog hn hw hk hs

/-- non-vacuity: a two-channel staircase with nested and sibling iterations (lengths 3, 2, 1, 4), shared
registers with different bases, a plain channel value and negative factors is in the fragment -/
def fragmentExample : List Node :=
  [.hold [1/2, 3] [none, none] 2,
   .iter [ .hold [0, 3] [some [1], none] 1,
           .iter [.hold [1, 0] [some [1/2, -1/4], some [0, 2]] (3/2), .hold [5, 1] [some [1/2, -1/4], some [0, 2]] 1] 2,
           .iter [.hold [2, 7] [some [1/2, -1/4], none] 1] 1,
           .iter [.hold [2, 1] [some [1/2, -1/4], some [0, 2]] 1] 4 ] 3]

example : inFragment res9 2 fragmentExample = true := by decide +kernel

/-- non-vacuity with repetitions: a top-level repetition of a whole scan (loop around the first translation),
a "hackedy" repetition with count 3 inside an iteration it depends on (first pass unrolled, loop of 2), and a
repetition whose body repeats the preceding hold (translation state undisturbed) -/
def fragmentExampleRep : List Node :=
  [.rep [.iter [.hold [0] [some [1]] 1] 3] 2,
   .iter [.rep [.hold [1/2] [some [1/4]] 1] 3] 2,
   .iter [.hold [2] [some [1/8]] 1, .rep [.hold [2] [some [1/8]] 2] 1] 3]

example : inFragment res9 1 fragmentExampleRep = true ∧ hasRepList fragmentExampleRep = true := by decide +kernel

/-! ## VM termination -/

/-- The command list produced by the translator — for EVERY program, also inside the finding classes —
has distinct labels and properly nested loops, so `set_commands` accepts it and the VM halts: beyond
some fuel the run never reports `fuel` and its result no longer depends on the fuel. -/
theorem vm_terminates (res : Rat) (prog : List Node) (cmds : List Cmd) (nch : Nat)
    (h : translate res prog = .ok cmds) :
    ∃ fuel0, ∀ fuel, fuel0 ≤ fuel →
      run fuel nch cmds ≠ .error .fuel ∧ run fuel nch cmds = run fuel0 nch cmds := by
  rw [Struct.translate_eq] at h
  cases ht : Struct.trSL prog (Struct.TS.init res) with
  | error e => rw [ht] at h; cases h
  | ok r =>
    obtain ⟨s, c⟩ := r
    rw [ht] at h
    cases h
    have hl := (Struct.trSL_labels prog _ _ _ ht).2.1
    obtain ⟨fuel0, hrun⟩ := Struct.run_flat s hl nch
    refine ⟨fuel0, fun fuel hf => ?_⟩
    rw [hrun fuel hf, hrun fuel0 (Nat.le_refl _)]
    refine ⟨?_, rfl⟩
    cases hx : VMS.execL s (VM.init nch) with
    | ok vm => simp
    | error e =>
      have := VMS.execL_no_fuel s (VM.init nch)
      rw [hx] at this
      simpa using this

/-! ## hardware scaling -/

/-- **scaling.** `_transform_linspace_commands`: executing the amplitude/offset-scaled commands produces,
for every fuel, the affine image `(v - offset) / amplitude` of what the original commands produce (same
times, same duration, same errors) — for ALL command lists. -/
theorem scaling (amps offs : List Rat) (cmds cmds' : List Cmd) (h : scale amps offs cmds = .ok cmds')
    (fuel nch : Nat) :
    run fuel nch cmds' =
      match run fuel nch cmds with
      | .error e => .error e
      | .ok (hist, t) => .ok (affineHist amps offs hist, t) := by
  simp only [run, Scale.scale_buildTargets h]
  cases buildTargets cmds 0 (fun _ => none) with
  | error e => rfl
  | ok tg =>
    simp only
    rcases Scale.runLoop_rel h tg fuel 0 (fun _ => none) _ _ (Scale.rel_init amps offs nch) with
      ⟨e, h1, h2⟩ | ⟨w, w', h1, h2, hr⟩
    · rw [h1, h2]
    · rw [h1, h2]; simp only [hr.hist, hr.time]

/-- the error branch: an amplitude of 0 is rejected, never divided by -/
theorem scaling_rejects_zero_amplitude (offs : List Rat) (ch : Nat) (v : Rat) (k : Key) (rest : List Cmd)
    (amps : List Rat) (ha : amps[ch]? = some 0) (ho : offs[ch]?.isSome) :
    scale amps offs (.set ch v k :: rest) = .error .zeroDivision := by
  obtain ⟨o, ho⟩ := Option.isSome_iff_exists.mp ho
  simp [scale, scaleCmd, ha, ho]

/-! ## PF-22 (open): repetitions inside a translation state their body changes -/

/-- PF-22 witness: `for i in range(3): repeat 1: hold(a = i)` -/
def pf22Witness : List Node := [.iter [.rep [.hold [0] [some [1]] 1] 1] 3]

def pf22WitnessCmds : List Cmd :=
  [.set 0 0 [1000000000], .wait 1, .label 0 0, .wait 1, .jmp 0,
   .label 1 2, .inc 0 1 [1000000000], .wait 1, .label 2 0, .wait 1, .jmp 2, .jmp 1]

theorem pf22_witness_in_class : inPF22 res9 1 pf22Witness = true := by decide +kernel

/-- on the witness the translated program plays every step twice: the full-strength statement
`run (translate prog) = unrollStairs prog` is false of the model (and of the code: replayed by the harness) -/
theorem vm_translate_counterexample :
    translate res9 pf22Witness = .ok pf22WitnessCmds ∧
      run 100 1 pf22WitnessCmds =
        .ok ([(0, [some 0]), (1, [some 0]), (2, [some 1]), (3, [some 1]), (4, [some 2]), (5, [some 2])], 6) ∧
      unrollStairs pf22Witness = ([(0, [0]), (1, [1]), (2, [2])], 3) := by
  refine ⟨?_, ?_, ?_⟩ <;> decide +kernel

/-! ## KF-C17-depth (open): one key at two nesting depths -/

/-- `for i in range(3): [hold(a = i, b = 0); for j in range(2): hold(a = i, b = j)]` -/
def depthWitness : List Node :=
  [.iter [.hold [0, 0] [some [1], none] 1, .iter [.hold [0, 0] [some [1, 0], some [0, 1]] 1] 2] 3]

theorem depth_witness_in_class : inDepthClash res9 depthWitness = true := by decide +kernel

/-- the translator asserts instead of producing commands -/
theorem depth_clash_counterexample : translate res9 depthWitness = .error .assertion := by decide +kernel

/-! ## KF-C17-zerokey (open): plain holds and a zero-factor indexed hold share register `()` -/

/-- `for i in range(2): [hold(a = 1., b = i); hold(a = 3 + 0*i, b = i); hold(a = 1., b = i)]` -/
def zeroKeyWitness : List Node :=
  [.iter [.hold [1, 0] [none, some [1]] 1, .hold [3, 0] [some [0], some [1]] 1, .hold [1, 0] [none, some [1]] 1] 2]

theorem zerokey_witness_in_class : inZeroKey res9 zeroKeyWitness = true := by decide +kernel

def zeroKeyWitnessCmds : List Cmd :=
  [.set 0 1 [], .set 1 0 [1000000000], .wait 1, .set 0 3 [], .wait 1, .wait 1, .label 0 1,
   .inc 1 1 [1000000000], .wait 1, .wait 1, .wait 1, .jmp 0]

/-- the third hold of every pass keeps the voltage 3 of the second one on channel 0 -/
theorem zero_key_counterexample :
    translate res9 zeroKeyWitness = .ok zeroKeyWitnessCmds ∧
      run 100 2 zeroKeyWitnessCmds =
        .ok ([(0, [some 1, some 0]), (1, [some 3, some 0]), (2, [some 3, some 0]),
              (3, [some 3, some 1]), (4, [some 3, some 1]), (5, [some 3, some 1])], 6) ∧
      unrollStairs zeroKeyWitness =
        ([(0, [1, 0]), (1, [3, 0]), (2, [1, 0]), (3, [1, 1]), (4, [3, 1]), (5, [1, 1])], 6) := by
  refine ⟨?_, ?_, ?_⟩ <;> decide +kernel

/-! ## KF-C17-indexreuse (open): a nested iteration re-uses the index name of an enclosing one -/

/-- what the builder produces for `for i in range(3): [hold(a = i); for i in range(2): hold(a = 10 + i/2)]`:
the inner hold has ONE factor at depth two -/
def indexReuseWitness : List Node :=
  [.iter [.hold [0] [some [1]] 1, .iter [.hold [10] [some [1/2]] 1] 2] 3]

theorem indexreuse_witness_in_class : inIndexReuse indexReuseWitness = true := by decide +kernel

/-- the translator asserts (`len(self.iterations) == len(factors)`) instead of producing commands -/
theorem index_reuse_counterexample : translate res9 indexReuseWitness = .error .assertion := by decide +kernel

/-- the proved fragment lies outside this class as well -/
theorem fragment_outside_indexreuse (res : Rat) (nch : Nat) (prog : List Node)
    (h : inFragment res nch prog = true) : inIndexReuse prog = false :=
  Judge.fragment_not_indexreuse res nch prog h

end QP.Props.C17
