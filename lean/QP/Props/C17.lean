import QP.Model.C17
/-! Property theorems for C17 (the increment-command program plays the same voltage staircase). -/
namespace QP.Props.C17
open QP.C17

/-- the documented increment resolution -/
def res9 : Rat := 1 / 1000000000

/-- PF-22 witness: `for i in range(3): repeat 1: hold(a = i)` -/
def pf22Witness : List Node := [.iter [.rep [.hold [0] [some [1]] 1] 1] 3]

theorem pf22_in_class : inPF22 res9 1 pf22Witness = true := by decide +kernel

end QP.Props.C17
