import QP.Proofs.C16Compile
/-!
Property theorems for C16 — the Tabor device program plays the quantised source program.

`Prog` is the depth-2 balanced form (`Prog.toLoop` embeds it into general `Loop`s, `play_toLoop`);
`playAdv`/`playTables` is the independent table player that also judges the real implementation's tables.
-/
namespace QP.Props.C16
open QP.C16

/-- a depth-2 balanced program, read as a general `Loop`, plays `playProg` -/
theorem play_toLoop (p : Prog) : (Prog.toLoop p).play = playProg p := play_toLoop' p

/-! ### parsing: the tables replay to the program -/

/-- `parse_aseq_program`: advanced table → sequence tables → waveforms with multiplicities reproduces the
play order of every depth-2 balanced program (whatever got de-duplicated) -/
theorem parse_play (p : Prog) : playTables (parse p) = some (playProg p) := parse_play' p

/-- `parse_single_seq_program` (single sequencing mode) -/
theorem parseSingle_play (rep : Nat) (es : List Entry) :
    playTables (parseSingle rep es) = some (repeatL rep (playEntries es)) := parseSingle_play' rep es

/-! ### every local rewrite of `prepare_program_for_advanced_sequence_mode` preserves the play order -/

/-- `_check_merge_with_next` (both tables have count 1 when it merges) -/
theorem merge_preserves (L : Limits) (a b : SeqTab) (h : mergeOk L a b = true) :
    (mergeTabs a b).play = a.play ++ b.play := mergeTabs_play L a b h

/-- `Loop.unroll_children` -/
theorem unrollChildren_preserves (t : SeqTab) : (unrollChildren t).play = t.play := unrollChildren_play t

/-- `Loop.split_one_child`: same play order, one more entry -/
theorem splitOneChild_preserves (es es' : List Entry) (h : splitOneChild es = .ok es') :
    playEntries es' = playEntries es ∧ es'.length = es.length + 1 := by
  obtain ⟨h1, h2, _⟩ := splitOneChild_ok es es' h
  exact ⟨h1, h2⟩

/-- `_check_partial_unroll`: when it reports success the table plays the same and is long enough -/
theorem partialUnroll_preserves (L : Limits) (t t' : SeqTab) (h : partialUnroll L t = .ok (some t')) :
    t'.play = t.play ∧ L.min ≤ t'.entries.length := by
  obtain ⟨h1, h2, _⟩ := partialUnroll_some L t t' h
  exact ⟨h1, h2⟩

/-- the `RuntimeError` of `split_one_child` inside `_check_partial_unroll` is unreachable -/
theorem partialUnroll_never_raises (L : Limits) (t : SeqTab) (e : Err) : partialUnroll L t ≠ .error e :=
  partialUnroll_no_error L t e

/-- one iteration of the `while` loop (any of: advance, merge with previous/next, partial unroll,
unroll a neighbour into the short table) -/
theorem step_preserves (L : Limits) (d : List SeqTab) (c : SeqTab) (r d' r' : List SeqTab)
    (h : step L d c r = .ok (d', r')) :
    playProg (d'.reverse ++ r') = playProg (d.reverse ++ c :: r) := (step_post L d c r d' r' h).1

/-- sequence tables are keyed with the scopes of their volatile entries: equal entries whose volatile counts
have the same property but live in different scopes get two tables … -/
theorem parse_keeps_scopes_apart :
    (parse [⟨1, none, [⟨2, 0, some (0, 0)⟩]⟩, ⟨1, none, [⟨2, 0, some (0, 1)⟩]⟩]).seqTabs.length = 2 := by decide

/-- … and share one table when property and scope agree -/
theorem parse_shares_same_scope :
    (parse [⟨1, none, [⟨2, 0, some (0, 0)⟩]⟩, ⟨3, none, [⟨2, 0, some (0, 0)⟩]⟩]).seqTabs.length = 1 := by decide

/-! ### the whole preparation -/

/-- accepted ⇒ same play order and every table has at least `min_seq_len` entries -/
theorem prepare_sound (n : Nat) (L : Limits) (p p' : Prog) (h : prepare n L p = .ok p') :
    playProg p' = playProg p ∧ ∀ t ∈ p', L.min ≤ t.entries.length := by
  obtain ⟨h1, h2⟩ := prepareLoop_ok L n [] p p' h
  exact ⟨by simpa using h1, h2 (fun t ht => by cases ht)⟩

/-- `setup_advanced_sequence_mode` (prepare + the two `assert`s per table): accepted ⇒ same play order and
every sequence table within the device bounds. (The upper bound is what the final `assert` enforces:
`_check_partial_unroll` can leave a table longer than `max_seq_len`, see `assertion_reachable`.) -/
theorem setupAdvanced_sound (n : Nat) (L : Limits) (p p' : Prog) (h : setupAdvanced n L p = .ok p') :
    playProg p' = playProg p ∧ ∀ t ∈ p', L.min ≤ t.entries.length ∧ t.entries.length ≤ L.max := by
  simp only [setupAdvanced] at h
  split at h
  · cases h
  · rename_i q hq
    split at h
    · rename_i hall
      cases h
      refine ⟨(prepare_sound n L p _ hq).1, ?_⟩
      intro t ht
      have := List.all_eq_true.mp hall t ht
      simpa [tabInLimits] using this
    · cases h

/-- rejected ⇒ the program object the caller still holds (already restructured in place by the earlier
iterations) plays exactly what it played before: rejected, never altered -/
theorem prepare_error_unchanged (n : Nat) (L : Limits) (p p' : Prog) (e : Err)
    (h : prepare n L p = .error (e, p')) : playProg p' = playProg p := by
  simpa using prepareLoop_error L n [] p e p' h

theorem setupAdvanced_error_unchanged (n : Nat) (L : Limits) (p p' : Prog) (e : Err)
    (h : setupAdvanced n L p = .error (e, p')) : playProg p' = playProg p := by
  simp only [setupAdvanced] at h
  split at h
  · rename_i e' he
    cases h
    exact prepare_error_unchanged n L p p' e he
  · rename_i q hq
    split at h
    · cases h
    · cases h
      exact (prepare_sound n L p _ hq).1

/-- the error classes of `prepare`: the two `TaborException`s, the `assert … > 0`, or (model only) no fuel -/
theorem prepare_error_class (n : Nat) (L : Limits) (p p' : Prog) (e : Err)
    (h : prepare n L p = .error (e, p')) : e = .tooLong ∨ e = .tooShort ∨ e = .assertion ∨ e = .fuel :=
  prepareLoop_error_class L n [] p e p' h

/-- termination: `Σ table counts + tables ahead` drops in every iteration, so `fuelFor p` iterations suffice -/
theorem prepare_terminates (L : Limits) (p p' : Prog) : prepare (fuelFor p) L p ≠ .error (.fuel, p') := by
  apply prepareLoop_fuel
  simp [fuelFor]

/-- the assertion after in-place unrolling is reachable: `_check_partial_unroll` unrolls 3 × 2 entries into a
table of 6 > `max_seq_len` = 4 and reports success; the `assert` of `setup_advanced_sequence_mode` then fires -/
theorem assertion_reachable :
    setupAdvanced 10 ⟨3, 4⟩ [⟨3, none, [⟨1, 0, none⟩, ⟨1, 1, none⟩]⟩] =
      .error (.assertion, [⟨1, none, [⟨1, 0, none⟩, ⟨1, 1, none⟩, ⟨1, 0, none⟩, ⟨1, 1, none⟩,
        ⟨1, 0, none⟩, ⟨1, 1, none⟩]⟩]) := by rfl

/-! ### quantisation and packing -/

/-- an accepted voltage becomes a 14-bit code -/
theorem code14_range (amp off v : Rat) (c : Nat) (h : code14 amp off v = .ok c) : c < 2 ^ 14 :=
  code14_lt amp off v c h

/-- a voltage outside `[off - amp, off + amp]` is rejected, not clipped -/
theorem code14_out_of_range (amp off v : Rat) (h : amp < v - off ∨ v - off < -amp) :
    code14 amp off v = .error .valueError := code14_rejects amp off v h

/-- one 16-bit word: 14-bit code and the two marker bits read back -/
theorem pack_unpack_word (a : Nat) (mA mB : Bool) (h : a < 2 ^ 14) :
    wordChan (packWord a mA mB) = a ∧ wordMA (packWord a mA mB) = mA ∧ wordMB (packWord a mA mB) = mB :=
  ⟨wordChan_pack a mA mB h, wordMA_pack a mA mB h, wordMB_pack a mA mB h⟩

/-- whole segments: `ch_a`, `ch_b`, `marker_a`, `marker_b` of `from_sampled(a, b, mA, mB)` are `a`, `b`, `mA`, `mB`
(markers at half rate, stored in the second half of every 16-sample quantum of channel A) -/
theorem pack_unpack (s : Seg) (raw : List Nat) (ha : ∀ x ∈ s.a, x < 2 ^ 14) (h : pack s = .ok raw) :
    unpack raw = some s := unpack_pack s raw ha h

/-- `_calc_sampled_segments`: every emitted segment has at least 192 samples, a multiple of 16 -/
theorem segment_limits (ss : List Seg) (segs : List (List Nat)) (w2s : List Nat)
    (h : calcSegments ss = .ok (segs, w2s)) :
    ∀ raw ∈ segs, ∃ n, raw.length = 2 * n ∧ 192 ≤ n ∧ n % 16 = 0 := (calcSegments_ok ss segs w2s h).1

/-- segment de-duplication keeps every waveform pointing at its own data -/
theorem segment_dedup (ss : List Seg) (segs : List (List Nat)) (w2s : List Nat)
    (h : calcSegments ss = .ok (segs, w2s)) :
    ∀ (i : Nat) s, ss[i]? = some s → ∃ k, w2s[i]? = some k ∧ segs[k]? = some (rawOf s) :=
  (calcSegments_ok ss segs w2s h).2

/-! ### end to end -/

/-- Advanced sequencing mode. Whatever `prepare` merged/unrolled/split and whatever `parse` and the segment
table de-duplicated: replaying the emitted advanced table, sequence tables and binary segments yields, in the
source program's play order, the binary data of the source waveforms (`pack_unpack` reads them back as the
codes and markers); all sequence tables and segments respect the device limits. -/
theorem compileAdvanced_plays (fuel : Nat) (L : Limits) (sample : WfId → Seg) (p : Prog) (C : Compiled)
    (h : compileAdvanced fuel L sample p = .ok C) :
    playAdv C.segs C.seqTabs C.adv = some ((playProg p).map (fun w => rawOf (sample w))) ∧
    (∀ tab ∈ C.seqTabs, L.min ≤ tab.length ∧ tab.length ≤ L.max) ∧
    (∀ raw ∈ C.segs, ∃ n, raw.length = 2 * n ∧ 192 ≤ n ∧ n % 16 = 0) := by
  simp only [compileAdvanced] at h
  split at h
  · cases h
  · rename_i p' hp'
    obtain ⟨s1, s2⟩ := setupAdvanced_sound fuel L p p' hp'
    obtain ⟨f1, f2, f3⟩ := finish_plays sample (parse p') C _ h (parse_play p')
    refine ⟨by rw [f1, s1], ?_, f3⟩
    intro tab htab
    have hmem : tab.length ∈ C.seqTabs.map List.length := List.mem_map.mpr ⟨tab, htab, rfl⟩
    rw [f2] at hmem
    obtain ⟨vt, hvt, hl⟩ := List.mem_map.mp hmem
    rcases parseTabs_lengths p' [] [] vt hvt with hh | ⟨t, ht, hlen⟩
    · cases hh
    · have := s2 t ht
      omega

/-- Single sequencing mode (with the repair PF-C16a: the one table is at most `max_seq_len` long; no lower
bound is enforced by `TaborProgram` — the driver pads with idle entries when arming). -/
theorem compileSingle_plays (L : Limits) (sample : WfId → Seg) (rep : Nat) (es : List Entry) (C : Compiled)
    (h : compileSingle L sample rep es = .ok C) :
    playAdv C.segs C.seqTabs C.adv = some ((repeatL rep (playEntries es)).map (fun w => rawOf (sample w))) ∧
    (∀ tab ∈ C.seqTabs, tab.length ≤ L.max) ∧
    (∀ raw ∈ C.segs, ∃ n, raw.length = 2 * n ∧ 192 ≤ n ∧ n % 16 = 0) := by
  simp only [compileSingle, setupSingle] at h
  split at h
  · cases h
  · rename_i T hT
    split at hT
    · cases hT
    · rename_i hlen
      cases hT
      obtain ⟨f1, f2, f3⟩ := finish_plays sample (parseSingle rep es) C _ h (parseSingle_play rep es)
      refine ⟨f1, ?_, f3⟩
      intro tab htab
      have hmem : tab.length ∈ C.seqTabs.map List.length := List.mem_map.mpr ⟨tab, htab, rfl⟩
      rw [f2] at hmem
      simp only [parseSingle, List.map_cons, List.map_nil, List.mem_singleton, parseEntries_length] at hmem
      omega

/-- a single-mode table longer than the device bound is rejected (repaired behaviour, PF-C16a) -/
theorem setupSingle_rejects (L : Limits) (rep : Nat) (es : List Entry) (h : L.max < es.length) :
    setupSingle L rep es = .error .tooLong := by
  simp [setupSingle, h]

/-! ### the hypotheses are satisfiable (non-vacuity) -/

/-- a program that needs merging and splitting is accepted -/
example : ∃ p', prepare 10 ⟨3, 8⟩ [⟨1, none, [⟨2, 0, none⟩]⟩, ⟨1, none, [⟨1, 1, none⟩]⟩, ⟨4, none, [⟨5, 2, none⟩]⟩] = .ok p' :=
  ⟨_, rfl⟩

/-- … and one that cannot be brought into form is rejected -/
example : ∃ e, prepare 10 ⟨3, 8⟩ [⟨1, none, [⟨1, 0, none⟩]⟩] = .error e := ⟨_, rfl⟩

example : playTables (parse [⟨2, none, [⟨3, 7, none⟩, ⟨1, 9, none⟩]⟩, ⟨2, none, [⟨3, 7, none⟩, ⟨1, 9, none⟩]⟩]) =
    some [7, 7, 7, 9, 7, 7, 7, 9, 7, 7, 7, 9, 7, 7, 7, 9] := by decide

example : pack ⟨List.replicate 16 5, List.replicate 16 9, List.replicate 8 true, List.replicate 8 false⟩ =
    .ok (List.replicate 16 9 ++ List.replicate 8 5 ++ List.replicate 8 (5 + 2 ^ 14)) := by rfl

end QP.Props.C16
