import QP.Proofs.C12
/-!
Property theorems for C12 — expressions evaluate to the value of the mathematical expression they
denote.  All statements quantify over *every* formula `e : Expr` (structural induction, no depth
bound), every scope and every substitution.
-/
namespace QP.Props.C12
open QP.C12

/-! ### simultaneous substitution -/

/-- **Substitution lemma.** Evaluating `e` after the simultaneous substitution `σ` is evaluating `e` in
the scope in which every substituted name is bound to the value of its replacement *in the original
scope* — replacements are never substituted again.  Hypotheses: the replacements of the free names
of `e` have a value, and no summation index of `e` occurs free in them (the code does not rename
summation indices, see `eval_subst_capture`). -/
theorem eval_subst (e : Expr) (ρ : Env) (σ : Subst)
    (hok : ∀ x ∈ fv e, ∀ s, σ x = some s → ∃ v, eval ρ s = .ok v)
    (hcap : ∀ x ∈ fv e, ∀ s, σ x = some s → ∀ i ∈ bv e, i ∉ fv s) :
    eval ρ (subst σ e) = eval (ρ.after σ) e :=
  eval_subst_aux e ρ σ hok hcap

/-- a replacement without a value makes the substituted name fail with the replacement's error -/
theorem eval_subst_var_error (ρ : Env) (σ : Subst) (x : String) (s : Expr) (err : Err)
    (hσ : σ x = some s) (h : eval ρ s = .error err) : eval ρ (subst σ (.var x)) = .error err := by
  simp [subst, hσ, h]

/-- the substitution that exchanges two names -/
def swap (x y : String) : Subst := fun z => if z = x then some (.var y) else if z = y then some (.var x) else none

/-- **The swap `{x ↦ y, y ↦ x}`** evaluates every formula with the two values exchanged (a sequential
substitution would give both names the same value). -/
theorem eval_subst_swap (e : Expr) (ρ : Env) (x y : String) (vx vy : Val) (hxy : x ≠ y)
    (hx : ρ x = some vx) (hy : ρ y = some vy) (hbx : x ∉ bv e) (hby : y ∉ bv e) :
    eval ρ (subst (swap x y) e) = eval ((ρ.set x vy).set y vx) e := by
  have hyx : ¬ y = x := fun h => hxy h.symm
  rw [eval_subst]
  · apply eval_congr
    intro z _
    by_cases hzx : z = x
    · subst hzx
      simp [Env.after, swap, eval, hy, Env.set, hxy]
    · by_cases hzy : z = y
      · subst hzy
        simp [Env.after, swap, eval, hx, Env.set, hzx]
      · simp [Env.after, swap, Env.set, hzx, hzy]
  · intro z _ s hs
    by_cases hzx : z = x
    · simp [swap, hzx] at hs
      subst hs
      exact ⟨vy, by simp [eval, hy]⟩
    · by_cases hzy : z = y
      · simp [swap, hzy, hyx] at hs
        subst hs
        exact ⟨vx, by simp [eval, hx]⟩
      · simp [swap, hzx, hzy] at hs
  · intro z _ s hs i hi
    by_cases hzx : z = x
    · simp [swap, hzx] at hs
      subst hs
      simp only [fv, List.mem_singleton]
      exact fun h => hby (h ▸ hi)
    · by_cases hzy : z = y
      · simp [swap, hzy, hyx] at hs
        subst hs
        simp only [fv, List.mem_singleton]
        exact fun h => hbx (h ▸ hi)
      · simp [swap, hzx, hzy] at hs

/-- the swap on `a - b` with `a = 2`, `b = 5`: the value is `5 - 2`, not `0` -/
example : eval (Env.ofList [("a", .num 2), ("b", .num 5)])
      (subst (swap "a" "b") (.sub (.var "a") (.var "b"))) = .ok (.num 3) := by
  decide +kernel

/-- The hypothesis on summation indices cannot be dropped: the code substitutes under a `Sum` without
renaming its index (`Sum(a*i, (i, 0, 3))` with `a ↦ i` becomes `Sum(i**2, (i, 0, 3))`), so a
replacement that mentions the index is captured.  Numbers never mention an index, so numeric
substitution (`partial_then_total`) needs no such hypothesis. -/
theorem eval_subst_capture :
    let e := Expr.sum "i" (.num 0) (.num 3) (.mul (.var "a") (.var "i"))
    let σ : Subst := fun x => if x = "a" then some (.var "i") else none
    let ρ := Env.ofList [("i", .num 5)]
    eval ρ (subst σ e) = .ok (.num 14) ∧ eval (ρ.after σ) e = .ok (.num 30) := by
  decide +kernel

/-! ### partial numeric substitution -/

/-- **Substituting some names by their values first and evaluating the rest later gives the value of
evaluating at once** (in the union scope, the substituted values taking precedence). Holds for every
formula, every split of the scope, numbers and arrays alike. -/
theorem partial_then_total (e : Expr) (ρ₁ ρ₂ : Env) :
    eval ρ₂ (substNum ρ₁ e) = eval (ρ₁.over ρ₂) e := by
  unfold substNum
  rw [eval_subst]
  · apply eval_congr
    intro x _
    cases h : ρ₁ x <;> simp [Env.after, Env.over, Subst.ofEnv, h, eval]
  · intro x _ s hs
    cases h : ρ₁ x with
    | none => simp [Subst.ofEnv, h] at hs
    | some v =>
      simp [Subst.ofEnv, h] at hs
      subst hs
      exact ⟨v, by simp [eval]⟩
  · intro x _ s hs i _
    cases h : ρ₁ x with
    | none => simp [Subst.ofEnv, h] at hs
    | some v =>
      simp [Subst.ofEnv, h] at hs
      subst hs
      simp [fv]

/-- **every partial assignment order**: any sequence of partial numeric substitutions followed by an
evaluation is one evaluation in the union scope (earlier substitutions take precedence) -/
theorem partial_any_order (ρs : List Env) (e : Expr) (ρ : Env) :
    eval ρ (ρs.foldl (fun e ρ₁ => substNum ρ₁ e) e) = eval (ρs.foldr Env.over ρ) e := by
  induction ρs generalizing e with
  | nil => rfl
  | cons ρ₁ ρs ih =>
    simp only [List.foldl_cons, List.foldr_cons]
    rw [ih, partial_then_total]

/-- scopes that bind different names can be substituted in either order -/
theorem partial_commutes (e : Expr) (ρ₁ ρ₂ ρ : Env) (hdisj : ∀ x, ρ₁ x = none ∨ ρ₂ x = none) :
    eval ρ (substNum ρ₂ (substNum ρ₁ e)) = eval ρ (substNum ρ₁ (substNum ρ₂ e)) := by
  simp only [partial_then_total]
  apply eval_congr
  intro x _
  rcases hdisj x with h | h
  · cases h2 : ρ₂ x <;> simp [Env.over, h, h2]
  · cases h1 : ρ₁ x <;> simp [Env.over, h, h1]

/-- after substituting a value for every free name the formula is a number: it evaluates in any scope -/
theorem total_substitution_closed (e : Expr) (ρ₁ ρ ρ' : Env) (h : ∀ x ∈ fv e, (ρ₁ x).isSome) :
    eval ρ (substNum ρ₁ e) = eval ρ' (substNum ρ₁ e) := by
  simp only [partial_then_total]
  apply eval_congr
  intro x hx
  have := h x hx
  cases h1 : ρ₁ x with
  | none => simp [h1] at this
  | some v => simp [Env.over, h1]

/-! ### arithmetic between expressions and numbers -/

/-- a binary node evaluates both operands in the same scope and combines the two values -/
theorem bin_builds (ρ : Env) (op : BinOp) (e₁ e₂ : Expr) (v₁ v₂ : Val)
    (h₁ : eval ρ e₁ = .ok v₁) (h₂ : eval ρ e₂ = .ok v₂) :
    eval ρ (.bin op e₁ e₂) = op.eval v₁ v₂ := by
  simp [eval, h₁, h₂]

/-- **The formula built by an operator of `ExpressionScalar` has the operator's value**: for
`self ⊕ other` and the reflected `other ⊕ self` alike (`__rsub__`, `__rtruediv__`, `__rfloordiv__`
take the operands in the other order), division by zero being the error -/
theorem arith_builds (op : PyOp) (ρ : Env) (self other : Expr) (s o : Rat)
    (hs : eval ρ self = .ok (.num s)) (ho : eval ρ other = .ok (.num o)) :
    eval ρ (op.build self other) = match op.sem s o with | .ok r => .ok (.num r) | .error err => .error err := by
  have l2 : ∀ (f : ScBin) (a b : Rat), BinOp.eval (.sc f) (.sc (.q a)) (.sc (.q b))
      = match f.eval (.q a) (.q b) with | .ok s => .ok (.sc s) | .error e => .error e := by
    intro f a b
    have := liftN_scalars (bin2 f.eval) [.q a, .q b]
    simp only [List.map, bin2] at this
    exact this
  have l1 : ∀ (f : ScUn) (a : Rat), UnOp.eval (.sc f) (.sc (.q a))
      = match f.eval (.q a) with | .ok s => .ok (.sc s) | .error e => .error e := by
    intro f a
    have := liftN_scalars (un1 f.eval) [.q a]
    simp only [List.map, un1] at this
    exact this
  cases op with
  | add => simp [PyOp.build, PyOp.sem, eval, hs, ho, l2, ScBin.eval]
  | radd => simp [PyOp.build, PyOp.sem, eval, hs, ho, l2, ScBin.eval]
  | sub => simp [PyOp.build, PyOp.sem, eval, hs, ho, l2, ScBin.eval]
  | rsub => simp [PyOp.build, PyOp.sem, eval, hs, ho, l2, ScBin.eval]
  | mul => simp [PyOp.build, PyOp.sem, eval, hs, ho, l2, ScBin.eval]
  | rmul => simp [PyOp.build, PyOp.sem, eval, hs, ho, l2, ScBin.eval]
  | truediv => by_cases h0 : o = 0 <;> simp [PyOp.build, PyOp.sem, eval, hs, ho, l2, ScBin.eval, h0]
  | rtruediv => by_cases h0 : s = 0 <;> simp [PyOp.build, PyOp.sem, eval, hs, ho, l2, ScBin.eval, h0]
  | floordiv =>
    by_cases h0 : o = 0 <;> simp [PyOp.build, PyOp.sem, eval, hs, ho, l2, l1, ScBin.eval, ScUn.eval, h0]
  | rfloordiv =>
    by_cases h0 : s = 0 <;> simp [PyOp.build, PyOp.sem, eval, hs, ho, l2, l1, ScBin.eval, ScUn.eval, h0]

/-- negation builds the negated formula -/
theorem neg_builds (ρ : Env) (self : Expr) (s : Rat) (hs : eval ρ self = .ok (.num s)) :
    eval ρ (.neg self) = .ok (.num (-s)) := by
  have := liftN_scalars (un1 ScUn.neg.eval) [.q s]
  simp only [List.map, un1, ScUn.eval] at this
  simp only [eval, hs, UnOp.eval]
  exact this

/-! ### vector expressions -/

/-- **An `ExpressionVector` evaluates every entry in the same scope**: the vector literal of the
entries has the array of the entries' (scalar) values, in order. -/
theorem eval_vec (ρ : Env) (es : List Expr) (ss : List Sc)
    (h : es.map (eval ρ) = ss.map (fun s => .ok (.sc s))) :
    eval ρ (Expr.vec es) = .ok (.vec ss) :=
  eval_vec_aux ρ es ss h

/-! ### arrays of sample times -/

/-- **Element-wise evaluation.** For a formula built from scalar constants, names, the element-wise
operators and `Piecewise`, in a scope whose arrays all have `n` samples: if the evaluation returns
`v` then `v` has `n` samples (or is a scalar, when no array is involved) and its `i`-th sample is the
value of the formula in the scope's `i`-th samples. -/
theorem eval_pointwise (e : Expr) (hp : Pointwise e) (ρ : Env) (n i : Nat)
    (hfit : ∀ x v, ρ x = some v → v.Fits n) (v : Val) (h : eval ρ e = .ok v) :
    v.Fits n ∧ (i < n → ∃ s, v.at i = some s ∧ eval (ρ.at i) e = .ok (.sc s)) :=
  eval_pointwise_aux e ρ n i hp hfit v h

/-- **Array evaluation is the map of scalar evaluation**: with the sample times `ts` bound to `t` and
scalars elsewhere, an array result lists, in order, the values of the formula at each sample time. -/
theorem eval_array_pointwise (e : Expr) (hp : Pointwise e) (ρ : Env) (t : String) (ts : List Rat)
    (hsc : ∀ x v, ρ x = some v → ∃ s, v = .sc s) (ys : List Sc)
    (h : eval (ρ.set t (.nums ts)) e = .ok (.vec ys)) :
    ts.map (fun x => eval (ρ.set t (.num x)) e) = ys.map (fun s => .ok (.sc s)) := by
  have hfit : ∀ x v, (ρ.set t (.nums ts)) x = some v → v.Fits ts.length := by
    intro x v hx
    by_cases hxt : x = t
    · simp [Env.set, hxt] at hx
      subst hx
      simp [Val.Fits, Val.nums]
    · simp [Env.set, hxt] at hx
      obtain ⟨s, rfl⟩ := hsc x v hx
      trivial
  have hat : ∀ i (hi : i < ts.length), (ρ.set t (.nums ts)).at i = ρ.set t (.num ts[i]) := by
    intro i hi
    funext x
    by_cases hxt : x = t
    · simp [Env.at, Env.set, hxt, Val.at, Val.nums, hi]
    · simp only [Env.at, Env.set, hxt, if_false]
      cases hx : ρ x with
      | none => rfl
      | some v =>
        obtain ⟨s, rfl⟩ := hsc x v hx
        simp [Val.at]
  apply List.ext_getElem?
  intro i
  obtain ⟨hf, hpt⟩ := eval_pointwise e hp _ ts.length i hfit _ h
  simp only [Val.Fits] at hf
  by_cases hi : i < ts.length
  · obtain ⟨s, hs, hev⟩ := hpt hi
    rw [hat i hi] at hev
    have hi' : i < ys.length := by omega
    simp [Val.at, hi'] at hs
    simp [hi, hi', hev, hs]
  · have hi' : ¬ i < ys.length := by omega
    simp [hi, hi']

/-! ### ordering comparisons -/

/-- **A comparison answers true / false only when that is the answer in every scope** in which the
two sides have a numeric value. -/
theorem cmp3_sound (c : Cmp) (e₁ e₂ : Expr) (t : Bool) (h : cmp3 c e₁ e₂ = some t)
    (ρ : Env) (a b : Rat) (h₁ : eval ρ e₁ = .ok (.num a)) (h₂ : eval ρ e₂ = .ok (.num b)) :
    c.holds a b = t := by
  unfold cmp3 at h
  split at h
  · rename_i hcl
    rw [eval_closed e₁ hcl.1 Env.empty ρ, eval_closed e₂ hcl.2 Env.empty ρ, h₁, h₂] at h
    simpa using h
  · simp at h

/-- it is the value of the comparison formula itself -/
theorem cmp3_sound_formula (c : Cmp) (e₁ e₂ : Expr) (t : Bool) (h : cmp3 c e₁ e₂ = some t)
    (ρ : Env) (a b : Rat) (h₁ : eval ρ e₁ = .ok (.num a)) (h₂ : eval ρ e₂ = .ok (.num b)) :
    eval ρ (.bin (.sc c.toBin) e₁ e₂) = .ok (.bool t) := by
  have hs := cmp3_sound c e₁ e₂ t h ρ a b h₁ h₂
  have := liftN_scalars (bin2 c.toBin.eval) [.q a, .q b]
  simp only [List.map] at this
  simp only [eval, h₁, h₂, BinOp.eval, this]
  cases c <;> simp_all [bin2, Cmp.toBin, ScBin.eval, Cmp.holds]

/-- two numbers are always decided; anything mentioning a free name is 'unknown' -/
theorem cmp3_decides_numbers (c : Cmp) (e₁ e₂ : Expr) (a b : Rat) (hc₁ : fv e₁ = []) (hc₂ : fv e₂ = [])
    (h₁ : eval Env.empty e₁ = .ok (.num a)) (h₂ : eval Env.empty e₂ = .ok (.num b)) :
    cmp3 c e₁ e₂ = some (c.holds a b) := by
  simp [cmp3, hc₁, hc₂, h₁, h₂]

theorem cmp3_unknown (c : Cmp) (e₁ e₂ : Expr) (h : fv e₁ ≠ [] ∨ fv e₂ ≠ []) : cmp3 c e₁ e₂ = none := by
  unfold cmp3
  split
  · rename_i hcl
    rcases h with h | h
    · exact absurd hcl.1 h
    · exact absurd hcl.2 h
  · rfl

/-! ### the judge -/

theorem closeB_iff (tol : Rat) (v w : Val) : Val.closeB tol v w = true ↔ Val.Close tol v w :=
  closeB_iff_aux tol v w

/-- the executable judge decides the property clause "the returned value is the formula's value" -/
theorem agreesB_iff (tol : Rat) (ρ : Env) (e : Expr) (got : Val) :
    agreesB tol ρ e got = true ↔ Agrees tol ρ e got := by
  unfold agreesB Agrees
  cases h : eval ρ e with
  | error err => simp
  | ok v => simp [closeB_iff]

/-! ### non-vacuity -/

/-- `eval_subst` applies to a formula with a sum, an index and a `Piecewise` -/
example :
    let e := Expr.ite (.lt (.var "a") (.var "b"))
      (.sum "i" (.num 0) (.var "n") (.mul (.var "a") (.var "i")))
      (.index (.var "w") (.num 1))
    let σ : Subst := fun x => if x = "a" then some (.add (.var "b") (.num 1)) else none
    let ρ := Env.ofList [("a", .num 2), ("b", .num 5), ("n", .num 3), ("w", .nums [7, 8, 9])]
    eval ρ (subst σ e) = .ok (.num 8) ∧ eval (ρ.after σ) e = .ok (.num 8) := by
  decide +kernel

/-- an element-wise formula over four sample times -/
example : eval (Env.ofList [("a", .num (3/2)), ("t", .nums [0, 1/2, 1, 2])])
      (.ite (.lt (.var "t") (.num 1)) (.var "t") (.var "a")) = .ok (.nums [0, 1/2, 3/2, 3/2]) := by
  decide +kernel

/-- the witness of PF-C12e is in the known class once `b, n, m, c` are numbers for sympy, and outside it before -/
example :
    let e := Expr.max (.add (.var "b") (.sum "i" (.var "n") (.var "m") (.var "b"))) (.var "c")
    InKnownClassClosedSum ["b", "n", "m", "c"] e = true ∧ InKnownClassClosedSum [] e = false := by
  decide +kernel

example : cmp3 .lt (.div (.num 1) (.num 3)) (.num (1/2)) = some true := by decide +kernel
example : cmp3 .lt (.var "a") (.num 2) = none := by decide +kernel

end QP.Props.C12
