import QP.Base
/-!
# C14 — model of `qupulse.utils.numeric.approximate_rational` / `_approximate_int`
and of the value-level behaviour of `qupulse.utils.types.TimeType`.

The model mirrors the code that exists: the `while True` loop of `_approximate_int` is `approxLoop`
with a fuel argument, Python's `//` is `Int.fdiv`, a division by zero is an explicit error.
-/
namespace QP.C14

inductive Err where
  | valueError        -- `abs_err <= 0`
  | zeroDivision      -- a `//` with zero divisor (Python raises ZeroDivisionError)
  | fuel              -- the model ran out of fuel (the Python loop would still be running)
  deriving Repr, BEq, DecidableEq

/-- loop state of `_approximate_int` -/
structure St where
  pa : Int
  qa : Int
  pb : Int
  qb : Int
  pfull : Int
  qfull : Int
  toLeft : Bool
  deriving Repr, BEq, DecidableEq

def St.init : St := ⟨0, 1, 1, 1, 1, 1, true⟩

/-- one iteration of the `while True` body: either the returned pair or the next state -/
def step (alpha lower upper den : Int) (s : St) : Except Err (Sum St (Int × Int)) :=
  let xNum := den * s.pb - alpha * s.qb
  let xDen := -den * s.pa + alpha * s.qa
  if xDen = 0 then .error .zeroDivision else
  let x := Int.fdiv (xNum + xDen - 1) xDen
  let pfull := s.pfull + x * s.pa
  let qfull := s.qfull + x * s.qa
  let pprev := pfull - s.pa
  let qprev := qfull - s.qa
  if (qfull * lower < pfull * den ∧ pfull * den < qfull * upper) ∨
     (qprev * lower < pprev * den ∧ pprev * den < qprev * upper) then
    let bound := if s.toLeft then upper else lower
    let kNum := den * s.pb - bound * s.qb
    let kDen := bound * s.qa - den * s.pa
    if kDen = 0 then .error .zeroDivision else
    let k := Int.fdiv kNum kDen + 1
    .ok (.inr (s.pb + k * s.pa, s.qb + k * s.qa))
  else
    .ok (.inl ⟨pprev, qprev, pfull, qfull, pfull, qfull, !s.toLeft⟩)

def approxLoop (alpha lower upper den : Int) : Nat → St → Except Err (Int × Int)
  | 0, _ => .error .fuel
  | n + 1, s =>
    match step alpha lower upper den s with
    | .error e => .error e
    | .ok (.inr r) => .ok r
    | .ok (.inl s') => approxLoop alpha lower upper den n s'

/-- `_approximate_int(alpha_num, d_num, den)` -/
def approxInt (fuel : Nat) (alpha d den : Int) : Except Err (Int × Int) :=
  approxLoop alpha (alpha - d) (alpha + d) den fuel St.init

/-- fuel that is always enough: every iteration strictly increases `q_b`, which never exceeds `den` -/
def fuelFor (den : Int) : Nat := den.toNat + 2

/-- `approximate_rational(x, abs_err)`; the result is the *pair* handed to `fraction_type` -/
def approximateRationalPair (x e : Rat) : Except Err (Int × Int) :=
  if e ≤ 0 then .error .valueError else
  let xp := x.num
  let xq : Int := x.den
  if xq = 1 then .ok (xp, 1) else
  let dp := e.num
  let dq : Int := e.den
  let n := Int.fdiv xp xq
  let a0 := Int.fmod xp xq
  let den : Int := Int.lcm xq dq
  let alpha := Int.fdiv (a0 * den) xq
  let d := Int.fdiv (dp * den) dq
  if alpha < d then .ok (0 + n * 1, 1) else
  match approxInt (fuelFor den) alpha d den with
  | .error err => .error err
  | .ok (p, q) => .ok (p + n * q, q)

def approximateRational (x e : Rat) : Except Err Rat :=
  match approximateRationalPair x e with
  | .error err => .error err
  | .ok (p, q) => if q = 0 then .error .zeroDivision else .ok (mkRat p q.natAbs * (if q < 0 then -1 else 1))

/-! ## Specification: the fraction of smallest denominator strictly inside `(x-e, x+e)` -/

/-- `r` is strictly inside the interval and no fraction with a smaller denominator is -/
def IsBestApprox (x e r : Rat) : Prop :=
  x - e < r ∧ r < x + e ∧
  ∀ (p : Int) (q : Nat), 0 < q → x - e < mkRat p q → mkRat p q < x + e → r.den ≤ q

/-- does an integer `p` with `lo < p/q < hi` exist?  (`q > 0`) -/
def hasFractionWithDen (lo hi : Rat) (q : Nat) : Bool :=
  let c : Int := (lo * q).floor + 1        -- the smallest integer strictly above `lo*q`
  decide ((c : Rat) < hi * q)

/-- executable twin of `IsBestApprox` (the judge) -/
def isBestApproxB (x e r : Rat) : Bool :=
  decide (x - e < r) && decide (r < x + e) &&
  (List.range r.den).all (fun q => q == 0 || !hasFractionWithDen (x - e) (x + e) q)

/-- which clause fails (for replay files) -/
def judge (x e r : Rat) : String :=
  if ¬ (x - e < r ∧ r < x + e) then "not-inside"
  else if r.den > 4000 then "inside-only"      -- minimality scan skipped: too many denominators
  else if isBestApproxB x e r then "ok" else "not-minimal"

/-! ## Value-level model of `TimeType`

`TimeType` wraps an exact rational; the model of an operator is the `Rat` operation.  What is
modelled here is *which* rational the implementation must produce for each operator and operand
kind, including the integer-valued ones. -/

/-- Python's `round(x)` (banker's rounding to an integer) -/
def roundHalfEven (x : Rat) : Int :=
  let f := x.floor
  let d := x - f
  if d < (1:Rat)/2 then f else if (1:Rat)/2 < d then f + 1 else if f % 2 = 0 then f else f + 1

/-- Python's `round(x, n)` on a rational (`Fraction.__round__` / `mpq.__round__` with `ndigits`):
round half to even at the `n`-th decimal digit (`n < 0`: tens, hundreds, …); the result is a rational -/
def roundNdigits (x : Rat) (n : Int) : Rat :=
  if 0 ≤ n then (roundHalfEven (x * (10 : Rat) ^ n.toNat) : Rat) / (10 : Rat) ^ n.toNat
  else (roundHalfEven (x / (10 : Rat) ^ (-n).toNat) : Rat) * (10 : Rat) ^ (-n).toNat

def pyFloorDiv (a b : Rat) : Int := (a / b).floor
def pyMod (a b : Rat) : Rat := a - b * (a / b).floor
def pyTrunc (x : Rat) : Int := if 0 ≤ x then x.floor else x.ceil

/-- Python's hash of a rational number (`sys.hash_info.modulus = 2^61 - 1`), before the final
`-1 → -2` adjustment is applied as well. -/
def hashModulus : Nat := 2 ^ 61 - 1

def powMod (b e m : Nat) : Nat := Id.run do
  let mut result := 1 % m
  let mut base := b % m
  let mut ex := e
  for _ in [0:64] do
    if ex % 2 == 1 then result := result * base % m
    base := base * base % m
    ex := ex / 2
  return result

def pyHashRat (x : Rat) : Int :=
  let P := hashModulus
  let dinv := powMod x.den (P - 2) P
  let h : Int :=
    if dinv = 0 then 0   -- denominator divisible by P: not reachable for the harness' values
    else Int.ofNat ((x.num.natAbs % P) * dinv % P)
  let h := if x.num < 0 then -h else h
  if h = -1 then -2 else h

/-- decimal literal accepted by `mpq(str(float).upper())`: `[-]digits[.digits][E[+-]digits]` -/
def parseDecimal (s : String) : Option Rat := do
  let s := s.toUpper
  let (mant, ex) ← match s.splitOn "E" with
    | [m] => some (m, (0 : Int))
    | [m, e] => do
        let e' := if e.startsWith "+" then (e.drop 1).toString else e
        some (m, ← e'.toInt?)
    | _ => none
  let neg := mant.startsWith "-"
  let mant := if neg then (mant.drop 1).toString else mant
  let (ip, fp) ← match mant.splitOn "." with
    | [i] => some (i, "")
    | [i, f] => some (i, f)
    | _ => none
  if ip.isEmpty && fp.isEmpty then none
  let digits := ip ++ fp
  if !digits.all Char.isDigit then none
  let n ← digits.toNat?
  let scale : Int := ex - fp.length
  let v : Rat := if scale ≥ 0 then (n : Rat) * ((10 : Rat) ^ scale.toNat) else (n : Rat) / ((10 : Rat) ^ (-scale).toNat)
  some (if neg then -v else v)

/-- exact value of a finite IEEE-754 double given by its 64 bits -/
def ofBits (b : Nat) : Option Rat :=
  let sign : Nat := b / 2 ^ 63 % 2
  let ex : Nat := b / 2 ^ 52 % 2 ^ 11
  let frac : Nat := b % 2 ^ 52
  if ex = 2047 then none else
  let m : Nat := if ex = 0 then frac else 2 ^ 52 + frac
  let e : Int := (if ex = 0 then (1:Int) else Int.ofNat ex) - 1075
  let v : Rat := if e ≥ 0 then (m : Rat) * (2 : Rat) ^ e.toNat else (m : Rat) / (2 : Rat) ^ (-e).toNat
  some (if sign = 1 then -v else v)

/-! ## Line protocol -/
open Sexp

def errS : Err → Sexp
  | .valueError => .list [.atom "error", .atom "value_error"]
  | .zeroDivision => .list [.atom "error", .atom "zero_division"]
  | .fuel => .list [.atom "error", .atom "fuel"]

def binop (op : String) (a b : Rat) : Sexp :=
  match op with
  | "add" => ofRat (a + b)
  | "sub" => ofRat (a - b)
  | "mul" => ofRat (a * b)
  | "truediv" => if b = 0 then errS .zeroDivision else ofRat (a / b)
  | "floordiv" => if b = 0 then errS .zeroDivision else ofInt (pyFloorDiv a b)
  | "mod" => if b = 0 then errS .zeroDivision else ofRat (pyMod a b)
  | "lt" => ofBool (a < b)
  | "le" => ofBool (a ≤ b)
  | "gt" => ofBool (a > b)
  | "ge" => ofBool (a ≥ b)
  | "eq" => ofBool (a = b)
  | _ => Sexp.err "unknown-binop"

def unop (op : String) (a : Rat) : Sexp :=
  match op with
  | "neg" => ofRat (-a)
  | "abs" => ofRat (if a < 0 then -a else a)
  | "floor" => ofInt a.floor
  | "ceil" => ofInt a.ceil
  | "trunc" => ofInt (pyTrunc a)
  | "round" => ofInt (roundHalfEven a)
  | "hash" => ofInt (pyHashRat a)
  | "int" => ofInt (pyTrunc a)
  | _ => Sexp.err "unknown-unop"

def handle : List Sexp → Sexp
  | [.atom "approx", x, e] =>
    match rat? x, rat? e with
    | some x, some e =>
      match approximateRationalPair x e with
      | .error err => errS err
      | .ok (p, q) => .list [.atom "ok", ofInt p, ofInt q]
    | _, _ => Sexp.err "bad-args"
  | [.atom "judge-approx", x, e, r] =>
    match rat? x, rat? e, rat? r with
    | some x, some e, some r => .list [.atom "judge", .atom (judge x e r)]
    | _, _, _ => Sexp.err "bad-args"
  | [.atom "binop", .atom op, a, b] =>
    match rat? a, rat? b with
    | some a, some b => binop op a b
    | _, _ => Sexp.err "bad-args"
  | [.atom "unop", .atom op, a] =>
    match rat? a with
    | some a => unop op a
    | _ => Sexp.err "bad-args"
  | [.atom "round-nd", a, n] =>
    match rat? a, int? n with
    | some a, some n => ofRat (roundNdigits a n)
    | _, _ => Sexp.err "bad-args"
  | [.atom "parse-decimal", .atom s] =>
    match parseDecimal s with
    | some r => .list [.atom "ok", ofRat r]
    | none => .list [.atom "error", .atom "value_error"]
  | [.atom "of-bits", b] =>
    match nat? b with
    | some b => match ofBits b with
      | some r => .list [.atom "ok", ofRat r]
      | none => .list [.atom "error", .atom "value_error"]
    | none => Sexp.err "bad-args"
  | _ => Sexp.err "c14-unknown-request"

end QP.C14
