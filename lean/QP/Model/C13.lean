import QP.Base
namespace QP.C13
open Sexp

def handle : List Sexp → Sexp
  | _ => Sexp.err "c13-not-implemented"

end QP.C13
