import QP.Base
/-!
# C13 — parameter scopes (`qupulse/parameter_scope.py`, `qupulse/pulses/range.py:RangeScope`)

Two layers:

* **Spec** (`Scope`, `denote`, `DependsVolatile`, `rebuild`): the immutable description of a stack of
  scope layers and the mapping / volatility it denotes.  Nothing here knows about caches.
* **Model** (`Caches`, `lookup`, `contains`, `keys`, `iter`, `len`, `items`, `asDict`, `volatile`,
  `changeConstants`): the code that exists, method by method, including the memo fields
  (`MappedScope._cache/_as_dict/_volatile_parameters_cache`, `RangeScope._as_dict`,
  `JointScope._as_dict/_volatile_parameters`) which are threaded through every call as a tree
  `Caches` of the same shape as the scope.  Python objects that are shared between two places of a
  stack have one memo in Python and two in the model; since memo contents are proved to be
  unobservable (`QP.Props.C13`) this does not change any answer.

Where Python raises, the model returns `.error <class>`.
-/
namespace QP.C13

abbrev Name := String
abbrev Val := Rat
/-- a Python `dict` / `FrozenDict` with string keys: association list, first match wins, keys are
required to be distinct by `WF` -/
abbrev Dict := List (Name × Val)

inductive Err where
  | parameterMissing   -- `ParameterNotProvidedException` (a `KeyError`)
  | keyError           -- plain `KeyError` (`JointScope._lookup[name]`)
  | typeError          -- item assignment on a `FrozenDict` (`MappedScope._cache` after `as_dict`)
  | valueError         -- only the pinned (unrepaired) `JointScope.get_volatile_parameters`, PF-07
  | attributeError     -- only the pinned (unrepaired) `JointScope.get_volatile_parameters`, PF-07
  | mismatch           -- memo tree does not fit the scope (not reachable from `fresh`)
  deriving Repr, BEq, DecidableEq

/-! ## Association lists -/

def alook {β : Type} (n : Name) : List (Name × β) → Option β
  | [] => none
  | (k, v) :: rest => if n = k then some v else alook n rest

def akeys {β : Type} (l : List (Name × β)) : List Name := l.map Prod.fst

/-- `{**d, k: v}` -/
def upsert (d : Dict) (k : Name) (v : Val) : Dict :=
  match d with
  | [] => [(k, v)]
  | (k', v') :: rest => if k' = k then (k, v) :: rest else (k', v') :: upsert rest k v

/-- `set(a) | set(b)` as a duplicate-free list (given `a`, `b` duplicate-free) -/
def unionKeys (a b : List Name) : List Name := a ++ b.filter (fun n => decide (n ∉ a))

/-- `set(l)` as a duplicate-free list -/
def dedup : List Name → List Name
  | [] => []
  | x :: xs => if x ∈ dedup xs then dedup xs else x :: dedup xs

/-- `s.add(k)` on a list-set -/
def insertName (k : Name) (l : List Name) : List Name := if k ∈ l then l else k :: l

/-! ## Expressions (sympy-parsed trees, as walked by the harness) -/

inductive Expr where
  | lit (q : Rat)
  | var (n : Name)
  | add (a b : Expr)
  | sub (a b : Expr)
  | mul (a b : Expr)
  | pow (a : Expr) (k : Nat)
  deriving Repr, Inhabited

namespace Expr

/-- free variables, with repetitions (`Expression.variables` as a set) -/
def vars : Expr → List Name
  | lit _ => []
  | var n => [n]
  | add a b => a.vars ++ b.vars
  | sub a b => a.vars ++ b.vars
  | mul a b => a.vars ++ b.vars
  | pow a _ => a.vars

/-- value in an environment; `none` iff a free variable has no value -/
def eval (ρ : Name → Option Val) : Expr → Option Val
  | lit q => some q
  | var n => ρ n
  | add a b => do let x ← a.eval ρ; let y ← b.eval ρ; pure (x + y)
  | sub a b => do let x ← a.eval ρ; let y ← b.eval ρ; pure (x - y)
  | mul a b => do let x ← a.eval ρ; let y ← b.eval ρ; pure (x * y)
  | pow a k => do let x ← a.eval ρ; pure (x ^ k)

end Expr

/-! ## Spec: scope stacks and what they denote -/

mutual
/-- a stack of scope layers (what the constructors of the four classes were given) -/
inductive Scope where
  /-- `DictScope(values, volatile)` -/
  | dict (vals : Dict) (vol : List Name)
  /-- `MappedScope(scope, mapping)` -/
  | mapped (inner : Scope) (m : List (Name × Expr))
  /-- `RangeScope(inner, index_name, index_value)` -/
  | range (inner : Scope) (idx : Name) (val : Val)
  /-- `JointScope(lookup)` -/
  | joint (es : Entries)
/-- the `lookup` dictionary of a `JointScope` -/
inductive Entries where
  | nil
  | cons (k : Name) (s : Scope) (rest : Entries)
end

mutual
/-- The mapping a stack denotes: the innermost definition of a name wins; mapping expressions are
evaluated simultaneously in the *outer* scope. -/
def denote : Scope → Name → Option Val
  | .dict vals _, n => alook n vals
  | .mapped inner m, n =>
    match alook n m with
    | some e => e.eval (denote inner)
    | none => denote inner n
  | .range inner idx v, n => if n = idx then some v else denote inner n
  | .joint es, n => denoteE es n
def denoteE : Entries → Name → Option Val
  | .nil, _ => none
  | .cons k s rest, n => if n = k then denote s n else denoteE rest n
end

mutual
/-- `n`'s value depends on a parameter marked volatile at the top: follow the defining expressions
down the stack; a loop index cuts the chain for its own name. -/
def DependsVolatile : Scope → Name → Prop
  | .dict _ vol, n => n ∈ vol
  | .mapped inner m, n =>
    match alook n m with
    | some e => ∃ v, v ∈ e.vars ∧ DependsVolatile inner v
    | none => DependsVolatile inner n
  | .range inner idx _, n => n ≠ idx ∧ DependsVolatile inner n
  | .joint es, n => DependsVolatileE es n
def DependsVolatileE : Entries → Name → Prop
  | .nil, _ => False
  | .cons k s rest, n => if n = k then DependsVolatile s n else DependsVolatileE rest n
end

mutual
/-- executable twin of `DependsVolatile` -/
def dependsVolatileB : Scope → Name → Bool
  | .dict _ vol, n => decide (n ∈ vol)
  | .mapped inner m, n =>
    match alook n m with
    | some e => e.vars.any (dependsVolatileB inner)
    | none => dependsVolatileB inner n
  | .range inner idx _, n => n ≠ idx && dependsVolatileB inner n
  | .joint es, n => dependsVolatileBE es n
def dependsVolatileBE : Entries → Name → Bool
  | .nil, _ => false
  | .cons k s rest, n => if n = k then dependsVolatileB s n else dependsVolatileBE rest n
end

def keysE : Entries → List Name
  | .nil => []
  | .cons k _ rest => k :: keysE rest

/-- `name in scope` — no memo is involved in any of the four `__contains__` -/
def contains : Scope → Name → Bool
  | .dict vals _, n => decide (n ∈ akeys vals)
  | .mapped inner m, n => decide (n ∈ akeys m) || contains inner n
  | .range inner idx _, n => decide (n = idx) || contains inner n
  | .joint es, n => decide (n ∈ keysE es)

mutual
/-- Well-formedness: the lists are dictionaries (distinct keys) and — the guard the code enforces
lazily with `ParameterNotProvidedException` — every variable of a mapping expression is a member of
the scope the `MappedScope` was built on, and every `JointScope` entry provides the name it is
listed under. -/
def wfB : Scope → Bool
  | .dict vals _ => decide (akeys vals).Nodup
  | .mapped inner m =>
    wfB inner && decide (akeys m).Nodup && m.all (fun ke => ke.2.vars.all (fun v => contains inner v))
  | .range inner _ _ => wfB inner
  | .joint es => wfBE es && decide (keysE es).Nodup
def wfBE : Entries → Bool
  | .nil => true
  | .cons k s rest => wfB s && contains s k && wfBE rest
end

def WF (s : Scope) : Prop := wfB s = true
def WFE (es : Entries) : Prop := wfBE es = true

mutual
/-- all names that occur as a key, index or volatile mark anywhere in the stack (finite candidate
set for the executable judges) -/
def names : Scope → List Name
  | .dict vals vol => akeys vals ++ vol
  | .mapped inner m => akeys m ++ names inner
  | .range inner idx _ => idx :: names inner
  | .joint es => namesE es
def namesE : Entries → List Name
  | .nil => []
  | .cons k s rest => k :: (names s ++ namesE rest)
end

/-- `l` lists exactly the names that have a value, each once -/
def IsKeySet (s : Scope) (l : List Name) : Prop := l.Nodup ∧ ∀ n, n ∈ l ↔ (denote s n).isSome
/-- `d` is the dictionary view of `s` -/
def IsDictOf (s : Scope) (d : Dict) : Prop := (akeys d).Nodup ∧ ∀ n, alook n d = denote s n
/-- `l` lists exactly the volatile names, each once -/
def IsVolSet (s : Scope) (l : List Name) : Prop := l.Nodup ∧ ∀ n, n ∈ l ↔ DependsVolatile s n

def isKeySetB (s : Scope) (l : List Name) : Bool :=
  decide l.Nodup && (l ++ names s).all (fun n => decide (n ∈ l) == (denote s n).isSome)
def isDictOfB (s : Scope) (d : Dict) : Bool :=
  decide (akeys d).Nodup && (akeys d ++ names s).all (fun n => decide (alook n d = denote s n))
def isVolSetB (s : Scope) (l : List Name) : Bool :=
  decide l.Nodup && (l ++ names s).all (fun n => decide (n ∈ l) == dependsVolatileB s n)

/-- `{k: new.get(k, old) for k, old in values.items()}` -/
def updateVals (vals : Dict) (c : Dict) : Dict :=
  vals.map (fun kv => (kv.1, match alook kv.1 c with | some v => v | none => kv.2))

mutual
/-- the stack built from the changed constants -/
def rebuild : Scope → Dict → Scope
  | .dict vals vol, c => .dict (updateVals vals c) vol
  | .mapped inner m, c => .mapped (rebuild inner c) m
  | .range inner idx v, c => .range (rebuild inner c) idx v
  | .joint es, c => .joint (rebuildE es c)
def rebuildE : Entries → Dict → Entries
  | .nil, _ => .nil
  | .cons k s rest, c => .cons k (rebuild s c) (rebuildE rest c)
end

/-! ## Model: the objects' memo fields -/

mutual
inductive Caches where
  | dict
  /-- `_cache`, `_as_dict`, `_volatile_parameters_cache` (key set) -/
  | mapped (inner : Caches) (cache : Dict) (asd : Option Dict) (volc : Option (List Name))
  /-- `_as_dict` -/
  | range (inner : Caches) (asd : Option Dict)
  /-- `_as_dict`, `_volatile_parameters` (key set) -/
  | joint (es : CachesE) (asd : Option Dict) (volc : Option (List Name))
inductive CachesE where
  | nil
  | cons (c : Caches) (rest : CachesE)
end

mutual
/-- memo state of freshly constructed objects -/
def fresh : Scope → Caches
  | .dict _ _ => .dict
  | .mapped inner _ => .mapped (fresh inner) [] none none
  | .range inner _ _ => .range (fresh inner) none
  | .joint es => .joint (freshE es) none none
def freshE : Entries → CachesE
  | .nil => .nil
  | .cons _ s rest => .cons (fresh s) (freshE rest)
end

mutual
/-- Memo invariant: the memo tree fits the stack and everything memoised is what the stack denotes.
Established by `fresh`, preserved by every method (`QP.Props.C13`). -/
def CacheOK : Scope → Caches → Prop
  | .dict _ _, .dict => True
  | .mapped inner m, .mapped ci cache asd volc =>
    CacheOK inner ci ∧
    (∀ n v, alook n cache = some v → denote (.mapped inner m) n = some v) ∧
    (∀ d, asd = some d → cache = d ∧ IsDictOf (.mapped inner m) d) ∧
    (∀ l, volc = some l → IsVolSet (.mapped inner m) l)
  | .range inner idx v, .range ci asd =>
    CacheOK inner ci ∧ (∀ d, asd = some d → IsDictOf (.range inner idx v) d)
  | .joint es, .joint ces asd volc =>
    CacheOKE es ces ∧ (∀ d, asd = some d → IsDictOf (.joint es) d) ∧
    (∀ l, volc = some l → IsVolSet (.joint es) l)
  | _, _ => False
def CacheOKE : Entries → CachesE → Prop
  | .nil, .nil => True
  | .cons _ s rest, .cons c crest => CacheOK s c ∧ CacheOKE rest crest
  | _, _ => False
end

abbrev Res (α : Type) := Except Err α × Caches

/-- `{v: get(v) for v in names}` with the memo state threaded through; stops at the first error -/
def getAll (get : Caches → Name → Res Val) : Caches → List Name → Res Dict
  | c, [] => (.ok [], c)
  | c, v :: vs =>
    let r := get c v
    match r.1 with
    | .error e => (.error e, r.2)
    | .ok x =>
      let r' := getAll get r.2 vs
      match r'.1 with
      | .error e => (.error e, r'.2)
      | .ok env => (.ok ((v, x) :: env), r'.2)

/-- `Expression._parse_evaluate_numeric_arguments` + `MappedScope._calc_parameter`'s handler: a
`KeyError` of either kind surfaces as `ParameterNotProvidedException` -/
def convertMissing : Err → Err
  | .keyError => .parameterMissing
  | e => e

/-- `expression.evaluate_in_scope(scope)` where `scope[v]` is `get` -/
def evalIn (get : Caches → Name → Res Val) (c : Caches) (e : Expr) : Res Val :=
  let r := getAll get c e.vars
  match r.1 with
  | .error err => (.error (convertMissing err), r.2)
  | .ok env =>
    match e.eval (fun v => alook v env) with
    | some x => (.ok x, r.2)
    | none => (.error .parameterMissing, r.2)   -- not reachable: `env` has every variable

/-- `MappedScope._calc_parameter` (`get` is the inner scope's `get_parameter`) -/
def calcParameter (get : Caches → Name → Res Val) (m : List (Name × Expr)) (ci : Caches) (n : Name) :
    Res Val :=
  match alook n m with
  | none => get ci n
  | some e => evalIn get ci e

/-- `MappedScope.get_parameter` -/
def mappedLookup (get : Caches → Name → Res Val) (m : List (Name × Expr)) (ci : Caches) (cache : Dict)
    (asd : Option Dict) (volc : Option (List Name)) (n : Name) : Res Val :=
  match alook n cache with
  | some v => (.ok v, .mapped ci cache asd volc)
  | none =>
    let r := calcParameter get m ci n
    match r.1 with
    | .error err => (.error err, .mapped r.2 cache asd volc)
    | .ok v =>
      -- `self._cache[parameter_name] = result`; after `as_dict()` the memo is the FrozenDict
      match asd with
      | some _ => (.error .typeError, .mapped r.2 cache asd volc)
      | none => (.ok v, .mapped r.2 ((n, v) :: cache) asd volc)

mutual
/-- `scope[name]` / `get_parameter` -/
def lookup : Scope → Caches → Name → Res Val
  | .dict vals _, c, n =>
    (match alook n vals with | some v => .ok v | none => .error .parameterMissing, c)
  | .mapped inner m, .mapped ci cache asd volc, n => mappedLookup (lookup inner) m ci cache asd volc n
  | .range inner idx v, .range ci asd, n =>
    if n = idx then (.ok v, .range ci asd)
    else let r := lookup inner ci n; (r.1, .range r.2 asd)
  | .joint es, .joint ces asd volc, n =>
    let r := lookupE es ces n
    (r.1, .joint r.2 asd volc)
  | _, c, _ => (.error .mismatch, c)
/-- `self._lookup[name].get_parameter(name)` -/
def lookupE : Entries → CachesE → Name → Except Err Val × CachesE
  | .nil, c, _ => (.error .keyError, c)
  | .cons k s rest, .cons c crest, n =>
    if n = k then let r := lookup s c n; (r.1, .cons r.2 crest)
    else let r := lookupE rest crest n; (r.1, .cons c r.2)
  | _, c, _ => (.error .mismatch, c)
end

/-- `RangeScope.as_dict` given the inner scope's `as_dict` -/
def rangeAsDict (innerAsDict : Caches → Res Dict) (idx : Name) (v : Val) (ci : Caches)
    (asd : Option Dict) : Res Dict :=
  match asd with
  | some d => (.ok d, .range ci asd)
  | none =>
    let r := innerAsDict ci
    match r.1 with
    | .error e => (.error e, .range r.2 none)
    | .ok d => let d' := upsert d idx v; (.ok d', .range r.2 (some d'))

/-- `MappedScope.keys` given the inner scope's `keys` -/
def mappedKeys (innerKeys : Caches → Res (List Name)) (m : List (Name × Expr)) (ci : Caches)
    (cache : Dict) (asd : Option Dict) (volc : Option (List Name)) : Res (List Name) :=
  let r := innerKeys ci
  match r.1 with
  | .error e => (.error e, .mapped r.2 cache asd volc)
  | .ok ks => (.ok (unionKeys (akeys m) ks), .mapped r.2 cache asd volc)

/-- `MappedScope.as_dict` (`self` is the scope itself, `innerKeys` its inner scope's `keys`) -/
def mappedAsDict (self : Scope) (innerKeys : Caches → Res (List Name)) (m : List (Name × Expr)) :
    Caches → Res Dict
  | .mapped ci cache (some d) volc => (.ok d, .mapped ci cache (some d) volc)
  | .mapped ci cache none volc =>
    let rk := mappedKeys innerKeys m ci cache none volc
    match rk.1 with
    | .error e => (.error e, rk.2)
    | .ok ks =>
      let r := getAll (lookup self) rk.2 ks
      match r.1 with
      | .error e => (.error e, r.2)
      | .ok d =>
        match r.2 with
        | .mapped ci' _ _ volc' => (.ok d, .mapped ci' d (some d) volc')   -- `self._cache = self._as_dict`
        | c' => (.error .mismatch, c')
  | c => (.error .mismatch, c)

/-- `ItemsView(self)` / `FrozenDict(self.items())` of the base class: iterate, look each key up -/
def jointItems (es : Entries) (c : Caches) : Res Dict :=
  getAll (lookup (.joint es)) c (keysE es)

mutual
/-- `scope.keys()` (observed as a list) -/
def keys : Scope → Caches → Res (List Name)
  | .dict vals _, c => (.ok (akeys vals), c)
  | .mapped inner m, .mapped ci cache asd volc => mappedKeys (keys inner) m ci cache asd volc
  | .range inner idx v, .range ci asd =>
    let r := rangeAsDict (asDict inner) idx v ci asd
    (match r.1 with | .ok d => .ok (akeys d) | .error e => .error e, r.2)
  | .joint es, c => (.ok (keysE es), c)
  | _, c => (.error .mismatch, c)
/-- `scope.as_dict()` -/
def asDict : Scope → Caches → Res Dict
  | .dict vals _, c => (.ok vals, c)
  | .mapped inner m, c =>
    mappedAsDict (.mapped inner m) (keys inner) m c
  | .range inner idx v, .range ci asd => rangeAsDict (asDict inner) idx v ci asd
  | .joint es, .joint ces asd volc =>
    match asd with
    | some d => (.ok d, .joint ces asd volc)
    | none =>
      let r := jointItems es (.joint ces none volc)
      match r.1 with
      | .error e => (.error e, r.2)
      | .ok d =>
        match r.2 with
        | .joint ces' _ volc' => (.ok d, .joint ces' (some d) volc')
        | c' => (.error .mismatch, c')
  | _, c => (.error .mismatch, c)
end

/-- `scope.items()` -/
def items : Scope → Caches → Res Dict
  | .dict vals _, c => (.ok vals, c)
  | .mapped inner m, c => asDict (.mapped inner m) c
  | .range inner idx v, c => asDict (.range inner idx v) c
  | .joint es, c => jointItems es c

/-- `iter(scope)` -/
def iter : Scope → Caches → Res (List Name)
  | .dict vals _, c => (.ok (akeys vals), c)
  | .mapped inner m, c => keys (.mapped inner m) c
  | .range inner idx _, .range ci asd =>
    let r := iter inner ci
    match r.1 with
    | .error e => (.error e, .range r.2 asd)
    | .ok l => (.ok (if contains inner idx then l else l ++ [idx]), .range r.2 asd)
  | .joint es, c => (.ok (keysE es), c)
  | _, c => (.error .mismatch, c)

/-- `len(scope)` -/
def len : Scope → Caches → Res Nat
  | .dict vals _, c => (.ok vals.length, c)
  | .mapped inner m, c =>
    let r := keys (.mapped inner m) c
    (match r.1 with | .ok l => .ok l.length | .error e => .error e, r.2)
  | .range inner idx _, .range ci asd =>
    let r := len inner ci
    match r.1 with
    | .error e => (.error e, .range r.2 asd)
    | .ok k => (.ok (k + (if contains inner idx then 0 else 1)), .range r.2 asd)
  | .joint es, c => (.ok (keysE es).length, c)
  | _, c => (.error .mismatch, c)

/-- the loop of `MappedScope._collect_volatile_parameters` over `self._mapping.items()`;
`getSelf` is `self[variable]`, `iv` the inner scope's volatile names, `acc` the dictionary under
construction (keys only) -/
def collectVol (getSelf : Caches → Name → Res Val) (iv : List Name) :
    List (Name × Expr) → List Name → Caches → Res (List Name)
  | [], acc, c => (.ok acc, c)
  | (k, e) :: rest, acc, c =>
    if e.vars.any (fun v => decide (v ∈ iv)) then
      -- `subs_vals[variable] = self[variable]` for the variables that are not volatile
      let r := getAll getSelf c (e.vars.filter (fun v => decide (v ∉ iv)))
      match r.1 with
      | .error err => (.error err, r.2)
      | .ok _ => collectVol getSelf iv rest (insertName k acc) r.2
    else
      collectVol getSelf iv rest (acc.filter (fun x => x ≠ k)) c

/-- `MappedScope.get_volatile_parameters` / `_collect_volatile_parameters` (key set); `innerVol` is the
inner scope's `get_volatile_parameters`, `getSelf` is `self[...]` -/
def mappedVolatile (innerVol : Caches → Res (List Name)) (getSelf : Caches → Name → Res Val)
    (m : List (Name × Expr)) : Caches → Res (List Name)
  | .mapped ci cache asd (some l) => (.ok l, .mapped ci cache asd (some l))
  | .mapped ci cache asd none =>
    let ri := innerVol ci
    match ri.1 with
    | .error e => (.error e, .mapped ri.2 cache asd none)
    | .ok iv =>
      if iv.isEmpty then (.ok [], .mapped ri.2 cache asd (some []))     -- `return inner_volatile`
      else
        let r := collectVol getSelf iv m iv (.mapped ri.2 cache asd none)
        match r.1 with
        | .error e => (.error e, r.2)
        | .ok l =>
          match r.2 with
          | .mapped ci' cache' asd' _ => (.ok l, .mapped ci' cache' asd' (some l))
          | c' => (.error .mismatch, c')
  | c => (.error .mismatch, c)

mutual
/-- key set of `scope.get_volatile_parameters()`; `JointScope` as repaired by `fixes/PF-07.diff` -/
def volatile : Scope → Caches → Res (List Name)
  | .dict _ vol, c => (.ok (dedup vol), c)
  | .mapped inner m, c => mappedVolatile (volatile inner) (lookup (.mapped inner m)) m c
  | .range inner idx _, .range ci asd =>
    let r := volatile inner ci
    (match r.1 with | .ok l => .ok (l.filter (fun n => n ≠ idx)) | .error e => .error e, .range r.2 asd)
  | .joint es, .joint ces asd volc =>
    match volc with
    | some l => (.ok l, .joint ces asd volc)
    | none =>
      let r := volatileE es ces
      match r.1 with
      | .error e => (.error e, .joint r.2 asd none)
      | .ok l => (.ok l, .joint r.2 asd (some l))
  | _, c => (.error .mismatch, c)
/-- `for name, scope in self._lookup.items(): if name in scope.get_volatile_parameters(): …` -/
def volatileE : Entries → CachesE → Except Err (List Name) × CachesE
  | .nil, c => (.ok [], c)
  | .cons k s rest, .cons c crest =>
    let r := volatile s c
    match r.1 with
    | .error e => (.error e, .cons r.2 crest)
    | .ok iv =>
      let r' := volatileE rest crest
      match r'.1 with
      | .error e => (.error e, .cons r.2 r'.2)
      | .ok l => (.ok (if k ∈ iv then k :: l else l), .cons r.2 r'.2)
  | _, c => (.error .mismatch, c)
end

/-- The pinned tree's `JointScope.get_volatile_parameters` (PF-07): `for parameter_name, scope in
self._lookup:` unpacks the first *key string*. -/
def volatileJointPinned : Entries → Except Err (List Name)
  | .nil => .ok []
  | .cons k _ _ => if k.length = 2 then .error .attributeError else .error .valueError

structure Changed where
  scope : Scope
  caches : Caches
  /-- the method returned `self` -/
  same : Bool

structure ChangedE where
  es : Entries
  caches : CachesE

mutual
/-- `scope.change_constants(new_constants)` -/
def changeConstants : Scope → Caches → Dict → Changed
  | .dict vals vol, c, new =>
    if (akeys vals).any (fun k => decide (k ∈ akeys new)) then
      ⟨.dict (updateVals vals new) vol, .dict, false⟩
    else ⟨.dict vals vol, c, true⟩
  | .mapped inner m, .mapped ci cache asd volc, new =>
    let r := changeConstants inner ci new
    if r.same then ⟨.mapped inner m, .mapped ci cache asd volc, true⟩     -- `scope is self._scope`
    else ⟨.mapped r.scope m, .mapped r.caches [] none none, false⟩
  | .range inner idx v, .range ci _, new =>
    let r := changeConstants inner ci new
    ⟨.range r.scope idx v, .range r.caches none, false⟩
  | .joint es, .joint ces _ _, new =>
    let r := changeConstantsE es ces new
    ⟨.joint r.es, .joint r.caches none none, false⟩
  | s, _, new => ⟨rebuild s new, fresh (rebuild s new), false⟩   -- memo tree does not fit: not reachable
def changeConstantsE : Entries → CachesE → Dict → ChangedE
  | .nil, _, _ => ⟨.nil, .nil⟩
  | .cons k s rest, .cons c crest, new =>
    let r := changeConstants s c new
    let r' := changeConstantsE rest crest new
    ⟨.cons k r.scope r'.es, .cons r.caches r'.caches⟩
  | es, _, new => ⟨rebuildE es new, freshE (rebuildE es new)⟩
end

/-! ## Histories -/

inductive Op where
  | get (n : Name)
  | has (n : Name)
  | iter
  | len
  | keys
  | items
  | asdict
  | vol
  | change (c : Dict)
  deriving Repr

inductive Ans where
  | val (r : Except Err Val)
  | bool (b : Bool)
  | names (r : Except Err (List Name))
  | len (r : Except Err Nat)
  | dict (r : Except Err Dict)
  | changed (same : Bool)

/-- one call on the current object -/
def step (s : Scope) (c : Caches) : Op → Ans × Scope × Caches
  | .get n => let r := lookup s c n; (.val r.1, s, r.2)
  | .has n => (.bool (contains s n), s, c)
  | .iter => let r := iter s c; (.names r.1, s, r.2)
  | .len => let r := len s c; (.len r.1, s, r.2)
  | .keys => let r := keys s c; (.names r.1, s, r.2)
  | .items => let r := items s c; (.dict r.1, s, r.2)
  | .asdict => let r := asDict s c; (.dict r.1, s, r.2)
  | .vol => let r := volatile s c; (.names r.1, s, r.2)
  | .change new => let r := changeConstants s c new; (.changed r.same, r.scope, r.caches)

def run (s : Scope) (c : Caches) : List Op → List Ans
  | [] => []
  | op :: ops => let r := step s c op; r.1 :: run r.2.1 r.2.2 ops

/-- what the property demands of one answer on the stack `s` -/
def AnsOK (s : Scope) : Op → Ans → Prop
  | .get n, .val r => r.toOption = denote s n
  | .has n, .bool b => (b = true ↔ (denote s n).isSome)
  | .iter, .names (.ok l) => IsKeySet s l
  | .keys, .names (.ok l) => IsKeySet s l
  | .len, .len (.ok k) => ∃ l, IsKeySet s l ∧ l.length = k
  | .items, .dict (.ok d) => IsDictOf s d
  | .asdict, .dict (.ok d) => IsDictOf s d
  | .vol, .names (.ok l) => IsVolSet s l
  | .change _, .changed _ => True
  | _, _ => False

/-- the key-set candidates of `len`: some duplicate-free list of the names with a value -/
def supportList (s : Scope) : List Name :=
  (dedup (names s)).filter (fun n => (denote s n).isSome)

/-- executable twin of `AnsOK` (the judge) -/
def ansOKB (s : Scope) : Op → Ans → Bool
  | .get n, .val r => decide (r.toOption = denote s n)
  | .has n, .bool b => b == (denote s n).isSome
  | .iter, .names (.ok l) => isKeySetB s l
  | .keys, .names (.ok l) => isKeySetB s l
  | .len, .len (.ok k) => decide ((supportList s).length = k)
  | .items, .dict (.ok d) => isDictOfB s d
  | .asdict, .dict (.ok d) => isDictOfB s d
  | .vol, .names (.ok l) => isVolSetB s l
  | .change _, .changed _ => true
  | _, _ => false

/-- the stack the next call talks about -/
def specNext (s : Scope) : Op → Scope
  | .change new => rebuild s new
  | _ => s

/-- every answer of a history is the answer the denoted mapping gives -/
def RunOK : Scope → List Op → List Ans → Prop
  | _, [], [] => True
  | s, op :: ops, a :: as => AnsOK s op a ∧ RunOK (specNext s op) ops as
  | _, _, _ => False

/-! ## Line protocol -/
open Sexp

def errName : Err → String
  | .parameterMissing => "parameter_missing"
  | .keyError => "key_error"
  | .typeError => "type_error"
  | .valueError => "value_error"
  | .attributeError => "attribute_error"
  | .mismatch => "mismatch"

def errS (e : Err) : Sexp := .list [.atom "error", .atom (errName e)]

def err? : String → Option Err
  | "parameter_missing" => some .parameterMissing
  | "key_error" => some .keyError
  | "type_error" => some .typeError
  | "value_error" => some .valueError
  | "attribute_error" => some .attributeError
  | _ => none

partial def expr? : Sexp → Option Expr
  | .list [.atom "lit", q] => (rat? q).map .lit
  | .list [.atom "var", .atom n] => some (.var n)
  | .list [.atom "add", a, b] => do some (.add (← expr? a) (← expr? b))
  | .list [.atom "sub", a, b] => do some (.sub (← expr? a) (← expr? b))
  | .list [.atom "mul", a, b] => do some (.mul (← expr? a) (← expr? b))
  | .list [.atom "pow", a, k] => do some (.pow (← expr? a) (← nat? k))
  | _ => none

def dict? : Sexp → Option Dict
  | .list xs => xs.mapM (fun x => match x with
      | .list [.atom k, v] => (rat? v).map (fun v => (k, v))
      | _ => none)
  | _ => none

def names? : Sexp → Option (List Name)
  | .list xs => xs.mapM (fun x => match x with | .atom k => some k | _ => none)
  | _ => none

mutual
partial def scope? : Sexp → Option Scope
  | .list [.atom "dict", vals, vol] => do some (.dict (← dict? vals) (← names? vol))
  | .list [.atom "mapped", inner, .list m] => do
      let inner ← scope? inner
      let m ← m.mapM (fun x => match x with
        | .list [.atom k, e] => (expr? e).map (fun e => (k, e))
        | _ => none)
      some (.mapped inner m)
  | .list [.atom "range", inner, .atom idx, v] => do some (.range (← scope? inner) idx (← rat? v))
  | .list [.atom "joint", .list es] => do some (.joint (← entries? es))
  | _ => none
partial def entries? : List Sexp → Option Entries
  | [] => some .nil
  | .list [.atom k, s] :: rest => do some (.cons k (← scope? s) (← entries? rest))
  | _ => none
end

def op? : Sexp → Option Op
  | .list [.atom "get", .atom n] => some (.get n)
  | .list [.atom "has", .atom n] => some (.has n)
  | .list [.atom "iter"] => some .iter
  | .list [.atom "len"] => some .len
  | .list [.atom "keys"] => some .keys
  | .list [.atom "items"] => some .items
  | .list [.atom "asdict"] => some .asdict
  | .list [.atom "vol"] => some .vol
  | .list [.atom "change", c] => (dict? c).map .change
  | _ => none

def dictS (d : Dict) : Sexp := .list (d.map (fun kv => .list [.atom kv.1, ofRat kv.2]))
def namesS (l : List Name) : Sexp := .list (l.map .atom)

def ansS : Ans → Sexp
  | .val (.ok v) => .list [.atom "ok", ofRat v]
  | .val (.error e) => errS e
  | .bool b => ofBool b
  | .names (.ok l) => .list [.atom "names", namesS l]
  | .names (.error e) => errS e
  | .len (.ok k) => .list [.atom "len", ofNat k]
  | .len (.error e) => errS e
  | .dict (.ok d) => .list [.atom "dict", dictS d]
  | .dict (.error e) => errS e
  | .changed same => .list [.atom "changed", ofBool same]

/-- an implementation answer, as sent by the harness; every error class that is not one of the
model's travels as `(error other)` and is never accepted where a value is due -/
def ans? (op : Op) (x : Sexp) : Option Ans :=
  let e? : Sexp → Option Err := fun x => match x with
    | .list [.atom "error", .atom e] => some ((err? e).getD .mismatch)
    | _ => none
  match op, x with
  | .get _, .list [.atom "ok", v] => (rat? v).map (fun v => .val (.ok v))
  | .get _, x => (e? x).map (fun e => .val (.error e))
  | .has _, x => (bool? x).map .bool
  | .len, .list [.atom "len", k] => (nat? k).map (fun k => .len (.ok k))
  | .len, x => (e? x).map (fun e => .len (.error e))
  | .items, .list [.atom "dict", d] => (dict? d).map (fun d => .dict (.ok d))
  | .items, x => (e? x).map (fun e => .dict (.error e))
  | .asdict, .list [.atom "dict", d] => (dict? d).map (fun d => .dict (.ok d))
  | .asdict, x => (e? x).map (fun e => .dict (.error e))
  | .change _, .list [.atom "changed", b] => (bool? b).map .changed
  | .change _, _ => none
  | _, .list [.atom "names", l] => (names? l).map (fun l => .names (.ok l))
  | _, x => (e? x).map (fun e => .names (.error e))

/-- Judge a history of implementation answers.  On a well-formed stack every answer is judged; on
a malformed one (a mapping expression mentions a name its outer scope lacks, or a joint entry does
not provide its name) only lookups are, since the property says nothing else about such stacks. -/
def judgeRun : Scope → Nat → List (Op × Ans) → Sexp
  | _, _, [] => .list [.atom "judge", .atom "ok"]
  | s, i, (op, a) :: rest =>
    let judged := wfB s || (match op with | .get _ => true | .change _ => true | _ => false)
    if judged && !ansOKB s op a then
      .list [.atom "judge", .atom "violates", ofNat i]
    else judgeRun (specNext s op) (i + 1) rest

def handle : List Sexp → Sexp
  | [.atom "run", s, .list ops] =>
    match scope? s, ops.mapM op? with
    | some s, some ops => .list (.atom "answers" :: (run s (fresh s) ops).map ansS)
    | _, _ => Sexp.err "bad-args"
  | [.atom "judge", s, .list ops, .list answers] =>
    match scope? s, ops.mapM op? with
    | some s, some ops =>
      if ops.length ≠ answers.length then Sexp.err "bad-args" else
      match (ops.zip answers).mapM (fun oa => (ans? oa.1 oa.2).map (fun a => (oa.1, a))) with
      | some oas => judgeRun s 0 oas
      | none => Sexp.err "bad-answer"
    | _, _ => Sexp.err "bad-args"
  | [.atom "wf", s] =>
    match scope? s with
    | some s => ofBool (wfB s)
    | none => Sexp.err "bad-args"
  | [.atom "pinned-joint-volatile", .list es] =>
    match entries? es with
    | some es => match volatileJointPinned es with
      | .ok l => .list [.atom "names", namesS l]
      | .error e => errS e
    | none => Sexp.err "bad-args"
  | _ => Sexp.err "c13-unknown-request"

end QP.C13
