import QP.Base
namespace QP.C17
open Sexp

def handle : List Sexp → Sexp
  | _ => Sexp.err "c17-not-implemented"

end QP.C17
