import QP.Base
/-!
# C17 — model of `qupulse.program.linspace`

* the LinSpace AST (`LinSpaceHold` / `LinSpaceRepeat` / `LinSpaceIter`),
* `to_increment_commands` = `_TranslationState.add_node` with the explicit translation state
  (`label_num`, `commands`, `iterations`, `active_dep`, `dep_states`, `plain_voltage`, `resolution`)
  including the "hackedy" first-pass unrolling of `_add_repetition_node`,
* `LinSpaceVM` (`set_commands` / `step` / `run`, the `while` loop with fuel),
* `ProgramEntry._transform_linspace_commands` (amplitude / offset scaling of the commands),
* the SPEC `unrollStairs`: the staircase of a LinSpace program by plain recursion over the AST.

The model mirrors the code that exists: where Python raises, the model returns `.error <class>`.
Floats are `Rat` (the harness keeps values on a dyadic grid where float arithmetic is exact).
`LinSpaceArbitraryWaveform` / `Play` and index dependent durations are outside the property
(the VM raises `NotImplementedError` for them) and are not modelled.
-/
namespace QP.C17

inductive Err where
  | assertion      -- an `assert` of the Python code fails
  | keyError       -- `dict[...]` on a missing key (register / label)
  | indexError     -- channel index outside the VM's channel tuple / the transformation list
  | zeroDivision   -- amplitude 0 in `_transform_linspace_commands`
  | notImplemented -- `change_state` on a control command
  | fuel           -- the model ran out of fuel (the Python `while` would still be running)
  deriving Repr, BEq, DecidableEq

/-- `DepKey.factors` -/
abbrev Key := List Int

/-- `DepState` -/
structure DepState where
  base : Rat
  its : List Nat
  deriving Repr, BEq, DecidableEq

/-- LinSpace AST. A hold carries per channel the base voltage and `none` (plain float voltage) or the
factors per enclosing iteration (outermost first). -/
inductive Node where
  | hold (bases : List Rat) (factors : List (Option (List Rat))) (dur : Rat)
  | rep (body : List Node) (count : Nat)
  | iter (body : List Node) (length : Nat)

inductive Cmd where
  | set (ch : Nat) (v : Rat) (key : Key)
  | inc (ch : Nat) (v : Rat) (key : Key)
  | wait (d : Rat)
  | label (idx : Nat) (count : Int)
  | jmp (idx : Nat)
  deriving Repr, BEq, DecidableEq

/-! ## DepKey -/

/-- Python's `round(x)` (banker's rounding to an integer) -/
def roundHalfEven (x : Rat) : Int :=
  let f := x.floor
  let d := x - f
  if d < (1:Rat)/2 then f else if (1:Rat)/2 < d then f + 1 else if f % 2 = 0 then f else f + 1

/-- `while voltages and voltages[-1] == 0: voltages = voltages[:-1]` -/
def stripZeros : List Rat → List Rat
  | [] => []
  | x :: xs =>
    match stripZeros xs with
    | [] => if x = 0 then [] else [x]
    | y :: ys => x :: y :: ys

/-- `DepKey.from_voltages(voltages, resolution)` -/
def depKey (res : Rat) (fs : List Rat) : Key :=
  (stripZeros fs).map (fun v => roundHalfEven (v / res))

/-! ## finite maps as functions -/

def upd {α} (m : Nat → Option α) (k : Nat) (v : α) : Nat → Option α :=
  fun k' => if k' = k then some v else m k'

def upd2 {α} (m : Nat → Key → Option α) (c : Nat) (k : Key) (v : α) : Nat → Key → Option α :=
  fun c' k' => if c' = c ∧ k' = k then some v else m c' k'

/-! ## `DepState.required_increment_from` -/

def reqIncGo : List Nat → List Nat → List Rat → Rat → Except Err Rat
  | o :: os, n :: ns, f :: fs, acc =>
    if o = n then reqIncGo os ns fs acc
    else if o < n then
      (if o = 0 then reqIncGo os ns fs (acc + f) else .error .assertion)
    else
      (if n = 0 then reqIncGo os ns fs (acc - f * (o : Rat)) else .error .assertion)
  | _, _, _, acc => .ok acc

/-- `new.required_increment_from(previous, factors)` -/
def reqInc (new prev : DepState) (fs : List Rat) : Except Err Rat :=
  if new.its.length ≠ prev.its.length then .error .assertion
  else if new.its.length ≠ fs.length then .error .assertion
  else reqIncGo prev.its new.its fs (new.base - prev.base)

/-! ## `dependencies()` -/

/-- `LinSpaceHold.dependencies`: channel ↦ {factors} for truthy factor tuples, as (channel, dep) pairs -/
def depsHold : List (Option (List Rat)) → Nat → List (Nat × List Rat)
  | [], _ => []
  | none :: fs, c => depsHold fs (c + 1)
  | some [] :: fs, c => depsHold fs (c + 1)
  | some (x :: xs) :: fs, c => (c, x :: xs) :: depsHold fs (c + 1)

/-- the filter of `LinSpaceIter.dependencies` applied to the dependencies of ONE body node:
the group of a channel is kept (with every dep shortened by its last entry) unless all of its
shortened deps are `()` -/
def depsIterBody (ps : List (Nat × List Rat)) : List (Nat × List Rat) :=
  ps.filterMap (fun p =>
    if ps.any (fun q => q.1 = p.1 ∧ q.2.dropLast ≠ []) then some (p.1, p.2.dropLast) else none)

mutual
/-- `node.dependencies()` as a list of (channel, dep) pairs (set semantics: only membership matters) -/
def deps : Node → List (Nat × List Rat)
  | .hold _ factors _ => depsHold factors 0
  | .rep body _ => depsList body
  | .iter body _ => depsIterList body
/-- union over a body (`LinSpaceRepeat.dependencies`) -/
def depsList : List Node → List (Nat × List Rat)
  | [] => []
  | n :: ns => deps n ++ depsList ns
/-- `LinSpaceIter.dependencies`: per body node the shortened groups -/
def depsIterList : List Node → List (Nat × List Rat)
  | [] => []
  | n :: ns => depsIterBody (deps n) ++ depsIterList ns
end

/-! ## `_TranslationState` -/

structure TState where
  labelNum : Nat
  commands : List Cmd
  iterations : List Nat
  activeDep : Nat → Option Key
  depStates : Nat → Key → Option DepState
  plainVoltage : Nat → Option Rat
  resolution : Rat

def TState.init (res : Rat) : TState :=
  ⟨0, [], [], fun _ => none, fun _ _ => none, fun _ => none, res⟩

def TState.emit (st : TState) (c : Cmd) : TState := { st with commands := st.commands ++ [c] }

/-- `get_dependency_state`: the set of looked-up states, as a list -/
def depLookup (st : TState) (ds : List (Nat × List Rat)) : List (Option DepState) :=
  ds.map (fun p => st.depStates p.1 (depKey st.resolution p.2))

/-- equality of Python `set`s represented as lists -/
def sameSet (a b : List (Option DepState)) : Bool :=
  a.all (fun x => b.contains x) && b.all (fun x => a.contains x)

/-- `set_voltage` -/
def setVoltage (st : TState) (ch : Nat) (v : Rat) : TState :=
  if st.activeDep ch ≠ some [] ∨ st.plainVoltage ch ≠ some v then
    { st.emit (.set ch v []) with
        activeDep := upd st.activeDep ch [], plainVoltage := upd st.plainVoltage ch v }
  else st

/-- `_set_indexed_voltage` -/
def setIndexedVoltage (st : TState) (ch : Nat) (base : Rat) (fs : List Rat) : Except Err TState :=
  let key := depKey st.resolution fs
  let new : DepState := ⟨base, st.iterations⟩
  match st.depStates ch key with
  | none =>
    if st.iterations.all (fun i => i = 0) then
      .ok { st.emit (.set ch base key) with
              activeDep := upd st.activeDep ch key, depStates := upd2 st.depStates ch key new }
    else .error .assertion
  | some cur =>
    match reqInc new cur fs with
    | .error e => .error e
    | .ok inc =>
      let st' := if inc ≠ 0 ∨ st.activeDep ch ≠ some key then st.emit (.inc ch inc key) else st
      .ok { st' with activeDep := upd st.activeDep ch key, depStates := upd2 st.depStates ch key new }

/-- the channel loop of `_add_hold_node` (`enumerate(zip(bases, factors))`) -/
def addHoldChannels : List Rat → List (Option (List Rat)) → Nat → TState → Except Err TState
  | b :: bs, none :: fs, ch, st => addHoldChannels bs fs (ch + 1) (setVoltage st ch b)
  | b :: bs, some facs :: fs, ch, st =>
    match setIndexedVoltage st ch b facs with
    | .error e => .error e
    | .ok st' => addHoldChannels bs fs (ch + 1) st'
  | _, _, _, st => .ok st

mutual
/-- `add_node` for a single node -/
def addNode : Node → TState → Except Err TState
  | .hold bases factors dur, st =>
    match addHoldChannels bases factors 0 st with
    | .error e => .error e
    | .ok st' => .ok (st'.emit (.wait dur))
  | .rep body count, st =>
    -- `_add_repetition_node`
    let ds := depsList body
    let pre := depLookup st ds
    let lbl := st.labelNum
    let st1 := { st with labelNum := st.labelNum + 1 }
    let pos := st1.commands.length
    let st2 := st1.emit (.label lbl count)
    match addNodes body st2 with
    | .error e => .error e
    | .ok st3 =>
      let post := depLookup st3 ds
      if sameSet pre post then .ok (st3.emit (.jmp lbl))
      else
        -- hackedy: `commands.pop(initial_position); commands.append(label); label.count -= 1`
        let st4 := { st3 with commands := st3.commands.eraseIdx pos ++ [.label lbl ((count : Int) - 1)] }
        match addNodes body st4 with
        | .error e => .error e
        | .ok st5 => .ok (st5.emit (.jmp lbl))
  | .iter body length, st =>
    -- `_add_iteration_node`
    let st1 := { st with iterations := st.iterations ++ [0] }
    match addNodes body st1 with
    | .error e => .error e
    | .ok st2 =>
      if length > 1 then
        let st3 := { st2 with iterations := st2.iterations.dropLast ++ [length - 1] }
        let lbl := st3.labelNum
        let st4 := { st3 with labelNum := st3.labelNum + 1 }
        let st5 := st4.emit (.label lbl ((length : Int) - 1))
        match addNodes body st5 with
        | .error e => .error e
        | .ok st6 =>
          let st7 := st6.emit (.jmp lbl)
          .ok { st7 with iterations := st7.iterations.dropLast }
      else .ok { st2 with iterations := st2.iterations.dropLast }
/-- `add_node` for a sequence of nodes -/
def addNodes : List Node → TState → Except Err TState
  | [], st => .ok st
  | n :: ns, st =>
    match addNode n st with
    | .error e => .error e
    | .ok st' => addNodes ns st'
end

/-- `to_increment_commands` (with the resolution explicit) -/
def translate (res : Rat) (prog : List Node) : Except Err (List Cmd) :=
  match addNodes prog (TState.init res) with
  | .error e => .error e
  | .ok st => .ok st.commands

/-! ## `LinSpaceVM` -/

/-- data part of the VM: `time`, `current_values` (`none` = the initial NaN), `registers`, `history` -/
structure VM where
  time : Rat
  cur : List (Option Rat)
  regs : Nat → Key → Option Rat
  hist : List (Rat × List (Option Rat))

def VM.init (nch : Nat) : VM := ⟨0, List.replicate nch none, fun _ _ => none, []⟩

/-- `change_state` -/
def changeState (cmd : Cmd) (vm : VM) : Except Err VM :=
  match cmd with
  | .wait d => .ok { vm with hist := vm.hist ++ [(vm.time, vm.cur)], time := vm.time + d }
  | .set ch v key =>
    if ch < vm.cur.length then
      .ok { vm with cur := vm.cur.set ch (some v), regs := upd2 vm.regs ch key v }
    else .error .indexError
  | .inc ch v key =>
    if ch < vm.cur.length then
      match vm.regs ch key with
      | none => .error .keyError
      | some x => .ok { vm with cur := vm.cur.set ch (some (x + v)), regs := upd2 vm.regs ch key (x + v) }
    else .error .indexError
  | _ => .error .notImplemented

/-- the label pass of `set_commands`: `label_targets[idx] = position + 1`, duplicates assert -/
def buildTargets : List Cmd → Nat → (Nat → Option Nat) → Except Err (Nat → Option Nat)
  | [], _, tg => .ok tg
  | .label i _ :: cs, pos, tg =>
    if (tg i).isSome then .error .assertion else buildTargets cs (pos + 1) (upd tg i (pos + 1))
  | _ :: cs, pos, tg => buildTargets cs (pos + 1) tg

/-- `run`: `while current_command < len(commands): step()` -/
def runLoop (cmds : List Cmd) (tg : Nat → Option Nat) :
    Nat → Nat → (Nat → Option Int) → VM → Except Err VM
  | 0, pc, _, vm => if pc < cmds.length then .error .fuel else .ok vm
  | fuel + 1, pc, counts, vm =>
    match cmds[pc]? with
    | none => .ok vm
    | some (.jmp i) =>
      match counts i with
      | none => .error .keyError
      | some c =>
        if c > 0 then
          match tg i with
          | none => .error .keyError
          | some t => runLoop cmds tg fuel t (upd counts i (c - 1)) vm
        else runLoop cmds tg fuel (pc + 1) counts vm
    | some (.label i c) => runLoop cmds tg fuel (pc + 1) (upd counts i (c - 1)) vm
    | some cmd =>
      match changeState cmd vm with
      | .error e => .error e
      | .ok vm' => runLoop cmds tg fuel (pc + 1) counts vm'

abbrev History := List (Rat × List (Option Rat))

/-- `vm = LinSpaceVM(nch); vm.set_commands(cmds); vm.run()`; result `(vm.history, vm.time)` -/
def run (fuel : Nat) (nch : Nat) (cmds : List Cmd) : Except Err (History × Rat) :=
  match buildTargets cmds 0 (fun _ => none) with
  | .error e => .error e
  | .ok tg =>
    match runLoop cmds tg fuel 0 (fun _ => none) (VM.init nch) with
    | .error e => .error e
    | .ok vm => .ok (vm.hist, vm.time)

/-! ## `ProgramEntry._transform_linspace_commands` (no voltage transformation callable) -/

def scaleCmd (amps offs : List Rat) : Cmd → Except Err Cmd
  | .inc ch v k =>
    match amps[ch]?, offs[ch]? with
    | some a, some _ => if a = 0 then .error .zeroDivision else .ok (.inc ch (v / a) k)
    | _, _ => .error .indexError
  | .set ch v k =>
    match amps[ch]?, offs[ch]? with
    | some a, some o => if a = 0 then .error .zeroDivision else .ok (.set ch ((v - o) / a) k)
    | _, _ => .error .indexError
  | c => .ok c

def scale (amps offs : List Rat) : List Cmd → Except Err (List Cmd)
  | [] => .ok []
  | c :: cs =>
    match scaleCmd amps offs c with
    | .error e => .error e
    | .ok c' =>
      match scale amps offs cs with
      | .error e => .error e
      | .ok cs' => .ok (c' :: cs')

/-- the affine map the hardware scaling applies to the voltage of channel `ch` -/
def affineVal (amps offs : List Rat) (ch : Nat) (v : Rat) : Rat :=
  (v - offs[ch]?.getD 0) / amps[ch]?.getD 1

def affineVals (amps offs : List Rat) : Nat → List (Option Rat) → List (Option Rat)
  | _, [] => []
  | ch, v :: vs => v.map (affineVal amps offs ch) :: affineVals amps offs (ch + 1) vs

def affineHist (amps offs : List Rat) (h : History) : History :=
  h.map (fun p => (p.1, affineVals amps offs 0 p.2))

/-! ## SPEC: the staircase of a LinSpace program, by plain recursion over the AST -/

/-- `Σ_k fs[k] * env[k]` -/
def dot : List Rat → List Nat → Rat
  | f :: fs, e :: es => f * (e : Rat) + dot fs es
  | _, _ => 0

/-- voltage of one channel of a hold when the enclosing iterations are at indices `env` -/
def holdValue (env : List Nat) (b : Rat) (f : Option (List Rat)) : Rat :=
  match f with
  | none => b
  | some fs => b + dot fs env

def repeatApp {α} (xs : List α) : Nat → List α
  | 0 => []
  | n + 1 => xs ++ repeatApp xs n

def iterApp {α} (f : Nat → List α) : Nat → List α
  | 0 => []
  | n + 1 => iterApp f n ++ f n

mutual
/-- the (duration, voltages) steps a node plays, `env` = indices of the enclosing iterations -/
def steps (env : List Nat) : Node → List (Rat × List Rat)
  | .hold bases factors dur => [(dur, List.zipWith (holdValue env) bases factors)]
  | .rep body count => repeatApp (stepsList env body) count
  | .iter body length => iterApp (fun m => stepsList (env ++ [m]) body) length
def stepsList (env : List Nat) : List Node → List (Rat × List Rat)
  | [] => []
  | n :: ns => steps env n ++ stepsList env ns
end

/-- attach start times -/
def withTimes : Rat → List (Rat × List Rat) → List (Rat × List Rat)
  | _, [] => []
  | t, (d, v) :: rest => (t, v) :: withTimes (t + d) rest

def totalDur : List (Rat × List Rat) → Rat
  | [] => 0
  | (d, _) :: rest => d + totalDur rest

/-- SPEC: the (start time, per-channel voltage) steps of the program and its total duration -/
def unrollStairs (prog : List Node) : List (Rat × List Rat) × Rat :=
  (withTimes 0 (stepsList [] prog), totalDur (stepsList [] prog))

/-- the VM history a faithful execution produces for a staircase -/
def asHistory (s : List (Rat × List Rat)) : History := s.map (fun p => (p.1, p.2.map some))

/-! ## Judge: two staircases agree within a tolerance -/

def valsMatch (tol : Rat) : List (Option Rat) → List (Option Rat) → Prop
  | [], [] => True
  | some a :: as, some b :: bs => (a - b ≤ tol ∧ b - a ≤ tol) ∧ valsMatch tol as bs
  | _, _ => False

def StairsMatch (tol : Rat) : History → History → Prop
  | [], [] => True
  | (t, v) :: r, (t', v') :: r' => t = t' ∧ valsMatch tol v v' ∧ StairsMatch tol r r'
  | _, _ => False

def valsMatchB (tol : Rat) : List (Option Rat) → List (Option Rat) → Bool
  | [], [] => true
  | some a :: as, some b :: bs => decide (a - b ≤ tol) && decide (b - a ≤ tol) && valsMatchB tol as bs
  | _, _ => false

/-- executable twin of `StairsMatch` (the judge) -/
def stairsMatchB (tol : Rat) : History → History → Bool
  | [], [] => true
  | (t, v) :: r, (t', v') :: r' => decide (t = t') && valsMatchB tol v v' && stairsMatchB tol r r'
  | _, _ => false

/-- which clause fails first (for replay files) -/
def judgeStairs (tol : Rat) : Nat → History → History → String
  | _, [], [] => "ok"
  | i, (t, v) :: r, (t', v') :: r' =>
    if t ≠ t' then s!"time-at-step-{i}"
    else if ¬ valsMatchB tol v v' then s!"voltage-at-step-{i}"
    else judgeStairs tol (i + 1) r r'
  | i, _, _ => s!"length-differs-at-step-{i}"

/-! ## Fragment and known-finding class predicates -/

/-- all (channel, factors) pairs of indexed holds: the registers a program touches -/
def touchesHold : List (Option (List Rat)) → Nat → List (Nat × List Rat)
  | [], _ => []
  | none :: fs, c => touchesHold fs (c + 1)
  | some f :: fs, c => (c, f) :: touchesHold fs (c + 1)

/-- channels with a plain (float) hold -/
def plainsHold : List (Option (List Rat)) → Nat → List Nat
  | [], _ => []
  | none :: fs, c => c :: plainsHold fs (c + 1)
  | some _ :: fs, c => plainsHold fs (c + 1)

mutual
def touches : Node → List (Nat × List Rat)
  | .hold _ factors _ => touchesHold factors 0
  | .rep body _ => touchesList body
  | .iter body _ => touchesList body
def touchesList : List Node → List (Nat × List Rat)
  | [] => []
  | n :: ns => touches n ++ touchesList ns
end

mutual
def plains : Node → List Nat
  | .hold _ factors _ => plainsHold factors 0
  | .rep body _ => plainsList body
  | .iter body _ => plainsList body
def plainsList : List Node → List Nat
  | [] => []
  | n :: ns => plains n ++ plainsList ns
end

mutual
def hasRep : Node → Bool
  | .hold .. => false
  | .rep .. => true
  | .iter body _ => hasRepList body
def hasRepList : List Node → Bool
  | [] => false
  | n :: ns => hasRep n || hasRepList ns
end

mutual
/-- shape the builder guarantees: every hold has `nch` channels, indexed factors have one entry per
enclosing iteration, iteration lengths and repetition counts are positive -/
def wellFormed (nch : Nat) : Nat → Node → Bool
  | d, .hold bases factors _ =>
    bases.length == nch && factors.length == nch &&
      factors.all (fun f => match f with | none => true | some fs => fs.length == d)
  | d, .rep body count => decide (count ≥ 1) && wellFormedList nch d body
  | d, .iter body length => decide (length ≥ 1) && wellFormedList nch (d + 1) body
def wellFormedList (nch : Nat) : Nat → List Node → Bool
  | _, [] => true
  | d, n :: ns => wellFormed nch d n && wellFormedList nch d ns
end

/-- registers are used faithfully: on one channel, equal keys mean equal factor tuples (same factors
up to the resolution AND same nesting depth) -/
def keyInj (res : Rat) (g : List (Nat × List Rat)) : Bool :=
  g.all (fun p => g.all (fun q =>
    !(p.1 == q.1 && depKey res p.2 == depKey res q.2) || p.2 == q.2))

/-- no channel mixes plain holds with an indexed hold whose key is `()` -/
def separated (res : Rat) (g : List (Nat × List Rat)) (pl : List Nat) : Bool :=
  g.all (fun p => !(depKey res p.2 == [] && pl.contains p.1))

/-- KF-C17-depth: on one channel the same key is used at two nesting depths
(`DepKey.from_voltages` strips trailing zeros) — `required_increment_from` asserts -/
def inDepthClash (res : Rat) (prog : List Node) : Bool :=
  let g := touchesList prog
  g.any (fun p => g.any (fun q =>
    p.1 == q.1 && depKey res p.2 == depKey res q.2 && p.2.length != q.2.length))

/-- KF-C17-zerokey: a channel has a plain hold and an indexed hold whose factors all round to 0:
both use the VM register `()` but are tracked separately by the translator -/
def inZeroKey (res : Rat) (prog : List Node) : Bool :=
  !separated res (touchesList prog) (plainsList prog)

/-- same key, same depth, different factors: the resolution merges two registers (the increments
then differ by less than the resolution per iteration; outside the exact model) -/
def resCollision (res : Rat) (prog : List Node) : Bool :=
  let g := touchesList prog
  g.any (fun p => g.any (fun q =>
    p.1 == q.1 && depKey res p.2 == depKey res q.2 && p.2.length == q.2.length && p.2 != q.2))

mutual
/-- every indexed hold has one factor per enclosing iteration -/
def factorDepthOK : Nat → Node → Bool
  | d, .hold _ factors _ => factors.all (fun f => match f with | none => true | some fs => fs.length == d)
  | d, .rep body _ => factorDepthOKList d body
  | d, .iter body _ => factorDepthOKList (d + 1) body
def factorDepthOKList : Nat → List Node → Bool
  | _, [] => true
  | d, n :: ns => factorDepthOK d n && factorDepthOKList d ns
end

/-- KF-C17-indexreuse: an indexed hold whose factor tuple is not as long as its nesting depth — the
builder keeps its ranges in a dict keyed by index name, so a nested iteration that re-uses the name of
an enclosing one loses a range; `required_increment_from` asserts `len(iterations) == len(factors)` -/
def inIndexReuse (prog : List Node) : Bool := !factorDepthOKList 0 prog

/-! ### PF-22 class: the state sweep

The translation state apart from the commands evolves independently of what is emitted:
`dep_states[ch][key] := (base, iterations)`, `active_dep[ch] := key`, `plain_voltage[ch] := v`.
`sweep` replays exactly that evolution (including the second pass of an iteration and of a
"hackedy" repetition) and records whether a repetition node is visited in a state for which the
emitted loop is wrong:
* the Python test `pre_dep_state != post_dep_state` fires and `count = 1` (label count 0 still plays
  the body once more), or
* it does not fire although the body changes an entry (`dep_states`, `active_dep`, `plain_voltage`)
  that was present before the body — later passes replay relative commands from the wrong origin. -/

structure Sweep where
  iterations : List Nat
  activeDep : Nat → Option Key
  depStates : Nat → Key → Option DepState
  plainVoltage : Nat → Option Rat
  flagged : Bool

def Sweep.init : Sweep := ⟨[], fun _ => none, fun _ _ => none, fun _ => none, false⟩

def sweepHold (res : Rat) : List Rat → List (Option (List Rat)) → Nat → Sweep → Sweep
  | b :: bs, none :: fs, ch, s =>
    sweepHold res bs fs (ch + 1) { s with activeDep := upd s.activeDep ch [], plainVoltage := upd s.plainVoltage ch b }
  | b :: bs, some facs :: fs, ch, s =>
    sweepHold res bs fs (ch + 1)
      { s with activeDep := upd s.activeDep ch (depKey res facs),
               depStates := upd2 s.depStates ch (depKey res facs) ⟨b, s.iterations⟩ }
  | _, _, _, s => s

/-- an entry present in `a` is different in `b`, looking at the registers `g` and channels `< nch` -/
def entryChanged (res : Rat) (nch : Nat) (g : List (Nat × List Rat)) (a b : Sweep) : Bool :=
  g.any (fun p =>
    (a.depStates p.1 (depKey res p.2)).isSome &&
      decide (a.depStates p.1 (depKey res p.2) ≠ b.depStates p.1 (depKey res p.2))) ||
  (List.range nch).any (fun c =>
    ((a.activeDep c).isSome && decide (a.activeDep c ≠ b.activeDep c)) ||
    ((a.plainVoltage c).isSome && decide (a.plainVoltage c ≠ b.plainVoltage c)))

mutual
def sweep (res : Rat) (nch : Nat) : Node → Sweep → Sweep
  | .hold bases factors _, s => sweepHold res bases factors 0 s
  | .rep body count, s =>
    let ds := depsList body
    let pre := ds.map (fun p => s.depStates p.1 (depKey res p.2))
    let s1 := sweepList res nch body s
    let post := ds.map (fun p => s1.depStates p.1 (depKey res p.2))
    let hack := !sameSet pre post
    let bad := if hack then count == 1 else entryChanged res nch (touchesList body) s s1
    let s2 := { s1 with flagged := s1.flagged || bad }
    if hack then sweepList res nch body s2 else s2
  | .iter body length, s =>
    let s1 := sweepList res nch body { s with iterations := s.iterations ++ [0] }
    if length > 1 then
      let s2 := sweepList res nch body { s1 with iterations := s1.iterations.dropLast ++ [length - 1] }
      { s2 with iterations := s2.iterations.dropLast }
    else { s1 with iterations := s1.iterations.dropLast }
def sweepList (res : Rat) (nch : Nat) : List Node → Sweep → Sweep
  | [], s => s
  | n :: ns, s => sweepList res nch ns (sweep res nch n s)
end

/-- PF-22 class predicate -/
def inPF22 (res : Rat) (nch : Nat) (prog : List Node) : Bool :=
  (sweepList res nch prog Sweep.init).flagged

/-- the fragment for which `vm_translate_partial` is proved: programs of the shape the builder produces,
outside the PF-22 class (in particular every program without repetition nodes), with faithful keys
(outside the depth-clash and resolution-collision classes) and outside the zero-key class -/
def inFragment (res : Rat) (nch : Nat) (prog : List Node) : Bool :=
  !inPF22 res nch prog && wellFormedList nch 0 prog &&
    keyInj res (touchesList prog) && separated res (touchesList prog) (plainsList prog)

/-! ## Line protocol -/
open Sexp

def errName : Err → String
  | .assertion => "assertion"
  | .keyError => "key_error"
  | .indexError => "index_error"
  | .zeroDivision => "zero_division"
  | .notImplemented => "not_implemented"
  | .fuel => "fuel"

def errS (e : Err) : Sexp := .list [.atom "error", .atom (errName e)]

def optRatS : Option Rat → Sexp
  | none => .atom "nan"
  | some r => ofRat r

def optRat? : Sexp → Option (Option Rat)
  | .atom "nan" => some none
  | s => (rat? s).map some

def keyS (k : Key) : Sexp := .list (k.map ofInt)

def cmdS : Cmd → Sexp
  | .set ch v k => .list [.atom "set", ofNat ch, ofRat v, keyS k]
  | .inc ch v k => .list [.atom "inc", ofNat ch, ofRat v, keyS k]
  | .wait d => .list [.atom "wait", ofRat d]
  | .label i c => .list [.atom "label", ofNat i, ofInt c]
  | .jmp i => .list [.atom "jmp", ofNat i]

def cmd? : Sexp → Option Cmd
  | .list [.atom "set", ch, v, k] => do
      pure (.set (← nat? ch) (← rat? v) (← listOf? int? k))
  | .list [.atom "inc", ch, v, k] => do
      pure (.inc (← nat? ch) (← rat? v) (← listOf? int? k))
  | .list [.atom "wait", d] => do pure (.wait (← rat? d))
  | .list [.atom "label", i, c] => do pure (.label (← nat? i) (← int? c))
  | .list [.atom "jmp", i] => do pure (.jmp (← nat? i))
  | _ => none

def factor? : Sexp → Option (Option (List Rat))
  | .atom "none" => some none
  | s => (listOf? rat? s).map some

partial def node? : Sexp → Option Node
  | .list [.atom "hold", bases, factors, dur] => do
      pure (.hold (← listOf? rat? bases) (← listOf? factor? factors) (← rat? dur))
  | .list (.atom "rep" :: count :: body) => do
      pure (.rep (← body.mapM node?) (← nat? count))
  | .list (.atom "iter" :: len :: body) => do
      pure (.iter (← body.mapM node?) (← nat? len))
  | _ => none

def histS (h : History) : Sexp :=
  .list (h.map (fun p => .list [ofRat p.1, .list (p.2.map optRatS)]))

def hist? : Sexp → Option History :=
  listOf? (fun s => match s with
    | .list [t, vs] => do pure ((← rat? t), (← listOf? optRat? vs))
    | _ => none)

def driverFuel : Nat := 20000000

def handle : List Sexp → Sexp
  | [.atom "run", nch, res, prog] =>
    match nat? nch, rat? res, listOf? node? prog with
    | some nch, some res, some prog =>
      let spec := unrollStairs prog
      let cls : List Sexp := [
        .list [.atom "spec", histS (asHistory spec.1), ofRat spec.2],
        .list [.atom "class",
          .list [.atom "pf22", ofBool (inPF22 res nch prog)],
          .list [.atom "depth", ofBool (inDepthClash res prog)],
          .list [.atom "zerokey", ofBool (inZeroKey res prog)],
          .list [.atom "rescollision", ofBool (resCollision res prog)],
          .list [.atom "indexreuse", ofBool (inIndexReuse prog)],
          .list [.atom "fragment", ofBool (inFragment res nch prog)]]]
      match translate res prog with
      | .error e => .list ([.atom "translate-error", .atom (errName e)] ++ cls)
      | .ok cmds =>
        let c := .list (.atom "cmds" :: cmds.map cmdS)
        match run driverFuel nch cmds with
        | .error e => .list ([.atom "run-error", .atom (errName e), c] ++ cls)
        | .ok (h, t) => .list ([.atom "ok", c, .list [.atom "hist", histS h, ofRat t]] ++ cls)
    | _, _, _ => Sexp.err "bad-args"
  | [.atom "vm", nch, cmds] =>
    match nat? nch, listOf? cmd? cmds with
    | some nch, some cmds =>
      match run driverFuel nch cmds with
      | .error e => errS e
      | .ok (h, t) => .list [.atom "ok", histS h, ofRat t]
    | _, _ => Sexp.err "bad-args"
  | [.atom "scale", amps, offs, cmds] =>
    match listOf? rat? amps, listOf? rat? offs, listOf? cmd? cmds with
    | some amps, some offs, some cmds =>
      match scale amps offs cmds with
      | .error e => errS e
      | .ok cs => .list (.atom "ok" :: cs.map cmdS)
    | _, _, _ => Sexp.err "bad-args"
  | [.atom "affine", amps, offs, h] =>
    match listOf? rat? amps, listOf? rat? offs, hist? h with
    | some amps, some offs, some h => .list [.atom "ok", histS (affineHist amps offs h)]
    | _, _, _ => Sexp.err "bad-args"
  | [.atom "judge", tol, expected, got] =>
    match rat? tol, hist? expected, hist? got with
    | some tol, some e, some g => .list [.atom "judge", .atom (judgeStairs tol 0 e g)]
    | _, _, _ => Sexp.err "bad-args"
  | _ => Sexp.err "c17-unknown-request"

end QP.C17
