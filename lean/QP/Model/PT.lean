import QP.Base
/-!
# Shared pulse-template model (properties C01, C02, C04; reused by C03, C05, C07, C10, C15)

Program side (mirrors the code that exists):
* `Expr`, `Scope` — sympy-parsed expressions with exact rational evaluation; `DictScope → MappedScope →
  RangeScope` chains with *lazy* lookup exactly as `qupulse/parameter_scope.py`, `pulses/range.py`.
* `Wf` — the waveform classes of `qupulse/program/waveforms.py` with pointwise `sample`
  (`none` = the NaN the allocation function leaves behind), `constDict`, and the smart constructors.
* `Loop`, `Item`, `applyItems`, `guardRun` — `qupulse/program/loop.py` (`Loop`, `LoopGuard`, `LoopBuilder`).
* `buildWaveform`, `internal`, `compile`, `createProgram` — `build_waveform`, `_internal_create_program`,
  `_create_program`, `create_program` of every pulse template class.

Spec side (no builder, no Loop, no waveform classes):
* `PL`, `Pulse`, `denote` — a pulse as duration + one piecewise linear function per channel + windows.
* `templateDuration` — the value of the class' symbolic `duration` expression.

Repaired behaviour modelled (see fixes/): PF-01 (`TableWaveform._validate_input` uses `next_interp`),
PF-02 (zero length linear segment takes the end value), PF-03 (`reverse_inplace` mirrors about
`body_duration`), PF-04 (C08's repair: the last piece of a sequence / repetition waveform is right-closed).  PF-11 (`ParallelChannelPulseTemplate` chains `(global, parallel)`) is modelled as the
code has it.
-/
namespace QP.PT
open QP

abbrev Chan := String
abbrev MName := String

/-- error classes, the enum of `harness/core.py: classify_exception` -/
inductive Err where
  | parameterMissing | constraintViolation | notInteger | valueError | keyError
  | zeroDivision | assertion | typeError | attributeError | exprVarMissing | unsupported
  deriving Repr, BEq, DecidableEq, Inhabited

def Err.tag : Err → String
  | .parameterMissing => "parameter_missing"
  | .constraintViolation => "constraint_violation"
  | .notInteger => "not_integer"
  | .valueError => "value_error"
  | .keyError => "key_error"
  | .zeroDivision => "zero_division"
  | .assertion => "assertion"
  | .typeError => "type_error"
  | .attributeError => "other:AttributeError"
  | .exprVarMissing => "other:ExpressionVariableMissingException"
  | .unsupported => "unsupported"

/-! ## Expressions -/

inductive Cmp where | lt | le | eq | ne | gt | ge
  deriving Repr, BEq, DecidableEq, Inhabited

def Cmp.holds (c : Cmp) (a b : Rat) : Bool :=
  match c with
  | .lt => decide (a < b) | .le => decide (a ≤ b) | .eq => decide (a = b)
  | .ne => decide (a ≠ b) | .gt => decide (b < a) | .ge => decide (b ≤ a)

/-- the sympy tree of an expression (n-ary `Add`/`Mul`/`Max`/`Min` are folded to binary by the decoder;
`a - b` arrives as `a + (-1)*b`, `a/b` as `a * b^(-1)`) -/
inductive Expr where
  | lit (q : Rat)
  | var (x : String)
  | add (a b : Expr)
  | mul (a b : Expr)
  | pow (a : Expr) (n : Int)
  | max (a b : Expr)
  | min (a b : Expr)
  | floor (a : Expr)
  | ceil (a : Expr)
  | abs (a : Expr)
  | cmp (c : Cmp) (a b : Expr)
  | unsupported
  deriving Repr, BEq, Inhabited

def ratPow (b : Rat) (n : Int) : Except Err Rat :=
  if 0 ≤ n then .ok (b ^ n.toNat)
  else if b = 0 then .error .zeroDivision
  else .ok ((b ^ n.natAbs)⁻¹)

/-- exact rational evaluation; `look` resolves variables (a scope lookup) -/
def Expr.eval (look : String → Except Err Rat) : Expr → Except Err Rat
  | .lit q => .ok q
  | .var x => look x
  | .add a b => do let x ← a.eval look; let y ← b.eval look; pure (x + y)
  | .mul a b => do let x ← a.eval look; let y ← b.eval look; pure (x * y)
  | .pow a n => do let x ← a.eval look; ratPow x n
  | .max a b => do let x ← a.eval look; let y ← b.eval look; pure (if x ≤ y then y else x)
  | .min a b => do let x ← a.eval look; let y ← b.eval look; pure (if x ≤ y then x else y)
  | .floor a => do let x ← a.eval look; pure (x.floor : Rat)
  | .ceil a => do let x ← a.eval look; pure (x.ceil : Rat)
  | .abs a => do let x ← a.eval look; pure (if 0 ≤ x then x else -x)
  | .cmp c a b => do let x ← a.eval look; let y ← b.eval look; pure (if c.holds x y then 1 else 0)
  | .unsupported => .error .unsupported

def Expr.vars : Expr → List String
  | .lit _ => []
  | .var x => [x]
  | .add a b | .mul a b | .max a b | .min a b | .cmp _ a b => a.vars ++ b.vars
  | .pow a _ | .floor a | .ceil a | .abs a => a.vars
  | .unsupported => []

/-! ## Scopes -/

inductive Scope where
  | dict (kv : List (String × Rat))
  | mapped (inner : Scope) (m : List (String × Expr))
  | range (inner : Scope) (idx : String) (v : Rat)
  deriving Repr, Inhabited

/-- `Scope.get_parameter`: a `MappedScope` evaluates the mapped expression in the *outer* scope (so all
mappings of one `MappingPT` are simultaneous) and lets unmapped names through; a `RangeScope` shadows. -/
def Scope.look : Scope → String → Except Err Rat
  | .dict kv, x => match kv.lookup x with
      | some v => .ok v
      | none => .error .parameterMissing
  | .mapped inner m, x => match m.lookup x with
      | some e => e.eval (Scope.look inner)
      | none => Scope.look inner x
  | .range inner idx v, x => if x = idx then .ok v else Scope.look inner x

def Scope.eval (σ : Scope) (e : Expr) : Except Err Rat := e.eval σ.look

/-- `checked_int_cast` (epsilon 1e-6): the nearest integer if it is that close -/
def checkedInt (x : Rat) : Option Int :=
  let r : Int := (x + 1/2).floor
  let d := x - r
  let ad := if 0 ≤ d then d else -d
  if ad > 1/1000000 then none else some r

/-- `checked_int_cast` raising `e` -/
def intOrErr (x : Rat) (e : Err) : Except Err Int :=
  match checkedInt x with
  | some a => .ok a
  | none => .error e

/-! ## Template syntax -/

inductive Interp where | hold | linear | jump
  deriving Repr, BEq, DecidableEq, Inhabited

structure MeasDecl where
  name : MName
  start : Expr
  len : Expr
  deriving Repr, Inhabited

abbrev Window := MName × Rat × Rat

structure TEntry where
  t : Expr
  v : Expr
  interp : Interp
  deriving Repr, Inhabited

/-- point pulse entry: one value broadcast to all channels (`bcast`) or one value per channel -/
structure PEntry where
  t : Expr
  vs : List Expr
  bcast : Bool
  interp : Interp
  deriving Repr, Inhabited

inductive AOp where | plus | minus | times | div
  deriving Repr, BEq, DecidableEq, Inhabited

inductive Scalar where
  | uniform (e : Expr)
  | perChan (m : List (Chan × Expr))
  deriving Repr, Inhabited

inductive PT where
  | const (id : Option String) (dur : Expr) (amps : List (Chan × Expr)) (meas : List MeasDecl)
  | table (id : Option String) (entries : List (Chan × List TEntry)) (meas : List MeasDecl) (cons : List Expr)
  | point (id : Option String) (chans : List Chan) (entries : List PEntry) (meas : List MeasDecl)
      (cons : List Expr)
  | func (id : Option String) (ch : Chan) (dur : Expr) (e : Expr) (meas : List MeasDecl) (cons : List Expr)
  | seq (id : Option String) (subs : List PT) (meas : List MeasDecl) (cons : List Expr)
  | rep (id : Option String) (body : PT) (count : Expr) (meas : List MeasDecl) (cons : List Expr)
  | forLoop (id : Option String) (body : PT) (idx : String) (start stop step : Expr)
      (meas : List MeasDecl) (cons : List Expr)
  | mapping (id : Option String) (body : PT) (pm : List (String × Expr)) (mm : List (MName × MName))
      (cm : List (Chan × Option Chan)) (cons : List Expr)
  | parallel (id : Option String) (body : PT) (over : List (Chan × Expr))
  | atomicMulti (id : Option String) (subs : List PT) (dur : Option Expr) (meas : List MeasDecl)
      (cons : List Expr)
  | arith (id : Option String) (body : PT) (op : AOp) (scalar : Scalar) (ptIsLhs : Bool)
  | arithAtomic (id : Option String) (lhs : PT) (minus : Bool) (rhs : PT) (meas : List MeasDecl)
  | timeReversal (id : Option String) (body : PT)
  deriving Repr, Inhabited

def PT.ident : PT → Option String
  | .const id .. | .table id .. | .point id .. | .func id .. | .seq id .. | .rep id ..
  | .forLoop id .. | .mapping id .. | .parallel id .. | .atomicMulti id .. | .arith id ..
  | .arithAtomic id .. | .timeReversal id .. => id

def dedup (xs : List String) : List String :=
  xs.foldl (fun acc x => if acc.contains x then acc else acc ++ [x]) []

mutual
/-- `defined_channels` of every class -/
def PT.definedChannels : PT → List Chan
  | .const _ _ amps _ => dedup (amps.map (·.1))
  | .table _ entries _ _ => dedup (entries.map (·.1))
  | .point _ chans _ _ _ => dedup chans
  | .func _ ch _ _ _ _ => [ch]
  | .seq _ subs _ _ => PT.firstChannels subs
  | .rep _ body _ _ _ => body.definedChannels
  | .forLoop _ body _ _ _ _ _ _ => body.definedChannels
  | .mapping _ body _ _ cm _ =>
      dedup (body.definedChannels.filterMap (fun c => match cm.lookup c with
        | some (some o) => some o
        | _ => none))
  | .parallel _ body over => dedup (body.definedChannels ++ over.map (·.1))
  | .atomicMulti _ subs _ _ _ => dedup (PT.allChannels subs)
  | .arith _ body _ _ _ => body.definedChannels
  | .arithAtomic _ lhs _ rhs _ => dedup (lhs.definedChannels ++ rhs.definedChannels)
  | .timeReversal _ body => body.definedChannels
def PT.firstChannels : List PT → List Chan
  | [] => []
  | p :: _ => p.definedChannels
def PT.allChannels : List PT → List Chan
  | [] => []
  | p :: ps => p.definedChannels ++ PT.allChannels ps
end

mutual
/-- `_is_atomic()` -/
def PT.isAtomic : PT → Bool
  | .const .. | .table .. | .point .. | .func .. | .atomicMulti .. | .arithAtomic .. => true
  | .seq .. | .rep .. | .forLoop .. => false
  | .mapping _ body .. => body.isAtomic
  | .parallel _ body _ => body.isAtomic
  | .arith _ body .. => body.isAtomic
  | .timeReversal _ body => body.isAtomic
end

/-! ## Transformations -/

inductive Trafo where
  | offset (m : List (Chan × Rat))
  | scaling (m : List (Chan × Rat))
  | parallel (m : List (Chan × Rat))
  deriving Repr, BEq, Inhabited

/-- a `ChainedTransformation` (applied left to right); `[]` stands for `None` -/
abbrev Chain := List Trafo

def Trafo.apply (T : Trafo) (data : List (Chan × Option Rat)) : List (Chan × Option Rat) :=
  match T with
  | .offset m => data.map (fun (c, v) => match m.lookup c with
      | some o => (c, v.map (· + o))
      | none => (c, v))
  | .scaling m => data.map (fun (c, v) => match m.lookup c with
      | some f => (c, v.map (· * f))
      | none => (c, v))
  | .parallel m =>
      data.map (fun (c, v) => match m.lookup c with
        | some o => (c, some o)
        | none => (c, v))
      ++ (m.filter (fun (c, _) => (data.lookup c).isNone)).map (fun (c, o) => (c, some o))

def Trafo.outChans (T : Trafo) (cs : List Chan) : List Chan :=
  match T with
  | .offset _ | .scaling _ => cs
  | .parallel m => cs ++ (m.map (·.1)).filter (fun c => !cs.contains c)

def Chain.apply (T : Chain) (data : List (Chan × Option Rat)) : List (Chan × Option Rat) :=
  T.foldl (fun d t => t.apply d) data

def Chain.outChans (T : Chain) (cs : List Chan) : List Chan :=
  T.foldl (fun c t => t.outChans c) cs

/-- `is_constant_invariant`: offset / scaling / parallel transformations with numeric (time independent)
values are, and a `ChainedTransformation` is if all its members are -/
def Chain.constInvariant (T : Chain) : Bool := T.all (fun _ => true)

/-! ## Waveforms -/

structure WEntry where
  t : Rat
  v : Rat
  interp : Interp
  deriving Repr, BEq, Inhabited

inductive Wf where
  | table (ch : Chan) (es : List WEntry)
  | const (dur : Rat) (ch : Chan) (v : Rat)
  | func (ch : Chan) (dur : Rat) (e : Expr) (env : List (String × Rat))
  | multi (subs : List Wf)
  | seq (subs : List Wf)
  | rep (body : Wf) (n : Nat)
  | trafo (inner : Wf) (T : Chain)
  | arith (lhs : Wf) (minus : Bool) (rhs : Wf)
  | neg (inner : Wf)
  | reversed (inner : Wf)
  deriving Repr, Inhabited

def lastT : List WEntry → Rat
  | [] => 0
  | [e] => e.t
  | _ :: es => lastT es

mutual
def Wf.duration : Wf → Rat
  | .table _ es => lastT es
  | .const d _ _ => d
  | .func _ d _ _ => d
  | .multi subs => Wf.firstDuration subs
  | .seq subs => Wf.sumDuration subs
  | .rep body n => body.duration * n
  | .trafo inner _ => inner.duration
  | .arith lhs _ _ => lhs.duration
  | .neg inner => inner.duration
  | .reversed inner => inner.duration
def Wf.firstDuration : List Wf → Rat
  | [] => 0
  | w :: _ => w.duration
def Wf.sumDuration : List Wf → Rat
  | [] => 0
  | w :: ws => w.duration + Wf.sumDuration ws
end

mutual
def Wf.channels : Wf → List Chan
  | .table ch _ => [ch]
  | .const _ ch _ => [ch]
  | .func ch _ _ _ => [ch]
  | .multi subs => Wf.channelsAll subs
  | .seq subs => Wf.channelsFirst subs
  | .rep body _ => body.channels
  | .trafo inner T => T.outChans inner.channels
  | .arith lhs _ rhs => lhs.channels ++ rhs.channels.filter (fun c => !lhs.channels.contains c)
  | .neg inner => inner.channels
  | .reversed inner => inner.channels
def Wf.channelsAll : List Wf → List Chan
  | [] => []
  | w :: ws => w.channels ++ Wf.channelsAll ws
def Wf.channelsFirst : List Wf → List Chan
  | [] => []
  | w :: _ => w.channels
end

/-- one interpolation strategy call `interp((t1,v1),(t2,v2), t)` (PF-02 repaired: a zero length linear
segment yields the end value) -/
def interpAt (i : Interp) (t1 v1 t2 v2 t : Rat) : Rat :=
  match i with
  | .hold => v1
  | .jump => v2
  | .linear => if t2 = t1 then v2 else (v2 - v1) / (t2 - t1) * (t - t1) + v1

/-- `TableWaveform.unsafe_sample`: every pair of consecutive entries writes the closed interval
`[t1, t2]`, later pairs overwrite earlier ones -/
def tableSample : List WEntry → Rat → Option Rat → Option Rat
  | e1 :: e2 :: rest, t, acc =>
      let acc' := if e1.t ≤ t ∧ t ≤ e2.t then some (interpAt e2.interp e1.t e1.v e2.t e2.v t) else acc
      tableSample (e2 :: rest) t acc'
  | _, _, acc => acc

mutual
/-- `unsafe_sample` at one time point for `0 ≤ t ≤ duration`; `none` is NaN -/
def Wf.sample : Wf → Chan → Rat → Option Rat
  | .table _ es, _, t => tableSample es t none
  | .const _ _ v, _, _ => some v
  | .func _ _ e env, _, t =>
      match e.eval (fun x => if x = "t" then .ok t else
          match env.lookup x with | some v => .ok v | none => .error .parameterMissing) with
      | .ok v => some v
      | .error _ => none
  | .multi subs, ch, t => Wf.sampleMulti subs ch t
  | .seq subs, ch, t => Wf.sampleSeq subs ch t
  | .rep body n, ch, t =>
      -- every repetition owns `[k*d, (k+1)*d)`, the last one `[(n-1)*d, n*d]` (PF-04 repaired)
      let d := body.duration
      if d ≤ 0 then none else
      let k := (t / d).floor
      if k < 0 then none
      else if k < (n : Int) then body.sample ch (t - k * d)
      else if 0 < n ∧ t = d * n then body.sample ch d
      else none
  | .trafo inner T, ch, t =>
      match (T.apply (Wf.sampleAll inner inner.channels t)).lookup ch with
      | some v => v
      | none => none
  | .arith lhs minus rhs, ch, t =>
      if lhs.channels.contains ch then
        if rhs.channels.contains ch then
          match lhs.sample ch t, rhs.sample ch t with
          | some a, some b => some (if minus then a - b else a + b)
          | _, _ => none
        else lhs.sample ch t
      else if rhs.channels.contains ch then
        (rhs.sample ch t).map (fun b => if minus then -b else b)
      else none
  | .neg inner, ch, t => (inner.sample ch t).map (fun v => -v)
  | .reversed inner, ch, t => inner.sample ch (inner.duration - t)
def Wf.sampleMulti : List Wf → Chan → Rat → Option Rat
  | [], _, _ => none
  | w :: ws, ch, t => if w.channels.contains ch then w.sample ch t else Wf.sampleMulti ws ch t
/-- `SequenceWaveform.unsafe_sample`: every piece owns `[start, end)`, the last one `[start, end]`
(PF-04 repaired) -/
def Wf.sampleSeq : List Wf → Chan → Rat → Option Rat
  | [], _, _ => none
  | [w], ch, t => if t ≤ w.duration then w.sample ch t else none
  | w :: w' :: ws, ch, t =>
      if t < w.duration then w.sample ch t else Wf.sampleSeq (w' :: ws) ch (t - w.duration)
def Wf.sampleAll : Wf → List Chan → Rat → List (Chan × Option Rat)
  | _, [], _ => []
  | w, c :: cs, t => (c, w.sample c t) :: Wf.sampleAll w cs t
end

mutual
/-- `constant_value_dict()` -/
def Wf.constDict : Wf → Option (List (Chan × Rat))
  | .table .. => none
  | .const _ ch v => some [(ch, v)]
  | .func .. => none
  | .multi subs => Wf.constDictAll subs
  | .seq _ => none
  | .rep body _ => body.constDict
  | .trafo .. => none
  | .arith .. => none
  | .neg _ => none
  | .reversed _ => none
def Wf.constDictAll : List Wf → Option (List (Chan × Rat))
  | [] => some []
  | w :: ws => match w.constDict, Wf.constDictAll ws with
      | some a, some b => some (a ++ b)
      | _, _ => none
end

def hasDup : List String → Bool
  | [] => false
  | x :: xs => xs.contains x || hasDup xs

/-- `MultiChannelWaveform.__init__` (sorting of the sub-waveforms is not modelled: it is unobservable) -/
def mkMulti (subs : List Wf) : Except Err Wf :=
  match subs with
  | [] => .error .valueError
  | w :: ws =>
    if hasDup (Wf.channelsAll subs) then .error .valueError
    else if ws.all (fun x => x.duration == w.duration) then .ok (.multi subs)
    else .error .valueError

/-- `MultiChannelWaveform.from_parallel` -/
def fromParallel (ws : List Wf) : Except Err Wf :=
  match ws with
  | [] => .error .assertion
  | [w] => .ok w
  | _ => mkMulti (ws.flatMap (fun w => match w with | .multi subs => subs | _ => [w]))

/-- `ConstantWaveform.from_mapping` -/
def constFromMapping (dur : Rat) (cvs : List (Chan × Rat)) : Except Err Wf :=
  match cvs with
  | [] => .error .assertion
  | [(ch, v)] => .ok (.const dur ch v)
  | _ => mkMulti (cvs.map (fun (ch, v) => Wf.const dur ch v))

/-- `dict` update semantics for `(key, value)` lists -/
def dictSet (d : List (Chan × Rat)) (k : Chan) (v : Rat) : List (Chan × Rat) :=
  if (d.lookup k).isSome then d.map (fun (c, x) => if c = k then (c, v) else (c, x)) else d ++ [(k, v)]

def dictOfList (kv : List (Chan × Rat)) : List (Chan × Rat) :=
  kv.foldl (fun d (k, v) => dictSet d k v) []

/-- `TransformingWaveform.from_transformation` -/
def fromTransformation (w : Wf) (T : Chain) : Except Err Wf :=
  match w.constDict with
  | some cv =>
      if T.constInvariant then
        constFromMapping w.duration
          ((T.apply (cv.map (fun (c, v) => (c, some v)))).filterMap (fun (c, v) => v.map (fun x => (c, x))))
      else .ok (.trafo w T)
  | none => .ok (.trafo w T)

/-- `ArithmeticWaveform.from_operator` -/
def fromOperator (lhs : Wf) (minus : Bool) (rhs : Wf) : Except Err Wf :=
  match lhs.constDict, rhs.constDict with
  | some l, some r =>
      if lhs.duration ≠ rhs.duration then .error .assertion else
      constFromMapping lhs.duration
        (r.foldl (fun d (ch, rv) => match d.lookup ch with
            | some lv => dictSet d ch (if minus then lv - rv else lv + rv)
            | none => dictSet d ch (if minus then -rv else rv)) l)
  | _, _ => if lhs.duration ≠ rhs.duration then .error .assertion else .ok (.arith lhs minus rhs)

/-- `Waveform.__neg__` = `FunctorWaveform.from_functor(self, negative)` -/
def negWf (w : Wf) : Except Err Wf :=
  match w.constDict with
  | some cv => constFromMapping w.duration (cv.map (fun (c, v) => (c, -v)))
  | none => .ok (.neg w)

/-- `Waveform.reversed()`: constants and already reversed waveforms are special -/
def Wf.reversedWf : Wf → Wf
  | .const d ch v => .const d ch v
  | .reversed inner => inner
  | w => .reversed w

/-- `SequenceWaveform.from_sequence` -/
def fromSequence (ws : List Wf) : Except Err Wf :=
  match ws with
  | [] => .error .assertion
  | [w] => .ok w
  | w :: _ =>
    let flattened := ws.flatMap (fun x => match x with | .seq subs => subs | _ => [x])
    let cv := ws.foldl (fun (acc : Option (List (Chan × Rat))) x => match acc with
        | some c => if c.isEmpty then acc else
            (match x.constDict with
             | some c' => if c.length == c'.length && c.all (fun (k, v) => c'.lookup k == some v) then acc else none
             | none => none)
        | none => none) w.constDict
    match cv with
    | some c => if c.isEmpty then .ok (.seq flattened) else constFromMapping (Wf.sumDuration flattened) c
    | none =>
      -- `SequenceWaveform.__init__`: all pieces must define the same channels
      let cs := w.channels
      if flattened.all (fun x => x.channels.length == cs.length && x.channels.all cs.contains) then
        .ok (.seq flattened) else .error .valueError

/-- `RepetitionWaveform.from_repetition_count` -/
def fromRepetitionCount (body : Wf) (n : Nat) : Except Err Wf :=
  match body.constDict with
  | some cv => constFromMapping (body.duration * n) cv
  | none => if n < 1 then .error .valueError else .ok (.rep body n)

/-- `InterpolationStrategy.constant_value` -/
def interpConst (i : Interp) (v1 v2 : Rat) : Option Rat :=
  match i with
  | .hold => some v1
  | .jump => some v2
  | .linear => if v1 = v2 then some v1 else none

/-- loop of `TableWaveform._validate_input` (PF-01 repaired: the segment *ending* in the next entry is
judged with the next entry's strategy). State: previous kept entry `(pt, pv)`, current entry `cur`,
constant value so far, output so far. -/
def validateLoop : List WEntry → Rat → Rat → WEntry → Option Rat → List WEntry →
    Except Err (WEntry × Option Rat × List WEntry)
  | [], _, _, cur, cv, out => .ok (cur, cv, out)
  | nx :: rest, pt, pv, cur, cv, out =>
      if nx.t < cur.t then .error .valueError else
      let cv' := match cv with
        | some c => if interpConst nx.interp cur.v nx.v == some c then some c else none
        | none => none
      if (pt ≠ cur.t ∨ cur.t ≠ nx.t) ∧ (pv ≠ cur.v ∨ cur.v ≠ nx.v) then
        validateLoop rest cur.t cur.v nx cv' (out ++ [cur])
      else
        validateLoop rest pt pv nx cv' out

/-- `TableWaveform.from_table` -/
def fromTable (ch : Chan) (es : List WEntry) : Except Err Wf :=
  match es with
  | [] => .error .valueError
  | first :: rest =>
    if first.t ≠ 0 then .error .valueError else
    match rest with
    | [] => .error .valueError
    | second :: rest' =>
      if second.t < 0 then .error .valueError else
      match validateLoop rest' 0 first.v second (interpConst second.interp first.v second.v)
              [{ first with t := 0 }] with
      | .error e => .error e
      | .ok (cur, cv, out) =>
        if cur.t = 0 then .error .valueError else
        match cv with
        | some c => .ok (.const cur.t ch c)
        | none => .ok (.table ch (out ++ [cur]))

/-! ## Program trees -/

inductive Loop where
  | mk (rep : Nat) (wf : Option Wf) (meas : List Window) (children : List Loop)
  deriving Repr, Inhabited

def Loop.rep : Loop → Nat | .mk r _ _ _ => r
def Loop.wf : Loop → Option Wf | .mk _ w _ _ => w
def Loop.meas : Loop → List Window | .mk _ _ m _ => m
def Loop.children : Loop → List Loop | .mk _ _ _ c => c

mutual
/-- `Loop.body_duration` -/
def Loop.bodyDuration : Loop → Rat
  | .mk _ wf _ cs => match cs with
      | [] => (match wf with | some w => w.duration | none => 0)
      | c :: cs' => Loop.durationList (c :: cs')
/-- `Loop.duration` -/
def Loop.duration : Loop → Rat
  | .mk rep wf meas cs => Loop.bodyDuration (.mk rep wf meas cs) * rep
def Loop.durationList : List Loop → Rat
  | [] => 0
  | c :: cs => c.duration + Loop.durationList cs
end

def shiftW (off : Rat) (w : Window) : Window := (w.1, w.2.1 + off, w.2.2)

/-- `_repeat_loop_measurements` -/
def repeatWindows (ws : List Window) (n : Nat) (body : Rat) : List Window :=
  (List.range n).flatMap (fun (k : Nat) => ws.map (shiftW ((k : Rat) * body)))

mutual
/-- `Loop._get_measurement_windows` -/
def Loop.windows : Loop → List Window
  | .mk rep wf meas cs =>
      repeatWindows (meas ++ Loop.windowsList cs 0) rep (Loop.bodyDuration (.mk rep wf meas cs))
def Loop.windowsList : List Loop → Rat → List Window
  | [], _ => []
  | c :: cs, off => (c.windows.map (shiftW off)) ++ Loop.windowsList cs (off + c.duration)
end

mutual
/-- the program played back at time `t` on channel `ch`: every leaf owns `[start, start+duration)` -/
def Loop.sample : Loop → Chan → Rat → Option Rat
  | .mk rep wf meas cs, ch, t =>
      let d := Loop.bodyDuration (.mk rep wf meas cs)
      if d ≤ 0 then none else
      let k := (t / d).floor
      if k < 0 ∨ (rep : Int) ≤ k then none else
      match cs with
      | [] => (match wf with | some w => w.sample ch (t - k * d) | none => none)
      | c :: cs' => Loop.sampleList (c :: cs') ch (t - k * d)
def Loop.sampleList : List Loop → Chan → Rat → Option Rat
  | [], _, _ => none
  | c :: cs, ch, t => if t < c.duration then c.sample ch t else Loop.sampleList cs ch (t - c.duration)
end

mutual
/-- channel sets of all leaves in playing order -/
def Loop.leafChannels : Loop → List (List Chan)
  | .mk _ wf _ cs => match cs with
      | [] => (match wf with | some w => [w.channels] | none => [])
      | c :: cs' => Loop.leafChannelsList (c :: cs')
def Loop.leafChannelsList : List Loop → List (List Chan)
  | [] => []
  | c :: cs => c.leafChannels ++ Loop.leafChannelsList cs
end

mutual
/-- the fully unrolled sequence of played waveforms (specification level; never executed for large counts) -/
def Loop.play : Loop → List Wf
  | .mk rep wf _ cs => match cs with
      | [] => (match wf with | some w => List.replicate rep w | none => [])
      | c :: cs' => (List.replicate rep (Loop.playList (c :: cs'))).flatten
def Loop.playList : List Loop → List Wf
  | [] => []
  | c :: cs => c.play ++ Loop.playList cs
end

mutual
/-- Σ (leaf duration × number of times it is played), computed with multiplicities -/
def Loop.piecesSum : Loop → Rat
  | .mk rep wf _ cs => match cs with
      | [] => (match wf with | some w => w.duration * rep | none => 0)
      | c :: cs' => Loop.piecesSumList (c :: cs') * rep
def Loop.piecesSumList : List Loop → Rat
  | [] => 0
  | c :: cs => c.piecesSum + Loop.piecesSumList cs
end

mutual
/-- `to_waveform` -/
def Loop.toWaveform : Loop → Except Err Wf
  | .mk rep wf _ cs => match cs with
      | [] => (match wf with
          | none => .error .attributeError
          | some w => if rep = 1 then .ok w else fromRepetitionCount w rep)
      | [c] => do
          let s ← c.toWaveform
          if rep > 1 then fromRepetitionCount s rep else pure s
      | c :: cs' => do
          let ws ← Loop.toWaveformList (c :: cs')
          let s ← fromSequence ws
          if rep > 1 then fromRepetitionCount s rep else pure s
def Loop.toWaveformList : List Loop → Except Err (List Wf)
  | [] => .ok []
  | c :: cs => do let w ← c.toWaveform; let ws ← Loop.toWaveformList cs; pure (w :: ws)
end

mutual
/-- `Loop.reverse_inplace` (PF-03 repaired: the loop's own windows are mirrored about `body_duration`,
they are repeated with the loop afterwards) -/
def Loop.reverseInplace : Loop → Loop
  | .mk rep wf meas cs =>
      let d := Loop.bodyDuration (.mk rep wf meas cs)
      let meas' := meas.map (fun (w : Window) => (w.1, d - (w.2.1 + w.2.2), w.2.2))
      match cs with
      | [] => .mk rep (wf.map Wf.reversedWf) meas' []
      | c :: cs' => .mk rep wf meas' (Loop.reverseList (c :: cs') [])
/-- reverses the list while reversing every element -/
def Loop.reverseList : List Loop → List Loop → List Loop
  | [], acc => acc
  | c :: cs, acc => Loop.reverseList cs (c.reverseInplace :: acc)
end

def Loop.isEmpty (l : Loop) : Bool := l.wf.isNone && l.children.isEmpty

/-! ## The program builder -/

inductive Item where
  | measure (ms : List Window)
  | node (l : Loop)
  deriving Repr, Inhabited

/-- `Loop.add_measurements` / `Loop.append_child` on the current top loop -/
def Loop.applyItem (l : Loop) : Item → Loop
  | .measure ms => .mk l.rep l.wf (l.meas ++ ms.map (shiftW l.bodyDuration)) l.children
  | .node c => .mk l.rep l.wf l.meas (l.children ++ [c])

def Loop.applyItems (l : Loop) (items : List Item) : Loop := items.foldl Loop.applyItem l

/-- `LoopGuard`: measurements are held back until the next child is appended and are dropped when no
child follows -/
def guardRun : List Window → List Item → List Item
  | _, [] => []
  | pending, .measure m :: rest => guardRun (pending ++ m) rest
  | pending, .node l :: rest =>
      (if pending.isEmpty then [] else [Item.measure pending]) ++ Item.node l :: guardRun [] rest

/-- `LoopBuilder._try_append` -/
def tryAppend (l : Loop) (ms : List Window) : List Item :=
  if l.isEmpty then [] else [.measure ms, .node l]

def rootLoop : Loop := .mk 1 none [] []
def leaf (w : Wf) : Loop := .mk 1 (some w) [] []

/-- `LoopBuilder.to_program` -/
def toProgram (items : List Item) : Option Loop :=
  let r := rootLoop.applyItems items
  if r.isEmpty then none else some r

/-! ## Instantiation -/

structure Ctx where
  scope : Scope
  mm : List (MName × Option MName)
  cm : List (Chan × Option Chan)
  trafo : Chain := []
  single : List String := []
  deriving Repr, Inhabited

def chanLookup (cm : List (Chan × Option Chan)) (c : Chan) : Except Err (Option Chan) :=
  match cm.lookup c with
  | none => .error .keyError
  | some r => .ok r

/-- `MeasurementDefiner.get_measurement_windows` -/
def getMeas (decls : List MeasDecl) (look : String → Except Err Rat)
    (mm : List (MName × Option MName)) : Except Err (List Window) :=
  decls.foldlM (fun acc d =>
    match mm.lookup d.name with
    | none => .error .keyError
    | some none => pure acc
    | some (some n) => do
        let b ← d.start.eval look
        let l ← d.len.eval look
        if b < 0 ∨ l < 0 then .error .valueError else pure (acc ++ [(n, b, l)])) []

/-- `ParameterConstrainer.validate_scope` -/
def validateCons (cons : List Expr) (look : String → Except Err Rat) : Except Err Unit :=
  cons.forM (fun c => do
    let v ← c.eval look
    if v = 0 then .error .constraintViolation else pure ())

def Scope.keys : Scope → List String
  | .dict kv => kv.map (·.1)
  | .mapped inner m => m.map (·.1) ++ inner.keys
  | .range inner idx _ => idx :: inner.keys

/-- iterating a scope (`**scope`, `scope.items()`) evaluates every parameter in it -/
def Scope.forceAll (σ : Scope) : Except Err Unit := σ.keys.forM (fun k => do let _ ← σ.look k; pure ())

/-- `expression.evaluate_numeric(**scope)`: the whole scope is turned into keyword arguments first (every
parameter is evaluated); a variable that is then absent is an `ExpressionVariableMissingException` -/
def Scope.evalKw (σ : Scope) (e : Expr) : Except Err Rat := do
  σ.forceAll
  e.eval (fun x => match σ.look x with
    | .error .parameterMissing => .error .exprVarMissing
    | r => r)

/-- `MappingPulseTemplate.get_updated_measurement_mapping` -/
def updatedMm (inner : List (MName × MName)) (outer : List (MName × Option MName)) :
    Except Err (List (MName × Option MName)) :=
  inner.mapM (fun (k, v) => match outer.lookup v with
    | none => .error .keyError
    | some r => pure (k, r))

/-- `MappingPulseTemplate.get_updated_channel_mapping` -/
def updatedCm (inner : List (Chan × Option Chan)) (outer : List (Chan × Option Chan)) :
    Except Err (List (Chan × Option Chan)) :=
  inner.mapM (fun (k, v) => match v with
    | none => pure (k, none)
    | some o => do let r ← chanLookup outer o; pure (k, r))

/-- `MappingPulseTemplate.map_parameter_values` (used when the mapping template is part of an atomic
template): external parameters present, constraints, then *all* mapped values, eagerly, into a plain dictionary -/
def mapParameterValues (pm : List (String × Expr)) (cons : List Expr) (σ : Scope) : Except Err Scope := do
  -- `_validate_parameters`: every external parameter must be a key of the scope (no evaluation yet)
  (pm.flatMap (fun (_, e) => e.vars) ++ cons.flatMap Expr.vars).forM (fun x =>
    if σ.keys.contains x then pure () else .error .parameterMissing)
  validateCons cons σ.look
  let kv ← pm.mapM (fun (p, e) => do let v ← σ.eval e; pure (p, v))
  pure (.dict kv)

def instEntries (σ : Scope) (es : List TEntry) : Except Err (List WEntry) :=
  es.mapM (fun e => do let t ← σ.eval e.t; let v ← σ.eval e.v; pure { t := t, v := v, interp := e.interp })

def lastEntry? : List WEntry → Option WEntry
  | [] => none
  | [e] => some e
  | _ :: es => lastEntry? es

/-- `TablePulseTemplate.get_entries_instantiated` -/
def tableInstantiate (σ : Scope) (entries : List (Chan × List TEntry)) :
    Except Err (List (Chan × List WEntry)) := do
  let inst ← entries.mapM (fun (ch, es) => do
    let ws ← instEntries σ es
    match ws with
    | [] => .error .valueError
    | w :: _ => pure (ch, if w.t > 0 then { t := 0, v := w.v, interp := .hold } :: ws else ws))
  let dur := inst.foldl (fun (m : Option Rat) (_, ws) => match lastEntry? ws, m with
      | some e, some x => some (if x ≤ e.t then e.t else x)
      | some e, none => some e.t
      | none, x => x) none
  match dur with
  | none => pure []
  | some d =>
    if d = 0 then pure [] else
    pure (inst.map (fun (ch, ws) => match lastEntry? ws with
      | some e => (ch, if e.t < d then ws ++ [{ t := d, v := e.v, interp := .hold }] else ws)
      | none => (ch, ws)))

/-- scalar operand and transformation of an `ArithmeticPulseTemplate` (`_get_scalar_value`,
`_get_transformation`) -/
def arithTransformation (bodyChans : List Chan) (op : AOp) (scalar : Scalar) (ptIsLhs : Bool)
    (σ : Scope) (cm : List (Chan × Option Chan)) : Except Err Chain := do
  let sv ← match scalar with
    | .uniform e => do
        let v ← σ.evalKw e
        let cs ← bodyChans.filterMapM (fun c => do
          let o ← chanLookup cm c
          pure (o.map (fun o => (o, v))))
        pure (dictOfList cs)
    | .perChan m => do
        let cs ← m.filterMapM (fun (c, e) => do
          let o ← chanLookup cm c
          match o with
          | none => pure none
          | some o => do let v ← σ.evalKw e; pure (some (o, v)))
        pure (dictOfList cs)
  if ptIsLhs then
    match op with
    | .plus => pure [.offset sv]
    | .minus => pure [.offset (sv.map (fun (c, v) => (c, -v)))]
    | .times => pure [.scaling sv]
    | .div =>
        if sv.any (fun (_, v) => v == 0) then .error .zeroDivision
        else pure [.scaling (sv.map (fun (c, v) => (c, v⁻¹)))]
  else
    match op with
    | .plus => pure [.offset sv]
    | .minus => do
        let neg ← bodyChans.filterMapM (fun c => do
          let o ← chanLookup cm c
          pure (o.map (fun o => (o, (-1 : Rat)))))
        pure [.scaling (dictOfList neg), .offset sv]
    | .times => pure [.scaling sv]
    | .div => .error .valueError

/-- `ParallelChannelPulseTemplate._get_overwritten_channels_values` (time independent values) -/
def overwrittenValues (over : List (Chan × Expr)) (σ : Scope) (cm : List (Chan × Option Chan)) :
    Except Err (List (Chan × Rat)) := do
  let cs ← over.filterMapM (fun (c, e) => do
    let o ← chanLookup cm c
    match o with
    | none => pure none
    | some o => do let v ← σ.eval e; pure (some (o, v)))
  pure (dictOfList cs)

mutual
/-- `build_waveform` of the atomic classes and of the wrappers that forward it -/
def buildWaveform : PT → Scope → List (Chan × Option Chan) → Except Err (Option Wf)
  | .const _ dur amps _, σ, cm => do
      let d ← σ.eval dur
      if d > 0 then
        let cvs ← amps.filterMapM (fun (ch, e) => do
          let o ← chanLookup cm ch
          match o with
          | none => pure none
          | some o => do let v ← σ.eval e; pure (some (o, v)))
        let cvs := dictOfList cvs
        if cvs.isEmpty then pure none else do let w ← constFromMapping d cvs; pure (some w)
      else pure none
  | .table _ entries _ cons, σ, cm => do
      validateCons cons σ.look
      let inst ← tableInstantiate σ entries
      let mapped ← inst.filterMapM (fun (ch, ws) => do
        let o ← chanLookup cm ch
        pure (o.map (fun o => (o, ws))))
      if mapped.isEmpty then pure none else do
        let wfs ← mapped.mapM (fun (ch, ws) => fromTable ch ws)
        let w ← fromParallel wfs
        pure (some w)
  | .point _ chans entries _ cons, σ, cm => do
      validateCons cons σ.look
      let mappedAll ← (dedup chans).mapM (fun c => chanLookup cm c)
      if mappedAll.all Option.isNone then pure none else do
      let dur ← match entries.getLast? with
        | some e => σ.eval e.t
        | none => .error .valueError
      if dur = 0 then pure none else do
      let mapped ← chans.mapM (fun c => chanLookup cm c)
      let n := chans.length
      let inst ← entries.mapM (fun e => do
        let t ← σ.eval e.t
        let vs ← e.vs.mapM σ.eval
        let vs ← if e.bcast then (match vs with
            | [v] => pure (List.replicate n v)
            | _ => .error .unsupported)
          else if vs.length ≠ n then .error .valueError else pure vs
        pure (vs.map (fun v => ({ t := t, v := v, interp := e.interp } : WEntry))))
      -- transpose: one entry list per channel
      let perChan : List (List WEntry) := (List.range n).map (fun i => inst.filterMap (fun row => row[i]?))
      let perChan := perChan.map (fun ws => match ws with
        | w :: _ => if w.t > 0 then { t := 0, v := w.v, interp := w.interp } :: ws else ws
        | [] => ws)
      let kept := (mapped.zip perChan).filterMap (fun (o, ws) => o.map (fun o => (o, ws)))
      let wfs ← kept.mapM (fun (ch, ws) => fromTable ch ws)
      let w ← fromParallel wfs
      pure (some w)
  | .func _ ch dur e _ cons, σ, cm => do
      validateCons cons σ.look
      let o ← chanLookup cm ch
      match o with
      | none => pure none
      | some o => do
        σ.forceAll
        let d ← σ.eval dur
        let env ← (dedup (e.vars.filter (· ≠ "t"))).mapM (fun x => match σ.look x with
          | .ok v => pure (x, v)
          | .error .parameterMissing => .error .valueError
          | .error err => .error err)
        if e.vars.contains "t" then pure (some (.func o d e env))
        else match e.eval (fun x => match env.lookup x with | some v => .ok v | none => .error .valueError) with
          | .ok v => pure (some (.const d o v))
          | .error err => .error err
  | .seq .., _, _ => .error .unsupported
  | .rep .., _, _ => .error .unsupported
  | .forLoop .., _, _ => .error .unsupported
  | .mapping _ body pm _ cm' cons, σ, cm => do
      let σ' ← mapParameterValues pm cons σ
      let cmU ← updatedCm cm' cm
      buildWaveform body σ' cmU
  | .parallel _ body over, σ, cm => do
      let inner ← buildWaveform body σ cm
      match inner with
      | none => pure none
      | some w => do
        let ov ← overwrittenValues over σ cm
        let w' ← fromTransformation w [.parallel ov]
        pure (some w')
  | .atomicMulti _ subs dur _ cons, σ, cm => do
      validateCons cons σ.look
      let wfs ← buildWaveformList subs σ cm
      match wfs with
      | [] => pure none
      | _ => do
        let w ← fromParallel wfs
        match dur with
        | none => pure (some w)
        | some de => do
          let expected ← σ.eval de
          if expected ≠ w.duration then .error .valueError else pure (some w)
  | .arith _ body op scalar ptIsLhs, σ, cm => do
      let inner ← buildWaveform body σ cm
      match inner with
      | none => pure none
      | some w => do
        let T ← arithTransformation body.definedChannels op scalar ptIsLhs σ cm
        let w' ← fromTransformation w T
        pure (some w')
  | .arithAtomic _ lhs minus rhs _, σ, cm => do
      let l ← buildWaveform lhs σ cm
      let r ← buildWaveform rhs σ cm
      match l, r with
      | l, none => pure l
      | none, some r => if minus then do let w ← negWf r; pure (some w) else pure (some r)
      | some l, some r => do let w ← fromOperator l minus r; pure (some w)
  | .timeReversal _ body, σ, cm => do
      let inner ← buildWaveform body σ cm
      pure (inner.map Wf.reversedWf)
/-- the non-`None` sub-waveforms of an `AtomicMultiChannelPulseTemplate` -/
def buildWaveformList : List PT → Scope → List (Chan × Option Chan) → Except Err (List Wf)
  | [], _, _ => .ok []
  | p :: ps, σ, cm => do
      let w ← buildWaveform p σ cm
      let ws ← buildWaveformList ps σ cm
      pure (match w with | some w => w :: ws | none => ws)
end

mutual
/-- `get_measurement_windows` as it is called on an atomic template -/
def atomicMeas : PT → Scope → List (MName × Option MName) → Except Err (List Window)
  | .const _ _ _ meas, σ, mm => getMeas meas σ.look mm
  | .table _ _ meas _, σ, mm => getMeas meas σ.look mm
  | .point _ _ _ meas _, σ, mm => getMeas meas σ.look mm
  | .func _ _ _ _ meas _, σ, mm => getMeas meas σ.look mm
  | .seq _ _ meas _, σ, mm => getMeas meas σ.look mm
  | .rep _ _ _ meas _, σ, mm => getMeas meas σ.look mm
  | .forLoop _ _ _ _ _ _ meas _, σ, mm => getMeas meas σ.look mm
  | .mapping _ body pm mm' _ cons, σ, mm => do
      let σ' ← mapParameterValues pm cons σ
      let mmU ← updatedMm mm' mm
      atomicMeas body σ' mmU
  | .parallel .., _, _ => .error .attributeError
  | .atomicMulti _ subs _ meas _, σ, mm => do
      let own ← getMeas meas σ.look mm
      let rest ← atomicMeasList subs σ mm
      pure (own ++ rest)
  | .arith _ body _ _ _, σ, mm => atomicMeas body σ mm
  | .arithAtomic _ lhs _ rhs meas, σ, mm => do
      let own ← getMeas meas σ.look mm
      let l ← atomicMeas lhs σ mm
      let r ← atomicMeas rhs σ mm
      pure (own ++ l ++ r)
  | .timeReversal .., _, _ => .error .attributeError
def atomicMeasList : List PT → Scope → List (MName × Option MName) → Except Err (List Window)
  | [], _, _ => .ok []
  | p :: ps, σ, mm => do
      let a ← atomicMeas p σ mm
      let b ← atomicMeasList ps σ mm
      pure (a ++ b)
end

/-- `AtomicPulseTemplate._internal_create_program` -/
def atomItems (pt : PT) (ctx : Ctx) : Except Err (List Item) := do
  let w? ← buildWaveform pt ctx.scope ctx.cm
  match w? with
  | none => pure []
  | some w => do
    let ms ← atomicMeas pt ctx.scope ctx.mm
    let w ← if ctx.trafo.isEmpty then pure w else fromTransformation w ctx.trafo
    let w ← match w.constDict with
      | none => pure w
      | some cv => constFromMapping w.duration cv
    pure ((if ms.isEmpty then [] else [Item.measure ms]) ++ [Item.node (leaf w)])

/-- Python's `range(start, stop, step)` for `step ≠ 0` -/
def pyRange (start stop step : Int) : List Int :=
  if step > 0 then
    (List.range ((stop - start + step - 1) / step).toNat).map (fun (k : Nat) => start + step * (k : Int))
  else if step < 0 then
    (List.range ((start - stop + (-step) - 1) / (-step)).toNat).map (fun (k : Nat) => start + step * (k : Int))
  else []

/-- the `to_single_waveform` branch of `PulseTemplate._create_program`: `new_subprogram` -/
def wrapSingle (id : Option String) (ctx : Ctx) (k : Ctx → Except Err (List Item)) : Except Err (List Item) :=
  match id with
  | some name =>
    if ctx.single.contains name then do
      let items ← k { ctx with trafo := [] }
      match toProgram items with
      | none => pure []
      | some root => do
        let w ← root.toWaveform
        let w ← if ctx.trafo.isEmpty then pure w else fromTransformation w ctx.trafo
        pure [.measure root.windows, .node (leaf w)]
    else k ctx
  | none => k ctx

mutual
/-- `_internal_create_program` of every class; sub-templates are entered through `_create_program`
(`wrapSingle`), except by `TimeReversalPulseTemplate`, which calls `_internal_create_program` directly -/
def internal : PT → Ctx → Except Err (List Item)
  | .const id dur amps meas, ctx => atomItems (.const id dur amps meas) ctx
  | .table id entries meas cons, ctx => atomItems (.table id entries meas cons) ctx
  | .point id chans entries meas cons, ctx => atomItems (.point id chans entries meas cons) ctx
  | .func id ch dur e meas cons, ctx => atomItems (.func id ch dur e meas cons) ctx
  | .atomicMulti id subs dur meas cons, ctx => atomItems (.atomicMulti id subs dur meas cons) ctx
  | .arithAtomic id lhs minus rhs meas, ctx => atomItems (.arithAtomic id lhs minus rhs meas) ctx
  | .seq _ subs meas cons, ctx => do
      validateCons cons ctx.scope.look
      let ms ← getMeas meas ctx.scope.look ctx.mm
      let items ← internalList subs ctx
      pure (guardRun ms items)
  | .rep _ body count meas cons, ctx => do
      validateCons cons ctx.scope.look
      let c ← ctx.scope.eval count
      match checkedInt c with
      | none => .error .notInteger
      | some n =>
        if n ≤ 0 then pure [] else do
          let ms ← getMeas meas ctx.scope.look ctx.mm
          let items ← wrapSingle body.ident ctx (internal body)
          pure (tryAppend ((Loop.mk n.toNat none [] []).applyItems items) ms)
  | .forLoop _ body idx start stop step meas cons, ctx => do
      validateCons cons ctx.scope.look
      let a ← ctx.scope.eval start
      let a ← intOrErr a .valueError
      let b ← ctx.scope.eval stop
      let b ← intOrErr b .valueError
      let s ← ctx.scope.eval step
      let s ← intOrErr s .valueError
      if s = 0 then .error .valueError else do
      let ms ← getMeas meas ctx.scope.look ctx.mm
      let items ← (pyRange a b s).flatMapM (fun (i : Int) =>
        wrapSingle body.ident { ctx with scope := .range ctx.scope idx (i : Rat) } (internal body))
      pure (guardRun ms items)
  | .mapping _ body pm mm' cm' cons, ctx => do
      validateCons cons ctx.scope.look
      let mmU ← updatedMm mm' ctx.mm
      let cmU ← updatedCm cm' ctx.cm
      wrapSingle body.ident { ctx with scope := .mapped ctx.scope pm, mm := mmU, cm := cmU } (internal body)
  | .parallel _ body over, ctx => do
      let ov ← overwrittenValues over ctx.scope ctx.cm
      -- PF-11: `chain_transformations(global_transformation, transformation)`
      wrapSingle body.ident { ctx with trafo := ctx.trafo ++ [.parallel ov] } (internal body)
  | .arith _ body op scalar ptIsLhs, ctx => do
      let T ← arithTransformation body.definedChannels op scalar ptIsLhs ctx.scope ctx.cm
      wrapSingle body.ident { ctx with trafo := T ++ ctx.trafo } (internal body)
  | .timeReversal _ body, ctx => do
      let items ← internal body ctx
      match toProgram items with
      | none => pure []
      | some root => pure [.node root.reverseInplace]
def internalList : List PT → Ctx → Except Err (List Item)
  | [], _ => .ok []
  | p :: ps, ctx => do
      let a ← wrapSingle p.ident ctx (internal p)
      let b ← internalList ps ctx
      pure (a ++ b)
end

/-- `PulseTemplate._create_program` -/
def compile (pt : PT) (ctx : Ctx) : Except Err (List Item) := wrapSingle pt.ident ctx (internal pt)


mutual
/-- `measurement_names` of every class -/
def PT.measurementNames : PT → List MName
  | .const _ _ _ meas => meas.map (·.name)
  | .table _ _ meas _ => meas.map (·.name)
  | .point _ _ _ meas _ => meas.map (·.name)
  | .func _ _ _ _ meas _ => meas.map (·.name)
  | .seq _ subs meas _ => meas.map (·.name) ++ PT.measurementNamesList subs
  | .rep _ body _ meas _ => body.measurementNames ++ meas.map (·.name)
  | .forLoop _ body _ _ _ _ meas _ => body.measurementNames ++ meas.map (·.name)
  | .mapping _ _ _ mm _ _ => mm.map (·.2)
  | .parallel _ body _ => body.measurementNames
  | .atomicMulti _ subs _ meas _ => meas.map (·.name) ++ PT.measurementNamesList subs
  | .arith _ body _ _ _ => body.measurementNames
  | .arithAtomic _ lhs _ rhs meas => meas.map (·.name) ++ lhs.measurementNames ++ rhs.measurementNames
  | .timeReversal _ body => body.measurementNames
def PT.measurementNamesList : List PT → List MName
  | [] => []
  | p :: ps => p.measurementNames ++ PT.measurementNamesList ps
end

/-- `dict.update` for channel mappings -/
def cmUpdate (d : List (Chan × Option Chan)) (k : Chan) (v : Option Chan) : List (Chan × Option Chan) :=
  if (d.lookup k).isSome then d.map (fun (c, x) => if c = k then (c, v) else (c, x)) else d ++ [(k, v)]

/-- the argument normalisation of `PulseTemplate.create_program` -/
def topCtx (pt : PT) (params : List (String × Rat)) (mm : Option (List (MName × Option MName)))
    (cmUser : List (Chan × Option Chan)) (single : List String) : Except Err Ctx :=
  let mm := match mm with
    | some m => m
    | none => (dedup pt.measurementNames).map (fun n => (n, some n))
  let complete := cmUser.foldl (fun d (k, v) => cmUpdate d k v)
    (pt.definedChannels.map (fun c => (c, some c)))
  let targets := cmUser.filterMap (·.2)
  if hasDup targets then .error .valueError
  else .ok { scope := .dict params, mm := mm, cm := complete, trafo := [], single := single }

/-- `PulseTemplate.create_program` -/
def createProgram (pt : PT) (params : List (String × Rat)) (mm : Option (List (MName × Option MName)))
    (cmUser : List (Chan × Option Chan)) (single : List String) : Except Err (Option Loop) := do
  let ctx ← topCtx pt params mm cmUser single
  let items ← compile pt ctx
  pure (toProgram items)

/-! ## Specification: what a template denotes -/

/-- one linear piece; `amb` marks a piece whose *start* is a junction strictly inside a time reversed
part: there the left limit is an admissible sample value as well (see notes/C01.md) -/
structure Seg where
  len : Rat
  v0 : Rat
  v1 : Rat
  amb : Bool := false
  deriving Repr, BEq, Inhabited

abbrev PL := List Seg

def PL.dur : PL → Rat
  | [] => 0
  | s :: rest => s.len + PL.dur rest

def Seg.valueAt (s : Seg) (t : Rat) : Rat := s.v0 + (s.v1 - s.v0) * t / s.len

/-- right-open sampling: the value at `t` comes from the piece with `start ≤ t < start + len` -/
def PL.at : PL → Rat → Option Rat
  | [], _ => none
  | s :: rest, t => if t < s.len then some (s.valueAt t) else PL.at rest (t - s.len)

/-- admissible sample values at `t`: the right-open value, and the left limit at a junction inside a
time reversed part -/
def PL.adm : Option Rat → PL → Rat → List Rat
  | _, [], _ => []
  | prev, s :: rest, t =>
      if t < s.len then
        (s.valueAt t) :: (if t = 0 ∧ s.amb then (match prev with | some p => [p] | none => []) else [])
      else PL.adm (some s.v1) rest (t - s.len)

def PL.mapV (f : Rat → Rat) (p : PL) : PL := p.map (fun s => { s with v0 := f s.v0, v1 := f s.v1 })

def PL.replicate (n : Nat) (p : PL) : PL := (List.replicate n p).flatten

/-- time reversal: reversed list, end points swapped; all junctions inside become ambiguous -/
def PL.reversed (p : PL) : PL :=
  match p.reverse.map (fun s => { s with v0 := s.v1, v1 := s.v0 }) with
  | [] => []
  | s :: rest => { s with amb := false } :: rest.map (fun r => { r with amb := true })

/-- pointwise combination of two piecewise linear functions of equal duration (for affine `f`) -/
def PL.zipWith (f : Rat → Rat → Rat) : PL → PL → PL
  | [], _ => []
  | _, [] => []
  | a :: as, b :: bs =>
      if a.len = b.len then
        { len := a.len, v0 := f a.v0 b.v0, v1 := f a.v1 b.v1, amb := a.amb || b.amb } :: PL.zipWith f as bs
      else if a.len < b.len then
        let bm := b.valueAt a.len
        { len := a.len, v0 := f a.v0 b.v0, v1 := f a.v1 bm, amb := a.amb || b.amb } ::
          PL.zipWith f as ({ len := b.len - a.len, v0 := bm, v1 := b.v1, amb := false } :: bs)
      else
        let am := a.valueAt b.len
        { len := b.len, v0 := f a.v0 b.v0, v1 := f am b.v1, amb := a.amb || b.amb } ::
          PL.zipWith f ({ len := a.len - b.len, v0 := am, v1 := a.v1, amb := false } :: as) bs
termination_by p q => p.length + q.length

structure Pulse where
  dur : Rat
  chans : List (Chan × PL)
  windows : List Window
  deriving Repr, Inhabited

def Pulse.empty : Pulse := { dur := 0, chans := [], windows := [] }
/-- a pulse without channels does not exist (the code: `build_waveform` returns `None`) -/
def Pulse.isEmpty (p : Pulse) : Bool := p.chans.isEmpty
def Pulse.chanNames (p : Pulse) : List Chan := p.chans.map (·.1)

def sameSet (a b : List String) : Bool := a.all b.contains && b.all a.contains

/-- sequencing of two pulses; empty parts vanish -/
def Pulse.append (p q : Pulse) : Except Err Pulse :=
  if p.isEmpty then .ok q
  else if q.isEmpty then .ok p
  else if !sameSet p.chanNames q.chanNames then .error .valueError
  else .ok { dur := p.dur + q.dur,
             chans := p.chans.map (fun (c, pl) => (c, pl ++ ((q.chans.lookup c).getD []))),
             windows := p.windows ++ q.windows.map (shiftW p.dur) }

def Pulse.appendAll : List Pulse → Except Err Pulse
  | [] => .ok Pulse.empty
  | p :: ps => do let r ← Pulse.appendAll ps; p.append r

/-- windows of the enclosing node are attached only if the node is not empty -/
def Pulse.withOwn (p : Pulse) (ms : List Window) : Pulse :=
  if p.isEmpty then p else { p with windows := ms ++ p.windows }

/-- the piecewise linear function a list of instantiated table entries denotes -/
def entriesToPL : List WEntry → PL
  | e1 :: e2 :: rest =>
      (if e1.t < e2.t then
        [match e2.interp with
         | .hold => ({ len := e2.t - e1.t, v0 := e1.v, v1 := e1.v } : Seg)
         | .jump => { len := e2.t - e1.t, v0 := e2.v, v1 := e2.v }
         | .linear => { len := e2.t - e1.t, v0 := e1.v, v1 := e2.v }]
       else []) ++ entriesToPL (e2 :: rest)
  | _ => []

def sortedTimes : List WEntry → Bool
  | e1 :: e2 :: rest => decide (e1.t ≤ e2.t) && sortedTimes (e2 :: rest)
  | _ => true

/-- well-formedness of one instantiated channel table: starts at 0, at least two entries, times do not
decrease, positive duration -/
def tablePL (es : List WEntry) : Except Err PL :=
  match es with
  | [] => .error .valueError
  | [_] => .error .valueError
  | e :: _ =>
    if e.t ≠ 0 then .error .valueError
    else if !sortedTimes es then .error .valueError
    else if lastT es = 0 then .error .valueError
    else .ok (entriesToPL es)

/-- is the expression affine in `x`? (syntactic) -/
def Expr.freeOf (x : String) (e : Expr) : Bool := !(e.vars.contains x)

def Expr.affineIn (x : String) : Expr → Bool
  | .lit _ => true
  | .var _ => true
  | .add a b => a.affineIn x && b.affineIn x
  | .mul a b => (a.freeOf x && b.affineIn x) || (a.affineIn x && b.freeOf x)
  | e => e.freeOf x

def mergeChans (parts : List Pulse) : List (Chan × PL) := parts.flatMap (·.chans)

def applyTrafoPL (T : Trafo) (dur : Rat) (chans : List (Chan × PL)) : List (Chan × PL) :=
  match T with
  | .offset m => chans.map (fun (c, pl) => match m.lookup c with
      | some o => (c, pl.mapV (· + o))
      | none => (c, pl))
  | .scaling m => chans.map (fun (c, pl) => match m.lookup c with
      | some f => (c, pl.mapV (· * f))
      | none => (c, pl))
  | .parallel m =>
      let constPL (v : Rat) : PL := if dur > 0 then [{ len := dur, v0 := v, v1 := v }] else []
      chans.map (fun (c, pl) => match m.lookup c with
        | some v => (c, constPL v)
        | none => (c, pl))
      ++ (m.filter (fun (c, _) => (chans.lookup c).isNone)).map (fun (c, v) => (c, constPL v))

mutual
/-- the pulse a template denotes for a scope, a measurement mapping and a channel mapping -/
def denote : PT → Scope → List (MName × Option MName) → List (Chan × Option Chan) → Except Err Pulse
  | .const id dur amps meas, σ, mm, cm => do
      let d ← σ.eval dur
      if d > 0 then
        let cvs ← amps.filterMapM (fun (ch, e) => do
          let o ← chanLookup cm ch
          match o with
          | none => pure none
          | some o => do let v ← σ.eval e; pure (some (o, v)))
        let cvs := dictOfList cvs
        if cvs.isEmpty then pure Pulse.empty else do
          if hasDup (cvs.map (·.1)) then .error .valueError else
          let ms ← atomicMeas (.const id dur amps meas) σ mm
          pure { dur := d, chans := cvs.map (fun (c, v) => (c, [{ len := d, v0 := v, v1 := v }])), windows := ms }
      else pure Pulse.empty
  | .table id entries meas cons, σ, mm, cm => do
      validateCons cons σ.look
      let inst ← tableInstantiate σ entries
      let mapped ← inst.filterMapM (fun (ch, ws) => do
        let o ← chanLookup cm ch
        pure (o.map (fun o => (o, ws))))
      if mapped.isEmpty then pure Pulse.empty else do
        let chans ← mapped.mapM (fun (ch, ws) => do let pl ← tablePL ws; pure (ch, pl))
        if hasDup (chans.map (·.1)) then .error .valueError else
        let ms ← atomicMeas (.table id entries meas cons) σ mm
        let d := match mapped with | (_, ws) :: _ => lastT ws | [] => 0
        pure { dur := d, chans := chans, windows := ms }
  | .point id chans entries meas cons, σ, mm, cm => do
      validateCons cons σ.look
      let mappedAll ← (dedup chans).mapM (fun c => chanLookup cm c)
      if mappedAll.all Option.isNone then pure Pulse.empty else do
      let dur ← match entries.getLast? with
        | some e => σ.eval e.t
        | none => .error .valueError
      if dur = 0 then pure Pulse.empty else do
      let mapped ← chans.mapM (fun c => chanLookup cm c)
      let n := chans.length
      let inst ← entries.mapM (fun e => do
        let t ← σ.eval e.t
        let vs ← e.vs.mapM σ.eval
        let vs ← if e.bcast then (match vs with
            | [v] => pure (List.replicate n v)
            | _ => .error .unsupported)
          else if vs.length ≠ n then .error .valueError else pure vs
        pure (vs.map (fun v => ({ t := t, v := v, interp := e.interp } : WEntry))))
      let perChan : List (List WEntry) := (List.range n).map (fun i => inst.filterMap (fun row => row[i]?))
      let perChan := perChan.map (fun ws => match ws with
        | w :: _ => if w.t > 0 then { t := 0, v := w.v, interp := .hold } :: ws else ws
        | [] => ws)
      let kept := (mapped.zip perChan).filterMap (fun (o, ws) => o.map (fun o => (o, ws)))
      let cs ← kept.mapM (fun (ch, ws) => do let pl ← tablePL ws; pure (ch, pl))
      if hasDup (cs.map (·.1)) then .error .valueError else
      let ms ← atomicMeas (.point id chans entries meas cons) σ mm
      pure { dur := dur, chans := cs, windows := ms }
  | .func id ch dur e meas cons, σ, mm, cm => do
      validateCons cons σ.look
      let o ← chanLookup cm ch
      match o with
      | none => pure Pulse.empty
      | some o => do
        let d ← σ.eval dur
        if !(e.affineIn "t") then .error .unsupported else
        let f (t : Rat) : Except Err Rat := e.eval (fun x => if x = "t" then .ok t else
          match σ.look x with
          | .ok v => .ok v
          | .error .parameterMissing => .error .valueError
          | .error err => .error err)
        let a ← f 0
        let b ← f 1
        let ms ← atomicMeas (.func id ch dur e meas cons) σ mm
        pure { dur := d, chans := [(o, if d > 0 then [{ len := d, v0 := a, v1 := a + (b - a) * d }] else [])],
               windows := ms }
  | .seq _ subs meas cons, σ, mm, cm => do
      validateCons cons σ.look
      let ms ← getMeas meas σ.look mm
      let parts ← denoteList subs σ mm cm
      let p ← Pulse.appendAll parts
      pure (p.withOwn ms)
  | .rep _ body count meas cons, σ, mm, cm => do
      validateCons cons σ.look
      let c ← σ.eval count
      match checkedInt c with
      | none => .error .notInteger
      | some n =>
        if n ≤ 0 then pure Pulse.empty else do
          let ms ← getMeas meas σ.look mm
          let b ← denote body σ mm cm
          if b.isEmpty then pure Pulse.empty else
          pure { dur := b.dur * n.toNat,
                 chans := b.chans.map (fun (c, pl) => (c, PL.replicate n.toNat pl)),
                 windows := ms ++ repeatWindows b.windows n.toNat b.dur }
  | .forLoop _ body idx start stop step meas cons, σ, mm, cm => do
      validateCons cons σ.look
      let a ← σ.eval start
      let a ← intOrErr a .valueError
      let b ← σ.eval stop
      let b ← intOrErr b .valueError
      let s ← σ.eval step
      let s ← intOrErr s .valueError
      if s = 0 then .error .valueError else do
      let ms ← getMeas meas σ.look mm
      let parts ← (pyRange a b s).mapM (fun (i : Int) => denote body (.range σ idx (i : Rat)) mm cm)
      let p ← Pulse.appendAll parts
      pure (p.withOwn ms)
  | .mapping _ body pm mm' cm' cons, σ, mm, cm => do
      validateCons cons σ.look
      let mmU ← updatedMm mm' mm
      let cmU ← updatedCm cm' cm
      denote body (.mapped σ pm) mmU cmU
  | .parallel _ body over, σ, mm, cm => do
      let ov ← overwrittenValues over σ cm
      let b ← denote body σ mm cm
      if b.isEmpty then pure Pulse.empty else
      pure { b with chans := applyTrafoPL (.parallel ov) b.dur b.chans }
  | .atomicMulti id subs dur meas cons, σ, mm, cm => do
      validateCons cons σ.look
      let parts ← denoteList subs σ mm cm
      let parts := parts.filter (fun p => !p.isEmpty)
      match parts with
      | [] => pure Pulse.empty
      | p :: rest =>
        let chans := mergeChans parts
        if hasDup (chans.map (·.1)) then .error .valueError
        else if !(rest.all (fun q => q.dur == p.dur)) then .error .valueError
        else do
          match dur with
          | none => pure ()
          | some de => do
              let expected ← σ.eval de
              if expected ≠ p.dur then .error .valueError else pure ()
          let ms ← atomicMeas (.atomicMulti id subs dur meas cons) σ mm
          pure { dur := p.dur, chans := chans, windows := ms }
  | .arith _ body op scalar ptIsLhs, σ, mm, cm => do
      let b ← denote body σ mm cm
      if b.isEmpty then pure Pulse.empty else do
      let T ← arithTransformation body.definedChannels op scalar ptIsLhs σ cm
      pure { b with chans := T.foldl (fun cs t => applyTrafoPL t b.dur cs) b.chans }
  | .arithAtomic id lhs minus rhs meas, σ, mm, cm => do
      let l ← denote lhs σ mm cm
      let r ← denote rhs σ mm cm
      let sgn (pl : PL) : PL := if minus then pl.mapV (fun v => -v) else pl
      if l.isEmpty && r.isEmpty then pure Pulse.empty else do
      let ms ← atomicMeas (.arithAtomic id lhs minus rhs meas) σ mm
      if r.isEmpty then pure { l with windows := ms }
      else if l.isEmpty then pure { r with chans := r.chans.map (fun (c, pl) => (c, sgn pl)), windows := ms }
      else if l.dur ≠ r.dur then .error .assertion
      else
        let both := l.chans.map (fun (c, pl) => match r.chans.lookup c with
          | some q => (c, PL.zipWith (fun x y => if minus then x - y else x + y) pl q)
          | none => (c, pl))
        let onlyR := (r.chans.filter (fun (c, _) => (l.chans.lookup c).isNone)).map (fun (c, pl) => (c, sgn pl))
        pure { dur := l.dur, chans := both ++ onlyR, windows := ms }
  | .timeReversal _ body, σ, mm, cm => do
      let b ← denote body σ mm cm
      pure { dur := b.dur,
             chans := b.chans.map (fun (c, pl) => (c, pl.reversed)),
             windows := b.windows.map (fun (w : Window) => (w.1, b.dur - (w.2.1 + w.2.2), w.2.2)) }
def denoteList : List PT → Scope → List (MName × Option MName) → List (Chan × Option Chan) →
    Except Err (List Pulse)
  | [], _, _, _ => .ok []
  | p :: ps, σ, mm, cm => do
      let a ← denote p σ mm cm
      let b ← denoteList ps σ mm cm
      pure (a :: b)
end

def denoteTop (pt : PT) (params : List (String × Rat)) (mm : Option (List (MName × Option MName)))
    (cmUser : List (Chan × Option Chan)) : Except Err Pulse := do
  let ctx ← topCtx pt params mm cmUser []
  denote pt ctx.scope ctx.mm ctx.cm

def sumList : List Rat → Rat
  | [] => 0
  | x :: xs => x + sumList xs

/-- `ForLoopPulseTemplate.duration`: `Piecewise((0, step_count <= 0), (Sum(body(start + i*step),
(i, 0, Max(step_count, 1) - 1)), True))` with `step_count = ceiling((stop - start) / step)`; `g v` is the
body duration with the loop index bound to `v` -/
def forLoopClosedForm (g : Rat → Except Err Rat) (a b s : Rat) : Except Err Rat :=
  if s = 0 then .error .zeroDivision else
  let stepCount : Int := ((b - a) / s).ceil
  if stepCount ≤ 0 then pure 0 else do
    let ds ← (List.range (max stepCount 1).toNat).mapM (fun (k : Nat) => g (a + (k : Rat) * s))
    pure (sumList ds)

mutual
/-- the value of the class' symbolic `duration` expression in a scope -/
def templateDuration : PT → Scope → Except Err Rat
  | .const _ dur _ _, σ => σ.eval dur
  | .table _ entries _ _, σ => do
      let ts ← entries.mapM (fun (_, es) => match es.getLast? with
        | some e => σ.eval e.t
        | none => .error .valueError)
      match ts with
      | [] => .error .valueError
      | t :: rest => pure (rest.foldl (fun m x => if m ≤ x then x else m) t)
  | .point _ _ entries _ _, σ => match entries.getLast? with
      | some e => σ.eval e.t
      | none => .error .valueError
  | .func _ _ dur _ _ _, σ => σ.eval dur
  | .seq _ subs _ _, σ => templateDurationSum subs σ
  | .rep _ body count _ _, σ => do
      let c ← σ.eval count
      let d ← templateDuration body σ
      pure (c * d)
  | .forLoop _ body idx start stop step _ _, σ => do
      let a ← σ.eval start
      let b ← σ.eval stop
      let s ← σ.eval step
      forLoopClosedForm (fun v => templateDuration body (.range σ idx v)) a b s
  | .mapping _ body pm _ _ _, σ => templateDuration body (.mapped σ pm)
  | .parallel _ body _, σ => templateDuration body σ
  | .atomicMulti _ subs dur _ _, σ => match dur with
      | some de => σ.eval de
      | none => templateDurationFirst subs σ
  | .arith _ body _ _ _, σ => templateDuration body σ
  | .arithAtomic _ lhs _ rhs _, σ => do
      let l ← templateDuration lhs σ
      let r ← templateDuration rhs σ
      pure (if l ≤ r then r else l)
  | .timeReversal _ body, σ => templateDuration body σ
def templateDurationSum : List PT → Scope → Except Err Rat
  | [], _ => .ok 0
  | p :: ps, σ => do
      let a ← templateDuration p σ
      let b ← templateDurationSum ps σ
      pure (a + b)
def templateDurationFirst : List PT → Scope → Except Err Rat
  | [], _ => .error .valueError
  | p :: _, σ => templateDuration p σ
end


/-! ## S-expression transport -/

open Sexp

def optAtom? : Sexp → Option (Option String)
  | .atom "none" => some none
  | .atom s => some (some s)
  | _ => none

def str? : Sexp → Option String
  | .atom s => some s
  | _ => none

def cmpOf? : String → Option Cmp
  | "lt" => some .lt | "le" => some .le | "eq" => some .eq | "ne" => some .ne
  | "gt" => some .gt | "ge" => some .ge | _ => none

def foldBin (f : Expr → Expr → Expr) : List Expr → Option Expr
  | [] => none
  | e :: es => some (es.foldl f e)

partial def Expr.ofSexp : Sexp → Option Expr
  | .list [.atom "q", n, d] => (Sexp.rat? (.list [.atom "q", n, d])).map Expr.lit
  | .list [.atom "v", .atom x] => some (.var x)
  | .list (.atom "+" :: args) => do let es ← args.mapM Expr.ofSexp; foldBin .add es
  | .list (.atom "*" :: args) => do let es ← args.mapM Expr.ofSexp; foldBin .mul es
  | .list (.atom "max" :: args) => do let es ← args.mapM Expr.ofSexp; foldBin .max es
  | .list (.atom "min" :: args) => do let es ← args.mapM Expr.ofSexp; foldBin .min es
  | .list [.atom "^", a, n] => do let e ← Expr.ofSexp a; let k ← Sexp.int? n; some (.pow e k)
  | .list [.atom "floor", a] => (Expr.ofSexp a).map .floor
  | .list [.atom "ceil", a] => (Expr.ofSexp a).map .ceil
  | .list [.atom "abs", a] => (Expr.ofSexp a).map .abs
  | .list [.atom "unsupported"] => some .unsupported
  | .list [.atom c, a, b] => do
      let c ← cmpOf? c; let x ← Expr.ofSexp a; let y ← Expr.ofSexp b; some (.cmp c x y)
  | .atom s => (s.toInt?).map (fun (i : Int) => Expr.lit (i : Rat))
  | _ => none

def interpOf? : Sexp → Option Interp
  | .atom "hold" => some .hold | .atom "linear" => some .linear | .atom "jump" => some .jump | _ => none

def measOf? : Sexp → Option MeasDecl
  | .list [.atom n, b, l] => do let b ← Expr.ofSexp b; let l ← Expr.ofSexp l; some ⟨n, b, l⟩
  | _ => none

def measList? (s : Sexp) : Option (List MeasDecl) := Sexp.listOf? measOf? s
def consList? (s : Sexp) : Option (List Expr) := Sexp.listOf? Expr.ofSexp s

def kvExpr? : Sexp → Option (String × Expr)
  | .list [.atom k, e] => do let e ← Expr.ofSexp e; some (k, e)
  | _ => none

def kvOpt? : Sexp → Option (String × Option String)
  | .list [.atom k, v] => do let v ← optAtom? v; some (k, v)
  | _ => none

def kvStr? : Sexp → Option (String × String)
  | .list [.atom k, .atom v] => some (k, v)
  | _ => none

def kvRat? : Sexp → Option (String × Rat)
  | .list [.atom k, v] => do let v ← Sexp.rat? v; some (k, v)
  | _ => none

def tentry? : Sexp → Option TEntry
  | .list [t, v, i] => do let t ← Expr.ofSexp t; let v ← Expr.ofSexp v; let i ← interpOf? i; some ⟨t, v, i⟩
  | _ => none

def pentry? : Sexp → Option PEntry
  | .list [t, vs, b, i] => do
      let t ← Expr.ofSexp t; let vs ← Sexp.listOf? Expr.ofSexp vs; let b ← Sexp.bool? b; let i ← interpOf? i
      some ⟨t, vs, b, i⟩
  | _ => none

def aopOf? : Sexp → Option AOp
  | .atom "+" => some .plus | .atom "-" => some .minus | .atom "*" => some .times | .atom "/" => some .div
  | _ => none

def scalarOf? : Sexp → Option Scalar
  | .list [.atom "u", e] => (Expr.ofSexp e).map .uniform
  | .list [.atom "d", m] => (Sexp.listOf? kvExpr? m).map .perChan
  | _ => none

partial def PT.ofSexp : Sexp → Option PT
  | .list [.atom "const", id, dur, amps, meas] => do
      some (.const (← optAtom? id) (← Expr.ofSexp dur) (← Sexp.listOf? kvExpr? amps) (← measList? meas))
  | .list [.atom "table", id, entries, meas, cons] => do
      let es ← Sexp.listOf? (fun s => match s with
        | .list [.atom ch, l] => do let l ← Sexp.listOf? tentry? l; some (ch, l)
        | _ => none) entries
      some (.table (← optAtom? id) es (← measList? meas) (← consList? cons))
  | .list [.atom "point", id, chans, entries, meas, cons] => do
      some (.point (← optAtom? id) (← Sexp.listOf? str? chans) (← Sexp.listOf? pentry? entries)
        (← measList? meas) (← consList? cons))
  | .list [.atom "func", id, .atom ch, dur, e, meas, cons] => do
      some (.func (← optAtom? id) ch (← Expr.ofSexp dur) (← Expr.ofSexp e) (← measList? meas) (← consList? cons))
  | .list [.atom "seq", id, subs, meas, cons] => do
      some (.seq (← optAtom? id) (← Sexp.listOf? PT.ofSexp subs) (← measList? meas) (← consList? cons))
  | .list [.atom "rep", id, body, count, meas, cons] => do
      some (.rep (← optAtom? id) (← PT.ofSexp body) (← Expr.ofSexp count) (← measList? meas) (← consList? cons))
  | .list [.atom "for", id, body, .atom idx, a, b, st, meas, cons] => do
      some (.forLoop (← optAtom? id) (← PT.ofSexp body) idx (← Expr.ofSexp a) (← Expr.ofSexp b)
        (← Expr.ofSexp st) (← measList? meas) (← consList? cons))
  | .list [.atom "map", id, body, pm, mm, cm, cons] => do
      some (.mapping (← optAtom? id) (← PT.ofSexp body) (← Sexp.listOf? kvExpr? pm) (← Sexp.listOf? kvStr? mm)
        (← Sexp.listOf? kvOpt? cm) (← consList? cons))
  | .list [.atom "par", id, body, over] => do
      some (.parallel (← optAtom? id) (← PT.ofSexp body) (← Sexp.listOf? kvExpr? over))
  | .list [.atom "amulti", id, subs, dur, meas, cons] => do
      let d ← match dur with
        | .atom "none" => some none
        | e => (Expr.ofSexp e).map some
      some (.atomicMulti (← optAtom? id) (← Sexp.listOf? PT.ofSexp subs) d (← measList? meas) (← consList? cons))
  | .list [.atom "arith", id, body, op, sc, lhs] => do
      some (.arith (← optAtom? id) (← PT.ofSexp body) (← aopOf? op) (← scalarOf? sc) (← Sexp.bool? lhs))
  | .list [.atom "aarith", id, lhs, op, rhs, meas] => do
      let minus ← match op with | .atom "+" => some false | .atom "-" => some true | _ => none
      some (.arithAtomic (← optAtom? id) (← PT.ofSexp lhs) minus (← PT.ofSexp rhs) (← measList? meas))
  | .list [.atom "rev", id, body] => do
      some (.timeReversal (← optAtom? id) (← PT.ofSexp body))
  | _ => none

/-! ## Line protocol -/

def errSx (e : Err) : Sexp := .list [.atom "error", .atom e.tag]

def optRatSx : Option Rat → Sexp
  | some v => Sexp.ofRat v
  | none => .atom "nan"

def windowSx (w : Window) : Sexp := .list [.atom w.1, Sexp.ofRat w.2.1, Sexp.ofRat w.2.2]

/-- channel set of a program; `none` if the leaves disagree -/
def Loop.channelSet (l : Loop) : Option (List Chan) :=
  match l.leafChannels with
  | [] => some []
  | cs :: rest => if rest.all (fun x => sameSet cs x) then some (dedup cs) else none

structure Request where
  pt : PT
  params : List (String × Rat)
  mm : Option (List (MName × Option MName))
  cm : List (Chan × Option Chan)
  single : List String
  grid : List Rat
  wantSamples : Bool
  wantWindows : Bool
  wantSpec : Bool

def findField (name : String) : List Sexp → Option (List Sexp)
  | [] => none
  | .list (.atom n :: rest) :: more => if n = name then some rest else findField name more
  | _ :: more => findField name more

def Request.ofSexp (args : List Sexp) : Option Request := do
  let ptS ← findField "pt" args
  let pt ← match ptS with | [p] => PT.ofSexp p | _ => none
  let params ← (← findField "params" args).mapM kvRat?
  let mm ← match findField "mm" args with
    | some [.atom "none"] => some none
    | some l => (l.mapM kvOpt?).map some
    | none => some none
  let cm ← match findField "cm" args with
    | some l => l.mapM kvOpt?
    | none => some []
  let single ← match findField "single" args with
    | some l => l.mapM str?
    | none => some []
  let grid ← match findField "grid" args with
    | some l => l.mapM Sexp.rat?
    | none => some []
  let opts := (findField "skip" args).getD []
  let has (o : String) : Bool := opts.any (fun x => x == Sexp.atom o)
  some { pt, params, mm, cm, single, grid,
         wantSamples := !has "samples", wantWindows := !has "windows", wantSpec := !has "spec" }

/-- observables of the compiled program -/
def modelObservables (r : Request) : Sexp :=
  match createProgram r.pt r.params r.mm r.cm r.single with
  | .error e => errSx e
  | .ok none => .list [.atom "empty"]
  | .ok (some prog) =>
    let chans := prog.channelSet
    let samples : Sexp := match chans with
      | none => .list [.atom "samples", .atom "nonuniform"]
      | some cs => if r.wantSamples then
          .list (.atom "samples" :: cs.map (fun c => .list (.atom c :: r.grid.map (fun t => optRatSx (prog.sample c t)))))
        else .list [.atom "samples"]
    let wfdur : Sexp := match prog.toWaveform with
      | .ok w => Sexp.ofRat w.duration
      | .error e => errSx e
    .list [.atom "ok",
      .list (.atom "chans" :: (match chans with | some cs => cs.map Sexp.atom | none => [.atom "nonuniform"])),
      .list [.atom "dur", Sexp.ofRat prog.duration],
      .list [.atom "wfdur", wfdur],
      .list [.atom "pieces", Sexp.ofRat prog.piecesSum],
      samples,
      .list (.atom "windows" :: (if r.wantWindows then prog.windows.map windowSx else []))]

/-- observables of the denoted pulse -/
def specObservables (r : Request) : Sexp :=
  if !r.wantSpec then .list [.atom "skipped"] else
  match denoteTop r.pt r.params r.mm r.cm with
  | .error e => errSx e
  | .ok p =>
    if p.isEmpty then .list [.atom "empty"] else
    .list [.atom "ok",
      .list (.atom "chans" :: p.chanNames.map Sexp.atom),
      .list [.atom "dur", Sexp.ofRat p.dur],
      .list (.atom "samples" :: (if r.wantSamples then p.chans.map (fun (c, pl) =>
        .list (.atom c :: r.grid.map (fun t => .list ((PL.adm none pl t).map Sexp.ofRat)))) else [])),
      .list (.atom "windows" :: (if r.wantWindows then p.windows.map windowSx else []))]

def tdurObservable (r : Request) : Sexp :=
  match templateDuration r.pt (.dict r.params) with
  | .ok d => .list [.atom "ok", Sexp.ofRat d]
  | .error e => errSx e

def handle (args : List Sexp) : Sexp :=
  match args with
  | .atom "run" :: rest =>
    match Request.ofSexp rest with
    | none => Sexp.err "malformed-request"
    | some r => .list [.list [.atom "model", modelObservables r],
                       .list [.atom "tdur", tdurObservable r],
                       .list [.atom "spec", specObservables r]]
  | _ => Sexp.err "unknown-pt-request"

end QP.PT
