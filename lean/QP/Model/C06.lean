import QP.Base
namespace QP.C06
open Sexp

def handle : List Sexp → Sexp
  | _ => Sexp.err "c06-not-implemented"

end QP.C06
