import QP.Base
/-!
# C06 — model of the hardware-preparation rewrites of `qupulse.program.loop.Loop`

The model mirrors the code that exists (`loop.py`, `utils/tree.py`, `utils/numeric.py`):

* a program is a tree `Loop.mk rep vol meas wf children`; a node is a *leaf* iff it has no children
  (`Node.is_leaf`); `vol` = "the repetition count is a `VolatileRepetitionCount`", `meas` = "the node
  carries a non-empty measurement list" — both only matter because the code branches on them;
* a leaf waveform is abstract: the list of *atoms* `(id, duration, constant?)` it plays.  An
  unmerged leaf has one atom; `to_waveform` (used by `make_compatible`) produces the concatenation
  of the atoms it merges, so the played sequence stays comparable.  For a constant atom `id` names
  its value dictionary (two constant atoms with the same `id` play the same voltages);
* Python mutation through `self` becomes "return the new tree"; a raised exception becomes
  `.error <class>` and means "raised before anything was modified";
* the `while` loop of `flatten_and_balance` is `flattenLoop` with a fuel argument and a zipper
  `(done, rest)` for `(i, children)`: "do not advance `i`" = the element stays at the head of `rest`;
* child positions (`Node.__parent_index`) are assumed to be the real positions (this is the
  repaired behaviour of `Node._reverse_children`, PF-05; coherence under edit histories is C09);
* `rollConstant` has a flag `strict`: `true` is the repaired behaviour (PF-06: a waveform whose
  sample count is not a multiple of the quantum is left alone), `false` the pinned behaviour.

Tree-shape precondition `Valid` (the docstring of `Loop`): every repetition count is `≥ 1`, a leaf
carries a waveform, an inner node carries none.  Only `toWaveform` / `makeCompatible` need it (for an
invalid tree Python raises inside `to_waveform`, at a point this model does not represent); the
driver answers `(precondition)` there.
-/
namespace QP.C06

inductive Err where
  | runtimeError     -- `unroll` on a leaf, `split_one_child` without a candidate
  | valueError       -- `split_one_child(i)` with count < 2; `make_compatible` on an incompatible program
  | assertion        -- violated `assert` (`_merge_single_child`, `smallest_factor_ge`)
  | indexError       -- child index out of range
  | zeroDivision     -- `% 0` / `// 0`
  | fuel             -- the model ran out of fuel (the Python loop would still be running)
  deriving Repr, DecidableEq

structure Atom where
  id : Nat
  dur : Rat
  const : Bool
  deriving DecidableEq, Repr

/-- a (possibly merged) waveform: the atoms it plays, in order -/
abbrev Wf := List Atom

def sumDur : List Atom → Rat
  | [] => 0
  | a :: as => a.dur + sumDur as

/-- `constant_value_dict()` of a merged waveform: `some id` iff it is non-empty and every atom is
constant with the same value dictionary (`SequenceWaveform.from_sequence` /
`RepetitionWaveform.from_repetition_count` collapse exactly then) -/
def constId : Wf → Option Nat
  | [] => none
  | a :: as => if a.const && as.all (fun b => b.const && b.id == a.id) then some a.id else none

inductive Loop where
  | mk (rep : Nat) (vol : Bool) (meas : Bool) (wf : Option Wf) (children : List Loop)
  deriving Repr

namespace Loop
def rep : Loop → Nat | mk r _ _ _ _ => r
def vol : Loop → Bool | mk _ v _ _ _ => v
def meas : Loop → Bool | mk _ _ m _ _ => m
def wf : Loop → Option Wf | mk _ _ _ w _ => w
def children : Loop → List Loop | mk _ _ _ _ cs => cs
def isLeaf : Loop → Bool | mk _ _ _ _ cs => cs.isEmpty
end Loop

/-- `xs` repeated `n` times -/
def repeatL {α : Type} : Nat → List α → List α
  | 0, _ => []
  | n + 1, xs => xs ++ repeatL n xs

/-! ## Observables: played sequence, duration, depth, balance -/

mutual
/-- the fully unrolled sequence of atoms the program plays -/
def play : Loop → List Atom
  | .mk r _ _ w cs => repeatL r (if cs.isEmpty then w.getD [] else playL cs)
def playL : List Loop → List Atom
  | [] => []
  | c :: cs => play c ++ playL cs
end

mutual
/-- `Loop.duration` = `body_duration * repetition_count` -/
def duration : Loop → Rat
  | .mk r _ _ w cs => (if cs.isEmpty then sumDur (w.getD []) else durationL cs) * (r : Rat)
def durationL : List Loop → Rat
  | [] => 0
  | c :: cs => duration c + durationL cs
end

def bodyDuration : Loop → Rat
  | .mk _ _ _ w cs => if cs.isEmpty then sumDur (w.getD []) else durationL cs

mutual
/-- `Node.depth` -/
def depth : Loop → Nat
  | .mk _ _ _ _ cs => if cs.isEmpty then 0 else 1 + maxDepthL cs
def maxDepthL : List Loop → Nat
  | [] => 0
  | c :: cs => max (depth c) (maxDepthL cs)
end

def headDepth : List Loop → Nat
  | [] => 0
  | c :: _ => depth c

mutual
/-- `Node.is_balanced` -/
def isBalanced : Loop → Bool
  | .mk _ _ _ _ cs => allBalL (headDepth cs) cs
def allBalL (d : Nat) : List Loop → Bool
  | [] => true
  | c :: cs => (depth c == d && isBalanced c) && allBalL d cs
end

mutual
/-- durations of the leaf waveforms, left to right (a leaf without waveform counts as 0) -/
def leafDurs : Loop → List Rat
  | .mk _ _ _ w cs => if cs.isEmpty then [sumDur (w.getD [])] else leafDursL cs
def leafDursL : List Loop → List Rat
  | [] => []
  | c :: cs => leafDurs c ++ leafDursL cs
end

mutual
/-- `Loop.duration` of every node in preorder -/
def nodeDurs : Loop → List Rat
  | .mk r v m w cs => duration (.mk r v m w cs) :: nodeDursL cs
def nodeDursL : List Loop → List Rat
  | [] => []
  | c :: cs => nodeDurs c ++ nodeDursL cs
end

mutual
def size : Loop → Nat
  | .mk _ _ _ _ cs => 1 + sizeL cs
def sizeL : List Loop → Nat
  | [] => 0
  | c :: cs => size c + sizeL cs
end

mutual
/-- the docstring's validity: counts ≥ 1, leaves carry a waveform, inner nodes carry none -/
def valid : Loop → Bool
  | .mk r _ _ w cs => decide (1 ≤ r) && (if cs.isEmpty then w.isSome else w.isNone) && validL cs
def validL : List Loop → Bool
  | [] => true
  | c :: cs => valid c && validL cs
end

mutual
/-- half of `valid`: a node with children carries no waveform (such a waveform is never played, but
it would become audible if a rewrite removed all children of the node) -/
def noInnerWf : Loop → Bool
  | .mk _ _ _ w cs => (cs.isEmpty || w.isNone) && noInnerWfL cs
def noInnerWfL : List Loop → Bool
  | [] => true
  | c :: cs => noInnerWf c && noInnerWfL cs
end

/-! ### Equality of played sequences up to splitting constant pieces

`rollConstant` replaces one constant atom by several shorter ones with the same values.  Two atom
sequences describe the same voltages iff they agree after merging adjacent constant atoms with
the same value dictionary: `norm`. -/

def push (s : Atom) : List Atom → List Atom
  | [] => [s]
  | t :: ts => if s.const && t.const && s.id == t.id then ⟨t.id, s.dur + t.dur, true⟩ :: ts else s :: t :: ts

def norm : List Atom → List Atom
  | [] => []
  | a :: as => push a (norm as)

/-! ## The simple rewrites -/

/-- `Loop.encapsulate` -/
def encapsulate : Loop → Loop
  | .mk r v m w cs => .mk 1 false false none [.mk r v m w cs]

/-- `Loop.unroll_children`.  Repaired behaviour (PF-C06-1): a leaf is rejected like in `unroll`;
the pinned code sets the repetition count of a leaf to 1 and thereby shortens the pulse
(`unrollChildrenPinned`). -/
def unrollChildren : Loop → Except Err Loop
  | .mk r _ m w cs => if cs.isEmpty then .error .runtimeError else .ok (.mk 1 false m w (repeatL r cs))

def unrollChildrenPinned : Loop → Loop
  | .mk r _ m w cs => .mk 1 false m w (repeatL r cs)

/-- what `Loop.unroll` puts in place of the node: `rep` copies of its children -/
def unrolled : Loop → List Loop
  | .mk r _ _ _ cs => repeatL r cs

/-- `parent[i].unroll()` -/
def unrollAt (p : Loop) (i : Nat) : Except Err Loop :=
  match p with
  | .mk r v m w cs =>
    match cs[i]? with
    | none => .error .indexError
    | some c =>
      if c.isLeaf then .error .runtimeError
      else .ok (.mk r v m w (cs.take i ++ unrolled c ++ cs.drop (i + 1)))

/-- `Loop._has_single_child_that_can_be_merged` -/
def hasSingleMergeable : Loop → Bool
  | .mk _ _ m _ [.mk cr cv _ _ _] => !m || (cr == 1 && !cv)
  | _ => false

/-- `Loop._merge_single_child` -/
def mergeSingleChild : Loop → Except Err Loop
  | .mk r v m w [.mk cr cv cm cw ccs] =>
    if m && !(cr == 1 && !cv) then .error .assertion
    else if w.isSome then .error .assertion
    else .ok (.mk (r * cr) (v || cv) (m || cm) cw ccs)
  | _ => .error .assertion

/-- candidate of `split_one_child()` scanning from the end: the last non-volatile child with count > 1,
else the last volatile one. `i` is the position of the head of the list. -/
def findSplit : List Loop → Nat → Option Nat → Option Nat → Option Nat × Option Nat
  | [], _, nv, v => (nv, v)
  | c :: cs, i, nv, v =>
    if c.rep > 1 then
      if !c.vol then findSplit cs (i + 1) (some i) v else findSplit cs (i + 1) nv (some i)
    else findSplit cs (i + 1) nv v

def splitIndex (cs : List Loop) : Option Nat :=
  match findSplit cs 0 none none with
  | (some i, _) => some i
  | (none, some i) => some i
  | (none, none) => none

def splitAt (cs : List Loop) (i : Nat) : Except Err (List Loop) :=
  match cs[i]? with
  | none => .error .indexError
  | some (.mk cr _ cm cw ccs) =>
    .ok (cs.take i ++ [.mk (cr - 1) false cm cw ccs, .mk 1 false cm cw ccs] ++ cs.drop (i + 1))

/-- Python list index: negative values count from the end -/
def pyIndex (len : Nat) (i : Int) : Option Nat :=
  if 0 ≤ i then (if i.toNat < len then some i.toNat else none)
  else (if (-i).toNat ≤ len then some (len - (-i).toNat) else none)

/-- `Loop.split_one_child(child_index)`.  Repaired behaviour (PF-C06-2): a negative index is
normalised first; the pinned code inserts the copy at `self[child_index+1:child_index+1]` with the
negative index, i.e. for `-1` at the front, which changes the played order. -/
def splitOneChild (p : Loop) (idx : Option Int) : Except Err Loop :=
  match p with
  | .mk r v m w cs =>
    match idx with
    | some i =>
      match pyIndex cs.length i with
      | none => .error .indexError
      | some i =>
        match cs[i]? with
        | none => .error .indexError
        | some c => if c.rep < 2 then .error .valueError else (splitAt cs i).map (.mk r v m w)
    | none =>
      match splitIndex cs with
      | none => .error .runtimeError
      | some i => (splitAt cs i).map (.mk r v m w)

/-! ## `cleanup` -/

mutual
/-- `Loop.cleanup(actions)`; `re` = `'remove_empty_loops' in actions`, `ms` = `'merge_single_child' in actions` -/
def cleanup (re ms : Bool) : Loop → Except Err Loop
  | .mk r v m w cs =>
    match cleanupL re ms cs with
    | .error e => .error e
    | .ok cs' =>
      if ms && hasSingleMergeable (.mk r v m w cs') then mergeSingleChild (.mk r v m w cs')
      else .ok (.mk r v m w cs')
def cleanupL (re ms : Bool) : List Loop → Except Err (List Loop)
  | [] => .ok []
  | c :: cs =>
    if re then
      if c.isLeaf then
        match cleanupL re ms cs with
        | .error e => .error e
        | .ok cs' => if c.wf.isNone then .ok cs' else .ok (c :: cs')
      else
        match cleanup re ms c with
        | .error e => .error e
        | .ok c' =>
          match cleanupL re ms cs with
          | .error e => .error e
          | .ok cs' => if c'.wf.isSome || !c'.isLeaf then .ok (c' :: cs') else .ok cs'
    else
      match cleanup re ms c with
      | .error e => .error e
      | .ok c' =>
        match cleanupL re ms cs with
        | .error e => .error e
        | .ok cs' => .ok (c' :: cs')
end

/-! ## `flatten_and_balance` -/

/-- the `while i < len(self)` loop: `done` = children before `i`, `rest` = children from `i` on -/
def flattenLoop : Nat → Int → List Loop → List Loop → Except Err (List Loop)
  | _, _, done, [] => .ok done
  | 0, _, _, _ :: _ => .error .fuel
  | n + 1, d, done, c :: rest =>
    if (depth c : Int) < d - 1 then
      flattenLoop n d done (encapsulate c :: rest)
    else if !isBalanced c then
      match c with
      | .mk r v m w cs =>
        match flattenLoop n (d - 1) [] cs with
        | .error e => .error e
        | .ok cs' => flattenLoop n d done (.mk r v m w cs' :: rest)
    else if (depth c : Int) = d - 1 then
      flattenLoop n d (done ++ [c]) rest
    else if hasSingleMergeable c then
      match mergeSingleChild c with
      | .error e => .error e
      | .ok c' => flattenLoop n d done (c' :: rest)
    else if !c.isLeaf then
      flattenLoop n d done (unrolled c ++ rest)
    else
      flattenLoop n d (done ++ [c]) rest

/-- `Loop.flatten_and_balance(depth)` -/
def flatten (fuel : Nat) (d : Int) : Loop → Except Err Loop
  | .mk r v m w cs =>
    match flattenLoop fuel d [] cs with
    | .error e => .error e
    | .ok cs' => .ok (.mk r v m w cs')

/-! ## `make_compatible` -/

mutual
/-- `to_waveform(program)` as the atoms of the resulting waveform -/
def toWaveform : Loop → Wf
  | .mk r _ _ w cs =>
    if cs.isEmpty then (if r = 1 then w.getD [] else repeatL r (w.getD []))
    else if r > 1 then repeatL r (toWaveformL cs) else toWaveformL cs
def toWaveformL : List Loop → Wf
  | [] => []
  | c :: cs => toWaveform c ++ toWaveformL cs
end

inductive Level where
  | compatible | actionRequired | tooShort | fraction | quantum
  deriving Repr, DecidableEq

def Level.isIncompatible : Level → Bool
  | .tooShort | .fraction | .quantum => true
  | _ => false

mutual
/-- `_is_compatible(program, min_len, quantum, sample_rate)` (for `quantum ≥ 1`) -/
def isCompatible (minLen quantum : Nat) (rate : Rat) : Loop → Level
  | .mk r v m w cs =>
    let samples := duration (.mk r v m w cs) * rate
    if samples.den ≠ 1 then .fraction
    else if samples < (minLen : Rat) then .tooShort
    else if Int.fmod samples.num (quantum : Int) > 0 then .quantum
    else if cs.isEmpty then
      let wfSamples := bodyDuration (.mk r v m w cs) * rate
      if wfSamples < (minLen : Rat) ∨ (wfSamples / (quantum : Rat)).den ≠ 1 then .actionRequired
      else .compatible
    else if allCompatibleL minLen quantum rate cs then .compatible else .actionRequired
def allCompatibleL (minLen quantum : Nat) (rate : Rat) : List Loop → Bool
  | [] => true
  | c :: cs => (isCompatible minLen quantum rate c == .compatible) && allCompatibleL minLen quantum rate cs
end

def anyIncompatibleL (minLen quantum : Nat) (rate : Rat) : List Loop → Bool
  | [] => false
  | c :: cs => (isCompatible minLen quantum rate c).isIncompatible || anyIncompatibleL minLen quantum rate cs

mutual
/-- `_make_compatible(program, min_len, quantum, sample_rate)` on a valid tree -/
def makeCompatibleAux (minLen quantum : Nat) (rate : Rat) : Loop → Loop
  | .mk r v m w cs =>
    if cs.isEmpty then
      .mk 1 false m (some (toWaveform (.mk r v m w cs))) []
    else if anyIncompatibleL minLen quantum rate cs then
      let single := duration (.mk r v m w cs) * rate / (r : Rat)
      if (single / (quantum : Rat)).den = 1 ∧ (minLen : Rat) ≤ single then
        .mk r v m (some (toWaveform (.mk 1 false m w cs))) []
      else
        .mk 1 false m (some (toWaveform (.mk r v m w cs))) []
    else .mk r v m w (makeCompatibleAuxL minLen quantum rate cs)
def makeCompatibleAuxL (minLen quantum : Nat) (rate : Rat) : List Loop → List Loop
  | [] => []
  | c :: cs =>
    (if isCompatible minLen quantum rate c == .actionRequired then makeCompatibleAux minLen quantum rate c else c)
      :: makeCompatibleAuxL minLen quantum rate cs
end

/-- `make_compatible(program, minimal_waveform_length, waveform_quantum, sample_rate)` on a valid tree.
With `quantum = 0` Python's `%` raises unless one of the two earlier tests already returned. -/
def makeCompatible (minLen quantum : Nat) (rate : Rat) (t : Loop) : Except Err Loop :=
  let samples := duration t * rate
  if samples.den ≠ 1 then .error .valueError
  else if samples < (minLen : Rat) then .error .valueError
  else if quantum = 0 then .error .zeroDivision
  else
    match isCompatible minLen quantum rate t with
    | .fraction | .tooShort | .quantum => .error .valueError
    | .actionRequired => .ok (makeCompatibleAux minLen quantum rate t)
    | .compatible => .ok t

/-! ## `roll_constant_waveforms` and `smallest_factor_ge` -/

/-- first element `f` of `start, start+1, …` (`count` candidates) with `n % f == 0` -/
def firstFactor (n : Nat) : Nat → Nat → Option Nat
  | _, 0 => none
  | start, count + 1 => if n % start = 0 then some start else firstFactor n (start + 1) count

/-- `smallest_factor_ge(n, min_factor, brute_force=5)`: probe `range(min_factor, min(min_factor+5, n))`,
then the minimum of the divisors `≥ min_factor` -/
def smallestFactorGe (n minFactor : Nat) : Except Err Nat :=
  if n < minFactor then .error .assertion
  else if n = 0 then .error .valueError                         -- `min()` of `divisors(0) = []`
  else if minFactor = 0 then .error .zeroDivision               -- `n % 0`
  else
    match firstFactor n minFactor (min (minFactor + 5) n - minFactor) with
    | some f => .ok f
    | none =>
      match firstFactor n minFactor (n + 1 - minFactor) with
      | some f => .ok f
      | none => .error .valueError       -- `min()` of an empty sequence

mutual
/-- `roll_constant_waveforms(program, minimal_waveform_quanta, waveform_quantum, sample_rate)`.
`strict = true`: repaired (PF-06) — a waveform whose length is not a multiple of the quantum is kept. -/
def rollConstant (strict : Bool) (minQ quantum : Nat) (rate : Rat) : Loop → Except Err Loop
  | .mk r v _ w cs =>
    match w with
    | none =>
      match rollConstantL strict minQ quantum rate cs with
      | .error e => .error e
      | .ok cs' => .ok (.mk r v false none cs')
    | some wf =>
      if quantum = 0 then .error .zeroDivision else
      let samples := sumDur wf * rate
      let wq : Int := (samples / (quantum : Rat)).floor
      if wq < 2 * (minQ : Int) then .ok (.mk r v false w cs) else
      match constId wf with
      | none => .ok (.mk r v false w cs)
      | some cid =>
        if strict && (samples / (quantum : Rat)).den ≠ 1 then .ok (.mk r v false w cs) else
        match smallestFactorGe wq.toNat minQ with
        | .error e => .error e
        | .ok nq =>
          if (nq : Int) = wq then .ok (.mk r v false w cs)
          else
            let add := wq.toNat / nq
            .ok (.mk (r * add) v false (some [⟨cid, (quantum : Rat) * (nq : Rat) / rate, true⟩]) cs)
def rollConstantL (strict : Bool) (minQ quantum : Nat) (rate : Rat) : List Loop → Except Err (List Loop)
  | [] => .ok []
  | c :: cs =>
    match rollConstant strict minQ quantum rate c with
    | .error e => .error e
    | .ok c' =>
      match rollConstantL strict minQ quantum rate cs with
      | .error e => .error e
      | .ok cs' => .ok (c' :: cs')
end

/-! ## Specification (the judge)

`SamePulse a b`: `b` plays the same voltages as `a` (same atoms up to splitting/merging equal
constants) and has the same total duration. -/

def SamePulse (a b : Loop) : Prop := norm (play b) = norm (play a) ∧ duration b = duration a

def samePulseB (a b : Loop) : Bool := decide (norm (play b) = norm (play a)) && decide (duration b = duration a)

/-- requested depth and balance: every child of the root is balanced and has depth `max (d-1) 0` -/
def FlattenPost (d : Int) (t : Loop) : Prop :=
  ∀ c ∈ t.children, isBalanced c = true ∧ (depth c : Int) = max (d - 1) 0

def flattenPostB (d : Int) (t : Loop) : Bool :=
  t.children.all (fun c => isBalanced c && decide ((depth c : Int) = max (d - 1) 0))

/-- every played waveform is long enough and a multiple of the granularity -/
def CompatPost (minLen quantum : Nat) (rate : Rat) (t : Loop) : Prop :=
  ∀ x ∈ leafDurs t, (minLen : Rat) ≤ x * rate ∧ (x * rate / (quantum : Rat)).den = 1

def compatPostB (minLen quantum : Nat) (rate : Rat) (t : Loop) : Bool :=
  (leafDurs t).all (fun x => decide ((minLen : Rat) ≤ x * rate) && decide ((x * rate / (quantum : Rat)).den = 1))

/-! ## Line protocol -/
open Sexp

def errS : Err → Sexp
  | .runtimeError => .list [.atom "error", .atom "runtime_error"]
  | .valueError => .list [.atom "error", .atom "value_error"]
  | .assertion => .list [.atom "error", .atom "assertion"]
  | .indexError => .list [.atom "error", .atom "index_error"]
  | .zeroDivision => .list [.atom "error", .atom "zero_division"]
  | .fuel => .list [.atom "error", .atom "fuel"]

def atomS (a : Atom) : Sexp := .list [ofNat a.id, ofRat a.dur, ofBool a.const]

def atom? : Sexp → Option Atom
  | .list [i, d, c] => do
    let i ← nat? i; let d ← rat? d; let c ← bool? c
    some ⟨i, d, c⟩
  | _ => none

def wfS : Option Wf → Sexp
  | none => .atom "-"
  | some w => .list (w.map atomS)

def wf? : Sexp → Option (Option Wf)
  | .atom "-" => some none
  | .list xs => (xs.mapM atom?).map some
  | _ => none

partial def loopS : Loop → Sexp
  | .mk r v m w cs => .list [.atom "L", ofNat r, ofBool v, ofBool m, wfS w, .list (cs.map loopS)]

partial def loop? : Sexp → Option Loop
  | .list [.atom "L", r, v, m, w, .list cs] => do
    let r ← nat? r; let v ← bool? v; let m ← bool? m; let w ← wf? w
    let cs ← cs.mapM loop?
    some (.mk r v m w cs)
  | _ => none

def obsS (t : Loop) : Sexp :=
  .list [.atom "obs",
    .list [.atom "dur", ofRat (duration t)],
    .list [.atom "depth", ofNat (depth t)],
    .list [.atom "bal", ofBool (isBalanced t)],
    .list (.atom "leaves" :: (leafDurs t).map ofRat),
    .list (.atom "play" :: (norm (play t)).map atomS)]

/-- fuel handed to `flatten` by the driver (see `QP.Props.C06.flatten_terminates`) -/
def driverFuel : Nat := 4000000

inductive Op where
  | encapsulate | unrollChildren | unroll (i : Nat) | merge | split (i : Option Int)
  | cleanup (re ms : Bool) | flatten (d : Int) | compat (minLen q : Nat) (rate : Rat)
  | roll (minQ q : Nat) (rate : Rat) | rollPinned (minQ q : Nat) (rate : Rat)

def op? : Sexp → Option Op
  | .list [.atom "encapsulate"] => some .encapsulate
  | .list [.atom "unroll-children"] => some .unrollChildren
  | .list [.atom "unroll", i] => (nat? i).map .unroll
  | .list [.atom "merge"] => some .merge
  | .list [.atom "split", .atom "none"] => some (.split none)
  | .list [.atom "split", i] => (int? i).map (fun i => .split (some i))
  | .list [.atom "cleanup", re, ms] => do some (.cleanup (← bool? re) (← bool? ms))
  | .list [.atom "flatten", d] => (int? d).map .flatten
  | .list [.atom "compat", a, b, c] => do some (.compat (← nat? a) (← nat? b) (← rat? c))
  | .list [.atom "roll", a, b, c] => do some (.roll (← nat? a) (← nat? b) (← rat? c))
  | .list [.atom "roll-pinned", a, b, c] => do some (.rollPinned (← nat? a) (← nat? b) (← rat? c))
  | _ => none

/-- `none`: the input is outside the modelled domain (tree-shape precondition of `make_compatible`) -/
def runOp (op : Op) (t : Loop) : Option (Except Err Loop) :=
  match op with
  | .encapsulate => some (.ok (encapsulate t))
  | .unrollChildren => some (unrollChildren t)
  | .unroll i => some (unrollAt t i)
  | .merge => some (mergeSingleChild t)
  | .split i => some (splitOneChild t i)
  | .cleanup re ms => some (cleanup re ms t)
  | .flatten d => some (flatten driverFuel d t)
  | .compat a b c => if valid t then some (makeCompatible a b c t) else none
  | .roll a b c => some (rollConstant true a b c t)
  | .rollPinned a b c => some (rollConstant false a b c t)

/-- a sequence of rewrites applied to the same program; `none` if one of them raises or is outside the domain -/
def runPipe : List Op → Loop → Option Loop
  | [], t => some t
  | op :: ops, t =>
    match runOp op t with
    | some (.ok t') => runPipe ops t'
    | _ => none

/-- the judge: does output tree `o` (as serialised from the implementation) with the reported
duration / depth / balance satisfy the property for input `t` and rewrite `op`? -/
def judgeOk (op : Op) (t o : Loop) (rdurs : List Rat) (rdepth : Nat) (rbal : Bool) : String :=
  if ¬ (norm (play o) = norm (play t)) then "played-sequence-changed"
  else if ¬ (duration o = duration t) then "duration-changed"
  else if ¬ (rdurs.head? = some (duration t)) then "reported-duration-changed"
  else if ¬ (rdurs = nodeDurs o) then "reported-duration-of-a-subprogram-inconsistent"
  else if ¬ (rdepth = depth o ∧ rbal = isBalanced o) then "reported-depth-or-balance-inconsistent"
  else match op with
    | .flatten d => if flattenPostB d o then "ok" else "depth-or-balance-postcondition"
    | .compat a b c => if compatPostB a b c o then "ok" else "length-or-granularity-postcondition"
    | _ => "ok"

def judgeErr (t o : Loop) (rdurs : List Rat) : String :=
  if ¬ (norm (play o) = norm (play t)) then "played-sequence-changed-by-failed-rewrite"
  else if ¬ (duration o = duration t ∧ rdurs.head? = some (duration t)) then "duration-changed-by-failed-rewrite"
  else if ¬ (rdurs = nodeDurs o) then "reported-duration-of-a-subprogram-inconsistent"
  else "ok"

def handle : List Sexp → Sexp
  | [.atom "obs", t] =>
    match loop? t with
    | some t => obsS t
    | none => Sexp.err "bad-tree"
  | [.atom "run", op, t] =>
    match op? op, loop? t with
    | some op, some t =>
      match runOp op t with
      | none => .list [.atom "precondition"]
      | some (.error e) => errS e
      | some (.ok t') => .list [.atom "ok", loopS t', obsS t']
    | _, _ => Sexp.err "bad-args"
  | [.atom "runp", .list pres, op, t] =>
    -- a pipeline: the rewrites `pres` are applied first (all must succeed), then `op` as in `run`
    match pres.mapM op?, op? op, loop? t with
    | some pres, some op, some t =>
      match runPipe pres t with
      | none => .list [.atom "pre-error"]
      | some t1 =>
        match runOp op t1 with
        | none => .list [.atom "precondition"]
        | some (.error e) => errS e
        | some (.ok t') => .list [.atom "ok", loopS t', obsS t']
    | _, _, _ => Sexp.err "bad-args"
  | [.atom "judge", op, t, .list [.atom "ok", o, rdurs, rdepth, rbal]] =>
    match op? op, loop? t, loop? o, listOf? rat? rdurs, nat? rdepth, bool? rbal with
    | some op, some t, some o, some rdurs, some rdepth, some rbal =>
      .list [.atom "judge", .atom (judgeOk op t o rdurs rdepth rbal)]
    | _, _, _, _, _, _ => Sexp.err "bad-args"
  | [.atom "judge", _, t, .list [.atom "error", o, rdurs]] =>
    match loop? t, loop? o, listOf? rat? rdurs with
    | some t, some o, some rdurs => .list [.atom "judge", .atom (judgeErr t o rdurs)]
    | _, _, _ => Sexp.err "bad-args"
  | [.atom "sfg", n, m] =>
    match nat? n, nat? m with
    | some n, some m =>
      match smallestFactorGe n m with
      | .ok f => .list [.atom "ok", ofNat f]
      | .error e => errS e
    | _, _ => Sexp.err "bad-args"
  | _ => Sexp.err "c06-unknown-request"

end QP.C06
