import QP.Base
namespace QP.C16
open Sexp

def handle : List Sexp → Sexp
  | _ => Sexp.err "c16-not-implemented"

end QP.C16
