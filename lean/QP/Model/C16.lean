import QP.Base
/-!
# C16 — model of the Tabor back end `qupulse/_program/tabor.py`

* `Loop`/`play`: source programs with abstract leaf waveform ids and their fully unrolled play order.
* `Prog` (list of `SeqTab`): the depth-2 balanced form `setup_advanced_sequence_mode` works on after
  `flatten_and_balance(2)`; `prepareLoop` mirrors the `while` loop of
  `prepare_program_for_advanced_sequence_mode` (zipper `(doneRev, rest)` for `(program[:i], program[i:])`),
  `step` is one iteration with the same order of case distinctions, `_check_merge_with_next`,
  `_check_partial_unroll`, `Loop.unroll_children`, `Loop.split_one_child`.
* `parse`/`parseSingle`: `parse_aseq_program`/`parse_single_seq_program` (`OrderedDict.setdefault` de-duplication
  of waveforms and of sequence tables).
* `playAdv`/`playSeqTab`/`playTables`: the *independent table player* (advanced table → sequence tables →
  segments with multiplicities), generic in the segment type; it is used under `∀` in the theorems and as
  the judge of the real implementation's tables.
* segment packing (`TaborSegment.from_sampled` / `.ch_a/.ch_b/.marker_a/.marker_b`), `code14`
  (`voltage_to_uint16(..., resolution=14)`) over `Rat` with round-half-even, `calcSegments`
  (`_calc_sampled_segments`: length check, packing, de-duplication of segments by equality).
-/
namespace QP.C16

abbrev WfId := Nat

inductive Err where
  | tooLong        -- TaborException "not smart enough to make sequence tables shorter"
  | tooShort       -- TaborException "not smart enough to make this sequence table longer"
  | assertion      -- an `assert` fired
  | runtime        -- RuntimeError of `split_one_child` (no child with repetition count > 1)
  | fuel           -- model ran out of fuel (the Python loop would still be running)
  | valueError     -- voltage out of range
  | zeroDivision   -- amplitude 0
  | segmentLength  -- TaborException: waveform length < 192 or not a multiple of 16
  | lengthMismatch -- TaborException of `from_sampled`: channel entries of different length
  | indexError     -- a table refers to an element that does not exist
  deriving Repr, DecidableEq

def Err.name : Err → String
  | .tooLong => "too_long" | .tooShort => "too_short" | .assertion => "assertion" | .runtime => "runtime"
  | .fuel => "fuel" | .valueError => "value_error" | .zeroDivision => "zero_division"
  | .segmentLength => "segment_length" | .lengthMismatch => "length_mismatch" | .indexError => "index_error"

/-- `n` passes over `xs` -/
def repeatL {α} (n : Nat) (xs : List α) : List α := (List.replicate n xs).flatten

/-! ## Source programs -/

inductive Loop where
  | leaf (rep : Nat) (wf : WfId)
  | node (rep : Nat) (children : List Loop)
  deriving Repr

mutual
/-- the fully unrolled sequence of leaf waveforms -/
def Loop.play : Loop → List WfId
  | .leaf r w => List.replicate r w
  | .node r cs => repeatL r (Loop.playList cs)
def Loop.playList : List Loop → List WfId
  | [] => []
  | c :: cs => c.play ++ Loop.playList cs
end

mutual
/-- `Node.depth` -/
def Loop.depth : Loop → Nat
  | .leaf _ _ => 0
  | .node _ [] => 0
  | .node _ (c :: cs) => 1 + Loop.maxDepth (c :: cs)
def Loop.maxDepth : List Loop → Nat
  | [] => 0
  | c :: cs => max c.depth (Loop.maxDepth cs)
end

def Loop.rep : Loop → Nat
  | .leaf r _ => r
  | .node r _ => r

/-- `Loop.encapsulate` -/
def Loop.encapsulate (l : Loop) : Loop := .node 1 [l]

/-- the head of `TaborProgram.__init__`: `if program.repetition_count > 1 or program.volatile_repetition or
program.depth() == 0: program.encapsulate()` (`rootVol`: the root's repetition count is volatile; a volatile
count of 1 or 0 is encapsulated as well, so that it ends up in the advanced sequencer table) -/
def initProgram (rootVol : Bool) (l : Loop) : Loop :=
  if l.rep > 1 ∨ rootVol = true ∨ l.depth = 0 then l.encapsulate else l

inductive Mode where
  | single | advanced
  deriving Repr, DecidableEq

def chooseMode (m : Option Mode) (l : Loop) : Mode :=
  match m with
  | some m => m
  | none => if l.depth > 1 then .advanced else .single

/-! ## Depth-2 balanced programs -/

/-- a volatile repetition count as far as the back end looks at it: the id of its `VolatileProperty`
(expression + dependencies) and the identity of the scope it is evaluated in -/
abbrev VolId := Nat × Nat

structure Entry where
  rep : Nat
  wf : WfId
  vol : Option VolId      -- volatile repetition count, if any
  deriving Repr, DecidableEq

structure SeqTab where
  rep : Nat
  vol : Option Nat
  entries : List Entry
  deriving Repr, DecidableEq

abbrev Prog := List SeqTab

def Entry.play (e : Entry) : List WfId := List.replicate e.rep e.wf
def playEntries (es : List Entry) : List WfId := es.flatMap Entry.play
def SeqTab.play (t : SeqTab) : List WfId := repeatL t.rep (playEntries t.entries)
def playProg (p : Prog) : List WfId := p.flatMap SeqTab.play

def Entry.toLoop (e : Entry) : Loop := .leaf e.rep e.wf
def SeqTab.toLoop (t : SeqTab) : Loop := .node t.rep (t.entries.map Entry.toLoop)
/-- a depth-2 balanced program as a `Loop` (root repetition count 1) -/
def Prog.toLoop (p : Prog) : Loop := .node 1 (p.map SeqTab.toLoop)

structure Limits where
  min : Nat
  max : Nat
  deriving Repr

def entrySum (es : List Entry) : Nat := (es.map (·.rep)).sum

/-! ### `_check_merge_with_next` -/

def mergeOk (L : Limits) (a b : SeqTab) : Bool :=
  a.rep == 1 && b.rep == 1 && decide (a.entries.length + b.entries.length < L.max)

/-- `program[n][len(program[n]):] = program[n+1][:]`: the first table keeps its own repetition definition -/
def mergeTabs (a b : SeqTab) : SeqTab := { a with entries := a.entries ++ b.entries }

/-! ### `Loop.unroll_children`, `Loop.split_one_child` -/

def unrollChildren (t : SeqTab) : SeqTab := ⟨1, none, repeatL t.rep t.entries⟩

/-- split the *last* entry satisfying `p`: its count is lowered by one and a copy with count 1 follows it -/
def splitLast (p : Entry → Bool) : List Entry → Option (List Entry)
  | [] => none
  | e :: es =>
    match splitLast p es with
    | some es' => some (e :: es')
    | none =>
      if p e then some ({ e with rep := e.rep - 1, vol := none } :: { e with rep := 1, vol := none } :: es)
      else none

/-- `split_one_child()` without index: the last non-volatile child with count > 1, otherwise the last
volatile one, otherwise `RuntimeError` -/
def splitOneChild (es : List Entry) : Except Err (List Entry) :=
  match splitLast (fun e => decide (e.rep > 1) && e.vol.isNone) es with
  | some es' => .ok es'
  | none =>
    match splitLast (fun e => decide (e.rep > 1)) es with
    | some es' => .ok es'
    | none => .error .runtime

/-- `while len(st) < min_seq_len: st.split_one_child()` -/
def splitWhile (min : Nat) : Nat → List Entry → Except Err (List Entry)
  | 0, es => if min ≤ es.length then .ok es else .error .fuel
  | f + 1, es =>
    if min ≤ es.length then .ok es else
    match splitOneChild es with
    | .error e => .error e
    | .ok es' => splitWhile min f es'

/-- `_check_partial_unroll`: `none` = returned `False` (nothing changed) -/
def partialUnroll (L : Limits) (t : SeqTab) : Except Err (Option SeqTab) :=
  if t.vol.isSome then .ok none else
  if L.min ≤ entrySum t.entries * t.rep then
    let t1 := if entrySum t.entries < L.min then unrollChildren t else t
    match splitWhile L.min L.min t1.entries with
    | .error e => .error e
    | .ok es => .ok (some { t1 with entries := es })
  else .ok none

/-! ### one iteration of `prepare_program_for_advanced_sequence_mode` -/

def mergePrev (L : Limits) : List SeqTab → SeqTab → Option (List SeqTab)
  | p :: d, c => if mergeOk L p c then some (mergeTabs p c :: d) else none
  | [], _ => none

def mergeNext (L : Limits) (c : SeqTab) : List SeqTab → Option (List SeqTab)
  | nx :: r => if mergeOk L c nx then some (mergeTabs c nx :: r) else none
  | [] => none

/-- "extend by unrolling a neighbour" with the previous table -/
def unrollPrev (L : Limits) : List SeqTab → SeqTab → Option (List SeqTab × SeqTab)
  | p :: d, c =>
    if p.rep > 1 ∧ c.entries.length + p.entries.length < L.max then
      some ({ p with rep := p.rep - 1, vol := none } :: d, { c with entries := p.entries ++ c.entries })
    else none
  | [], _ => none

/-- … with the next table (the count setter replaces a volatile definition by an `int`; the code only warns
with `VolatileModificationWarning`) -/
def unrollNext (L : Limits) (c : SeqTab) : List SeqTab → Option (List SeqTab)
  | nx :: r =>
    if nx.rep > 1 ∧ c.entries.length + nx.entries.length < L.max then
      some ({ c with entries := c.entries ++ nx.entries } :: { nx with rep := nx.rep - 1, vol := none } :: r)
    else none
  | [] => none

/-- One pass through the `while` body with `program[:i] = d.reverse`, `program[i] = c`,
`program[i+1:] = r`. The result is the new `(program[:i'] reversed, program[i':])`. -/
def step (L : Limits) (d : List SeqTab) (c : SeqTab) (r : List SeqTab) :
    Except Err (List SeqTab × List SeqTab) :=
  if L.max < c.entries.length then .error .tooLong
  else if c.entries.length < L.min then
    if c.rep = 0 then .error .assertion
    else if c.rep = 1 then
      match mergePrev L d c with
      | some d' => .ok (d', r)
      | none =>
      match mergeNext L c r with
      | some r' => .ok (d, r')
      | none =>
      match partialUnroll L c with
      | .error e => .error e
      | .ok (some c') => .ok (c' :: d, r)
      | .ok none =>
      match unrollPrev L d c with
      | some (d', c') => .ok (d', c' :: r)
      | none =>
      match unrollNext L c r with
      | some r' => .ok (d, r')
      | none => .error .tooShort
    else
      match partialUnroll L c with
      | .error e => .error e
      | .ok (some c') => .ok (c' :: d, r)
      | .ok none => .error .tooShort
  else .ok (c :: d, r)

/-- The `while i < len(program)` loop. An error carries the program object as it is at the moment the
exception is raised (earlier iterations have already modified it in place). -/
def prepareLoop (L : Limits) : Nat → List SeqTab → List SeqTab → Except (Err × Prog) Prog
  | _, d, [] => .ok d.reverse
  | 0, d, c :: r => .error (.fuel, d.reverse ++ c :: r)
  | n + 1, d, c :: r =>
    match step L d c r with
    | .error e => .error (e, d.reverse ++ c :: r)
    | .ok (d', r') => prepareLoop L n d' r'

/-- `prepare_program_for_advanced_sequence_mode(program, min_seq_len, max_seq_len)` -/
def prepare (fuel : Nat) (L : Limits) (p : Prog) : Except (Err × Prog) Prog := prepareLoop L fuel [] p

/-- the measure that drops in every iteration: sum of the table repetition counts + tables still ahead -/
def progWeight (p : Prog) : Nat := (p.map (·.rep)).sum
def fuelFor (p : Prog) : Nat := progWeight p + p.length + 1

def tabInLimits (L : Limits) (t : SeqTab) : Bool :=
  decide (L.min ≤ t.entries.length) && decide (t.entries.length ≤ L.max)

/-- `setup_advanced_sequence_mode` after `flatten_and_balance(2)`: prepare, then the two `assert`s per table -/
def setupAdvanced (fuel : Nat) (L : Limits) (p : Prog) : Except (Err × Prog) Prog :=
  match prepare fuel L p with
  | .error e => .error e
  | .ok p' => if p'.all (tabInLimits L) then .ok p' else .error (.assertion, p')

/-! ## Tables and the table player -/

structure TEntry where
  rep : Nat
  elem : Nat
  jump : Nat
  deriving Repr, DecidableEq

/-- one sequence table: entry `(rep, elem, _)` plays element `elem` (0-based) `rep` times -/
def playSeqTab {σ} (segs : List σ) : List TEntry → Option (List σ)
  | [] => some []
  | e :: es =>
    match segs[e.elem]?, playSeqTab segs es with
    | some s, some r => some (List.replicate e.rep s ++ r)
    | _, _ => none

/-- the advanced sequencer table: entry `(rep, no, _)` plays sequence table number `no` (1-based) `rep` times -/
def playAdv {σ} (segs : List σ) (tabs : List (List TEntry)) : List TEntry → Option (List σ)
  | [] => some []
  | a :: as =>
    match a.elem with
    | 0 => none
    | k + 1 =>
      match tabs[k]? with
      | none => none
      | some tab =>
        match playSeqTab segs tab, playAdv segs tabs as with
        | some s, some r => some (repeatL a.rep s ++ r)
        | _, _ => none

/-- A sequencer table as `parse_aseq_program` keys it: every entry with its volatile property *and* the scope
of that volatile count. (The code keeps the scopes in a second tuple, `(entries-with-properties, scopes of the
volatile entries)`; two keys are equal iff properties and scopes agree position by position, which is equality
of this list.) A table is therefore shared only between positions whose volatile counts live in the same scopes. -/
abbrev VTab := List (TEntry × Option VolId)

structure Tables where
  wfs : List WfId          -- the distinct waveforms; sequence-table elements index into it
  seqTabs : List VTab
  adv : List TEntry
  deriving Repr, DecidableEq

def Tables.plain (T : Tables) : List (List TEntry) := T.seqTabs.map (·.map Prod.fst)

def playTables (T : Tables) : Option (List WfId) := playAdv T.wfs T.plain T.adv

/-- `d.setdefault(x, len(d))` on an `OrderedDict` whose values are the insertion positions -/
def setDefault {α} [DecidableEq α] (keys : List α) (x : α) : List α × Nat :=
  (if keys.idxOf x < keys.length then keys else keys ++ [x], keys.idxOf x)

def parseEntries (wfs : List WfId) : List Entry → List WfId × VTab
  | [] => (wfs, [])
  | e :: es =>
    let r := parseEntries (setDefault wfs e.wf).1 es
    (r.1, (⟨e.rep, (setDefault wfs e.wf).2, 0⟩, e.vol) :: r.2)

def parseTabs (wfs : List WfId) (tabs : List VTab) : Prog → Tables
  | [] => ⟨wfs, tabs, []⟩
  | t :: ts =>
    let pe := parseEntries wfs t.entries
    let sd := setDefault tabs pe.2
    let r := parseTabs pe.1 sd.1 ts
    { r with adv := ⟨t.rep, sd.2 + 1, 0⟩ :: r.adv }

/-- `parse_aseq_program` -/
def parse (p : Prog) : Tables := parseTabs [] [] p

/-- `parse_single_seq_program` for a depth-1 program `rep × entries` -/
def parseSingle (rep : Nat) (es : List Entry) : Tables :=
  let pe := parseEntries [] es
  ⟨pe.1, [pe.2], [⟨rep, 1, 0⟩]⟩

/-! ## Sample codes and segment packing -/

/-- round half to even (`numpy.rint`) -/
def rne (x : Rat) : Int :=
  let f := x.floor
  let d := x - f
  if d < (1:Rat)/2 then f else if (1:Rat)/2 < d then f + 1 else if f % 2 = 0 then f else f + 1

def absR (x : Rat) : Rat := if x < 0 then -x else x

/-- `voltage_to_uint16(v, amp, off, resolution=14)` for one sample -/
def code14 (amp off v : Rat) : Except Err Nat :=
  if amp < absR (v - off) then .error .valueError
  else if amp = 0 then .error .zeroDivision
  else .ok (rne ((v - off + amp) * 16383 / (2 * amp))).toNat

def codes (amp off : Rat) : List Rat → Except Err (List Nat)
  | [] => .ok []
  | v :: vs =>
    match code14 amp off v, codes amp off vs with
    | .ok c, .ok cs => .ok (c :: cs)
    | .error e, _ => .error e
    | _, .error e => .error e

/-- what one segment means: codes of both channels and both markers (markers at half rate) -/
structure Seg where
  a : List Nat
  b : List Nat
  mA : List Bool
  mB : List Bool
  deriving Repr, DecidableEq, Inhabited

def packWord (a : Nat) (mA mB : Bool) : Nat :=
  a ||| ((if mA then 1 else 0) <<< 14) ||| ((if mB then 1 else 0) <<< 15)

def wordChan (w : Nat) : Nat := w &&& (2 ^ 14 - 1)
def wordMA (w : Nat) : Bool := w &&& 2 ^ 14 != 0
def wordMB (w : Nat) : Bool := w &&& 2 ^ 15 != 0

def packHalf : List Nat → List Bool → List Bool → List Nat
  | a :: as, m :: ms, n :: ns => packWord a m n :: packHalf as ms ns
  | _, _, _ => []

/-- native layout `(n_quanta, 2, 16)` flattened: per quantum 16 words of channel B, then 16 words of channel A
whose last 8 carry the 8 marker samples of the quantum in bits 14 (marker A) and 15 (marker B) -/
def packN : Nat → Seg → List Nat
  | 0, _ => []
  | n + 1, s =>
    s.b.take 16 ++ (s.a.take 8 ++ packHalf ((s.a.drop 8).take 8) (s.mA.take 8) (s.mB.take 8))
      ++ packN n ⟨s.a.drop 16, s.b.drop 16, s.mA.drop 8, s.mB.drop 8⟩

def unpackN : Nat → List Nat → Seg
  | 0, _ => ⟨[], [], [], []⟩
  | n + 1, raw =>
    let b := raw.take 16
    let aw := (raw.drop 16).take 16
    let r := unpackN n (raw.drop 32)
    ⟨aw.map wordChan ++ r.a, b ++ r.b, (aw.drop 8).map wordMA ++ r.mA, (aw.drop 8).map wordMB ++ r.mB⟩

/-- a segment with `16·n` samples per channel and `8·n` per marker -/
def Seg.WF (s : Seg) (n : Nat) : Prop :=
  s.a.length = 16 * n ∧ s.b.length = 16 * n ∧ s.mA.length = 8 * n ∧ s.mB.length = 8 * n

def Seg.wfB (s : Seg) : Bool :=
  s.a.length % 16 == 0 && s.b.length == s.a.length && s.mA.length * 2 == s.a.length && s.mB.length * 2 == s.a.length

/-- `TaborSegment.from_sampled(...).get_as_binary()` -/
def pack (s : Seg) : Except Err (List Nat) :=
  if s.b.length = s.a.length ∧ s.mA.length * 2 = s.a.length ∧ s.mB.length * 2 = s.a.length then
    if s.a.length % 16 = 0 then .ok (packN (s.a.length / 16) s) else .error .assertion
  else .error .lengthMismatch

/-- reading a binary segment back: `ch_a`, `ch_b`, `marker_a`, `marker_b` -/
def unpack (raw : List Nat) : Option Seg :=
  if raw.length % 32 = 0 then some (unpackN (raw.length / 32) raw) else none

/-- device limits on one segment -/
def segLenOk (n : Nat) : Bool := n % 16 == 0 && decide (192 ≤ n)

/-- `_calc_sampled_segments` after sampling: `segs` are the sampled/quantised waveforms in table order -/
def dedupSegs : List (List Nat) → List (List Nat) → List (List Nat) × List Nat
  | keys, [] => (keys, [])
  | keys, x :: xs =>
    let sd := setDefault keys x
    let r := dedupSegs sd.1 xs
    (r.1, sd.2 :: r.2)

def packAll : List Seg → Except Err (List (List Nat))
  | [] => .ok []
  | s :: r =>
    match pack s, packAll r with
    | .ok x, .ok xs => .ok (x :: xs)
    | .error e, _ => .error e
    | _, .error e => .error e

def calcSegments (ss : List Seg) : Except Err (List (List Nat) × List Nat) :=
  if ss.all (fun s => segLenOk s.a.length) then
    match packAll ss with
    | .error e => .error e
    | .ok raws => .ok (dedupSegs [] raws)
  else .error .segmentLength

/-- `get_sequencer_tables`: elements are mapped through `waveform_to_segment` -/
def reindexTab (w2s : List Nat) : List TEntry → Option (List TEntry)
  | [] => some []
  | e :: es =>
    match w2s[e.elem]?, reindexTab w2s es with
    | some s, some r => some ({ e with elem := s } :: r)
    | _, _ => none

def reindexTabs (w2s : List Nat) : List (List TEntry) → Option (List (List TEntry))
  | [] => some []
  | t :: ts =>
    match reindexTab w2s t, reindexTabs w2s ts with
    | some t', some r => some (t' :: r)
    | _, _ => none

/-- what is handed to the instrument -/
structure Compiled where
  segs : List (List Nat)          -- binary segments (`get_sampled_segments`)
  seqTabs : List (List TEntry)    -- `get_sequencer_tables`: elements are 0-based segment indices
  adv : List TEntry               -- `get_advanced_sequencer_table`: elements are 1-based table numbers
  deriving Repr, DecidableEq

/-- `_calc_sampled_segments` + `get_sequencer_tables` on parsed tables; `sample w` is the sampled and
quantised waveform `w` -/
def finish (sample : WfId → Seg) (T : Tables) : Except Err Compiled :=
  match calcSegments (T.wfs.map sample) with
  | .error e => .error e
  | .ok (segs, w2s) =>
    match reindexTabs w2s T.plain with
    | none => .error .indexError
    | some tabs => .ok ⟨segs, tabs, T.adv⟩

/-- advanced sequencing mode from the flattened program on -/
def compileAdvanced (fuel : Nat) (L : Limits) (sample : WfId → Seg) (p : Prog) : Except Err Compiled :=
  match setupAdvanced fuel L p with
  | .error (e, _) => .error e
  | .ok p' => finish sample (parse p')

/-- `setup_single_sequence_mode` (with the repair PF-C16a: a table longer than `max_seq_len` is rejected;
the lower bound is not checked here, the driver pads a short single table with idle entries when arming) -/
def setupSingle (L : Limits) (rep : Nat) (es : List Entry) : Except Err Tables :=
  if L.max < es.length then .error .tooLong else .ok (parseSingle rep es)

/-- single sequencing mode for a depth-1 program -/
def compileSingle (L : Limits) (sample : WfId → Seg) (rep : Nat) (es : List Entry) : Except Err Compiled :=
  match setupSingle L rep es with
  | .error e => .error e
  | .ok T => finish sample T

/-- the binary form of a segment -/
def rawOf (s : Seg) : List Nat := packN (s.a.length / 16) s

/-! ## The judge: replay the implementation's tables and segments against the quantised source -/

/-- acceptable codes for an exact scaled value `y`: the round-half-even code; either neighbour when `y` is
within `2^-26` code units (2^-40 of full scale) of a half-integer (the implementation computes in floats) -/
def codeAccept (y : Rat) (c : Nat) : Bool :=
  let r := (rne y).toNat
  if c == r then true else
  let h : Rat := (y.floor : Rat) + (1:Rat)/2
  let dist := if y < h then h - y else y - h
  decide (dist * ((2 ^ 26 : Nat) : Rat) ≤ 1) && (decide ((c : Int) = y.floor) || decide ((c : Int) = y.floor + 1))

def scaled (amp off v : Rat) : Rat := (v - off + amp) * 16383 / (2 * amp)

/-- interval `[lo, hi]` of acceptable codes for one expected sample (`lo > hi`: nothing is acceptable) -/
abbrev Accept := Nat × Nat

/-- relative width of the band above the range end in which the float range check of the implementation
(`abs(v - off) > amp` after one rounding) may go either way -/
def bandEps : Rat := 1 / ((2 ^ 40 : Nat) : Rat)

def inBand (amp off v : Rat) : Bool :=
  decide (amp < absR (v - off)) && decide (absR (v - off) ≤ amp * (1 + bandEps))

def acceptVolt (amp off v : Rat) : Accept :=
  if amp * (1 + bandEps) < absR (v - off) ∨ amp = 0 then (1, 0)   -- out of range: the implementation has to reject
  else
    let y := scaled amp off v
    let r := (rne y).toNat
    let h : Rat := (y.floor : Rat) + (1:Rat)/2
    let dist := if y < h then h - y else y - h
    if dist * ((2 ^ 26 : Nat) : Rat) ≤ 1 then (y.floor.toNat, (y.floor + 1).toNat) else (r, r)

/-- expected samples of one distinct source waveform -/
structure SrcWf where
  id : Nat
  n : Nat
  a : Array Accept
  b : Array Accept
  mA : Array Bool
  mB : Array Bool
  band : Bool            -- some voltage lies within `bandEps` above the range end
  deriving Inhabited

def chanBand (amp off : Rat) : Option (List (Rat × Nat)) → Bool
  | none => false
  | some vs => vs.any (fun r => inBand amp off r.1)

def srcChan (amp off : Rat) (n : Nat) : Option (List (Rat × Nat)) → Array Accept
  | none => Array.replicate n (8192, 8192)         -- channel id `None`: the zero code
  | some runs => runs.foldl (fun acc r => acc ++ Array.replicate r.2 (acceptVolt amp off r.1)) #[]

/-- marker samples of a source waveform at the *full* rate; the judge keeps every second sample of the
whole program (the half-rate grid is global, not per waveform) -/
def srcMarker (n : Nat) : Option (List Bool) → Array Bool
  | none => Array.replicate n false
  | some ms => ms.toArray

def decimate (xs : Array Bool) : Array Bool := Id.run do
  let mut out : Array Bool := Array.mkEmpty ((xs.size + 1) / 2)
  for i in [0:xs.size:2] do
    out := out.push xs[i]!
  return out

/-- first position where the device stream leaves the acceptable codes -/
def firstBadCode (exp : Array Accept) (dev : Array Nat) : Option Nat := Id.run do
  if exp.size != dev.size then return some (min exp.size dev.size)
  for i in [0:dev.size] do
    let e := exp[i]!
    let c := dev[i]!
    if c < e.1 || e.2 < c then return some i
  return none

def firstBadBool (exp dev : Array Bool) : Option Nat := Id.run do
  if exp.size != dev.size then return some (min exp.size dev.size)
  for i in [0:dev.size] do
    if exp[i]! != dev[i]! then return some i
  return none

def concatMap {α β} (xs : List α) (f : α → Array β) : Array β :=
  xs.foldl (fun acc x => acc ++ f x) #[]

/-! ## Line protocol -/
open Sexp

def vol? : Sexp → Option (Option Nat)
  | .atom "-" => some none
  | s => (nat? s).map some

/-- `-` or `(property scope)` -/
def evol? : Sexp → Option (Option VolId)
  | .atom "-" => some none
  | .list [p, sc] => do pure (some (← nat? p, ← nat? sc))
  | _ => none

partial def loop? : Sexp → Option Loop
  | .list [.atom "w", r, i] => do pure (.leaf (← nat? r) (← nat? i))
  | .list (.atom "l" :: r :: cs) => do pure (.node (← nat? r) (← cs.mapM loop?))
  | _ => none

def entry? : Sexp → Option Entry
  | .list [.atom "e", r, w, v] => do pure ⟨← nat? r, ← nat? w, ← evol? v⟩
  | _ => none

def seqTab? : Sexp → Option SeqTab
  | .list (.atom "st" :: r :: v :: es) => do pure ⟨← nat? r, ← vol? v, ← es.mapM entry?⟩
  | _ => none

inductive Staged where
  | none
  | flat1 (rep : Nat) (es : List Entry)
  | flat2 (p : Prog)

def staged? : Sexp → Option Staged
  | .atom "none" => some .none
  | .list (.atom "flat1" :: r :: es) => do pure (.flat1 (← nat? r) (← es.mapM entry?))
  | .list (.atom "flat2" :: ts) => do pure (.flat2 (← ts.mapM seqTab?))
  | _ => none

def mode? : Sexp → Option (Option Mode)
  | .atom "single" => some (some .single)
  | .atom "advanced" => some (some .advanced)
  | .atom "auto" => some none
  | _ => none

def limits? : Sexp → Option Limits
  | .list [.atom "limits", a, b] => do pure ⟨← nat? a, ← nat? b⟩
  | _ => none

def volS : Option VolId → Sexp
  | none => .atom "-"
  | some v => .list [ofNat v.1, ofNat v.2]

def errS (e : Err) : Sexp := .list [.atom "error", .atom e.name]

def tablesS (m : Mode) (T : Tables) (stagedOk : Bool) : Sexp :=
  .list [.atom "ok", .atom (match m with | .single => "single" | .advanced => "advanced"),
    .list (.atom "wfs" :: T.wfs.map ofNat),
    .list (.atom "seqtabs" :: T.seqTabs.map (fun tab =>
      .list (tab.map (fun (e, v) => .list [ofNat e.rep, ofNat e.elem, volS v])))),
    .list (.atom "adv" :: T.adv.map (fun a => .list [ofNat a.rep, ofNat a.elem])),
    .list [.atom "staged-plays-source", ofBool stagedOk]]

/-- the model of `TaborProgram.__init__` up to the tables; the flattened program is supplied (`staged`),
`flatten_and_balance` itself belongs to C06 -/
def modelCompile (m : Option Mode) (L : Limits) (rootVol : Bool) (src : Loop) (st : Staged) : Sexp :=
  let l0 := initProgram rootVol src
  match chooseMode m l0 with
  | .single =>
    if l0.depth ≠ 1 then errS .assertion else
    match st with
    | .flat1 rep es =>
      match setupSingle L rep es with
      | .error e => errS e
      | .ok T => tablesS .single T (repeatL rep (playEntries es) == src.play)
    | _ => Sexp.err "staged-program-missing"
  | .advanced =>
    if ¬ (l0.depth > 1) ∨ l0.rep ≠ 1 then errS .assertion else
    match st with
    | .flat2 p =>
      match setupAdvanced (fuelFor p) L p with
      | .error (e, _) => errS e
      | .ok p' => tablesS .advanced (parse p') (playProg p == src.play)
    | _ => Sexp.err "staged-program-missing"

/-- run-length atoms: `m` or `m*k` (k copies of m) -/
def runAtom? : Sexp → Option (Int × Nat)
  | .atom s =>
    match s.splitOn "*" with
    | [m] => do pure (← m.toInt?, 1)
    | [m, k] => do pure (← m.toInt?, ← k.toNat?)
    | _ => none
  | _ => none

/-- dyadic sample list `(d E m1 m2*k …)`: values `m · 2^E`, as runs -/
def dyadicRuns? : Sexp → Option (List (Rat × Nat))
  | .list (.atom "d" :: e :: ms) => do
    let e ← int? e
    let ms ← ms.mapM runAtom?
    let scale : Rat := if e ≥ 0 then ((2 : Rat) ^ e.toNat) else 1 / ((2 : Rat) ^ (-e).toNat)
    pure (ms.map (fun (m : Int × Nat) => ((m.1 : Rat) * scale, m.2)))
  | _ => none

def expandRuns {α} (rs : List (α × Nat)) : List α := rs.flatMap (fun r => List.replicate r.2 r.1)

def dyadic? (s : Sexp) : Option (List Rat) := (dyadicRuns? s).map expandRuns

def optDyadicRuns? : Sexp → Option (Option (List (Rat × Nat)))
  | .atom "none" => some none
  | s => (dyadicRuns? s).map some

/-- raw words `(w1 w2*k …)` -/
def natRuns? : Sexp → Option (List Nat)
  | .list xs => do
    let rs ← xs.mapM runAtom?
    pure (expandRuns (rs.map (fun r => (r.1.toNat, r.2))))
  | _ => none

/-- marker samples travel as one atom `b0110…` -/
def bits? : Sexp → Option (List Bool)
  | .atom s => if s.startsWith "b" then some ((s.drop 1).toString.toList.map (· == '1')) else none
  | _ => none

def optBits? : Sexp → Option (Option (List Bool))
  | .atom "none" => some none
  | s => (bits? s).map some

def bitsS (bs : List Bool) : Sexp := .atom ("b" ++ String.ofList (bs.map (fun b => if b then '1' else '0')))

def tentry3? : Sexp → Option TEntry
  | .list [r, e, j] => do pure ⟨← nat? r, ← nat? e, ← nat? j⟩
  | _ => none

structure Cfg where
  amp0 : Rat
  off0 : Rat
  amp1 : Rat
  off1 : Rat

def cfg? : Sexp → Option Cfg
  | .list [.atom "cfg", a0, o0, a1, o1] => do pure ⟨← rat? a0, ← rat? o0, ← rat? a1, ← rat? o1⟩
  | _ => none

def srcWf? (c : Cfg) : Sexp → Option SrcWf
  | .list [.atom "wf", i, n, a, b, ma, mb] => do
    let n ← nat? n
    let a ← optDyadicRuns? a
    let b ← optDyadicRuns? b
    pure ⟨← nat? i, n, srcChan c.amp0 c.off0 n a, srcChan c.amp1 c.off1 n b,
      srcMarker n (← optBits? ma), srcMarker n (← optBits? mb), chanBand c.amp0 c.off0 a || chanBand c.amp1 c.off1 b⟩
  | _ => none

def viol (clause : String) (args : List Sexp) : Sexp := .list (.atom "violates" :: .atom clause :: args)

/-- The judge. The implementation's binary segments and tables are replayed with `playAdv` and compared
sample for sample with the source program's play order of expected codes / markers; all emitted tables and
segments must respect the device limits. -/
def judge (m : Mode) (L : Limits) (src : Loop) (wfs : List SrcWf) (raws : List (List Nat))
    (tabs : List (List TEntry)) (adv : List TEntry) : Sexp := Id.run do
  -- 1. segments: size, device limits
  let mut segs : Array Seg := #[]
  let mut k := 0
  for raw in raws do
    match unpack raw with
    | none => return viol "segment-not-whole-quanta" [ofNat k, ofNat raw.length]
    | some s =>
      if !segLenOk s.a.length then return viol "segment-length" [ofNat k, ofNat s.a.length]
      segs := segs.push s
    k := k + 1
  -- 2. sequence table lengths
  k := 0
  for tab in tabs do
    match m with
    | .advanced =>
      if tab.length < L.min ∨ L.max < tab.length then
        return viol "table-length" [ofNat k, ofNat tab.length, ofNat L.min, ofNat L.max]
    | .single =>
      if L.max < tab.length then
        return viol "single-table-too-long" [ofNat k, ofNat tab.length, ofNat L.max]
    k := k + 1
  if m == .single ∧ (tabs.length ≠ 1 ∨ adv.length ≠ 1) then
    return viol "single-mode-shape" [ofNat tabs.length, ofNat adv.length]
  -- 3. replay
  match playAdv (List.range raws.length) tabs adv with
  | none => return viol "dangling-reference" []
  | some devPlay =>
    let srcPlay := src.play
    let mut byId : Array (Option SrcWf) := #[]
    for w in wfs do
      if byId.size ≤ w.id then byId := byId ++ Array.replicate (w.id + 1 - byId.size) none
      byId := byId.set! w.id (some w)
    let mut srcWfs : List SrcWf := []
    for i in srcPlay.reverse do
      match byId[i]? with
      | some (some w) => srcWfs := w :: srcWfs
      | _ => return Sexp.err "unknown-source-waveform"
    let devSegs := devPlay.map (fun i => segs[i]!)
    let expA := concatMap srcWfs (·.a)
    let devA := concatMap devSegs (·.a.toArray)
    if expA.size != devA.size then
      return viol "total-length" [ofNat devA.size, ofNat expA.size]
    match firstBadCode expA devA with
    | some i => return viol "channel-a" [ofNat i, ofNat devA[i]!, ofNat expA[i]!.1, ofNat expA[i]!.2]
    | none => pure ()
    let expB := concatMap srcWfs (·.b)
    let devB := concatMap devSegs (·.b.toArray)
    match firstBadCode expB devB with
    | some i => return viol "channel-b" [ofNat i, ofNat (devB[i]?.getD 0), ofNat (expB[i]?.getD (0,0)).1, ofNat (expB[i]?.getD (0,0)).2]
    | none => pure ()
    match firstBadBool (decimate (concatMap srcWfs (·.mA))) (concatMap devSegs (·.mA.toArray)) with
    | some i => return viol "marker-a" [ofNat i]
    | none => pure ()
    match firstBadBool (decimate (concatMap srcWfs (·.mB))) (concatMap devSegs (·.mB.toArray)) with
    | some i => return viol "marker-b" [ofNat i]
    | none => pure ()
    return .list [.atom "ok", ofNat devA.size, ofNat devPlay.length]

def natList? (xs : List Sexp) : Option (List Nat) := xs.mapM nat?

def handle : List Sexp → Sexp
  | [.atom "model", m, l, .list [.atom "src", src], .list [.atom "rootvol", rv], st] =>
    match mode? m, limits? l, loop? src, bool? rv, staged? st with
    | some m, some L, some src, some rv, some st => modelCompile m L rv src st
    | _, _, _, _, _ => Sexp.err "bad-args"
  | [.atom "judge", m, l, .list [.atom "src", src], c, .list (.atom "wfs" :: wfs), .list (.atom "segs" :: segs),
      .list (.atom "seqtabs" :: tabs), .list (.atom "adv" :: adv)] =>
    match mode? m, limits? l, loop? src, cfg? c with
    | some (some m), some L, some src, some c =>
      match wfs.mapM (srcWf? c), segs.mapM natRuns?, tabs.mapM (listOf? tentry3?), adv.mapM tentry3? with
      | some wfs, some segs, some tabs, some adv => judge m L src wfs segs tabs adv
      | _, _, _, _ => Sexp.err "bad-args"
    | _, _, _, _ => Sexp.err "bad-args"
  | [.atom "inrange", c, .list (.atom "wfs" :: wfs)] =>
    match cfg? c with
    | some c =>
      match wfs.mapM (srcWf? c) with
      | some wfs =>
        if !(wfs.all (fun w => w.a.all (fun x => x.1 ≤ x.2) && w.b.all (fun x => x.1 ≤ x.2))) then
          .list [.atom "ok", .atom "false"]
        else if wfs.any (·.band) then .list [.atom "ok", .atom "boundary"]
        else .list [.atom "ok", .atom "true"]
      | none => Sexp.err "bad-args"
    | none => Sexp.err "bad-args"
  | [.atom "play", src] =>
    match loop? src with
    | some l => .list (.atom "ok" :: l.play.map ofNat)
    | none => Sexp.err "bad-args"
  | [.atom "pack", .list (.atom "a" :: a), .list (.atom "b" :: b), ma, mb] =>
    match natList? a, natList? b, bits? ma, bits? mb with
    | some a, some b, some ma, some mb =>
      match pack ⟨a, b, ma, mb⟩ with
      | .ok raw => .list (.atom "ok" :: raw.map ofNat)
      | .error e => errS e
    | _, _, _, _ => Sexp.err "bad-args"
  | [.atom "unpack", raw] =>
    match natRuns? raw with
    | some raw =>
      match unpack raw with
      | some s => .list [.atom "ok", .list (s.a.map ofNat), .list (s.b.map ofNat), bitsS s.mA, bitsS s.mB]
      | none => errS .assertion
    | none => Sexp.err "bad-args"
  | [.atom "code14", amp, off, vs] =>
    match rat? amp, rat? off, dyadic? vs with
    | some amp, some off, some vs =>
      match codes amp off vs with
      | .ok cs => .list [.atom "ok", .list (cs.map ofNat),
          .list (vs.map (fun v => let a := acceptVolt amp off v; ofBool (a.1 != a.2)))]
      | .error e => .list [.atom "error", .atom e.name, ofBool (vs.all (fun v => (acceptVolt amp off v).1 ≤ (acceptVolt amp off v).2))]
    | _, _, _ => Sexp.err "bad-args"
  | _ => Sexp.err "c16-unknown-request"

end QP.C16
