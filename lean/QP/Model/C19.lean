import QP.Base
/-!
# C19 — waveform-memory placement of the Tabor driver

Model of

* `qupulse.hardware.util.find_positions`,
* `qupulse._program.tabor.find_place_for_segments_in_memory` (the placement decision),
* the bookkeeping of `qupulse.hardware.awgs.tabor.TaborChannelPair`
  (`upload`, `free_program`, `remove`, `cleanup`, `clear`, `_upload_segment`, `_amend_segments`).

numpy is spelled out on lists: `flatnonzero`, boolean masks, stable `argsort`, `argmax` (index of the
first `True`, `0` if there is none, `ValueError` on an empty array), fancy-index in-place addition
(`a[idx] += 1` adds **once** per distinct index), negative index wrap-around, slicing.
Where Python raises, the model returns the error class; nothing is totalised.
-/
namespace QP.C19

inductive Err where
  | noMemory       -- RuntimeError('Not enough free memory. …')
  | fragmentation  -- RuntimeError('Fragmentation does not allow upload.', …)
  | assertion      -- the `assert` on the known positions
  | index          -- IndexError: subscript out of range / boolean mask of the wrong shape
  | emptyArgmax    -- ValueError: attempt to get argmax of an empty sequence
  | valueError     -- driver: ValueError('… is already known …' / 'Reference count not zero' / 'Cannot upload segment here.')
  | keyError       -- driver: KeyError (unknown program name)
  deriving Repr, BEq, DecidableEq

/-! ## numpy on lists -/

/-- `np.flatnonzero(mask)` -/
def flatnonzero (m : List Bool) : List Nat :=
  (List.range m.length).filter (fun i => m[i]? == some true)

/-- `xs[mask]` for a boolean mask of the same shape (the shape is guarded where the model uses it) -/
def maskL {α} (xs : List α) (m : List Bool) : List α :=
  ((xs.zip m).filter (fun p => p.2)).map (fun p => p.1)

/-- insert `x` in front of the first element that is not smaller (keeps equal keys in input order) -/
def insertSorted {α} (le : α → α → Bool) (x : α) : List α → List α
  | [] => [x]
  | y :: ys => if le x y then x :: y :: ys else y :: insertSorted le x ys

/-- a stable sort (insertion sort, structurally recursive): the unique sorted permutation in which
elements with equal keys keep their input order — what `kind='stable'` guarantees -/
def stableSort {α} (le : α → α → Bool) (l : List α) : List α := l.foldr (insertSorted le) []

/-- `np.argsort(xs, kind='stable')` -/
def argsortStable (xs : List Nat) : List Nat :=
  (stableSort (fun a b => decide (a.1 ≤ b.1)) xs.zipIdx).map (fun p => p.2)

/-- `xs[idx]` for an integer index array of non-negative indices -/
def gather {α} (xs : List α) : List Nat → Except Err (List α)
  | [] => .ok []
  | k :: ks =>
    match xs[k]? with
    | none => .error .index
    | some x =>
      match gather xs ks with
      | .error e => .error e
      | .ok r => .ok (x :: r)

/-- `np.argmax` of a boolean array: first `True`, `0` if all are `False`, `ValueError` if empty -/
def argmax (l : List Bool) : Except Err Nat :=
  match l with
  | [] => .error .emptyArgmax
  | _ :: _ => match l.findIdx? (fun b => b) with
    | some i => .ok i
    | none => .ok 0

/-- numpy index normalisation for an array of length `n` -/
def normIdx (n : Nat) (k : Int) : Option Nat :=
  if 0 ≤ k ∧ k < n then some k.toNat
  else if -(n : Int) ≤ k ∧ k < 0 then some (k + n).toNat
  else none

/-- `a[idx] = f(a[idx])` for an integer index array (`a[idx] += 1`, `a[idx] -= 1`): the right-hand side is
computed from the old array and written back, so every distinct index is updated **once** -/
def updAt (a : List Nat) (idx : List Int) (f : Nat → Nat) : Except Err (List Nat) :=
  if idx.all (fun k => (normIdx a.length k).isSome) then
    .ok (a.mapIdx (fun i r => if idx.any (fun k => normIdx a.length k == some i) then f r else r))
  else .error .index

/-- uint32 decrement (the driver's reference counters are `np.uint32` after `clear()`; after the first
`_amend_segments` numpy's `concatenate` silently turns them into int64 — under the invariant a counter is
never decremented at 0, so the two readings cannot be told apart) -/
def decU32 (r : Nat) : Nat := if r = 0 then 4294967295 else r - 1

/-! ## `find_positions` -/

/-- `data[data_sorter]` paired with `data_sorter` -/
def sortedPairs (data : List Int) : List (Int × Nat) :=
  stableSort (fun a b => decide (a.1 ≤ b.1)) data.zipIdx

/-- one element of `to_find`: `searchsorted(…, side='left')`, `side='right'` on the sorted data are the
lengths of the prefixes `< x` and `≤ x` -/
def findPosition (data : List Int) (x : Int) : Int :=
  let sp := sortedPairs data
  let left := (sp.takeWhile (fun p => decide (p.1 < x))).length
  let right := (sp.takeWhile (fun p => decide (p.1 ≤ x))).length
  if left < right then
    match sp[left]? with
    | some p => (p.2 : Int)
    | none => -1
  else -1

def findPositions (data toFind : List Int) : List Int := toFind.map (findPosition data)

/-! ## `find_place_for_segments_in_memory` -/

structure Inp where
  hashes : List Int
  refs : List Nat
  caps : List Nat
  total : Int
  newHashes : List Int
  newLens : List Nat
  deriving Repr, BEq, DecidableEq

/-- `(waveform_to_segment, to_amend, to_insert)` -/
structure Out where
  w2s : List Int
  amend : List Bool
  insert : List Int
  deriving Repr, BEq, DecidableEq

structure LoopSt where
  free : List Bool
  count : Int
  amend : List Bool
  insert : List Int
  deriving Repr, BEq, DecidableEq

/-- `np.sum(lengths[mask] + 16)` -/
def sizeWithOverhead (lens : List Nat) (m : List Bool) : Int :=
  (((maskL lens m).map (fun l => l + 16)).sum : Nat)

/-- `np.sum(capacities)` as an integer -/
def sumNat (xs : List Nat) : Int := (xs.sum : Nat)

/-- body of the first loop ("free segment place with the same length") -/
def body1 (caps : List Nat) (ff : Nat) (lens : List Nat) (seg : Nat) (st : LoopSt) : Except Err LoopSt :=
  match lens[seg]? with
  | none => .error .index
  | some len =>
    let pos := List.zipWith (fun f c => f && decide (len = c)) st.free (caps.take ff)
    match argmax pos with
    | .error e => .error e
    | .ok idx =>
      if pos[idx]? = some true then
        .ok { free := st.free.set idx false, count := st.count - 1,
              amend := st.amend.set seg false, insert := st.insert.set seg idx }
      else .ok st

def loop1 (caps : List Nat) (ff : Nat) (lens : List Nat) : List Nat → LoopSt → Except Err LoopSt
  | [], st => .ok st
  | seg :: rest, st =>
    if st.count = 0 then .ok st else      -- `if free_segment_count == 0: break`
    match body1 caps ff lens seg st with
    | .error e => .error e
    | .ok st' => loop1 caps ff lens rest st'

/-- body of the second loop ("places that are larger"); `none` is `break` -/
def body2 (caps : List Nat) (ff : Nat) (lens : List Nat) (seg : Nat) (st : LoopSt) :
    Except Err (Option LoopSt) :=
  let freeCaps := maskL (caps.take ff) st.free
  match gather (flatnonzero st.free) (argsortStable freeCaps).reverse with
  | .error e => .error e
  | .ok freeIdx =>
    if freeIdx.isEmpty then .ok none else
    match lens[seg]? with
    | none => .error .index
    | some len =>
      -- index into the *unsorted, reversed* comparison, used on the *sorted* index list (as in the code)
      match argmax ((freeCaps.map (fun c => decide (len ≤ c))).reverse) with
      | .error e => .error e
      | .ok fit =>
        match freeIdx[fit]? with
        | none => .error .index
        | some fs =>
          match caps[fs]? with
          | none => .error .index
          | some c =>
            if len ≤ c then
              .ok (some { free := st.free.set fs false, count := st.count,
                          amend := st.amend.set seg false, insert := st.insert.set seg fs })
            else .ok (some st)

def loop2 (caps : List Nat) (ff : Nat) (lens : List Nat) : List Nat → LoopSt → Except Err LoopSt
  | [], st => .ok st
  | seg :: rest, st =>
    match body2 caps ff lens seg st with
    | .error e => .error e
    | .ok none => .ok st
    | .ok (some st') => loop2 caps ff lens rest st'

/-- `reserved_indices[-1] + 1 if len(reserved_indices) else 0` -/
def firstFree (newRefs : List Nat) : Nat :=
  match (flatnonzero (newRefs.map (fun r => decide (0 < r)))).getLast? with
  | some l => l + 1
  | none => 0

/-- `waveform_to_segment[known]` -/
def knownPos (w2s : List Int) : List Int := w2s.filter (fun s => s != -1)

/-- the `assert`: `hashes[known_pos] == new_hashes[known]` elementwise -/
def knownAssert (hashes newHashes : List Int) (w2s : List Int) : Bool :=
  (w2s.zip newHashes).all (fun p => p.1 == -1 ||
    (match normIdx hashes.length p.1 with
     | some s => hashes[s]? == some p.2
     | none => false))

def findPlace (i : Inp) : Except Err Out :=
  if i.refs.length ≠ i.hashes.length ∨ i.caps.length ≠ i.hashes.length ∨
      i.newLens.length ≠ i.newHashes.length then .error .index else
  let w2s := findPositions i.hashes i.newHashes
  let unknown := w2s.map (fun s => s == -1)
  if !(knownAssert i.hashes i.newHashes w2s) then .error .assertion else
  match updAt i.refs (knownPos w2s) (fun r => r + 1) with
  | .error e => .error e
  | .ok newRefs =>
    let toUpload := sizeWithOverhead i.newLens unknown
    let freeTotal := i.total - sumNat (maskL i.caps (i.refs.map (fun r => decide (0 < r))))
    if freeTotal < toUpload then .error .noMemory else
    let ff := firstFree newRefs
    let free0 := (newRefs.take ff).map (fun r => r == 0)
    let st0 : LoopSt := ⟨free0, (free0.count true : Nat), unknown, List.replicate i.newHashes.length (-1)⟩
    match loop1 i.caps ff i.newLens (flatnonzero unknown) st0 with
    | .error e => .error e
    | .ok st1 =>
      -- np.flatnonzero(to_amend)[np.argsort(lengths[to_amend], kind='stable')[::-1]]
      match gather (flatnonzero st1.amend) (argsortStable (maskL i.newLens st1.amend)).reverse with
      | .error e => .error e
      | .ok order =>
        match loop2 i.caps ff i.newLens order st1 with
        | .error e => .error e
        | .ok st2 =>
          let freeAtEnd := i.total - sumNat (i.caps.take ff)
          if sizeWithOverhead i.newLens st2.amend > freeAtEnd then .error .fragmentation
          else .ok ⟨w2s, st2.amend, st2.insert⟩

/-! ## Specification of a safe placement (independent of the algorithm) -/

/-- new segment `k` re-uses slot `s`, which holds the identical hash -/
def IsKnown (i : Inp) (o : Out) (k : Nat) : Prop :=
  o.amend[k]? = some false ∧ o.insert[k]? = some (-1) ∧
  match o.w2s[k]?, i.newHashes[k]? with
  | some v, some h => 0 ≤ v ∧ i.hashes[v.toNat]? = some h
  | _, _ => False

/-- new segment `k` overwrites slot `s`: nobody references it and its capacity suffices -/
def IsInsert (i : Inp) (o : Out) (k : Nat) : Prop :=
  o.w2s[k]? = some (-1) ∧ o.amend[k]? = some false ∧
  match o.insert[k]?, i.newLens[k]? with
  | some v, some len =>
      0 ≤ v ∧ i.refs[v.toNat]? = some 0 ∧
      (match i.caps[v.toNat]? with
       | some c => len ≤ c
       | none => False)
  | _, _ => False

/-- new segment `k` is appended behind the used part of the memory -/
def IsAmend (_i : Inp) (o : Out) (k : Nat) : Prop :=
  o.w2s[k]? = some (-1) ∧ o.amend[k]? = some true ∧ o.insert[k]? = some (-1)

/-- `F` is a boundary behind every used slot: referenced before, re-used now, or overwritten now -/
def BehindUsed (i : Inp) (o : Out) (F : Nat) : Prop :=
  (∀ s, s < i.refs.length → F ≤ s → i.refs[s]? = some 0) ∧
  (∀ v, v ∈ o.w2s → v < F) ∧
  (∀ v, v ∈ o.insert → v < F)

/-- the entry names a slot (it is not the "none" marker `-1`) -/
def IsSlot (x : Option Int) : Prop :=
  match x with
  | some v => 0 ≤ v
  | none => False

def PlaceSafe (i : Inp) (o : Out) : Prop :=
  -- shapes
  (o.w2s.length = i.newHashes.length ∧ o.amend.length = i.newHashes.length ∧
   o.insert.length = i.newHashes.length) ∧
  -- every new segment is accounted for in exactly one way (the three cases exclude each other)
  (∀ k, k < i.newHashes.length → IsKnown i o k ∨ IsInsert i o k ∨ IsAmend i o k) ∧
  -- overwritten slots are pairwise distinct …
  (∀ k, k < o.insert.length → ∀ l, l < o.insert.length → k ≠ l →
      IsSlot o.insert[k]? → o.insert[k]? ≠ o.insert[l]?) ∧
  -- … and distinct from every re-used slot
  (∀ v, v ∈ o.insert → 0 ≤ v → v ∉ o.w2s) ∧
  -- if anything is appended: the appended segments (16 points of overhead each) fit behind the last used slot
  (true ∈ o.amend → ∃ F, F ≤ i.caps.length ∧ BehindUsed i o F ∧
      sizeWithOverhead i.newLens o.amend + sumNat (i.caps.take F) ≤ i.total)

instance (i : Inp) (o : Out) (k : Nat) : Decidable (IsKnown i o k) := by
  unfold IsKnown; split <;> infer_instance
instance (i : Inp) (o : Out) (k : Nat) : Decidable (IsInsert i o k) := by
  unfold IsInsert
  split
  · rename_i v len _ _
    cases i.caps[v.toNat]? <;> infer_instance
  · infer_instance
instance (i : Inp) (o : Out) (k : Nat) : Decidable (IsAmend i o k) := by
  unfold IsAmend; infer_instance
instance (x : Option Int) : Decidable (IsSlot x) := by
  unfold IsSlot; split <;> infer_instance

instance (i : Inp) (o : Out) (F : Nat) : Decidable (BehindUsed i o F) := by
  unfold BehindUsed; infer_instance

instance (i : Inp) (o : Out) : Decidable (PlaceSafe i o) := by
  unfold PlaceSafe
  refine @instDecidableAnd _ _ inferInstance ?_
  refine @instDecidableAnd _ _ inferInstance ?_
  refine @instDecidableAnd _ _ inferInstance ?_
  refine @instDecidableAnd _ _ inferInstance ?_
  infer_instance

/-- executable twin of `PlaceSafe`: the judge applied to the implementation's answer -/
def placeSafeB (i : Inp) (o : Out) : Bool := decide (PlaceSafe i o)

/-- which clause fails (for replay files) -/
def judgePlace (i : Inp) (o : Out) : String :=
  if ¬ (o.w2s.length = i.newHashes.length ∧ o.amend.length = i.newHashes.length ∧
        o.insert.length = i.newHashes.length) then "shape"
  else if ¬ (∀ k, k < i.newHashes.length → IsKnown i o k ∨ IsInsert i o k ∨ IsAmend i o k) then
    (match (List.range i.newHashes.length).find? (fun k => ¬ (IsKnown i o k ∨ IsInsert i o k ∨ IsAmend i o k)) with
     | some k =>
        if o.w2s[k]? ≠ some (-1) then s!"segment-{k}-reuses-slot-with-different-hash-or-is-double-booked"
        else if o.amend[k]? = some true then s!"segment-{k}-both-amended-and-inserted"
        else if o.insert[k]? = some (-1) then s!"segment-{k}-not-accounted-for"
        else s!"segment-{k}-inserted-into-referenced-or-too-small-or-invalid-slot"
     | none => "accounting")
  else if ¬ (∀ k, k < o.insert.length → ∀ l, l < o.insert.length → k ≠ l →
      IsSlot o.insert[k]? → o.insert[k]? ≠ o.insert[l]?) then "same-slot-overwritten-twice"
  else if ¬ (∀ v, v ∈ o.insert → 0 ≤ v → v ∉ o.w2s) then "overwritten-slot-is-also-reused"
  else if placeSafeB i o then "ok" else "appended-segments-do-not-fit-behind-last-used-slot"

/-! ## The driver's bookkeeping (`TaborChannelPair`) -/

/-- `TaborProgramMemory`: the program's waveform→slot array; ghost: the identity (hash) of each of its
own segments -/
structure Prog where
  name : Nat
  w2s : List Int
  segs : List Int
  deriving Repr, BEq, DecidableEq

structure Mem where
  hashes : List Int      -- `_segment_hashes`
  caps : List Nat        -- `_segment_capacity`
  lens : List Nat        -- `_segment_lengths`
  refs : List Nat        -- `_segment_references`
  progs : List Prog      -- `_known_programs` (insertion ordered dict)
  contents : List Int    -- ghost: identity of the data that was last written to the slot on the instrument
  deriving Repr, BEq, DecidableEq

inductive Op where
  | upload (name : Nat) (force : Bool) (segs : List (Int × Nat))
  | remove (name : Nat)
  | free (name : Nat)
  | cleanup
  | clear
  deriving Repr, BEq, DecidableEq

/-- `clear()`: slot 0 holds the idle segment (192 points) with a permanent reference -/
def Mem.init (idle : Int) : Mem :=
  ⟨[idle], [192], [192], [1], [], [idle]⟩

/-- `free_program(name)` -/
def freeProgram (m : Mem) (name : Nat) : Except Err Mem :=
  match m.progs.find? (fun p => p.name == name) with
  | none => .error .keyError
  | some p =>
    let m' := { m with progs := m.progs.filter (fun q => q.name != name) }   -- `pop`
    match updAt m.refs p.w2s decU32 with
    | .error e => .error e                    -- IndexError; the program is already popped
    | .ok refs => .ok { m' with refs := refs }

/-- state after a failing `free_program` (the `pop` happened, the counters are untouched) -/
def freeProgramPartial (m : Mem) (name : Nat) : Mem :=
  { m with progs := m.progs.filter (fun q => q.name != name) }

/-- `cleanup()` -/
def cleanup (m : Mem) : Mem :=
  let newEnd := firstFree m.refs
  { m with lens := m.lens.take newEnd, caps := m.caps.take newEnd, hashes := m.hashes.take newEnd,
           refs := m.refs.take newEnd, contents := m.contents.take newEnd }

/-- `_upload_segment(segment_index, segment)`; the index is a non-negative numpy integer -/
def uploadSegment (m : Mem) (idx : Nat) (h : Int) (len : Nat) : Except Err Mem :=
  match m.refs[idx]?, m.caps[idx]? with
  | some r, some c =>
    if 0 < r then .error .valueError           -- 'Reference count not zero'
    else if c < len then .error .valueError    -- 'Cannot upload segment here.'
    else if idx < m.lens.length ∧ idx < m.hashes.length then
      .ok { m with lens := m.lens.set idx len, refs := m.refs.set idx 1, hashes := m.hashes.set idx h,
                   contents := m.contents.set idx h }   -- TRAC:DEF / TRAC:SEL / TRAC:DATA
    else .error .index
  | _, _ => .error .index

/-- the `for wf_index in np.flatnonzero(to_insert > 0)` loop; on an error the state reached so far is
returned together with the error (the real method leaves exactly that behind) -/
def insertLoop (segs : List (Int × Nat)) (ins : List Int) :
    List Nat → Mem → List Int → Mem × List Int × Option Err
  | [], m, w2s => (m, w2s, none)
  | wf :: rest, m, w2s =>
    match ins[wf]?, segs[wf]? with
    | some t, some (h, len) =>
      match uploadSegment m t.toNat h len with
      | .error e => (m, w2s, some e)
      | .ok m' => insertLoop segs ins rest m' (w2s.set wf t)
    | _, _ => (m, w2s, some .index)

/-- `_amend_segments(segments)`: append; returns the new state and the first new index -/
def amendSegments (m : Mem) (segs : List (Int × Nat)) : Mem × Nat :=
  ({ m with caps := m.caps ++ segs.map (fun s => s.2), lens := m.lens ++ segs.map (fun s => s.2),
            refs := m.refs ++ segs.map (fun _ => 1), hashes := m.hashes ++ segs.map (fun s => s.1),
            contents := m.contents ++ segs.map (fun s => s.1) },
   m.caps.length)

/-- `a[mask] = values` (boolean mask assignment, `values` in order) -/
def assignMask : List Int → List Bool → List Int → List Int
  | [], _, _ => []
  | x :: xs, [], _ => x :: xs
  | x :: xs, false :: ms, vs => x :: assignMask xs ms vs
  | x :: xs, true :: ms, [] => x :: assignMask xs ms []
  | _ :: xs, true :: ms, v :: vs => v :: assignMask xs ms vs

inductive Outcome where
  | ok
  | error (e : Err)
  deriving Repr, BEq, DecidableEq

/-- the part of `upload` after the placement decision -/
def applyPlacement (m : Mem) (name : Nat) (segs : List (Int × Nat)) (o : Out) : Mem × Outcome :=
  -- self._segment_references[waveform_to_segment[waveform_to_segment >= 0]] += 1
  match updAt m.refs (o.w2s.filter (fun s => decide (0 ≤ s))) (fun r => r + 1) with
  | .error e => (m, .error e)
  | .ok refs1 =>
    let m1 := { m with refs := refs1 }
    match insertLoop segs o.insert (flatnonzero (o.insert.map (fun t => decide (0 < t)))) m1 o.w2s with
    | (m2, _, some e) => (m2, .error e)
    | (m2, w2s2, none) =>
      let (m3, w2s3) :=
        if o.amend.any (fun b => b) then
          let (m3, first) := amendSegments m2 (maskL segs o.amend)
          -- segment_index + np.arange(len(segments))
          (m3, assignMask w2s2 o.amend ((List.range' first (maskL segs o.amend).length).map (fun (j : Nat) => (j : Int))))
        else (m2, w2s2)
      ({ m3 with progs := m3.progs ++ [⟨name, w2s3, segs.map (fun s => s.1)⟩] }, .ok)

/-- one public operation of the channel pair; `total` is `total_capacity`, `idle` the idle segment's hash -/
def step (total : Int) (idle : Int) (m : Mem) : Op → Mem × Outcome
  | .clear => (Mem.init idle, .ok)
  | .cleanup => (cleanup m, .ok)
  | .free name =>
    match freeProgram m name with
    | .ok m' => (m', .ok)
    | .error .keyError => (m, .error .keyError)
    | .error e => (freeProgramPartial m name, .error e)
  | .remove name =>
    match freeProgram m name with
    | .ok m' => (cleanup m', .ok)
    | .error .keyError => (m, .error .keyError)
    | .error e => (freeProgramPartial m name, .error e)
  | .upload name force segs =>
    let pre : Except Err Mem :=
      if m.progs.any (fun p => p.name == name) then
        if force then freeProgram m name else .error .valueError
      else .ok m
    match pre with
    | .error .valueError => (m, .error .valueError)
    | .error e => (freeProgramPartial m name, .error e)
    | .ok m0 =>
      match findPlace ⟨m0.hashes, m0.refs, m0.caps, total, segs.map (fun s => s.1), segs.map (fun s => s.2)⟩ with
      | .error e => (m0, .error e)
      | .ok o => applyPlacement m0 name segs o

/-- a history of operations -/
def run (total idle : Int) : Mem → List Op → Mem
  | m, [] => m
  | m, op :: ops => run total idle (step total idle m op).1 ops

/-- states after every operation (for the correspondence) -/
def trace (total idle : Int) : Mem → List Op → List (Mem × Outcome)
  | _, [] => []
  | m, op :: ops =>
    let r := step total idle m op
    r :: trace total idle r.1 ops

/-! ## The history invariant -/

/-- number of uploaded programs that refer to slot `s` -/
def refCount (progs : List Prog) (s : Nat) : Nat :=
  progs.countP (fun p => p.w2s.contains (s : Int))

/-- every waveform of the program points at a slot that holds that waveform's data -/
def ProgOk (m : Mem) (p : Prog) : Prop :=
  p.w2s.length = p.segs.length ∧
  ∀ k, k < p.w2s.length → ∀ v, p.w2s[k]? = some v →
    0 ≤ v ∧ v.toNat < m.contents.length ∧ m.contents[v.toNat]? = p.segs[k]?

structure Inv (m : Mem) : Prop where
  lenC : m.caps.length = m.hashes.length
  lenL : m.lens.length = m.hashes.length
  lenR : m.refs.length = m.hashes.length
  lenG : m.contents.length = m.hashes.length
  /-- the bookkeeping hash of every slot is the identity of what the instrument holds -/
  same : ∀ s, s < m.hashes.length → m.contents[s]? = m.hashes[s]?
  progs : ∀ p, p ∈ m.progs → ProgOk m p
  names : m.progs.Pairwise (fun p q => p.name ≠ q.name)
  /-- slot 0 (idle segment) carries one permanent reference; otherwise references = referring programs -/
  count : ∀ s, s < m.refs.length →
    m.refs[s]? = some ((if s = 0 then 1 else 0) + refCount m.progs s)
  idle : 0 < m.hashes.length

/-- what the property says about an observed driver state (judge for the real `TaborChannelPair`):
every uploaded program refers to slots that still contain its own data, and a slot is marked
referenced exactly if the idle sequence (slot 0) or an uploaded program refers to it -/
def InvObs (m : Mem) : Prop :=
  (∀ p, p ∈ m.progs → ProgOk m p) ∧
  (∀ s, s < m.refs.length → 0 < s → ∀ r, m.refs[s]? = some r → (0 < r ↔ 0 < refCount m.progs s)) ∧
  (∀ r, m.refs[0]? = some r → 0 < r)

instance (m : Mem) (p : Prog) : Decidable (ProgOk m p) := by
  unfold ProgOk; infer_instance

instance (m : Mem) : Decidable (InvObs m) := by
  unfold InvObs; infer_instance

def invObsB (m : Mem) : Bool := decide (InvObs m)

def judgeInv (m : Mem) : String :=
  match m.progs.find? (fun p => ¬ ProgOk m p) with
  | some p => s!"program-{p.name}-refers-to-a-slot-that-does-not-hold-its-data"
  | none =>
    if ¬ (∀ r, m.refs[0]? = some r → 0 < r) then "idle-slot-unreferenced"
    else if invObsB m then "ok" else "reference-marks-differ-from-references"

/-! ## Line protocol -/
open Sexp

def errS : Err → Sexp
  | .noMemory => .list [.atom "error", .atom "runtime_error", .atom "no-memory"]
  | .fragmentation => .list [.atom "error", .atom "runtime_error", .atom "fragmentation"]
  | .assertion => .list [.atom "error", .atom "assertion", .atom "-"]
  | .index => .list [.atom "error", .atom "index_error", .atom "-"]
  | .emptyArgmax => .list [.atom "error", .atom "value_error", .atom "argmax"]
  | .valueError => .list [.atom "error", .atom "value_error", .atom "-"]
  | .keyError => .list [.atom "error", .atom "key_error", .atom "-"]

def ints? (s : Sexp) : Option (List Int) := listOf? int? s
def nats? (s : Sexp) : Option (List Nat) := listOf? nat? s
def bools? (s : Sexp) : Option (List Bool) :=
  listOf? (fun x => match x with | .atom "1" => some true | .atom "0" => some false | _ => none) s

def ofInts (l : List Int) : Sexp := ofList ofInt l
def ofNats (l : List Nat) : Sexp := ofList ofNat l
def ofBools (l : List Bool) : Sexp := ofList (fun b => .atom (if b then "1" else "0")) l

def outS (o : Out) : Sexp := .list [.atom "ok", ofInts o.w2s, ofBools o.amend, ofInts o.insert]

def inp? : List Sexp → Option Inp
  | [h, r, c, t, nh, nl] => do
    some ⟨← ints? h, ← nats? r, ← nats? c, ← int? t, ← ints? nh, ← nats? nl⟩
  | _ => none

def out? : Sexp → Option Out
  | .list [.atom "ok", w, a, ins] => do some ⟨← ints? w, ← bools? a, ← ints? ins⟩
  | _ => none

def seg? : Sexp → Option (Int × Nat)
  | .list [h, l] => do some (← int? h, ← nat? l)
  | _ => none

def op? : Sexp → Option Op
  | .list [.atom "upload", n, f, segs] => do
      some (.upload (← nat? n) (← bool? f) (← listOf? seg? segs))
  | .list [.atom "remove", n] => do some (.remove (← nat? n))
  | .list [.atom "free", n] => do some (.free (← nat? n))
  | .list [.atom "cleanup"] => some .cleanup
  | .list [.atom "clear"] => some .clear
  | _ => none

def memS (m : Mem) : Sexp :=
  .list [ofInts m.hashes, ofNats m.caps, ofNats m.lens, ofNats m.refs,
         ofList (fun p => .list [ofNat p.name, ofInts p.w2s]) m.progs, ofInts m.contents]

def outcomeS : Outcome → Sexp
  | .ok => .atom "ok"
  | .error e => errS e

def prog? : Sexp → Option Prog
  | .list [n, w, s] => do some ⟨← nat? n, ← ints? w, ← ints? s⟩
  | _ => none

def handle : List Sexp → Sexp
  | [.atom "place", h, r, c, t, nh, nl] =>
    match inp? [h, r, c, t, nh, nl] with
    | some i => match findPlace i with
      | .ok o => outS o
      | .error e => errS e
    | none => Sexp.err "bad-args"
  | [.atom "check", h, r, c, t, nh, nl, impl] =>
    match inp? [h, r, c, t, nh, nl] with
    | some i =>
      let model := match findPlace i with
        | .ok o => outS o
        | .error e => errS e
      let verdict := match out? impl with
        | some o => .atom (judgePlace i o)
        | none => .atom "na"
      .list [.atom "res", model, verdict]
    | none => Sexp.err "bad-args"
  | [.atom "history", t, idle, ops] =>
    match int? t, int? idle, listOf? op? ops with
    | some t, some idle, some ops =>
      .list (.atom "trace" :: (trace t idle (Mem.init idle) ops).map
        (fun r => .list [outcomeS r.2, memS r.1]))
    | _, _, _ => Sexp.err "bad-args"
  | [.atom "judge-inv", h, c, l, r, g, ps] =>
    match ints? h, nats? c, nats? l, nats? r, ints? g, listOf? prog? ps with
    | some h, some c, some l, some r, some g, some ps =>
      .list [.atom "judge", .atom (judgeInv ⟨h, c, l, r, ps, g⟩)]
    | _, _, _, _, _, _ => Sexp.err "bad-args"
  | _ => Sexp.err "c19-unknown-request"

end QP.C19
