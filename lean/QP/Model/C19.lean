import QP.Base
namespace QP.C19
open Sexp

def handle : List Sexp → Sexp
  | _ => Sexp.err "c19-not-implemented"

end QP.C19
