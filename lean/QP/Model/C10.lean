import QP.Base
/-!
# C10 — stored pulse templates load back as the same pulse

Executable model of `qupulse/serialization.py` (`PulseStorage`, `JSONSerializableEncoder.default`,
`JSONSerializableDecoder.filter_serializables`) and of the `get_serialization_data` / `deserialize` /
`__init__` triples of every serialisable pulse-template class.

* `J`     — JSON values. Expressions, numbers, names … are opaque atoms at this level (their printed
            form is sympy's / the json library's business).
* `T`     — a pulse-template *object*: class, optional identifier and its serialisation-relevant
            attributes in the class's key order (`Item`s: plain data, one child template, a list of
            child templates). One smart constructor per class (`T.table`, `T.seq`, …) and one `schema`
            row per class (which key is required / defaulted / omitted when equal to its default /
            absent when `None`).
* `body`/`emit` — the document of a node / what a parent's document contains for it
            (`{"#type":"reference","#identifier":id}` for a named child, the embedded document otherwise).
* `encT … setitem / overwrite / storeAll` — the code as it runs: encoder walking the serialisation
            dict in sorted key order, `storage[id] = o` for every named child that is not yet in the
            storage, the transaction dictionary, the `put`s in transaction order, the temporary storage.
* `decT / construct / load` — `filter_serializables` + `cls(**kwargs)` with the constructor defaults,
            references resolved through the storage (fuel = recursion depth).
* `loadC` — the same with `PulseStorage._temporary_storage` as a cache and a log of constructed objects.

No Mathlib. Python object identity (`o is storage[id]`) is modelled as structural equality.
-/
namespace QP.C10

abbrev Id := String

/-! ## JSON values -/

inductive J where
  | atom (a : String)          -- opaque leaf: number, expression string, channel name, bool, null …
  | str (s : String)           -- a string the model looks at (type names, identifiers)
  | arr (xs : List J)
  | obj (kvs : List (String × J))
  deriving Repr, Inhabited

mutual
def J.decEq : (a b : J) → Decidable (a = b)
  | .atom x, .atom y => if h : x = y then isTrue (by rw [h]) else isFalse (by intro e; cases e; exact h rfl)
  | .str x, .str y => if h : x = y then isTrue (by rw [h]) else isFalse (by intro e; cases e; exact h rfl)
  | .arr x, .arr y => match J.decEqL x y with
      | isTrue h => isTrue (by rw [h])
      | isFalse h => isFalse (by intro e; cases e; exact h rfl)
  | .obj x, .obj y => match J.decEqKV x y with
      | isTrue h => isTrue (by rw [h])
      | isFalse h => isFalse (by intro e; cases e; exact h rfl)
  | .atom _, .str _ | .atom _, .arr _ | .atom _, .obj _ => isFalse (by intro e; cases e)
  | .str _, .atom _ | .str _, .arr _ | .str _, .obj _ => isFalse (by intro e; cases e)
  | .arr _, .atom _ | .arr _, .str _ | .arr _, .obj _ => isFalse (by intro e; cases e)
  | .obj _, .atom _ | .obj _, .str _ | .obj _, .arr _ => isFalse (by intro e; cases e)
def J.decEqL : (a b : List J) → Decidable (a = b)
  | [], [] => isTrue rfl
  | [], _ :: _ => isFalse (by intro e; cases e)
  | _ :: _, [] => isFalse (by intro e; cases e)
  | x :: xs, y :: ys => match J.decEq x y, J.decEqL xs ys with
      | isTrue h1, isTrue h2 => isTrue (by rw [h1, h2])
      | isFalse h, _ => isFalse (by intro e; cases e; exact h rfl)
      | _, isFalse h => isFalse (by intro e; cases e; exact h rfl)
def J.decEqKV : (a b : List (String × J)) → Decidable (a = b)
  | [], [] => isTrue rfl
  | [], _ :: _ => isFalse (by intro e; cases e)
  | _ :: _, [] => isFalse (by intro e; cases e)
  | (k1, x) :: xs, (k2, y) :: ys =>
      if hk : k1 = k2 then
        match J.decEq x y, J.decEqKV xs ys with
        | isTrue h1, isTrue h2 => isTrue (by rw [hk, h1, h2])
        | isFalse h, _ => isFalse (by intro e; cases e; exact h rfl)
        | _, isFalse h => isFalse (by intro e; cases e; exact h rfl)
      else isFalse (by intro e; cases e; exact hk rfl)
end
instance : DecidableEq J := J.decEq

/-- dictionary lookup (first match) -/
def lookup {α} (k : String) : List (String × α) → Option α
  | [] => none
  | (k', v) :: rest => if k' = k then some v else lookup k rest

def typeKey : String := "#type"
def idKey : String := "#identifier"

/-- a JSON object carrying a `#type` key: what `filter_serializables` turns into an object -/
def J.isTyped : J → Bool
  | .obj kvs => (lookup typeKey kvs).isSome
  | _ => false

/-- the reference document for identifier `i` -/
def ref (i : Id) : J := .obj [(idKey, .str i), (typeKey, .str "reference")]

mutual
/-- plain data: no object with a `#type` key anywhere inside (the decoder leaves it untouched) -/
def J.plain : J → Bool
  | .atom _ => true
  | .str _ => true
  | .arr xs => J.plainL xs
  | .obj kvs => (lookup typeKey kvs).isNone && J.plainKV kvs
def J.plainL : List J → Bool
  | [] => true
  | x :: xs => J.plain x && J.plainL xs
def J.plainKV : List (String × J) → Bool
  | [] => true
  | (_, v) :: rest => J.plain v && J.plainKV rest
end

mutual
/-- identifiers referenced anywhere inside a document, in document order -/
def J.refs : J → List Id
  | .atom _ => []
  | .str _ => []
  | .arr xs => J.refsL xs
  | .obj kvs =>
      match lookup typeKey kvs, lookup idKey kvs with
      | some (.str "reference"), some (.str i) => [i]
      | _, _ => J.refsKV kvs
def J.refsL : List J → List Id
  | [] => []
  | x :: xs => J.refs x ++ J.refsL xs
def J.refsKV : List (String × J) → List Id
  | [] => []
  | (_, v) :: rest => J.refs v ++ J.refsKV rest
end

/-! ## Classes and their serialisation schema -/

inductive Cls where
  | table | point | func | const | seq | rep | forLoop | mapping | amc | par | arithAtomic | arith
  | timeRev | abstr
  deriving DecidableEq, Repr, Inhabited

def Cls.all : List Cls :=
  [.table, .point, .func, .const, .seq, .rep, .forLoop, .mapping, .amc, .par, .arithAtomic, .arith,
   .timeRev, .abstr]

/-- `Serializable.get_type_identifier`: `module.ClassName` -/
def Cls.typeName : Cls → String
  | .table => "qupulse.pulses.table_pulse_template.TablePulseTemplate"
  | .point => "qupulse.pulses.point_pulse_template.PointPulseTemplate"
  | .func => "qupulse.pulses.function_pulse_template.FunctionPulseTemplate"
  | .const => "qupulse.pulses.constant_pulse_template.ConstantPulseTemplate"
  | .seq => "qupulse.pulses.sequence_pulse_template.SequencePulseTemplate"
  | .rep => "qupulse.pulses.repetition_pulse_template.RepetitionPulseTemplate"
  | .forLoop => "qupulse.pulses.loop_pulse_template.ForLoopPulseTemplate"
  | .mapping => "qupulse.pulses.mapping_pulse_template.MappingPulseTemplate"
  | .amc => "qupulse.pulses.multi_channel_pulse_template.AtomicMultiChannelPulseTemplate"
  | .par => "qupulse.pulses.multi_channel_pulse_template.ParallelChannelPulseTemplate"
  | .arithAtomic => "qupulse.pulses.arithmetic_pulse_template.ArithmeticAtomicPulseTemplate"
  | .arith => "qupulse.pulses.arithmetic_pulse_template.ArithmeticPulseTemplate"
  | .timeRev => "qupulse.pulses.time_reversal_pulse_template.TimeReversalPulseTemplate"
  | .abstr => "qupulse.pulses.abstract_pulse_template.AbstractPulseTemplate"

/-- the type identifiers written by the predecessor package: `qctoolkit.` instead of `qupulse.` -/
def Cls.legacyTypeName : Cls → String
  | .table => "qctoolkit.pulses.table_pulse_template.TablePulseTemplate"
  | .point => "qctoolkit.pulses.point_pulse_template.PointPulseTemplate"
  | .func => "qctoolkit.pulses.function_pulse_template.FunctionPulseTemplate"
  | .const => "qctoolkit.pulses.constant_pulse_template.ConstantPulseTemplate"
  | .seq => "qctoolkit.pulses.sequence_pulse_template.SequencePulseTemplate"
  | .rep => "qctoolkit.pulses.repetition_pulse_template.RepetitionPulseTemplate"
  | .forLoop => "qctoolkit.pulses.loop_pulse_template.ForLoopPulseTemplate"
  | .mapping => "qctoolkit.pulses.mapping_pulse_template.MappingPulseTemplate"
  | .amc => "qctoolkit.pulses.multi_channel_pulse_template.AtomicMultiChannelPulseTemplate"
  | .par => "qctoolkit.pulses.multi_channel_pulse_template.ParallelChannelPulseTemplate"
  | .arithAtomic => "qctoolkit.pulses.arithmetic_pulse_template.ArithmeticAtomicPulseTemplate"
  | .arith => "qctoolkit.pulses.arithmetic_pulse_template.ArithmeticPulseTemplate"
  | .timeRev => "qctoolkit.pulses.time_reversal_pulse_template.TimeReversalPulseTemplate"
  | .abstr => "qctoolkit.pulses.abstract_pulse_template.AbstractPulseTemplate"

/-- `DeserializationCallbackFinder.__getitem__` (with the `qctoolkit.` → `qupulse.` alias) -/
def Cls.ofTypeName (s : String) : Option Cls :=
  Cls.all.find? (fun c => c.typeName = s || c.legacyTypeName = s)

inductive Shape where
  | data        -- plain JSON data
  | child       -- one pulse template
  | children    -- a non-empty list of pulse templates
  | any         -- data or one pulse template (operands of ArithmeticPulseTemplate)
  deriving DecidableEq, Repr

/-- How `get_serialization_data` / `__init__` treat one key. -/
inductive Kind where
  | req                       -- required constructor argument, always written
  | dflt (d : J)              -- argument with default `d`, always written
  | omitDefault (d : J)       -- argument with default `d`, written only when the attribute differs from `d`
                              --   (`if self.parameter_constraints:` … for list/dict valued attributes)
  | absent                    -- default `None`: the attribute does not exist then; written iff it exists
  deriving Repr

structure Spec where
  key : String
  shape : Shape
  kind : Kind
  deriving Repr

def eArr : J := .arr []
def eObj : J := .obj []

/-- Keys in the order the encoder visits them (`sort_keys=True`). -/
def schema : Cls → List Spec
  | .table =>
    [⟨"consistency_check", .data, .omitDefault (.atom "true")⟩,
     ⟨"entries", .data, .req⟩,
     ⟨"measurements", .data, .dflt eArr⟩,
     ⟨"parameter_constraints", .data, .dflt eArr⟩]
  | .point =>
    [⟨"channel_names", .data, .req⟩,
     ⟨"measurements", .data, .omitDefault eArr⟩,
     ⟨"parameter_constraints", .data, .omitDefault eArr⟩,
     ⟨"time_point_tuple_list", .data, .req⟩]
  | .func =>
    [⟨"channel", .data, .dflt (.atom "\"default\"")⟩,
     ⟨"duration_expression", .data, .req⟩,
     ⟨"expression", .data, .req⟩,
     ⟨"measurements", .data, .dflt eArr⟩,
     ⟨"parameter_constraints", .data, .dflt eArr⟩]
  | .const =>
    [⟨"amplitude_dict", .data, .req⟩,
     ⟨"duration", .data, .req⟩,
     ⟨"measurements", .data, .dflt eArr⟩,
     ⟨"name", .data, .dflt (.atom "\"constant_pulse\"")⟩]
  | .seq =>
    [⟨"measurements", .data, .omitDefault eArr⟩,
     ⟨"parameter_constraints", .data, .omitDefault eArr⟩,
     ⟨"subtemplates", .children, .req⟩]
  | .rep =>
    [⟨"body", .child, .req⟩,
     ⟨"measurements", .data, .omitDefault eArr⟩,
     ⟨"parameter_constraints", .data, .omitDefault eArr⟩,
     ⟨"repetition_count", .data, .req⟩]
  | .forLoop =>
    [⟨"body", .child, .req⟩,
     ⟨"loop_index", .data, .req⟩,
     ⟨"loop_range", .data, .req⟩,
     ⟨"measurements", .data, .omitDefault eArr⟩,
     ⟨"parameter_constraints", .data, .omitDefault eArr⟩]
  | .mapping =>
    [⟨"channel_mapping", .data, .omitDefault eObj⟩,
     ⟨"measurement_mapping", .data, .omitDefault eObj⟩,
     ⟨"parameter_constraints", .data, .omitDefault eArr⟩,
     ⟨"parameter_mapping", .data, .omitDefault eObj⟩,
     ⟨"template", .child, .req⟩]
  | .amc =>
    [⟨"duration", .data, .absent⟩,
     ⟨"measurements", .data, .omitDefault eArr⟩,
     ⟨"parameter_constraints", .data, .omitDefault eArr⟩,
     ⟨"subtemplates", .children, .req⟩]
  | .par =>
    [⟨"overwritten_channels", .data, .req⟩,
     ⟨"template", .child, .req⟩]
  | .arithAtomic =>
    [⟨"arithmetic_operator", .data, .req⟩,
     ⟨"lhs", .child, .req⟩,
     ⟨"measurements", .data, .omitDefault eArr⟩,
     ⟨"rhs", .child, .req⟩]
  | .arith =>
    [⟨"arithmetic_operator", .data, .req⟩,
     ⟨"lhs", .any, .req⟩,
     ⟨"rhs", .any, .req⟩]
  | .timeRev =>
    [⟨"inner", .child, .req⟩]
  | .abstr =>
    [⟨"defined_channels", .data, .absent⟩,
     ⟨"duration", .data, .absent⟩,
     ⟨"integral", .data, .absent⟩,
     ⟨"measurement_names", .data, .absent⟩,
     ⟨"parameter_names", .data, .absent⟩]

/-! ## Template objects -/

mutual
inductive T where
  | node (cls : Cls) (id : Option Id) (items : List Item)
inductive Item where
  | data (k : String) (j : J)
  | child (k : String) (t : T)
  | children (k : String) (ts : List T)
end

instance : Inhabited T := ⟨.node .timeRev none []⟩
instance : Inhabited Item := ⟨.data "" (.atom "")⟩

mutual
def T.decEq : (a b : T) → Decidable (a = b)
  | .node c1 i1 x1, .node c2 i2 x2 =>
      if hc : c1 = c2 then
        if hi : i1 = i2 then
          match Item.decEqL x1 x2 with
          | isTrue h => isTrue (by rw [hc, hi, h])
          | isFalse h => isFalse (by intro e; cases e; exact h rfl)
        else isFalse (by intro e; cases e; exact hi rfl)
      else isFalse (by intro e; cases e; exact hc rfl)
termination_by structural a => a
def Item.decEq : (a b : Item) → Decidable (a = b)
  | .data k1 j1, .data k2 j2 =>
      if hk : k1 = k2 then
        if hj : j1 = j2 then isTrue (by rw [hk, hj]) else isFalse (by intro e; cases e; exact hj rfl)
      else isFalse (by intro e; cases e; exact hk rfl)
  | .child k1 t1, .child k2 t2 =>
      if hk : k1 = k2 then
        match T.decEq t1 t2 with
        | isTrue h => isTrue (by rw [hk, h])
        | isFalse h => isFalse (by intro e; cases e; exact h rfl)
      else isFalse (by intro e; cases e; exact hk rfl)
  | .children k1 t1, .children k2 t2 =>
      if hk : k1 = k2 then
        match T.decEqL t1 t2 with
        | isTrue h => isTrue (by rw [hk, h])
        | isFalse h => isFalse (by intro e; cases e; exact h rfl)
      else isFalse (by intro e; cases e; exact hk rfl)
  | .data _ _, .child _ _ | .data _ _, .children _ _ => isFalse (by intro e; cases e)
  | .child _ _, .data _ _ | .child _ _, .children _ _ => isFalse (by intro e; cases e)
  | .children _ _, .data _ _ | .children _ _, .child _ _ => isFalse (by intro e; cases e)
termination_by structural a => a
def Item.decEqL : (a b : List Item) → Decidable (a = b)
  | [], [] => isTrue rfl
  | [], _ :: _ => isFalse (by intro e; cases e)
  | _ :: _, [] => isFalse (by intro e; cases e)
  | x :: xs, y :: ys => match Item.decEq x y, Item.decEqL xs ys with
      | isTrue h1, isTrue h2 => isTrue (by rw [h1, h2])
      | isFalse h, _ => isFalse (by intro e; cases e; exact h rfl)
      | _, isFalse h => isFalse (by intro e; cases e; exact h rfl)
termination_by structural a => a
def T.decEqL : (a b : List T) → Decidable (a = b)
  | [], [] => isTrue rfl
  | [], _ :: _ => isFalse (by intro e; cases e)
  | _ :: _, [] => isFalse (by intro e; cases e)
  | x :: xs, y :: ys => match T.decEq x y, T.decEqL xs ys with
      | isTrue h1, isTrue h2 => isTrue (by rw [h1, h2])
      | isFalse h, _ => isFalse (by intro e; cases e; exact h rfl)
      | _, isFalse h => isFalse (by intro e; cases e; exact h rfl)
termination_by structural a => a
end
instance : DecidableEq T := T.decEq
instance : DecidableEq Item := Item.decEq

def T.cls : T → Cls | .node c _ _ => c
def T.id : T → Option Id | .node _ i _ => i
def T.items : T → List Item | .node _ _ xs => xs
def Item.key : Item → String
  | .data k _ => k
  | .child k _ => k
  | .children k _ => k

/-! ### One constructor per serialisable pulse-template class

The arguments are the object's attributes after `__init__` normalised them (lists, not tuples;
`Expression` objects as their opaque serialised atom). -/

def T.table (id : Option Id) (entries : J) (meas cons : List J) (consistencyCheck : Bool := true) : T :=
  .node .table id [.data "consistency_check" (.atom (if consistencyCheck then "true" else "false")),
                   .data "entries" entries, .data "measurements" (.arr meas),
                   .data "parameter_constraints" (.arr cons)]
def T.point (id : Option Id) (points channels : J) (meas cons : List J) : T :=
  .node .point id [.data "channel_names" channels, .data "measurements" (.arr meas),
                   .data "parameter_constraints" (.arr cons), .data "time_point_tuple_list" points]
def T.func (id : Option Id) (expr dur channel : J) (meas cons : List J) : T :=
  .node .func id [.data "channel" channel, .data "duration_expression" dur, .data "expression" expr,
                  .data "measurements" (.arr meas), .data "parameter_constraints" (.arr cons)]
def T.const (id : Option Id) (dur amps name : J) (meas : List J) : T :=
  .node .const id [.data "amplitude_dict" amps, .data "duration" dur, .data "measurements" (.arr meas),
                   .data "name" name]
def T.seq (id : Option Id) (subs : List T) (meas cons : List J) : T :=
  .node .seq id [.data "measurements" (.arr meas), .data "parameter_constraints" (.arr cons),
                 .children "subtemplates" subs]
def T.rep (id : Option Id) (body : T) (count : J) (meas cons : List J) : T :=
  .node .rep id [.child "body" body, .data "measurements" (.arr meas),
                 .data "parameter_constraints" (.arr cons), .data "repetition_count" count]
def T.forLoop (id : Option Id) (body : T) (index range : J) (meas cons : List J) : T :=
  .node .forLoop id [.child "body" body, .data "loop_index" index, .data "loop_range" range,
                     .data "measurements" (.arr meas), .data "parameter_constraints" (.arr cons)]
def T.mapping (id : Option Id) (template : T) (pmap mmap cmap : List (String × J)) (cons : List J) : T :=
  .node .mapping id [.data "channel_mapping" (.obj cmap), .data "measurement_mapping" (.obj mmap),
                     .data "parameter_constraints" (.arr cons), .data "parameter_mapping" (.obj pmap),
                     .child "template" template]
def T.amc (id : Option Id) (subs : List T) (meas cons : List J) (duration : Option J := none) : T :=
  .node .amc id ((match duration with | some d => [.data "duration" d] | none => []) ++
                 [.data "measurements" (.arr meas), .data "parameter_constraints" (.arr cons),
                  .children "subtemplates" subs])
def T.par (id : Option Id) (template : T) (overwritten : J) : T :=
  .node .par id [.data "overwritten_channels" overwritten, .child "template" template]
def T.arithAtomic (id : Option Id) (lhs : T) (op : J) (rhs : T) (meas : List J) : T :=
  .node .arithAtomic id [.data "arithmetic_operator" op, .child "lhs" lhs, .data "measurements" (.arr meas),
                         .child "rhs" rhs]
/-- pulse template ∘ scalar -/
def T.arithL (id : Option Id) (lhs : T) (op : J) (rhs : J) : T :=
  .node .arith id [.data "arithmetic_operator" op, .child "lhs" lhs, .data "rhs" rhs]
/-- scalar ∘ pulse template -/
def T.arithR (id : Option Id) (lhs : J) (op : J) (rhs : T) : T :=
  .node .arith id [.data "arithmetic_operator" op, .data "lhs" lhs, .child "rhs" rhs]
def T.timeRev (id : Option Id) (inner : T) : T :=
  .node .timeRev id [.child "inner" inner]
/-- `props`: the declared properties, a sub-list of the five schema keys in schema order -/
def T.abstr (id : Id) (props : List (String × J)) : T :=
  .node .abstr (some id) (props.map fun (k, v) => .data k v)

/-! ## What the code writes: documents -/

def hdr (cls : Cls) (id : Option Id) : List (String × J) :=
  (match id with | some i => [(idKey, .str i)] | none => []) ++ [(typeKey, .str cls.typeName)]

def kindOf (cls : Cls) (k : String) : Option Kind :=
  ((schema cls).find? (fun sp => sp.key = k)).map (·.kind)

/-- is this attribute written by `get_serialization_data`? -/
def emitted (cls : Cls) : Item → Bool
  | .data k j => match kindOf cls k with
      | some (.omitDefault d) => j ≠ d
      | _ => true
  | _ => true

mutual
/-- the full document of a node (`#identifier`, `#type`, written attributes; children via `emit`) -/
def body : T → J
  | .node cls id items => .obj (hdr cls id ++ bodyItems cls items)
/-- what the encoder returns for a template inside another document -/
def emit : T → J
  | .node cls id items =>
    match id with
    | some i => ref i
    | none => .obj (hdr cls none ++ bodyItems cls items)
def bodyItems (cls : Cls) : List Item → List (String × J)
  | [] => []
  | .data k j :: rest => if emitted cls (.data k j) then (k, j) :: bodyItems cls rest else bodyItems cls rest
  | .child k t :: rest => (k, emit t) :: bodyItems cls rest
  | .children k ts :: rest => (k, .arr (emitList ts)) :: bodyItems cls rest
def emitList : List T → List J
  | [] => []
  | t :: ts => emit t :: emitList ts
end

mutual
/-- all nodes of a tree, children before parents, in encoder visiting order -/
def subterms : T → List T
  | .node cls id items => subtermsItems items ++ [.node cls id items]
def subtermsItems : List Item → List T
  | [] => []
  | .data _ _ :: rest => subtermsItems rest
  | .child _ t :: rest => subterms t ++ subtermsItems rest
  | .children _ ts :: rest => subtermsList ts ++ subtermsItems rest
def subtermsList : List T → List T
  | [] => []
  | t :: ts => subterms t ++ subtermsList ts
end

def T.named (t : T) : Bool := t.id.isSome

/-- the named nodes of a tree, children first -/
def namedSub (t : T) : List T := (subterms t).filter T.named

mutual
def depth : T → Nat
  | .node _ _ items => 1 + depthItems items
def depthItems : List Item → Nat
  | [] => 0
  | .data _ _ :: rest => depthItems rest
  | .child _ t :: rest => max (depth t) (depthItems rest)
  | .children _ ts :: rest => max (depthList ts) (depthItems rest)
def depthList : List T → Nat
  | [] => 0
  | t :: ts => max (depth t) (depthList ts)
end

/-! ## Errors -/

inductive Err where
  | valueError       -- `ValueError` (wrong identifier in `__setitem__`; constructor failure wrapped by the decoder)
  | idTaken          -- `RuntimeError('Identifier assigned twice …' / '… already taken' / '… already assigned in storage backend')
  | keyError         -- reference / identifier not in the backend
  | refWithoutId     -- `RuntimeError('Reference without identifier')`
  | unknownType      -- no deserialisation callback for `#type`
  | notSerializable  -- the document is not an object with a `#type` key
  | unmodelled       -- constructor behaviour outside the model (flattening of a nested anonymous mapping)
  | fuel             -- recursion depth exhausted
  deriving DecidableEq, Repr, Inhabited

/-! ## The storage as it runs -/

abbrev Store := List (Id × J)

/-- `backend.put(id, doc, overwrite=True)`: replace in place or append -/
def put {α} (i : Id) (d : α) : List (Id × α) → List (Id × α)
  | [] => [(i, d)]
  | (k, v) :: rest => if k = i then (k, d) :: rest else (k, v) :: put i d rest

def hasKey {α} (i : Id) (s : List (Id × α)) : Bool := (lookup i s).isSome

/-- A `PulseStorage` over a backend: backend contents and `_temporary_storage`. -/
structure St where
  backend : Store := []
  temp : List (Id × T) := []
  deriving Inhabited

/-- `identifier in self` -/
def St.has (st : St) (i : Id) : Bool := hasKey i st.temp || hasKey i st.backend

/-- `_transaction_storage`: insertion ordered, a repeated key keeps its position -/
abbrev Txn := List (Id × (J × T))

mutual
/-- `JSONSerializableEncoder.default(o)` for a `Serializable` `o`, inside an open transaction. -/
def encT (st : St) : Txn → T → Except Err (Txn × J)
  | txn, .node cls id items =>
    match id with
    | none => do
        let (txn', kvs) ← encItems st cls txn items
        pure (txn', .obj (hdr cls none ++ kvs))
    | some i =>
        if st.has i then
          -- `elif o is not self.storage[o.identifier]: raise RuntimeError`; an entry that is only in the
          -- backend is deserialised into a new object, which is never `o`
          match lookup i st.temp with
          | some o => if o = .node cls id items then pure (txn, ref i) else throw .idTaken
          | none => throw .idTaken
        else
          -- `self.storage[o.identifier] = o` → `__setitem__` → nested `overwrite`
          match lookup i txn with
          | some e =>
              -- "nested Serializable that was already collected during this transaction"
              if e.2 = .node cls id items then pure (txn, ref i) else throw .idTaken
          | none => do
              let (txn', kvs) ← encItems st cls txn items
              -- "one of the nested Serializables uses the identifier of the Serializable that contains it"
              if hasKey i txn' then throw .idTaken
              pure (put i (.obj (hdr cls id ++ kvs), .node cls id items) txn', ref i)
def encItems (st : St) (cls : Cls) : Txn → List Item → Except Err (Txn × List (String × J))
  | txn, [] => pure (txn, [])
  | txn, .data k j :: rest =>
      if emitted cls (.data k j) then do
        let (t2, kvs) ← encItems st cls txn rest
        pure (t2, (k, j) :: kvs)
      else encItems st cls txn rest
  | txn, .child k t :: rest => do
      let (t1, j) ← encT st txn t
      let (t2, kvs) ← encItems st cls t1 rest
      pure (t2, (k, j) :: kvs)
  | txn, .children k ts :: rest => do
      let (t1, js) ← encList st txn ts
      let (t2, kvs) ← encItems st cls t1 rest
      pure (t2, (k, .arr js) :: kvs)
def encList (st : St) : Txn → List T → Except Err (Txn × List J)
  | txn, [] => pure (txn, [])
  | txn, t :: ts => do
      let (t1, j) ← encT st txn t
      let (t2, js) ← encList st t1 ts
      pure (t2, j :: js)
end

/-- write a finished transaction: `put` every entry in transaction order, then publish to the
temporary storage -/
def commit (st : St) (txn : Txn) : St :=
  { backend := txn.foldl (fun b e => put e.1 e.2.1 b) st.backend
    temp := txn.foldl (fun m e => put e.1 e.2.2 m) st.temp }

/-- `PulseStorage.overwrite(identifier, serializable)` at transaction begin. Returns the new state and
the `(identifier, document)` pairs in the order they were `put`. -/
def overwrite (st : St) (i : Id) (t : T) : Except Err (St × List (Id × J)) :=
  match t with
  | .node cls id items => do
      let (txn, kvs) ← encItems st cls [] items
      if hasKey i txn then throw .idTaken   -- a nested template uses the identifier of the root
      let txn := put i (.obj (hdr cls id ++ kvs), .node cls id items) txn
      pure (commit st txn, txn.map (fun e => (e.1, e.2.1)))

/-- `PulseStorage.__setitem__(identifier, serializable)` -/
def setitem (st : St) (i : Id) (t : T) : Except Err (St × List (Id × J)) :=
  if t.id ≠ some i then throw .valueError
  else match lookup i st.temp with
    | some o => if o = t then pure (st, []) else throw .idTaken
    | none => if hasKey i st.backend then throw .idTaken else overwrite st i t

/-- `try: storage[i] = t  except: pass` — `overwrite` closes its transaction in a `finally` block and writes to
the backend only after the whole transaction has been encoded, so a store that raises leaves the storage as it was -/
def setitemTry (st : St) (i : Id) (t : T) : St × List (Id × J) × Bool :=
  match setitem st i t with
  | .ok (st', log) => (st', log, true)
  | .error _ => (st, [], false)

/-- store templates one after the other under their own identifiers (an anonymous root is rejected:
`storage[None] = t` has no backend key) -/
def storeAll (st : St) : List T → Except Err (St × List (Id × J))
  | [] => pure (st, [])
  | t :: ts =>
      match t.id with
      | none => throw .valueError
      | some i => do
          let (st1, log1) ← setitem st i t
          let (st2, log2) ← storeAll st1 ts
          pure (st2, log1 ++ log2)

/-- `del storage[i]`: removed from the backend (`KeyError` when it is not there), then from the temporary storage -/
def delitem (st : St) (i : Id) : Except Err St :=
  if hasKey i st.backend then
    pure { backend := st.backend.filter (fun e => e.1 ≠ i), temp := st.temp.filter (fun e => e.1 ≠ i) }
  else throw .keyError

/-! ### several live `PulseStorage` objects over one backend

The backend is the single source of truth; every storage has its own temporary storage, which may be stale. -/

structure Multi where
  backend : Store := []
  temps : List (List (Id × T)) := []

inductive Op where
  | set (k : Nat) (t : T)      -- `storages[k][t.identifier] = t`
  | over (k : Nat) (t : T)     -- `storages[k].overwrite(t.identifier, t)`
  | del (k : Nat) (i : Id)     -- `del storages[k][i]`

def Multi.view (m : Multi) (k : Nat) : St := { backend := m.backend, temp := m.temps.getD k [] }

def Multi.update (m : Multi) (k : Nat) (st : St) : Multi :=
  { backend := st.backend
    temps := (m.temps ++ List.replicate (k + 1 - m.temps.length) []).set k st.temp }

/-- one operation; an operation that raises leaves everything as it was -/
def Multi.step (m : Multi) : Op → Multi × Bool
  | .set k t =>
      match t.id with
      | none => (m, false)
      | some i => match setitem (m.view k) i t with
          | .ok (st, _) => (m.update k st, true)
          | .error _ => (m, false)
  | .over k t =>
      match t.id with
      | none => (m, false)
      | some i => match overwrite (m.view k) i t with
          | .ok (st, _) => (m.update k st, true)
          | .error _ => (m, false)
  | .del k i =>
      match delitem (m.view k) i with
      | .ok st => (m.update k st, true)
      | .error _ => (m, false)

def Multi.run (m : Multi) : List Op → Multi × List Bool
  | [] => (m, [])
  | op :: ops =>
      let (m1, ok) := m.step op
      let (m2, oks) := Multi.run m1 ops
      (m2, ok :: oks)

/-- `store ∅ t` -/
def store (t : T) : Except Err (St × List (Id × J)) := storeAll {} [t]

/-! ## Loading -/

def shapeOk : Shape → Item → Bool
  | .data, .data _ _ => true
  | .child, .child _ _ => true
  | .children, .children _ (_ :: _) => true
  | .any, .data _ _ => true
  | .any, .child _ _ => true
  | _, _ => false

def findItem (k : String) : List Item → Option Item
  | [] => none
  | it :: rest => if it.key = k then some it else findItem k rest

/-- bind keyword arguments to the constructor signature: missing optional arguments get their default -/
def fill : List Spec → List Item → Except Err (List Item)
  | [], _ => pure []
  | sp :: sps, kw => do
      let rest ← fill sps kw
      match findItem sp.key kw with
      | some it => if shapeOk sp.shape it then pure (it :: rest) else throw .valueError
      | none =>
        match sp.kind with
        | .req => throw .valueError
        | .dflt d => pure (.data sp.key d :: rest)
        | .omitDefault d => pure (.data sp.key d :: rest)
        | .absent => pure rest

/-- constructor checks that depend on the children -/
def ctorCheck (cls : Cls) (items : List Item) : Except Err Unit :=
  match cls with
  | .mapping =>
      -- `if isinstance(template, MappingPulseTemplate) and template.identifier is None and not
      -- template.parameter_constraints:` the mappings are composed and the inner template is adopted; expression
      -- composition is outside this model. An anonymous inner mapping that carries constraints is kept as it is.
      match findItem "template" items with
      | some (.child _ (.node .mapping none inner)) =>
          match findItem "parameter_constraints" inner with
          | some (.data _ (.arr (_ :: _))) => pure ()
          | _ => throw .unmodelled
      | _ => pure ()
  | .arith =>
      -- exactly one operand is a pulse template (`TypeError` otherwise, wrapped into `ValueError`)
      match findItem "lhs" items, findItem "rhs" items with
      | some (.child _ _), some (.data _ _) => pure ()
      | some (.data _ _), some (.child _ _) => pure ()
      | _, _ => throw .valueError
  | _ => pure ()

/-- `ConstantPulseTemplate.deserialize`: the legacy key `#amplitudes` -/
def legacy (cls : Cls) (kw : List Item) : List Item :=
  match cls with
  | .const => kw.map fun
      | .data "#amplitudes" j => .data "amplitude_dict" j
      | it => it
  | _ => kw

/-- `deserialization_callback(identifier=…, registry=…, **obj_dict)`; every exception of the constructor
is re-raised as `ValueError` by `filter_serializables` -/
def construct (cls : Cls) (id : Option Id) (kw : List Item) : Except Err T := do
  let kw := legacy cls kw
  if kw.any (fun it => !(schema cls).any (fun sp => sp.key = it.key)) then throw .valueError  -- unexpected keyword
  let items ← fill (schema cls) kw
  ctorCheck cls items
  pure (.node cls id items)

def stripHdr (kvs : List (String × J)) : List (String × J) :=
  kvs.filter (fun kv => kv.1 ≠ typeKey && kv.1 ≠ idKey)

/-- the `#identifier` entry of a document -/
def idOf (kvs : List (String × J)) : Option Id :=
  match lookup idKey kvs with
  | some (.str i) => some i
  | _ => none

def mapMExcept {α β} (f : α → Except Err β) : List α → Except Err (List β)
  | [] => pure []
  | x :: xs => do
      let y ← f x
      let ys ← mapMExcept f xs
      pure (y :: ys)

/-- one value of a decoded dictionary: objects with a `#type` key have been replaced by the object
`dec` builds from them, also inside (non-empty) lists -/
def decValue (dec : J → Except Err T) : String × J → Except Err Item
  | (k, .obj kvs) => if (lookup typeKey kvs).isSome then (dec (.obj kvs)).map (Item.child k) else pure (.data k (.obj kvs))
  | (k, .arr (x :: xs)) =>
      if (x :: xs).all J.isTyped then (mapMExcept dec (x :: xs)).map (Item.children k)
      else pure (.data k (.arr (x :: xs)))
  | (k, v) => pure (.data k v)

/-- `JSONSerializableDecoder.filter_serializables` applied bottom-up, references resolved through the
storage (here: straight from the backend, see `loadC` for the cache). The fuel is the recursion depth. -/
def decT : Nat → Store → J → Except Err T
  | 0, _, _ => throw .fuel
  | f + 1, s, .obj kvs =>
      match lookup typeKey kvs with
      | some (.str ty) =>
          if ty = "reference" then
            match lookup idKey kvs with
            | some (.str i) =>
                match lookup i s with
                | some d => decT f s d
                | none => throw .keyError
            | _ => throw .refWithoutId
          else
            match Cls.ofTypeName ty with
            | none => throw .unknownType
            | some cls => do
                let kw ← mapMExcept (decValue (decT f s)) (stripHdr kvs)
                construct cls (idOf kvs) kw
      | _ => throw .notSerializable
  | _ + 1, _, _ => throw .notSerializable

/-- a fresh `PulseStorage` over the backend: `storage[i]` -/
def load (fuel : Nat) (s : Store) (i : Id) : Except Err T :=
  match lookup i s with
  | some d => decT fuel s d
  | none => throw .keyError

/-! ### Loading with the temporary storage as cache

`PulseStorage.__getitem__` deserialises an identifier at most once; later requests (also from other
parents' references) return the cached object. The log records every identifier whose document was
deserialised into a new object. -/

structure Cache where
  objs : List (Id × T) := []
  built : List Id := []

/-- `storage[i]` with cache: a cached object is returned as it is; otherwise the document is decoded
with `dec`, the object is cached and `i` is logged as built -/
def getC (dec : Cache → J → Except Err (T × Cache)) (s : Store) (c : Cache) (i : Id) : Except Err (T × Cache) :=
  match lookup i c.objs with
  | some o => pure (o, c)
  | none =>
    match lookup i s with
    | some d => do
        let (o, c') ← dec c d
        pure (o, { objs := put i o c'.objs, built := c'.built ++ [i] })
    | none => throw .keyError

def mapMC (dec : Cache → J → Except Err (T × Cache)) : Cache → List J → Except Err (List T × Cache)
  | c, [] => pure ([], c)
  | c, x :: xs => do
      let (o, c1) ← dec c x
      let (os, c2) ← mapMC dec c1 xs
      pure (o :: os, c2)

def decValueC (dec : Cache → J → Except Err (T × Cache)) (c : Cache) : String × J → Except Err (Item × Cache)
  | (k, .obj kvs) =>
      if (lookup typeKey kvs).isSome then do
        let (o, c1) ← dec c (.obj kvs)
        pure (.child k o, c1)
      else pure (.data k (.obj kvs), c)
  | (k, .arr (x :: xs)) =>
      if (x :: xs).all J.isTyped then do
        let (os, c1) ← mapMC dec c (x :: xs)
        pure (.children k os, c1)
      else pure (.data k (.arr (x :: xs)), c)
  | (k, v) => pure (.data k v, c)

def mapMItemsC (dec : Cache → J → Except Err (T × Cache)) : Cache → List (String × J) → Except Err (List Item × Cache)
  | c, [] => pure ([], c)
  | c, kv :: rest => do
      let (it, c1) ← decValueC dec c kv
      let (its, c2) ← mapMItemsC dec c1 rest
      pure (it :: its, c2)

def decTC : Nat → Store → Cache → J → Except Err (T × Cache)
  | 0, _, _, _ => throw .fuel
  | f + 1, s, c, .obj kvs =>
      match lookup typeKey kvs with
      | some (.str ty) =>
          if ty = "reference" then
            match lookup idKey kvs with
            | some (.str i) => getC (decTC f s) s c i
            | _ => throw .refWithoutId
          else
            match Cls.ofTypeName ty with
            | none => throw .unknownType
            | some cls => do
                let (kw, c') ← mapMItemsC (decTC f s) c (stripHdr kvs)
                let o ← construct cls (idOf kvs) kw
                pure (o, c')
      | _ => throw .notSerializable
  | _ + 1, _, _, _ => throw .notSerializable

/-- `storage[i]` on a `PulseStorage` with temporary storage `c` -/
def loadC (fuel : Nat) (s : Store) (c : Cache) (i : Id) : Except Err (T × Cache) :=
  getC (decTC fuel s) s c i

/-! ## Well-formed template objects (what `__init__` guarantees)

`Aligned`: the attributes are those of the class, in schema order; `absent` ones may be missing. -/

def alignedB : List Spec → List Item → Bool
  | [], [] => true
  | [], _ :: _ => false
  | sp :: sps, [] => (match sp.kind with | .absent => true | _ => false) && alignedB sps []
  | sp :: sps, it :: its =>
      if it.key = sp.key then shapeOk sp.shape it && alignedB sps its
      else (match sp.kind with | .absent => true | _ => false) && alignedB sps (it :: its)

def ctorOk (cls : Cls) (items : List Item) : Bool :=
  match ctorCheck cls items with
  | .ok _ => true
  | .error _ => false

mutual
def T.wf : T → Bool
  | .node cls _ items => alignedB (schema cls) items && ctorOk cls items && Item.wfL items
def Item.wfL : List Item → Bool
  | [] => true
  | .data _ j :: rest => j.plain && Item.wfL rest
  | .child _ t :: rest => t.wf && Item.wfL rest
  | .children _ ts :: rest => !ts.isEmpty && T.wfL ts && Item.wfL rest
def T.wfL : List T → Bool
  | [] => true
  | t :: ts => t.wf && T.wfL ts
end

/-- Identifiers name objects: two named nodes of the forest with the same identifier are the same
object (a named object may be shared by several parents). -/
def UniqueIds (ts : List T) : Prop :=
  ∀ a ∈ ts.flatMap namedSub, ∀ b ∈ ts.flatMap namedSub, a.id = b.id → a = b

def uniqueIdsB (ts : List T) : Bool :=
  let ns := ts.flatMap namedSub
  ns.all fun a => ns.all fun b => a.id ≠ b.id || a = b

/-! ## Line protocol

```
(c10 store (<tree> …))     → (ok (writes i…) (docs (i <json>)…) (refs (i (r…))…)) | (error <class>)
(c10 multi ((set k <tree>) | (over k <tree>) | (del k i) …)) → (ok (outcomes b…) (docs …) (refs …))
(c10 load <fuel> ((i <json>)…) i)   → (ok <tree> (built i…)) | (error <class>)
(c10 wf <tree>)             → (wf true|false) (unique true|false)
tree  ::= (n <cls> <id|-> (<item>…))      item ::= (d k <json>) | (c k <tree>) | (cs k <tree>…)
json  ::= (a tok) | (s str) | (arr <json>…) | (obj (k <json>)…)
```
-/
open Sexp

def Cls.tag : Cls → String
  | .table => "table" | .point => "point" | .func => "func" | .const => "const" | .seq => "seq"
  | .rep => "rep" | .forLoop => "forloop" | .mapping => "mapping" | .amc => "amc" | .par => "par"
  | .arithAtomic => "arithatomic" | .arith => "arith" | .timeRev => "timerev" | .abstr => "abstract"

def Cls.ofTag (s : String) : Option Cls := Cls.all.find? (fun c => c.tag = s)

mutual
def jOfSexp : Sexp → Option J
  | .list [.atom "a", .atom t] => some (.atom t)
  | .list [.atom "s", .atom t] => some (.str t)
  | .list (.atom "arr" :: xs) => (jsOfSexp xs).map J.arr
  | .list (.atom "obj" :: kvs) => (kvsOfSexp kvs).map J.obj
  | _ => none
def jsOfSexp : List Sexp → Option (List J)
  | [] => some []
  | x :: xs => do
      let j ← jOfSexp x
      let js ← jsOfSexp xs
      pure (j :: js)
def kvsOfSexp : List Sexp → Option (List (String × J))
  | [] => some []
  | .list [.atom k, v] :: rest => do
      let j ← jOfSexp v
      let r ← kvsOfSexp rest
      pure ((k, j) :: r)
  | _ :: _ => none
end

mutual
def sexpOfJ : J → Sexp
  | .atom t => .list [.atom "a", .atom t]
  | .str t => .list [.atom "s", .atom t]
  | .arr xs => .list (.atom "arr" :: sexpOfJs xs)
  | .obj kvs => .list (.atom "obj" :: sexpOfKvs kvs)
def sexpOfJs : List J → List Sexp
  | [] => []
  | x :: xs => sexpOfJ x :: sexpOfJs xs
def sexpOfKvs : List (String × J) → List Sexp
  | [] => []
  | (k, v) :: rest => .list [.atom k, sexpOfJ v] :: sexpOfKvs rest
end

mutual
def tOfSexp : Sexp → Option T
  | .list [.atom "n", .atom c, .atom i, .list items] => do
      let cls ← Cls.ofTag c
      let its ← itemsOfSexp items
      pure (.node cls (if i = "-" then none else some i) its)
  | _ => none
def itemsOfSexp : List Sexp → Option (List Item)
  | [] => some []
  | .list [.atom "d", .atom k, j] :: rest => do
      let v ← jOfSexp j
      let r ← itemsOfSexp rest
      pure (.data k v :: r)
  | .list [.atom "c", .atom k, t] :: rest => do
      let v ← tOfSexp t
      let r ← itemsOfSexp rest
      pure (.child k v :: r)
  | .list (.atom "cs" :: .atom k :: ts) :: rest => do
      let v ← tsOfSexp ts
      let r ← itemsOfSexp rest
      pure (.children k v :: r)
  | _ :: _ => none
def tsOfSexp : List Sexp → Option (List T)
  | [] => some []
  | t :: ts => do
      let v ← tOfSexp t
      let r ← tsOfSexp ts
      pure (v :: r)
end

mutual
def sexpOfT : T → Sexp
  | .node cls id items =>
      .list [.atom "n", .atom cls.tag, .atom (id.getD "-"), .list (sexpOfItems items)]
def sexpOfItems : List Item → List Sexp
  | [] => []
  | .data k j :: rest => .list [.atom "d", .atom k, sexpOfJ j] :: sexpOfItems rest
  | .child k t :: rest => .list [.atom "c", .atom k, sexpOfT t] :: sexpOfItems rest
  | .children k ts :: rest => .list (.atom "cs" :: .atom k :: sexpOfTs ts) :: sexpOfItems rest
def sexpOfTs : List T → List Sexp
  | [] => []
  | t :: ts => sexpOfT t :: sexpOfTs ts
end

def errS (e : Err) : Sexp :=
  .list [.atom "error", .atom (match e with
    | .valueError => "value_error" | .idTaken => "id_taken" | .keyError => "key_error"
    | .refWithoutId => "ref_without_id" | .unknownType => "unknown_type"
    | .notSerializable => "not_serializable" | .unmodelled => "unmodelled" | .fuel => "fuel")]

def storeOfSexp : List Sexp → Option Store
  | [] => some []
  | .list [.atom i, j] :: rest => do
      let d ← jOfSexp j
      let r ← storeOfSexp rest
      pure ((i, d) :: r)
  | _ :: _ => none

def handle : List Sexp → Sexp
  | [.atom "store", .list ts] =>
    match tsOfSexp ts with
    | none => Sexp.err "bad-tree"
    | some ts =>
      match storeAll {} ts with
      | .error e => errS e
      | .ok (st, log) =>
        .list [.atom "ok",
               .list (.atom "writes" :: log.map (fun e => Sexp.atom e.1)),
               .list (.atom "docs" :: st.backend.map fun (i, d) => .list [.atom i, sexpOfJ d]),
               .list (.atom "refs" :: st.backend.map fun (i, d) => .list [.atom i, .list (d.refs.map Sexp.atom)])]
  | [.atom "multi", .list ops] =>
    let parseOp : Sexp → Option Op := fun
      | .list [.atom "set", k, t] => do pure (.set (← nat? k) (← tOfSexp t))
      | .list [.atom "over", k, t] => do pure (.over (← nat? k) (← tOfSexp t))
      | .list [.atom "del", k, .atom i] => do pure (.del (← nat? k) i)
      | _ => none
    match ops.mapM parseOp with
    | none => Sexp.err "bad-ops"
    | some ops =>
      let (m, oks) := Multi.run {} ops
      .list [.atom "ok",
             .list (.atom "outcomes" :: oks.map ofBool),
             .list (.atom "docs" :: m.backend.map fun (i, d) => .list [.atom i, sexpOfJ d]),
             .list (.atom "refs" :: m.backend.map fun (i, d) => .list [.atom i, .list (d.refs.map Sexp.atom)])]
  | [.atom "load", fuel, .list docs, .atom i] =>
    match nat? fuel, storeOfSexp docs with
    | some f, some s =>
      match loadC f s {} i with
      | .error e => errS e
      | .ok (t, c) => .list [.atom "ok", sexpOfT t, .list (.atom "built" :: c.built.map Sexp.atom)]
    | _, _ => Sexp.err "bad-args"
  | [.atom "wf", t] =>
    match tOfSexp t with
    | none => Sexp.err "bad-tree"
    | some t => .list [.list [.atom "wf", ofBool t.wf], .list [.atom "unique", ofBool (uniqueIdsB [t])],
                       .list [.atom "depth", ofNat (depth t)]]
  | _ => Sexp.err "c10-unknown-request"

end QP.C10
