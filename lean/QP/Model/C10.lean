import QP.Base
namespace QP.C10
open Sexp

def handle : List Sexp → Sexp
  | _ => Sexp.err "c10-not-implemented"

end QP.C10
