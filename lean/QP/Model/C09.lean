import QP.Base
namespace QP.C09
open Sexp

def handle : List Sexp → Sexp
  | _ => Sexp.err "c09-not-implemented"

end QP.C09
