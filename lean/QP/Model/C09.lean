import QP.Base
/-!
# C09 — program-tree bookkeeping (`qupulse.program.loop.Loop`, `qupulse.utils.tree.Node`)

A `Loop` object carries three pieces of redundant state next to its payload:

* `_cached_body_duration` (`cache`)  — `None` or the sum of the children's durations,
* `_Node__parent_index` (`pidx`)     — the position in the parent's child list,
* `_Node__parent` (`par`)            — the listing node (a weak reference; here the parent's `uid`).

The model is a plain tree whose nodes carry that state explicitly.  Object identity is a `uid`;
new objects (copies made by `unroll`, `split_one_child`, `encapsulate`, …) take uids from a counter
in depth-first pre-order, which is also how the harness numbers the real objects.  Every public
editing operation is addressed by the path of the edited node from the root; it is executed by a
*local* step on that node followed by the code's upward patching of the ancestors' caches
(`Loop._invalidate_duration`: `cache += inc·rep` on the way up, or reset).

The model is of /repo at 8e4f3a6 — which already contains the repairs of PF-03 (measurements mirrored
about the body duration), PF-05 (a54cf25: `_reverse_children` renumbers), PF-06 (9776c49:
`roll_constant_waveforms` resets the node's own cache and only rolls waveforms that are a whole number
of quanta long), PF-C06-1/2 (`unroll_children` rejects leaves, `split_one_child` normalises a negative
index) — with `fixes/PF-12.diff` (`Node.__setitem__` renumbers exactly the assigned positions of an
extended slice; a negative integer index is stored normalised) and `fixes/PF-C09-1.diff` (the
`repetition_count` / `repetition_definition` setters invalidate the ancestors' cached durations) applied.
-/
namespace QP.C09

/-- abstract waveform: `kind` stands for the shape/voltages, equal records ⇔ equal waveforms -/
structure Wf where
  kind : Nat
  dur : Rat
  const : Bool
  rev : Bool
  deriving Repr, DecidableEq

structure Meas where
  name : Nat
  start : Rat
  len : Rat
  deriving Repr, DecidableEq

structure Info where
  uid : Nat
  rep : Int                -- `repetition_count` = `int(_repetition_definition)`
  vol : Bool               -- the repetition definition is a `VolatileRepetitionCount`
  wf : Option Wf
  meas : List Meas         -- `_measurements or []`
  cache : Option Rat       -- `_cached_body_duration`
  pidx : Option Int        -- `_Node__parent_index`
  par : Option Nat         -- uid of `_Node__parent()`
  deriving Repr, DecidableEq

inductive T where
  | mk (i : Info) (ks : List T)
  deriving Repr

abbrev Path := List Nat

namespace T
def info : T → Info | .mk i _ => i
def kids : T → List T | .mk _ ks => ks
def upd (f : Info → Info) : T → T | .mk i ks => .mk (f i) ks
def withCache (c : Option Rat) (t : T) : T := t.upd (fun i => { i with cache := c })
def withPidx (p : Option Int) (t : T) : T := t.upd (fun i => { i with pidx := p })
def withPar (p : Option Nat) (t : T) : T := t.upd (fun i => { i with par := p })
def rep (t : T) : Int := t.info.rep
def isLeaf (t : T) : Bool := t.kids.isEmpty
end T

/-! ## The recomputed duration (specification side) -/

def leafDur : Option Wf → Rat
  | some w => w.dur
  | none => 0

mutual
/-- body duration recomputed from the leaves and repetition counts; never looks at a cache -/
def bodyDur : T → Rat
  | .mk i ks => if ks.isEmpty then leafDur i.wf else sumDur ks
def sumDur : List T → Rat
  | [] => 0
  | c :: cs => bodyDur c * (c.info.rep : Rat) + sumDur cs
end

def dur (t : T) : Rat := bodyDur t * (t.info.rep : Rat)

/-- the child at a path -/
def locate : T → Path → Option T
  | t, [] => some t
  | t, k :: p => match t.kids[k]? with
    | none => none
    | some c => locate c p

/-! ## Coherence -/

/-- the cache of this node is empty or the recomputed body duration -/
def cacheOkHere (t : T) : Prop := t.info.cache = none ∨ t.info.cache = some (bodyDur t)

/-- every listed child records its position and this node as its parent -/
def linksOkHere (t : T) : Prop :=
  ∀ (k : Nat) (c : T), t.kids[k]? = some c → c.info.pidx = some (k : Int) ∧ c.info.par = some t.info.uid

mutual
def Coherent : T → Prop
  | .mk i ks => cacheOkHere (.mk i ks) ∧ linksOkHere (.mk i ks) ∧ CoherentL ks
def CoherentL : List T → Prop
  | [] => True
  | c :: cs => Coherent c ∧ CoherentL cs
end

def cacheOkHereB (t : T) : Bool :=
  match t.info.cache with
  | none => true
  | some v => decide (v = bodyDur t)

def linksFrom (uid : Nat) : Nat → List T → Bool
  | _, [] => true
  | k, c :: cs => decide (c.info.pidx = some (k : Int)) && decide (c.info.par = some uid) && linksFrom uid (k + 1) cs

def linksOkHereB (t : T) : Bool := linksFrom t.info.uid 0 t.kids

mutual
/-- executable twin of `Coherent` (the judge) -/
def coherentB : T → Bool
  | .mk i ks => cacheOkHereB (.mk i ks) && linksOkHereB (.mk i ks) && coherentLB ks
def coherentLB : List T → Bool
  | [] => true
  | c :: cs => coherentB c && coherentLB cs
end

/-! ## Reading a duration: `Loop.body_duration` / `Loop.duration` populate caches -/

mutual
/-- `node.body_duration`: the node afterwards and the value the property returns.  A present cache
is returned as it is (no descent). -/
def fillV : T → T × Rat
  | .mk i ks =>
    match i.cache with
    | some v => (.mk i ks, v)
    | none =>
      if ks.isEmpty then (.mk { i with cache := some (leafDur i.wf) } ks, leafDur i.wf)
      else
        let r := fillLV ks
        (.mk { i with cache := some r.2 } r.1, r.2)
/-- `sum(child.duration for child in self)` -/
def fillLV : List T → List T × Rat
  | [] => ([], 0)
  | c :: cs =>
    let a := fillV c
    let b := fillLV cs
    (a.1 :: b.1, a.2 * (c.info.rep : Rat) + b.2)
end

/-- `node.duration` as reported by the code -/
def reportedDur (t : T) : Rat := (fillV t).2 * (t.info.rep : Rat)

/-! ## `Loop._invalidate_duration` -/

inductive Upd where
  | keep                -- `_invalidate_duration` is not called
  | reset               -- `_invalidate_duration()`
  | inc (d : Rat)       -- `_invalidate_duration(body_duration_increment=d)`
  deriving Repr, DecidableEq

/-- one level of `_invalidate_duration`: patch this node's cache, hand the rest to the parent -/
def invalidate (u : Upd) (t : T) : T × Upd :=
  match u with
  | .keep => (t, .keep)
  | .reset => (t.withCache none, .reset)
  | .inc d => (t.withCache (t.info.cache.map (· + d)), .inc (d * (t.info.rep : Rat)))

inductive Err where
  | typeError | indexError | valueError | runtimeError | assertion | attributeError
  | badPath        -- the request addressed a node that does not exist (harness error)
  | unsupported    -- outside the modelled input space (see `apply`), nothing is claimed
  deriving Repr, DecidableEq

/-- result of the local step on the addressed node -/
structure Loc where
  node : T
  upd : Upd
  next : Nat
  removed : List T := []
  out : Option T := none
  err : Option Err := none

/-- run `f` on the node at the path and let `_invalidate_duration` climb to the root -/
def atPath (f : T → Loc) : Path → T → Option Loc
  | [], t => some (f t)
  | k :: p, t =>
    match t.kids[k]? with
    | none => none
    | some c =>
      match atPath f p c with
      | none => none
      | some r =>
        let a := invalidate r.upd (.mk t.info (t.kids.set k r.node))
        some { r with node := a.1, upd := a.2 }

/-! ## `Node.__setitem__` -/

/-- `PySlice_AdjustIndices` after `PySlice_Unpack` -/
def adjustIdx (v : Option Int) (len step : Int) (isStart : Bool) : Int :=
  match v with
  | none => if isStart then (if step < 0 then len - 1 else 0) else (if step < 0 then -1 else len)
  | some x =>
    if x < 0 then
      (if x + len < 0 then (if step < 0 then -1 else 0) else x + len)
    else if x ≥ len then (if step < 0 then len - 1 else len)
    else x

/-- `len(range(start, stop, step))` -/
def rangeLen (start stop step : Int) : Nat :=
  if step > 0 then (if start < stop then ((stop - start - 1) / step + 1).toNat else 0)
  else if step < 0 then (if stop < start then ((start - stop - 1) / (-step) + 1).toNat else 0)
  else 0

/-- the positions `start + j*step`, `j < n` (all are valid indices when produced by `slice.indices`) -/
def rangeIdx (start step : Int) (n : Nat) : List Nat :=
  (List.range n).map (fun (j : Nat) => (start + (j : Int) * step).toNat)

/-- `for index in range(first, len(self)): children[index].__parent_index = index` -/
def renumFrom (first : Nat) (ks : List T) : List T :=
  ks.mapIdx (fun j c => if first ≤ j then c.withPidx (some (j : Int)) else c)

/-- `for index in indices: children[index].__parent_index = index` (repaired form, PF-12) -/
def renumAt (idxs : List Nat) (ks : List T) : List T :=
  ks.mapIdx (fun j c => if j ∈ idxs then c.withPidx (some (j : Int)) else c)

/-- extended-slice store: `children[start + j*step] = values[j]` -/
def assignExt : List Nat → List T → List T → List T
  | i :: is, v :: vs, ks => assignExt is vs (ks.set i v)
  | _, _, ks => ks

structure SliceRes where
  kids : List T
  removed : List T

/-- `Node.__setitem__(slice(start, stop, step), values)` on the child list of the node `uid`
(`parse_child` makes the node the parent of every value first) -/
def sliceAssign (uid : Nat) (ks : List T) (start stop step : Option Int) (vs : List T) : Except Err SliceRes :=
  let len : Int := ks.length
  let stepv := step.getD 1
  if stepv = 0 then .error .valueError else
  let vs' := vs.map (T.withPar (some uid))
  let s := adjustIdx start len stepv true
  let e := adjustIdx stop len stepv false
  let n := rangeLen s e stepv
  if stepv = 1 then
    let e' := if e < s then s else e
    let ks' := ks.take s.toNat ++ vs' ++ ks.drop e'.toNat
    let removed := (ks.drop s.toNat).take (e' - s).toNat
    if vs'.length ≠ n then .ok ⟨renumFrom s.toNat ks', removed⟩
    else .ok ⟨renumAt (rangeIdx s 1 n) ks', removed⟩
  else if vs'.length ≠ n then .error .valueError
  else
    let idxs := rangeIdx s stepv n
    .ok ⟨renumAt idxs (assignExt idxs vs' ks), idxs.filterMap (fun i => ks[i]?)⟩

/-- `Node.__setitem__(idx: int, value)` (repaired form, PF-12: the stored position is normalised) -/
def itemAssign (uid : Nat) (ks : List T) (idx : Int) (v : T) : Except Err SliceRes :=
  let len : Int := ks.length
  let j := if idx < 0 then idx + len else idx
  if j < 0 ∨ j ≥ len then .error .indexError
  else .ok ⟨ks.set j.toNat ((v.withPar (some uid)).withPidx (some j)), (ks[j.toNat]?).toList⟩

/-! ## `Loop.copy_tree_structure` -/

mutual
/-- a deep copy: fresh uids in pre-order starting at `n`, empty caches, children numbered -/
def copyT (par : Option Nat) (pidx : Option Int) : T → Nat → T × Nat
  | .mk i ks, n =>
    let r := copyL n 0 ks (n + 1)
    (.mk { uid := n, rep := i.rep, vol := i.vol, wf := i.wf, meas := i.meas, cache := none,
           pidx := pidx, par := par } r.1, r.2)
def copyL (paruid : Nat) (idx : Nat) : List T → Nat → List T × Nat
  | [], n => ([], n)
  | c :: cs, n =>
    let a := copyT (some paruid) (some (idx : Int)) c n
    let b := copyL paruid (idx + 1) cs a.2
    (a.1 :: b.1, b.2)
end

/-- `k` copies of every child in turn (`for _ in range(k) for child in self`), all with parent
pointer `par` and no recorded position (they are positioned by the slice assignment) -/
def copyMany (par : Option Nat) (src : List T) : Nat → Nat → List T × Nat
  | 0, n => ([], n)
  | k + 1, n =>
    let a := copyRow par src n
    let b := copyMany par src k a.2
    (a.1 ++ b.1, b.2)
where
  copyRow (par : Option Nat) : List T → Nat → List T × Nat
    | [], n => ([], n)
    | c :: cs, n =>
      let a := copyT par none c n
      let b := copyRow par cs a.2
      (a.1 :: b.1, b.2)

/-- `Loop(children=kids, …)` (`Node.__init__`): a new node without parent adopts the given children
and numbers them -/
def mkNode (uid : Nat) (rep : Int) (vol : Bool) (wf : Option Wf) (meas : List Meas) (kids : List T) : T :=
  .mk { uid := uid, rep := rep, vol := vol, wf := wf, meas := meas, cache := none, pidx := none, par := none }
      (kids.mapIdx (fun j c => (c.withPar (some uid)).withPidx (some (j : Int))))

/-! ## The local steps -/

def okLoc (t : T) (u : Upd) (next : Nat) (removed : List T := []) : Loc :=
  { node := t, upd := u, next := next, removed := removed }

def errLoc (t : T) (e : Err) (next : Nat) : Loc :=
  { node := t, upd := .keep, next := next, err := some e }

/-- `node.duration` -/
def queryLoc (next : Nat) (t : T) : Loc := okLoc (fillV t).1 .keep next

/-- `node.append_child(a)`: `Node.__setitem__(slice(len, len), (a,))`, then
`_invalidate_duration(body_duration_increment=self[-1].duration)` -/
def appendLoc (a : T) (next : Nat) (t : T) : Loc :=
  let n := t.kids.length
  let a1 := (a.withPar (some t.info.uid)).withPidx (some (n : Int))
  let f := fillV a1                       -- `self[-1].duration` populates the new child's caches
  let cd := f.2 * (a1.info.rep : Rat)
  let t' : T := .mk { t.info with cache := t.info.cache.map (· + cd) } (t.kids ++ [f.1])
  okLoc t' (.inc (cd * (t.info.rep : Rat))) next

/-- `Loop.__setitem__`: `Node.__setitem__` then `_invalidate_duration()` -/
def setSliceLoc (start stop step : Option Int) (vs : List T) (next : Nat) (t : T) : Loc :=
  match sliceAssign t.info.uid t.kids start stop step vs with
  | .error e => errLoc t e next
  | .ok r => okLoc (.mk { t.info with cache := none } r.kids) .reset next r.removed

def setItemLoc (idx : Int) (v : T) (next : Nat) (t : T) : Loc :=
  match itemAssign t.info.uid t.kids idx v with
  | .error e => errLoc t e next
  | .ok r => okLoc (.mk { t.info with cache := none } r.kids) .reset next r.removed

/-- `node.waveform = w` -/
def setWfLoc (w : Option Wf) (next : Nat) (t : T) : Loc :=
  okLoc (t.upd (fun i => { i with wf := w, cache := none })) .reset next

/-- `node.repetition_count = r` / `node.repetition_definition = …` (repaired form, PF-C09-1: the
parent chain is invalidated; the node's own body duration does not depend on its count) -/
def setRepLoc (r : Int) (vol : Bool) (next : Nat) (t : T) : Loc :=
  okLoc (t.upd (fun i => { i with rep := r, vol := vol })) .reset next

/-- `child.unroll()` seen from the parent `t`, `k` the child's place in the list.  The code uses the
child's *recorded* position `i = self.parent_index` for `self.parent[i:i+1] = copies`. -/
def unrollLoc (k : Nat) (next : Nat) (t : T) : Loc :=
  match t.kids[k]? with
  | none => errLoc t .badPath next
  | some c =>
    if c.isLeaf then errLoc t .runtimeError next else
    match c.info.pidx with
    | none => errLoc t .typeError next
    | some i =>
      let cp := copyMany (some t.info.uid) c.kids c.info.rep.toNat next
      match sliceAssign t.info.uid t.kids (some i) (some (i + 1)) none cp.1 with
      | .error e => errLoc t e next
      | .ok r => okLoc (.mk { t.info with cache := none } r.kids) .reset cp.2 r.removed

/-- `node.unroll_children()` -/
def unrollChildrenLoc (next : Nat) (t : T) : Loc :=
  if t.isLeaf then errLoc t .runtimeError next else
  let cp := copyMany (some t.info.uid) t.kids t.info.rep.toNat next
  match sliceAssign t.info.uid t.kids none none none cp.1 with
  | .error e => errLoc t e next
  | .ok r => okLoc (.mk { t.info with cache := none, rep := 1, vol := false } r.kids) .reset cp.2 r.removed

/-- `node.encapsulate()` -/
def encapsulateLoc (next : Nat) (t : T) : Loc :=
  let i := t.info
  let inner : T := .mk { uid := next, rep := i.rep, vol := i.vol, wf := i.wf, meas := i.meas, cache := none,
                         pidx := some 0, par := some i.uid }
                       (t.kids.mapIdx (fun j c => (c.withPar (some next)).withPidx (some (j : Int))))
  okLoc (.mk { i with cache := none, rep := 1, vol := false, wf := none, meas := [] } [inner]) .reset (next + 1)

/-- `_has_single_child_that_can_be_merged` -/
def canMerge (t : T) : Bool :=
  match t.kids with
  | [c] => t.info.meas.isEmpty || (c.info.rep == 1 && !c.info.vol)
  | _ => false

/-- `node._merge_single_child()` -/
def mergeLoc (next : Nat) (t : T) : Loc :=
  match t.kids with
  | [c] =>
    let mergable := c.info.rep == 1 && !c.info.vol
    if !(t.info.meas.isEmpty || mergable) then errLoc t .assertion next else
    if t.info.wf.isSome then errLoc t .assertion next else
    let meas := if t.info.meas.isEmpty then c.info.meas
                else if c.info.meas.isEmpty then t.info.meas else c.info.meas ++ t.info.meas
    match sliceAssign t.info.uid t.kids none none none c.kids with
    | .error e => errLoc t e next
    | .ok r =>
      -- `int(VolatileRepetitionCount)` clamps a negative value to 0
      let vol := t.info.vol || c.info.vol
      let prod := t.info.rep * c.info.rep
      okLoc (.mk { t.info with cache := none, rep := if vol then max prod 0 else prod, vol := vol,
                               wf := c.info.wf, meas := meas } r.kids) .reset next
  | _ => errLoc t .assertion next

/-- the default choice of `split_one_child`: the last child with count > 1 that is not volatile,
else the last volatile one -/
def splitDefault (ks : List T) : Option Nat :=
  let idx := List.range ks.length
  let big := idx.filter (fun j => match ks[j]? with | some c => decide (c.info.rep > 1) | none => false)
  match (big.filter (fun j => match ks[j]? with | some c => !c.info.vol | none => false)).getLast? with
  | some j => some j
  | none => big.getLast?

/-- `node.split_one_child(child_index)` -/
def splitLoc (idx : Option Int) (next : Nat) (t : T) : Loc :=
  let len : Int := t.kids.length
  let pick : Except Err Int :=
    match idx with
    | some ci =>
      let j := if ci < 0 then ci + len else ci
      if j < 0 ∨ j ≥ len then .error .indexError else
      match t.kids[j.toNat]? with
      | none => .error .indexError
      | some c => if c.info.rep < 2 then .error .valueError else .ok j     -- a negative index is normalised
    | none =>
      match splitDefault t.kids with
      | some j => .ok (j : Int)
      | none => .error .runtimeError
  match pick with
  | .error e => errLoc t e next
  | .ok ci =>
    let j := (if ci < 0 then ci + len else ci).toNat
    match t.kids[j]? with
    | none => errLoc t .indexError next
    | some c =>
      let cp := copyT (some t.info.uid) none c next
      let newChild := cp.1.upd (fun i => { i with rep := 1, vol := false })
      let ks1 := t.kids.set j (c.upd (fun i => { i with rep := i.rep - 1, vol := false }))
      match sliceAssign t.info.uid ks1 (some (ci + 1)) (some (ci + 1)) none [newChild] with
      | .error e => errLoc t e next
      | .ok r => okLoc (.mk { t.info with cache := none } r.kids) .reset cp.2

/-- `Waveform.reversed()` -/
def Wf.reversed (w : Wf) : Wf := if w.const then w else { w with rev := !w.rev }

/-- `if self._measurements: duration = self.body_duration; …` -/
def revMeas (t : T) : T × Bool :=
  if t.info.meas.isEmpty then (t, true) else
  let f := fillV t
  let d := f.2                 -- the body duration: measurements are repeated with the body
  (f.1.upd (fun i => { i with meas := i.meas.map (fun m => { m with start := d - (m.start + m.len) }) }), true)

mutual
/-- `node.reverse_inplace()` (repaired form, PF-05: `_reverse_children` renumbers).  The flag is
`false` when an `AttributeError` (leaf without waveform) stopped the traversal; what had been done
up to then stays done. -/
def revT : T → T × Bool
  | .mk i ks =>
    if ks.isEmpty then
      match i.wf with
      | none => (.mk i ks, false)
      | some w => revMeas (.mk { i with wf := some w.reversed } ks)
    else
      let r := revL ks
      let ks' := (r.1.reverse).mapIdx (fun j c => c.withPidx (some (j : Int)))
      if r.2 then revMeas (.mk i ks') else (.mk i ks', false)
/-- the children are visited in their *new* order, i.e. this list from the back; `revL` returns
the list in the old order with the visited tail processed -/
def revL : List T → List T × Bool
  | [] => ([], true)
  | c :: cs =>
    let b := revL cs
    if b.2 then
      let a := revT c
      (a.1 :: b.1, a.2)
    else (c :: b.1, false)
end
def reverseLoc (next : Nat) (t : T) : Loc :=
  let r := revT t
  { node := r.1, upd := .keep, next := next, err := if r.2 then none else some .attributeError }

/-- no node carries a waveform and children at the same time (class docstring of `Loop`) -/
def noMixedB : T → Bool
  | .mk i ks => (i.wf.isNone || ks.isEmpty) && noMixedLB ks
where noMixedLB : List T → Bool
  | [] => true
  | c :: cs => noMixedB c && noMixedLB cs

/-- smallest divisor of `n` that is `≥ m` (`qupulse.utils.numeric.smallest_factor_ge`), for `1 ≤ m ≤ n` -/
def smallestFactorGe (n m : Nat) : Nat :=
  match ((List.range (n + 1)).filter (fun f => m ≤ f && n % f == 0)).head? with
  | some f => f
  | none => n

/-- `roll_constant_waveforms` on one node that carries a waveform (repaired form, PF-06) -/
def rollLeaf (minq quantum : Nat) (sr : Rat) (i : Info) (w : Wf) : Info :=
  let wq : Int := (w.dur * sr / (quantum : Rat)).floor
  if w.dur * sr ≠ (wq : Rat) * (quantum : Rat) then i else      -- PF-06: not a whole number of quanta
  if wq < (minq : Int) * 2 then i else
  if !w.const then i else
  let nq := smallestFactorGe wq.toNat minq
  if (nq : Int) = wq then i else
  let k : Int := wq / (nq : Int)
  { i with rep := i.rep * k,
           wf := some { w with dur := ((quantum : Rat) * (nq : Rat)) / sr },
           cache := none }                                    -- PF-06: own cache reset

mutual
def rollT (minq quantum : Nat) (sr : Rat) : T → T
  | .mk i ks =>
    let i := { i with meas := [] }
    match i.wf with
    | none => .mk i (rollL minq quantum sr ks)
    | some w => .mk (rollLeaf minq quantum sr i w) ks
def rollL (minq quantum : Nat) (sr : Rat) : List T → List T
  | [] => []
  | c :: cs => rollT minq quantum sr c :: rollL minq quantum sr cs
end

def rollLoc (minq quantum : Int) (sr : Rat) (next : Nat) (t : T) : Loc :=
  if minq < 1 ∨ quantum < 1 ∨ sr ≤ 0 ∨ !noMixedB t then errLoc t .unsupported next
  else okLoc (rollT minq.toNat quantum.toNat sr t) .keep next

mutual
/-- `node.cleanup(actions)`; the flag says whether any `_invalidate_duration()` was triggered in
the subtree (each one climbs through all ancestors) -/
def cleanupT (re mg : Bool) : T → T × Bool
  | .mk i ks =>
    let r := cleanupL re mg ks
    -- `new_children`
    let keep := if re then r.1.filter (fun c => c.info.wf.isSome || !c.isLeaf) else r.1
    let changed1 := keep.length != r.1.length
    let ks1 := if changed1 then keep.mapIdx (fun j c => (c.withPar (some i.uid)).withPidx (some (j : Int))) else r.1
    let t1 : T := .mk (if r.2 || changed1 then { i with cache := none } else i) ks1
    if mg && canMerge t1 then ((mergeLoc 0 t1).node, true) else (t1, r.2 || changed1)
def cleanupL (re mg : Bool) : List T → List T × Bool
  | [] => ([], false)
  | c :: cs =>
    let a := if c.isLeaf then (c, false) else cleanupT re mg c
    let b := cleanupL re mg cs
    (a.1 :: b.1, a.2 || b.2)
end

def cleanupLoc (re mg : Bool) (next : Nat) (t : T) : Loc :=
  if !noMixedB t then errLoc t .unsupported next else
  let r := cleanupT re mg t
  okLoc r.1 (if r.2 then .reset else .keep) next

/-- the `new_parent` argument of `copy_tree_structure`: the sentinel `False` (default: the copy keeps the
original's parent pointer), `None` (a parentless copy), or a `Loop` given by its uid (`bound` = first uid
not used by that loop and its children, the harness creates it right before the call).  The code tests
`new_parent is False`: a childless — hence falsy — `Loop` is a parent like any other. -/
inductive CopyPar where
  | keep
  | none
  | explicit (uid bound : Nat)
  deriving Repr, DecidableEq

/-- the parent the copy of `t` is asked to have -/
def CopyPar.request (np : CopyPar) (t : T) : Option Nat :=
  match np with
  | .keep => t.info.par
  | .none => Option.none
  | .explicit u _ => some u

/-- `node.copy_tree_structure(new_parent=…)` -/
def copyLoc (np : CopyPar) (next : Nat) (t : T) : Loc :=
  let par : Option Nat := np.request t
  let start := match np with
    | .explicit _ b => max next b
    | _ => next
  let cp := copyT par Option.none t start
  { node := t, upd := .keep, next := cp.2, out := some cp.1 }

/-- `node.add_measurements(ms)`: reads `body_duration` (which fills the node's cache) and appends
the windows shifted to the end of the current body.  An empty batch on a node without measurements
stores `[]` where there was `None`; both are the empty list here, as for `Loop.__eq__`
(`(a or None) == (b or None)`). -/
def addMeasLoc (ms : List Meas) (next : Nat) (t : T) : Loc :=
  let f := fillV t
  let shifted := if f.2 = 0 then ms else ms.map (fun m => { m with start := m.start + f.2 })
  okLoc (f.1.upd (fun i => { i with meas := i.meas ++ shifted })) .keep next

mutual
/-- `node.get_measurement_windows(drop=True)`: every node of the sub-tree loses its measurements;
a leaf reads its own `body_duration`, an inner node reads `child.duration` of every child (so all
caches below the addressed node are filled, its own only if it is a leaf) -/
def dropT : T → T
  | .mk i ks =>
    if ks.isEmpty then (fillV (.mk { i with meas := [] } ks)).1
    else .mk { i with meas := [] } (dropL ks)
def dropL : List T → List T
  | [] => []
  | c :: cs => (fillV (dropT c)).1 :: dropL cs
end

def dropMeasLoc (next : Nat) (t : T) : Loc := okLoc (dropT t) .keep next

/-! ## Operations -/

inductive Op where
  | query (p : Path)
  | append (p : Path) (a : T)
  | setItem (p : Path) (idx : Int) (v : T)
  | setSlice (p : Path) (start stop step : Option Int) (vs : List T)
  | setWf (p : Path) (w : Option Wf)
  | setRep (p : Path) (r : Int) (vol : Bool)
  | unroll (p : Path)
  | unrollChildren (p : Path)
  | split (p : Path) (idx : Option Int)
  | encapsulate (p : Path)
  | merge (p : Path)
  | cleanup (p : Path) (re mg : Bool)
  | reverse (p : Path)
  | roll (p : Path) (minq quantum : Int) (sr : Rat)
  | copy (p : Path) (newParent : CopyPar)
  | addMeas (p : Path) (ms : List Meas)
  | dropMeas (p : Path)

structure St where
  tree : T
  next : Nat

structure Res where
  st : St
  removed : List T := []
  out : Option T := none
  err : Option Err := none
  upd : Upd := .keep      -- what `_invalidate_duration` hands on above the root (followed only by `applyBeside`)

/-- largest uid in a tree + 1 -/
def uidBound : T → Nat
  | .mk i ks => max (i.uid + 1) (uidBoundL ks)
where uidBoundL : List T → Nat
  | [] => 0
  | c :: cs => max (uidBound c) (uidBoundL cs)

/-- where the local step runs and which one it is -/
def Op.target : Op → Path
  | .query p | .append p _ | .setItem p _ _ | .setSlice p _ _ _ _ | .setWf p _ | .setRep p _ _
  | .unrollChildren p | .split p _ | .encapsulate p | .merge p | .cleanup p _ _ | .reverse p
  | .roll p _ _ _ | .copy p _ | .addMeas p _ | .dropMeas p => p
  | .unroll p => p.dropLast

def Op.loc (next : Nat) : Op → T → Loc
  | .query _ => queryLoc next
  | .append _ a => appendLoc a (max next (uidBound a))
  | .setItem _ idx v => setItemLoc idx v (max next (uidBound v))
  | .setSlice _ s e st vs => setSliceLoc s e st vs (max next (uidBound.uidBoundL vs))
  | .setWf _ w => setWfLoc w next
  | .setRep _ r v => setRepLoc r v next
  | .unroll p => match p.getLast? with
      | some k => unrollLoc k next
      | none => fun t => errLoc t .typeError next
  | .unrollChildren _ => unrollChildrenLoc next
  | .split _ idx => splitLoc idx next
  | .encapsulate _ => encapsulateLoc next
  | .merge _ => mergeLoc next
  | .cleanup _ re mg => cleanupLoc re mg next
  | .reverse _ => reverseLoc next
  | .roll _ mq q sr => rollLoc mq q sr next
  | .copy _ kp => copyLoc kp next
  | .addMeas _ ms => addMeasLoc ms next
  | .dropMeas _ => dropMeasLoc next

/-- one public operation on the tree -/
def applyR (op : Op) (s : St) : Res :=
  match op with
  | .unroll [] =>
    -- the root has no parent: `self.parent[i:i+1] = …` is a TypeError (after the leaf check)
    { st := s, err := some (if s.tree.isLeaf then .runtimeError else .typeError) }
  | _ =>
    match atPath (op.loc s.next) op.target s.tree with
    | none => { st := s, err := some .badPath }
    | some r => { st := ⟨r.node, r.next⟩, removed := r.removed, out := r.out, err := r.err, upd := r.upd }

def apply (op : Op) (s : St) : St := (applyR op s).st

/-- argument conditions of the API: sub-trees handed in are themselves coherent programs
(fresh, or detached from a tree), and children are only appended to a node without waveform -/
def Pre (op : Op) (s : St) : Prop :=
  match op with
  | .append p a => Coherent a ∧ ∀ n, locate s.tree p = some n → n.info.wf = none
  | .setItem _ _ v => Coherent v
  | .setSlice _ _ _ _ vs => CoherentL vs
  | _ => True

/-- `Pre` along a history -/
def PreAll : List Op → St → Prop
  | [], _ => True
  | op :: ops, s => Pre op s ∧ PreAll ops (apply op s)

/-! ## PF-C09-2 (open): the parent pointer of a detached node or of a copy is still followed

`copy_tree_structure()` gives the copy the ORIGINAL's parent pointer and `Node.__setitem__` leaves
the parent pointer of removed children in place.  `_invalidate_duration` on such a tree `d` does
not stop at its root: `if self.parent:` holds and the former parent — a node of another tree `t`
that does not list `d` — gets its cache patched. -/

mutual
/-- `_invalidate_duration` arriving at the node `uid` of the tree (through a stale parent pointer) -/
def escT (u : Upd) (uid : Nat) : T → Option (T × Upd)
  | .mk i ks =>
    if i.uid = uid then
      -- `if self.parent:` is False for a parent without children (`Node.__len__`)
      (if ks.isEmpty then none else some (invalidate u (.mk i ks)))
    else
      match escL u uid ks with
      | none => none
      | some r => some (invalidate r.2 (.mk i r.1))
def escL (u : Upd) (uid : Nat) : List T → Option (List T × Upd)
  | [] => none
  | c :: cs =>
    match escT u uid c with
    | some r => some (r.1 :: cs, r.2)
    | none =>
      match escL u uid cs with
      | some r => some (c :: r.1, r.2)
      | none => none
end

/-- an operation on the tree `d` (a detached sub-tree or a copy) next to the tree `t`: besides `d`
itself, `t` changes if `d`'s root still points to one of `t`'s nodes -/
def applyBeside (op : Op) (t : T) (d : St) : T × Res :=
  let r := applyR op d
  match d.tree.info.par with
  | none => (t, r)
  | some u =>
    match escT r.upd u t with
    | some e => (e.1, r)
    | none => (t, r)

/-- all uids of a tree -/
def uids : T → List Nat
  | .mk i ks => i.uid :: uidsL ks
where uidsL : List T → List Nat
  | [] => []
  | c :: cs => uids c ++ uidsL cs

/-- the class of the open finding PF-C09-2: the edited tree's root points to a node of the other tree -/
def InKnownClass (t : T) (d : St) : Prop := ∃ u, d.tree.info.par = some u ∧ u ∈ uids t

/-! ## `Loop.__eq__` -/

mutual
def eqStruct : T → T → Bool
  | .mk i ks, .mk j ls =>
    decide (i.rep = j.rep) && decide (i.vol = j.vol) && decide (i.wf = j.wf) && decide (i.meas = j.meas) &&
    decide (ks.length = ls.length) && eqStructL ks ls
/-- `all(a == b for a, b in zip(self, other))` -/
def eqStructL : List T → List T → Bool
  | c :: cs, d :: ds => eqStruct c d && eqStructL cs ds
  | _, _ => true
end

mutual
/-- forget identity, caches, positions and parent pointers -/
def erase : T → T
  | .mk i ks => .mk { uid := 0, rep := i.rep, vol := i.vol, wf := i.wf, meas := i.meas, cache := none,
                      pidx := none, par := none } (eraseL ks)
def eraseL : List T → List T
  | [] => []
  | c :: cs => erase c :: eraseL cs
end

/-- the position chain recorded along a path (what `get_location` collects through the parent
pointers, read from the root downwards) -/
def recordedLoc : T → Path → Option (List (Option Int))
  | _, [] => some []
  | t, k :: p => match t.kids[k]? with
    | none => none
    | some c => (recordedLoc c p).map (c.info.pidx :: ·)

/-! ## Line protocol -/
open Sexp

def optS {α} (f : α → Sexp) : Option α → Sexp
  | none => .atom "-"
  | some a => f a

def wfS (w : Wf) : Sexp := .list [.atom "w", ofNat w.kind, ofRat w.dur, ofBool w.const, ofBool w.rev]
def measS (m : Meas) : Sexp := .list [.atom "m", ofNat m.name, ofRat m.start, ofRat m.len]

mutual
def treeS : T → Sexp
  | .mk i ks => .list [.atom "n", ofNat i.uid, ofInt i.rep, ofBool i.vol, optS wfS i.wf, .list (i.meas.map measS),
                       optS ofRat i.cache, optS ofInt i.pidx, optS ofNat i.par, .list (treeLS ks)]
def treeLS : List T → List Sexp
  | [] => []
  | c :: cs => treeS c :: treeLS cs
end

def opt? {α} (f : Sexp → Option α) : Sexp → Option (Option α)
  | .atom "-" => some none
  | s => (f s).map some

def wf? : Sexp → Option Wf
  | .list [.atom "w", k, d, c, r] => do
    some { kind := ← nat? k, dur := ← rat? d, const := ← bool? c, rev := ← bool? r }
  | _ => none

def meas? : Sexp → Option Meas
  | .list [.atom "m", n, b, l] => do some { name := ← nat? n, start := ← rat? b, len := ← rat? l }
  | _ => none

partial def tree? : Sexp → Option T
  | .list [.atom "n", uid, rep, vol, wf, .list meas, cache, pidx, par, .list ks] => do
    let i : Info := { uid := ← nat? uid, rep := ← int? rep, vol := ← bool? vol, wf := ← opt? wf? wf,
                      meas := ← meas.mapM meas?, cache := ← opt? rat? cache, pidx := ← opt? int? pidx,
                      par := ← opt? nat? par }
    some (.mk i (← ks.mapM tree?))
  | _ => none

def path? : Sexp → Option Path
  | .list xs => xs.mapM nat?
  | _ => none

def op? : Sexp → Option Op
  | .list [.atom "query", p] => do some (.query (← path? p))
  | .list [.atom "append", p, a] => do some (.append (← path? p) (← tree? a))
  | .list [.atom "setitem", p, i, v] => do some (.setItem (← path? p) (← int? i) (← tree? v))
  | .list [.atom "setslice", p, s, e, st, .list vs] => do
    some (.setSlice (← path? p) (← opt? int? s) (← opt? int? e) (← opt? int? st) (← vs.mapM tree?))
  | .list [.atom "setwf", p, w] => do some (.setWf (← path? p) (← opt? wf? w))
  | .list [.atom "setrep", p, r, v] => do some (.setRep (← path? p) (← int? r) (← bool? v))
  | .list [.atom "unroll", p] => do some (.unroll (← path? p))
  | .list [.atom "unrollchildren", p] => do some (.unrollChildren (← path? p))
  | .list [.atom "split", p, i] => do some (.split (← path? p) (← opt? int? i))
  | .list [.atom "encapsulate", p] => do some (.encapsulate (← path? p))
  | .list [.atom "merge", p] => do some (.merge (← path? p))
  | .list [.atom "cleanup", p, re, mg] => do some (.cleanup (← path? p) (← bool? re) (← bool? mg))
  | .list [.atom "reverse", p] => do some (.reverse (← path? p))
  | .list [.atom "roll", p, mq, q, sr] => do some (.roll (← path? p) (← int? mq) (← int? q) (← rat? sr))
  | .list [.atom "copy", p, .atom "true"] => do some (.copy (← path? p) .keep)
  | .list [.atom "copy", p, .atom "false"] => do some (.copy (← path? p) .none)
  | .list [.atom "copy", p, .list [.atom "par", u, b]] => do some (.copy (← path? p) (.explicit (← nat? u) (← nat? b)))
  | .list [.atom "addmeas", p, .list ms] => do some (.addMeas (← path? p) (← ms.mapM meas?))
  | .list [.atom "dropmeas", p] => do some (.dropMeas (← path? p))
  | _ => none

def errName : Err → String
  | .typeError => "type_error" | .indexError => "index_error" | .valueError => "value_error"
  | .runtimeError => "runtime_error" | .assertion => "assertion" | .attributeError => "attribute_error"
  | .badPath => "bad_path" | .unsupported => "unsupported"

/-- which clause of `Coherent` fails first (for replay files) -/
partial def judgeT (path : List Nat) : T → Option Sexp
  | .mk i ks =>
    let t := T.mk i ks
    if !cacheOkHereB t then
      some (.list [.atom "violates", .atom "cached-duration", .list (path.map ofNat), optS ofRat i.cache, ofRat (bodyDur t)])
    else if !linksOkHereB t then
      some (.list [.atom "violates", .atom "position-or-parent", .list (path.map ofNat)])
    else
      (List.range ks.length).zip ks |>.findSome? (fun (k, c) => judgeT (path ++ [k]) c)

def stepS (r : Res) : Sexp :=
  .list [.atom "step", optS (fun e => .atom (errName e)) r.err, treeS r.st.tree, ofNat r.st.next,
         .list (treeLS r.removed), optS treeS r.out, ofBool (coherentB r.st.tree)]

def runOps : List Op → St → List Sexp
  | [], _ => []
  | op :: ops, s =>
    let r := applyR op s
    stepS r :: runOps ops r.st

def judgeS (d : Sexp) : Sexp :=
  match tree? d with
  | some t =>
    match judgeT [] t with
    | some v => v
    | none => if coherentB t then .list [.atom "ok"] else .list [.atom "violates", .atom "unknown"]
  | none => Sexp.err "bad-tree"

/-- model and implementation side by side: per step the model's state (or `same` when it equals
the implementation's dump) and the judge's verdict on the *implementation's* state -/
def checkOps : List Op → List Sexp → St → List Sexp
  | op :: ops, .list [d, o] :: ds, s =>
    let r := applyR op s
    let ts := treeS r.st.tree
    let os := optS treeS r.out
    .list [.atom "step", optS (fun e => .atom (errName e)) r.err,
           if ts == d then .atom "same" else ts, ofNat r.st.next,
           if os == o then .atom "same" else os, judgeS d] :: checkOps ops ds r.st
  | _, _, _ => []

def handle : List Sexp → Sexp
  | [.atom "run", t, n, .list ops] =>
    match tree? t, nat? n, ops.mapM op? with
    | some t, some n, some ops => .list (.atom "ok" :: runOps ops ⟨t, n⟩)
    | _, _, _ => Sexp.err "bad-args"
  | [.atom "check", t, n, .list ops, .list dumps] =>
    match tree? t, nat? n, ops.mapM op? with
    | some t, some n, some ops =>
      if ops.length ≠ dumps.length then Sexp.err "length-mismatch" else
      .list (.atom "ok" :: judgeS (treeS t) :: checkOps ops dumps ⟨t, n⟩)
    | _, _, _ => Sexp.err "bad-args"
  | [.atom "beside", t, d, n, o] =>
    match tree? t, tree? d, nat? n, op? o with
    | some t, some d, some n, some o =>
      let r := applyBeside o t ⟨d, n⟩
      .list [.atom "ok", treeS r.1, treeS r.2.st.tree, optS (fun e => .atom (errName e)) r.2.err,
             ofBool (coherentB r.1), ofBool (coherentB r.2.st.tree)]
    | _, _, _, _ => Sexp.err "bad-args"
  | [.atom "judge", t] => judgeS t
  | [.atom "dur", t] =>
    match tree? t with
    | some t => .list [.atom "ok", ofRat (dur t), ofRat (reportedDur t)]
    | none => Sexp.err "bad-args"
  | [.atom "eq", a, b] =>
    match tree? a, tree? b with
    | some a, some b => .list [.atom "ok", ofBool (eqStruct a b)]
    | _, _ => Sexp.err "bad-args"
  | _ => Sexp.err "c09-unknown-request"

end QP.C09
