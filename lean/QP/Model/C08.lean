import QP.Base
namespace QP.C08
open Sexp

def handle : List Sexp → Sexp
  | _ => Sexp.err "c08-not-implemented"

end QP.C08
