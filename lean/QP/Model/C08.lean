import QP.Base
/-!
# C08 — model of `qupulse.program.waveforms` (all eleven waveform classes),
`qupulse.program.transformation` and `qupulse.pulses.interpolation`.

`Wf` is the tree of *constructed objects* (one constructor per Python class, one field per slot).
The plain Python constructors (`__init__`, which validate / sort) are the functions `mk…`, the
optimising constructors are `from…`; both return `Except Err Wf` with the error class Python raises.

`sample w ch t` is the value `unsafe_sample` writes for the single time `t` (`none` = the NaN the
allocation function leaves behind where no piece owns `t`).  Voltages and times are `Rat`: the
correspondence runs on dyadic numbers, where every float operation the code performs is exact.

The model describes the tree **with the repairs `fixes/PF-01.diff`, `PF-02.diff`, `PF-04.diff`
applied** (constant detection of `_validate_input` looks at the interpolation of the segment's end
entry; a zero-length linear segment takes the end value; the last piece of a sequence / repetition
owns `[start, end]`).

This file is reused as the waveform leaf type by other properties: no Mathlib, no proofs.
-/
namespace QP.C08
open QP

abbrev Chan := String

inductive Err where
  | valueError
  | keyError
  | assertionError
  | indexError
  deriving Repr, DecidableEq

/-! ## Numbers with NaN (`none`) -/

def oadd (a b : Option Rat) : Option Rat :=
  match a, b with
  | some x, some y => some (x + y)
  | _, _ => none

def osub (a b : Option Rat) : Option Rat :=
  match a, b with
  | some x, some y => some (x - y)
  | _, _ => none

def omul (a b : Option Rat) : Option Rat :=
  match a, b with
  | some x, some y => some (x * y)
  | _, _ => none

/-! ## Channel sets (lists; order only matters where Python sorts) -/

def subsetOf (a b : List Chan) : Bool := a.all (fun c => c ∈ b)
def sameSet (a b : List Chan) : Bool := subsetOf a b && subsetOf b a
def inter (a b : List Chan) : List Chan := a.filter (fun c => c ∈ b)
def diff (a b : List Chan) : List Chan := a.filter (fun c => c ∉ b)
def union (a b : List Chan) : List Chan := a ++ diff b a

def insertChan (c : Chan) : List Chan → List Chan
  | [] => [c]
  | x :: xs => if c < x then c :: x :: xs else if c = x then x :: xs else x :: insertChan c xs

/-- sorted list without duplicates: the canonical form of a `frozenset` of channel names -/
def sortChans (cs : List Chan) : List Chan := cs.foldr insertChan []

/-! ## Dictionaries `channel ↦ α` as association lists

`dinsert` is `d[c] = v` of a Python dict (replace, else append: insertion order); `dnorm` is the
canonical sorted form used for the dict- and set-valued *slots* that `__eq__` compares. -/

def dinsert {α} (c : Chan) (v : α) : List (Chan × α) → List (Chan × α)
  | [] => [(c, v)]
  | (k, x) :: xs => if c = k then (k, v) :: xs else (k, x) :: dinsert c v xs

/-- `dict.update`: later values win -/
def dupdate {α} (d e : List (Chan × α)) : List (Chan × α) := e.foldl (fun acc kv => dinsert kv.1 kv.2 acc) d

def sinsert {α} (c : Chan) (v : α) : List (Chan × α) → List (Chan × α)
  | [] => [(c, v)]
  | (k, x) :: xs => if c < k then (c, v) :: (k, x) :: xs else if c = k then (k, v) :: xs
                    else (k, x) :: sinsert c v xs

/-- sorted by key, later values win -/
def dnorm {α} (d : List (Chan × α)) : List (Chan × α) := d.foldl (fun acc kv => sinsert kv.1 kv.2 acc) []

def dkeys {α} (d : List (Chan × α)) : List Chan := d.map (·.1)

/-- `d1 == d2` for Python dicts: same keys, same values, any order -/
def dictEq (d e : List (Chan × Rat)) : Bool :=
  d.all (fun kv => decide (e.lookup kv.1 = some kv.2)) && e.all (fun kv => decide (d.lookup kv.1 = some kv.2))

/-! ## Interpolation strategies and tables -/

inductive Interp where
  | hold
  | jump
  | linear
  deriving Repr, DecidableEq

structure Entry where
  t : Rat
  v : Rat
  interp : Interp
  deriving Repr, DecidableEq

/-- `interp((t0,v0),(t1,v1), t)`; for `linear` a zero-length segment takes the end value (PF-02 repaired;
the pinned tree divides by zero) -/
def interpVal (i : Interp) (e1 e2 : Entry) (t : Rat) : Rat :=
  match i with
  | .hold => e1.v
  | .jump => e2.v
  | .linear => if e2.t = e1.t then e2.v else (e2.v - e1.v) / (e2.t - e1.t) * (t - e1.t) + e1.v

/-- `InterpolationStrategy.constant_value(start, end)` -/
def segConst (i : Interp) (e1 e2 : Entry) : Option Rat :=
  match i with
  | .hold => some e1.v
  | .jump => some e2.v
  | .linear => if e1.v = e2.v then some e1.v else none

/-- the loop of `TableWaveform.unsafe_sample` seen from one sample time: every pair of neighbouring
entries overwrites `[t1, t2]` (both ends: `searchsorted(t1,'left')`, `searchsorted(t2,'right')`) -/
def tableGo (t : Rat) : Option Rat → List Entry → Option Rat
  | acc, e1 :: e2 :: rest =>
    tableGo t (if e1.t ≤ t ∧ t ≤ e2.t then some (interpVal e2.interp e1 e2 t) else acc) (e2 :: rest)
  | acc, _ => acc

def tableSample (es : List Entry) (t : Rat) : Option Rat := tableGo t none es

/-- result of `_validate_input` -/
inductive Validated where
  | constant (duration value : Rat)
  | entries (es : List Entry)
  deriving Repr, DecidableEq

/-- `if constant_v is not None and next_interp.constant_value((t, v), (next_t, next_v)) != constant_v:
constant_v = None` — PF-01 repaired: the segment `(cur, nx)` is interpolated with `nx.interp` (the
pinned tree asks `cur.interp`) -/
def constStep (constV : Option Rat) (cur nx : Entry) : Option Rat :=
  match constV with
  | some c => if segConst nx.interp cur nx = some c then some c else none
  | none => none

/-- the `for next_t, next_v, next_interp in input_iter` loop.  `prev` is the last kept entry
(`previous_t`, `previous_v`), `cur` is `(t, v, interp)`, `out` the output table. -/
def validateLoop (prev cur : Entry) (constV : Option Rat) (out : List Entry) :
    List Entry → Except Err (Entry × Option Rat × List Entry)
  | [] => .ok (cur, constV, out)
  | nx :: rest =>
    if nx.t < cur.t then .error .valueError else
    let constV' := constStep constV cur nx
    if (prev.t ≠ cur.t ∨ cur.t ≠ nx.t) ∧ (prev.v ≠ cur.v ∨ cur.v ≠ nx.v) then
      validateLoop cur nx constV' (out ++ [cur]) rest
    else
      validateLoop prev nx constV' out rest

/-- `TableWaveform._validate_input` -/
def validateInput : List Entry → Except Err Validated
  | [] => .error .valueError
  | first :: rest =>
    if first.t ≠ 0 then .error .valueError else
    match rest with
    | [] => .error .valueError
    | second :: rest' =>
      if second.t < 0 then .error .valueError else
      let first' : Entry := ⟨0, first.v, first.interp⟩
      match validateLoop first' second (segConst second.interp first' second) [first'] rest' with
      | .error e => .error e
      | .ok (last, constV, out) =>
        if last.t = 0 then .error .valueError else
        match constV with
        | some c => .ok (.constant last.t c)
        | none => .ok (.entries (out ++ [last]))

/-! ## Transformations -/

/-- a transformation parameter: a number or an expression in `t` (affine, slope ≠ 0) -/
inductive TV where
  | num (c : Rat)
  | expr (slope icpt : Rat)
  deriving Repr, DecidableEq

def TV.eval : TV → Rat → Rat
  | .num c, _ => c
  | .expr s i, t => s * t + i

def TV.timeDependent : TV → Bool
  | .num _ => false
  | .expr _ _ => true

inductive TAtom where
  | identity
  | offset (m : List (Chan × TV))
  | scaling (m : List (Chan × TV))
  | linear (mat : List (List Rat)) (ins outs : List Chan)
  | parallel (m : List (Chan × TV))
  deriving Repr, DecidableEq

/-- the constructors turn their mapping argument into a `frozendict`: order is irrelevant (kept sorted) -/
def TAtom.norm : TAtom → TAtom
  | .offset m => .offset (dnorm m)
  | .scaling m => .scaling (dnorm m)
  | .parallel m => .parallel (dnorm m)
  | a => a

/-- a single transformation or a (flat) `ChainedTransformation` -/
inductive Trafo where
  | atom (a : TAtom)
  | chain (as : List TAtom)
  deriving Repr, DecidableEq

/-- one row of `matrix @ data_in`; a NaN input makes the output NaN whatever its coefficient -/
def dot : List Rat → List (Option Rat) → Option Rat
  | m :: ms, x :: xs => oadd (omul (some m) x) (dot ms xs)
  | _, _ => some 0

/-- the value a transformation produces on channel `c` at time `t` when the input channels carry
`f` (the dictionaries of the Python code seen pointwise) -/
def TAtom.applyF (a : TAtom) (t : Rat) (f : Chan → Option Rat) (c : Chan) : Option Rat :=
  match a with
  | .identity => f c
  | .offset m => match m.lookup c with
    | some tv => oadd (f c) (some (tv.eval t))
    | none => f c
  | .scaling m => match m.lookup c with
    | some tv => omul (f c) (some (tv.eval t))
    | none => f c
  | .linear mat ins outs => match (outs.zip mat).lookup c with
    | some row => dot row (ins.map f)
    | none => f c
  | .parallel m => match m.lookup c with
    | some tv => some (tv.eval t)
    | none => f c

def applyChain : List TAtom → Rat → (Chan → Option Rat) → Chan → Option Rat
  | [], _, f => f
  | a :: as, t, f => applyChain as t (a.applyF t f)

def Trafo.applyF : Trafo → Rat → (Chan → Option Rat) → Chan → Option Rat
  | .atom a, t, f => a.applyF t f
  | .chain as, t, f => applyChain as t f

def TAtom.outputChannels : TAtom → List Chan → List Chan
  | .identity, cs => cs
  | .offset _, cs => cs
  | .scaling _, cs => cs
  | .linear _ ins outs, cs => union (diff cs ins) outs
  | .parallel m, cs => union cs (dkeys m)

def Trafo.outputChannels : Trafo → List Chan → List Chan
  | .atom a, cs => a.outputChannels cs
  | .chain as, cs => as.foldl (fun cs a => a.outputChannels cs) cs

def TAtom.isConstantInvariant : TAtom → Bool
  | .identity => true
  | .offset m => m.all (fun kv => !kv.2.timeDependent)
  | .scaling m => m.all (fun kv => !kv.2.timeDependent)
  | .linear _ _ _ => true
  | .parallel m => m.all (fun kv => !kv.2.timeDependent)

def Trafo.isConstantInvariant : Trafo → Bool
  | .atom a => a.isConstantInvariant
  | .chain as => as.all (·.isConstantInvariant)

/-- what has to hold for `get_output_channels` / `__call__` not to raise when the transformation is
applied to data on the channels `cs` -/
def TAtom.okOn : TAtom → List Chan → Bool
  | .linear mat ins outs, cs =>
    subsetOf ins cs && (!ins.isEmpty || outs.isEmpty) && mat.length == outs.length &&
    mat.all (fun row => row.length == ins.length)
  | _, _ => true

/-- channels an atom adds to the data whichever channel was requested -/
def TAtom.produced : TAtom → List Chan
  | .linear _ _ outs => outs
  | .parallel m => dkeys m
  | _ => []

/-- inside a chain a `LinearTransformation` must see all of its inputs or none: its inputs are not
produced by an earlier member of the chain (`prod`), otherwise `__call__` raises `KeyError` when a
forwarded channel is requested (open finding PF-C08d) -/
def TAtom.insFresh : TAtom → List Chan → Bool
  | .linear _ ins _, prod => (inter ins prod).isEmpty
  | _, _ => true

def chainOkOn : List TAtom → List Chan → List Chan → Bool
  | [], _, _ => true
  | a :: as, prod, cs =>
    a.okOn cs && a.insFresh prod && chainOkOn as (prod ++ a.produced) (a.outputChannels cs)

def Trafo.okOn : Trafo → List Chan → Bool
  | .atom a, cs => a.okOn cs
  | .chain as, cs => chainOkOn as [] cs

/-- `LinearTransformation.__init__`: rows and columns are sorted by channel name -/
def sortByKey {α} (ks : List Chan) (xs : List α) : List (Chan × α) :=
  (ks.zip xs).foldr (fun kv acc => dinsertDup kv acc) []
where
  dinsertDup (kv : Chan × α) : List (Chan × α) → List (Chan × α)
    | [] => [kv]
    | y :: ys => if kv.1 ≤ y.1 then kv :: y :: ys else y :: dinsertDup kv ys

def transpose (rows : List (List Rat)) (n : Nat) : List (List Rat) :=
  (List.range n).map (fun j => rows.map (fun r => r.getD j 0))

def mkLinear (mat : List (List Rat)) (ins outs : List Chan) : Except Err TAtom :=
  if mat.length ≠ outs.length ∨ mat.any (fun r => r.length ≠ ins.length) then .error .valueError else
  let rowsSorted := (sortByKey outs mat).map (·.2)
  let cols := transpose rowsSorted ins.length
  let colsSorted := (sortByKey ins cols).map (·.2)
  .ok (.linear (transpose colsSorted outs.length) (sortByKey ins cols |>.map (·.1)) (sortByKey outs mat |>.map (·.1)))

/-- `chain_transformations(*ts)` on already flat arguments -/
def chainTransformations (ts : List Trafo) : Trafo :=
  let parsed := ts.flatMap (fun
    | .atom .identity => []
    | .atom a => [a]
    | .chain as => as)
  match parsed with
  | [] => .atom .identity
  | [a] => .atom a
  | as => .chain as

/-! ## Functors and arithmetic operators -/

inductive Fn where
  | neg
  | pos
  | abs
  deriving Repr, DecidableEq

def Fn.apply : Fn → Rat → Rat
  | .neg, x => -x
  | .pos, x => x
  | .abs, x => if x < 0 then -x else x

inductive ArithOp where
  | plus
  | minus
  deriving Repr, DecidableEq

def ArithOp.apply : ArithOp → Option Rat → Option Rat → Option Rat
  | .plus, a, b => oadd a b
  | .minus, a, b => osub a b

def ArithOp.rhsOnly : ArithOp → Option Rat → Option Rat
  | .plus, b => b
  | .minus, b => b.map (fun x => -x)

def ArithOp.applyR : ArithOp → Rat → Rat → Rat
  | .plus, a, b => a + b
  | .minus, a, b => a - b

def ArithOp.rhsOnlyR : ArithOp → Rat → Rat
  | .plus, b => b
  | .minus, b => -b

/-! ## Waveforms -/

inductive Wf where
  | table (ch : Chan) (es : List Entry)
  | const (dur amp : Rat) (ch : Chan)
  /-- `FunctionWaveform` with expression `slope*t + icpt` -/
  | func (slope icpt dur : Rat) (ch : Chan)
  | seq (ws : List Wf)
  | multi (ws : List Wf)
  | rep (body : Wf) (n : Nat)
  | trans (inner : Wf) (tr : Trafo)
  | subset (inner : Wf) (chs : List Chan)
  | arith (lhs : Wf) (op : ArithOp) (rhs : Wf)
  | functor (inner : Wf) (fs : List (Chan × Fn))
  | reversed (inner : Wf)
  deriving Repr, Inhabited

namespace Wf

mutual
/-- `Waveform.duration` -/
def duration : Wf → Rat
  | .table _ es => match es.getLast? with
    | some e => e.t
    | none => 0
  | .const d _ _ => d
  | .func _ _ d _ => d
  | .seq ws => durSum ws
  | .multi ws => durHead ws
  | .rep b n => duration b * n
  | .trans i _ => duration i
  | .subset i _ => duration i
  | .arith l _ _ => duration l
  | .functor i _ => duration i
  | .reversed i => duration i
termination_by structural w => w
def durSum : List Wf → Rat
  | [] => 0
  | w :: ws => duration w + durSum ws
termination_by structural ws => ws
def durHead : List Wf → Rat
  | [] => 0
  | w :: _ => duration w
termination_by structural ws => ws
end

mutual
/-- `Waveform.defined_channels` (as a list; a set for Python) -/
def channels : Wf → List Chan
  | .table ch _ => [ch]
  | .const _ _ ch => [ch]
  | .func _ _ _ ch => [ch]
  | .seq ws => chanHead ws
  | .multi ws => chanUnion ws
  | .rep b _ => channels b
  | .trans i tr => tr.outputChannels (channels i)
  | .subset _ chs => chs
  | .arith l _ r => union (channels l) (channels r)
  | .functor i _ => channels i
  | .reversed i => channels i
termination_by structural w => w
def chanHead : List Wf → List Chan
  | [] => []
  | w :: _ => channels w
termination_by structural ws => ws
def chanUnion : List Wf → List Chan
  | [] => []
  | w :: ws => union (channels w) (chanUnion ws)
termination_by structural ws => ws
end

/-- the loop of `RepetitionWaveform.unsafe_sample` seen from one sample time: repetition `k` owns
`[k·d, (k+1)·d)`, the last one `[.., n·d]` (PF-04 repaired) -/
def repSample (f : Rat → Option Rat) (d : Rat) : Nat → Rat → Option Rat
  | 0, _ => none
  | 1, t => if 0 ≤ t ∧ t ≤ d then f t else none
  | n + 2, t => if 0 ≤ t ∧ t < d then f t else repSample f d (n + 1) (t - d)

mutual
/-- the value `unsafe_sample(ch, [t])` produces; `none` is NaN -/
def sample : Wf → Chan → Rat → Option Rat
  | .table _ es, _, t => tableSample es t
  | .const _ a _, _, _ => some a
  | .func s i _ _, _, t => some (s * t + i)
  | .seq ws, ch, t => sampleSeq ws ch t
  | .multi ws, ch, t => sampleMulti ws ch t
  | .rep b n, ch, t => repSample (fun t' => sample b ch t') (duration b) n t
  | .trans i tr, ch, t => tr.applyF t (fun c => sample i c t) ch
  | .subset i _, ch, t => sample i ch t
  | .arith l op r, ch, t =>
    if ch ∈ channels l then
      if ch ∈ channels r then op.apply (sample l ch t) (sample r ch t) else sample l ch t
    else if ch ∈ channels r then op.rhsOnly (sample r ch t)
    else none
  | .functor i fs, ch, t => match fs.lookup ch with
    | some f => (sample i ch t).map f.apply
    | none => none
  | .reversed i, ch, t => sample i ch (duration i - t)
termination_by structural w => w
/-- `SequenceWaveform.unsafe_sample`: piece `k` owns `[start, end)`, the last one `[start, end]`
(PF-04 repaired; on the pinned tree the last piece is right-open as well) -/
def sampleSeq : List Wf → Chan → Rat → Option Rat
  | [], _, _ => none
  | [w], ch, t => if 0 ≤ t ∧ t ≤ duration w then sample w ch t else none
  | w :: w' :: ws, ch, t =>
    if 0 ≤ t ∧ t < duration w then sample w ch t else sampleSeq (w' :: ws) ch (t - duration w)
termination_by structural ws => ws
/-- `MultiChannelWaveform.__getitem__` followed by the sub-waveform's `unsafe_sample` -/
def sampleMulti : List Wf → Chan → Rat → Option Rat
  | [], _, _ => none
  | w :: ws, ch, t => if ch ∈ channels w then sample w ch t else sampleMulti ws ch t
termination_by structural ws => ws
end

mutual
/-- `Waveform.constant_value(ch)` -/
def constantValue : Wf → Chan → Option Rat
  | .table _ _, _ => none
  | .const _ a _, _ => some a
  | .func _ _ _ _, _ => none
  | .seq ws, ch => cvSeq ws ch none
  | .multi ws, ch => cvMulti ws ch
  | .rep b _, ch => constantValue b ch
  | .trans i tr, ch =>
    if tr.isConstantInvariant then tr.applyF 0 (fun c => constantValue i c) ch else none
  | .subset i chs, ch => if ch ∈ chs then constantValue i ch else none
  | .arith l op r, ch =>
    if ch ∈ channels r then
      match constantValue r ch with
      | none => none
      | some rv =>
        if ch ∈ channels l then
          match constantValue l ch with
          | none => none
          | some lv => op.apply (some lv) (some rv)
        else op.rhsOnly (some rv)
    else constantValue l ch
  | .functor i fs, ch => match constantValue i ch with
    | none => none
    | some x => (fs.lookup ch).map (fun f => f.apply x)
  | .reversed _, _ => none
termination_by structural w => w
/-- the loop of `SequenceWaveform.constant_value`; `v` is the value seen so far -/
def cvSeq : List Wf → Chan → Option Rat → Option Rat
  | [], _, v => v
  | w :: ws, ch, v =>
    match constantValue w ch with
    | none => none
    | some c =>
      match v with
      | none => cvSeq ws ch (some c)
      | some x => if c = x then cvSeq ws ch (some x) else none
termination_by structural ws => ws
def cvMulti : List Wf → Chan → Option Rat
  | [], _ => none
  | w :: ws, ch => if ch ∈ channels w then constantValue w ch else cvMulti ws ch
termination_by structural ws => ws
end

mutual
/-- `Waveform.constant_value_dict()` (sorted by channel) -/
def constantValueDict : Wf → Option (List (Chan × Rat))
  | .table _ _ => none
  | .const _ a ch => some [(ch, a)]
  | .func _ _ _ _ => none
  | .seq _ => none
  | .multi ws => cvdMulti ws
  | .rep b _ => constantValueDict b
  | .trans _ _ => none
  | .subset i chs => match constantValueDict i with
    | none => none
    | some d => chs.foldr (fun c acc => match acc, d.lookup c with
        | some l, some v => some (dinsert c v l)
        | _, _ => none) (some [])
  | .arith _ _ _ => none
  | .functor _ _ => none
  -- the base implementation: `{ch: None for ch in channels}` contains a `None` unless it is empty
  | .reversed i => if channels i = [] then some [] else none
termination_by structural w => w
def cvdMulti : List Wf → Option (List (Chan × Rat))
  | [] => some []
  | w :: ws => match constantValueDict w, cvdMulti ws with
    | some d, some rest => some (dupdate d rest)
    | _, _ => none
termination_by structural ws => ws
end


/-! ## Plain constructors (`__init__`) and optimising constructors -/

def rabs (x : Rat) : Rat := if x < 0 then -x else x

/-- `math.isclose(a, b)` with `rel_tol = 1e-9` (used through `qupulse.utils.isclose`) -/
def isclose (a b : Rat) : Bool :=
  decide (a = b) || decide (rabs (a - b) * 1000000000 ≤ max (rabs a) (rabs b))

/-- `numpy.isclose(a, b)`: `|a-b| ≤ 1e-8 + 1e-5·|b|` -/
def npIsclose (a b : Rat) : Bool :=
  decide (rabs (a - b) ≤ 1 / 100000000 + rabs b / 100000)

/-- `_sort_key_for_channels` (string channel names only) -/
def sortKey (w : Wf) : List Chan := sortChans (channels w)

/-- stable insertion: `w` (which stood before all of `xs`) goes in front of the first element whose
key is not smaller -/
def insertByKey (w : Wf) : List Wf → List Wf
  | [] => [w]
  | x :: xs => if sortKey x < sortKey w then x :: insertByKey w xs else w :: x :: xs

def sortByChannels (ws : List Wf) : List Wf := ws.foldr insertByKey []

/-- the disjointness loop of `MultiChannelWaveform.__init__`; `acc` are the channels seen so far -/
def disjointGo : List Chan → List Wf → Bool
  | _, [] => true
  | acc, w :: ws => (inter (channels w) acc).isEmpty && disjointGo (union acc (channels w)) ws

/-- `MultiChannelWaveform(sub_waveforms)` -/
def mkMulti (ws : List Wf) : Except Err Wf :=
  if ws.isEmpty then .error .valueError else
  let sorted := sortByChannels ws
  if !disjointGo [] sorted then .error .valueError else
  if !(sorted.all (fun w => isclose (duration w) (durHead sorted))) then .error .valueError else
  .ok (.multi sorted)

/-- `SequenceWaveform(sub_waveforms)` -/
def mkSeq (ws : List Wf) : Except Err Wf :=
  match ws with
  | [] => .error .valueError
  | w :: rest =>
    if rest.all (fun x => sameSet (channels x) (channels w)) then .ok (.seq ws) else .error .valueError

/-- `ConstantWaveform.from_mapping(duration, constant_values)` -/
def fromMapping (dur : Rat) (d : List (Chan × Rat)) : Except Err Wf :=
  match d with
  | [] => .error .assertionError
  | [(c, a)] => .ok (.const dur a c)
  | _ => mkMulti (d.map (fun ca => .const dur ca.2 ca.1))

def flattenSeq (ws : List Wf) : List Wf :=
  ws.flatMap (fun w => match w with
    | .seq xs => xs
    | w => [w])

/-- `constant_values == wf.constant_value_dict()` -/
def cvdEq (d : List (Chan × Rat)) (w : Wf) : Bool :=
  match constantValueDict w with
  | some e => dictEq d e
  | none => false

/-- one round of the loop of `from_sequence`: `if constant_values and constant_values != …: constant_values = None` -/
def seqStep (cv : Option (List (Chan × Rat))) (w : Wf) : Option (List (Chan × Rat)) :=
  match cv with
  | some d => if d ≠ [] ∧ cvdEq d w = false then none else some d
  | none => none

/-- the `constant_values` variable of `from_sequence` after the loop -/
def seqConstants (ws : List Wf) : Option (List (Chan × Rat)) :=
  match ws with
  | [] => none
  | w0 :: _ => ws.foldl seqStep (constantValueDict w0)

/-- `SequenceWaveform.from_sequence(waveforms)` -/
def fromSequence (ws : List Wf) : Except Err Wf :=
  match ws with
  | [] => .error .assertionError
  | [w] => .ok w
  | _ =>
    match seqConstants ws with
    | none => mkSeq (flattenSeq ws)
    | some d => fromMapping (durSum (flattenSeq ws)) d

def flattenMulti (ws : List Wf) : List Wf :=
  ws.flatMap (fun w => match w with
    | .multi xs => xs
    | w => [w])

/-- `MultiChannelWaveform.from_parallel(waveforms)` -/
def fromParallel (ws : List Wf) : Except Err Wf :=
  match ws with
  | [] => .error .assertionError
  | [w] => .ok w
  | _ => mkMulti (flattenMulti ws)

/-- `RepetitionWaveform(body, repetition_count)` for an `int` count -/
def mkRep (body : Wf) (n : Int) : Except Err Wf :=
  if n < 1 then .error .valueError else .ok (.rep body n.toNat)

/-- `RepetitionWaveform.from_repetition_count(body, repetition_count)` -/
def fromRepetitionCount (body : Wf) (n : Int) : Except Err Wf :=
  match constantValueDict body with
  | none => mkRep body n
  | some d => fromMapping (duration body * n) d

/-- `TransformingWaveform(inner, transformation)` never raises -/
def mkTrans (inner : Wf) (tr : Trafo) : Except Err Wf := .ok (.trans inner tr)

def allSome : List (Chan × Option Rat) → Option (List (Chan × Rat))
  | [] => some []
  | (c, some v) :: rest => (allSome rest).map (fun l => (c, v) :: l)
  | (_, none) :: _ => none

/-- `TransformingWaveform.from_transformation(inner, transformation)` -/
def fromTransformation (inner : Wf) (tr : Trafo) : Except Err Wf :=
  match constantValueDict inner with
  | none => .ok (.trans inner tr)
  | some d =>
    if !tr.isConstantInvariant then .ok (.trans inner tr) else
    let outs := sortChans (tr.outputChannels (dkeys d))
    match allSome (outs.map (fun c => (c, tr.applyF 0 (fun k => d.lookup k) c))) with
    | none => .error .keyError
    | some dd => fromMapping (duration inner) dd

/-- `ArithmeticWaveform(lhs, op, rhs)` -/
def mkArith (l : Wf) (op : ArithOp) (r : Wf) : Except Err Wf :=
  if npIsclose (duration l) (duration r) then .ok (.arith l op r) else .error .assertionError

/-- the value `from_operator` stores for a channel of the right operand -/
def mergeVal (op : ArithOp) (dl : List (Chan × Rat)) (c : Chan) (rv : Rat) : Rat :=
  match dl.lookup c with
  | some lv => op.applyR lv rv
  | none => op.rhsOnlyR rv

/-- the merged dictionary of `from_operator`.  The Python loop looks `ch` up in the dictionary it is
updating; `rhs_cv` is a dict (every key once), so that is the value `lhs_cv` had. -/
def mergeConstants (op : ArithOp) (dl dr : List (Chan × Rat)) : List (Chan × Rat) :=
  dr.foldl (fun acc cr => dinsert cr.1 (mergeVal op dl cr.1 cr.2) acc) dl

/-- `ArithmeticWaveform.from_operator(lhs, op, rhs)` -/
def fromOperator (l : Wf) (op : ArithOp) (r : Wf) : Except Err Wf :=
  match constantValueDict l, constantValueDict r with
  | some dl, some dr =>
    if isclose (duration l) (duration r) then fromMapping (duration l) (mergeConstants op dl dr)
    else .error .assertionError
  | _, _ => mkArith l op r

/-- `FunctorWaveform(inner, functor)`; `fs` is the (sorted) content of the `functor` mapping -/
def mkFunctor (inner : Wf) (fs : List (Chan × Fn)) : Except Err Wf :=
  if sameSet (dkeys fs) (channels inner) then .ok (.functor inner fs) else .error .assertionError

def applyFunctors (fs : List (Chan × Fn)) : List (Chan × Rat) → Option (List (Chan × Rat))
  | [] => some []
  | (c, v) :: rest => match fs.lookup c, applyFunctors fs rest with
    | some f, some l => some ((c, f.apply v) :: l)
    | _, _ => none

/-- `FunctorWaveform.from_functor(inner, functor)` -/
def fromFunctor (inner : Wf) (fs : List (Chan × Fn)) : Except Err Wf :=
  match constantValueDict inner with
  | none => mkFunctor inner fs
  | some d => match applyFunctors fs d with
    | none => .error .keyError
    | some dd => fromMapping (duration inner) dd

/-- `ReversedWaveform.from_to_reverse(inner)`: `if inner.constant_value_dict()` is a truth test -/
def fromToReverse (inner : Wf) : Wf :=
  match constantValueDict inner with
  | some (_ :: _) => inner
  | _ => .reversed inner

/-- the method `Waveform.reversed()` with its two overrides -/
def reversedM : Wf → Wf
  | .const d a c => .const d a c
  | .reversed i => i
  | w => .reversed w

/-- `FunctionWaveform.from_expression` for the expression `slope*t + icpt` -/
def fromExpression (slope icpt dur : Rat) (ch : Chan) : Wf :=
  if slope = 0 then .const dur icpt ch else .func slope icpt dur ch

/-- `TableWaveform(channel, waveform_table)` with a tuple: no validation, `waveform_table[-1]` must exist -/
def mkTable (ch : Chan) (es : List Entry) : Except Err Wf :=
  if es.isEmpty then .error .indexError else .ok (.table ch es)

/-- `TableWaveform.from_table(channel, table)` -/
def fromTable (ch : Chan) (raw : List Entry) : Except Err Wf :=
  match validateInput raw with
  | .error e => .error e
  | .ok (.constant d c) => .ok (.const d c ch)
  | .ok (.entries es) => .ok (.table ch es)

/-! ## Channel subsets -/

def restrictFunctors (fs : List (Chan × Fn)) : List Chan → Option (List (Chan × Fn))
  | [] => some []
  | c :: cs => match fs.lookup c, restrictFunctors fs cs with
    | some f, some l => some (sinsert c f l)
    | _, _ => none

mutual
/-- `unsafe_get_subset_for_channels(channels)` -/
def unsafeSubset : Wf → List Chan → Except Err Wf
  | .table ch es, _ => .ok (.table ch es)
  | .const d a ch, _ => .ok (.const d a ch)
  | .func s i d ch, _ => .ok (.func s i d ch)
  | .seq ws, chs =>
    match subsetSeq ws chs with
    | .error e => .error e
    | .ok subs => fromSequence subs
  | .multi ws, chs =>
    match subsetMulti ws chs with
    | .error e => .error e
    | .ok [] => .error .keyError
    | .ok [x] =>
      -- the single relevant sub-waveform is asked for all of `chs`
      if (ws.filter (fun w => !(inter (channels w) chs).isEmpty)).all (fun w => subsetOf chs (channels w))
      then .ok x else .error .keyError
    | .ok xs => fromParallel xs
  | .rep b n, chs =>
    match unsafeSubset b chs with
    | .error e => .error e
    | .ok b' => fromRepetitionCount b' n
  | .trans i tr, chs => .ok (.subset (.trans i tr) (sortChans chs))
  | .subset i _, chs =>
    -- `inner.get_subset_for_channels(channels)`, the checked variant
    if !subsetOf chs (channels i) then .error .keyError
    else if sameSet chs (channels i) then .ok i
    else unsafeSubset i chs
  | .arith l op r, chs => .ok (.subset (.arith l op r) (sortChans chs))
  | .functor i fs, chs =>
    match unsafeSubset i chs with
    | .error e => .error e
    | .ok i' => match restrictFunctors fs chs with
      | none => .error .keyError
      | some fs' => fromFunctor i' fs'
  | .reversed i, chs =>
    match unsafeSubset i chs with
    | .error e => .error e
    | .ok i' => .ok (fromToReverse i')
termination_by structural w => w
/-- `[sub.unsafe_get_subset_for_channels(chs & sub.channels) for sub in subs if sub.channels & chs]` -/
def subsetSeq : List Wf → List Chan → Except Err (List Wf)
  | [], _ => .ok []
  | w :: ws, chs =>
    match subsetSeq ws chs with
    | .error e => .error e
    | .ok rest =>
      if (inter (channels w) chs).isEmpty then .ok rest else
      match unsafeSubset w (inter chs (channels w)) with
      | .error e => .error e
      | .ok w' => .ok (w' :: rest)
termination_by structural ws => ws
/-- `[sub.get_subset_for_channels(chs & sub.channels) for sub in subs if sub.channels & chs]` -/
def subsetMulti : List Wf → List Chan → Except Err (List Wf)
  | [], _ => .ok []
  | w :: ws, chs =>
    match subsetMulti ws chs with
    | .error e => .error e
    | .ok rest =>
      if (inter (channels w) chs).isEmpty then .ok rest else
      if sameSet (inter chs (channels w)) (channels w) then .ok (w :: rest) else
      match unsafeSubset w (inter chs (channels w)) with
      | .error e => .error e
      | .ok w' => .ok (w' :: rest)
termination_by structural ws => ws
end

/-- `Waveform.get_subset_for_channels(channels)` -/
def getSubset (w : Wf) (chs : List Chan) : Except Err Wf :=
  if !subsetOf chs (channels w) then .error .keyError
  else if sameSet chs (channels w) then .ok w
  else unsafeSubset w chs

/-! ## Equality (`__eq__`): same class and equal slots.  Set- and dict-valued slots are kept sorted. -/

mutual
def eqv : Wf → Wf → Bool
  | .table c es, .table c' es' => decide (c = c' ∧ es = es')
  | .const d a c, .const d' a' c' => decide (d = d' ∧ a = a' ∧ c = c')
  | .func s i d c, .func s' i' d' c' => decide (s = s' ∧ i = i' ∧ d = d' ∧ c = c')
  | .seq ws, .seq ws' => eqvL ws ws'
  | .multi ws, .multi ws' => eqvL ws ws'
  | .rep b n, .rep b' n' => eqv b b' && decide (n = n')
  | .trans i tr, .trans i' tr' => eqv i i' && decide (tr = tr')
  | .subset i cs, .subset i' cs' => eqv i i' && decide (cs = cs')
  | .arith l op r, .arith l' op' r' => eqv l l' && decide (op = op') && eqv r r'
  | .functor i fs, .functor i' fs' => eqv i i' && decide (fs = fs')
  | .reversed i, .reversed i' => eqv i i'
  | _, _ => false
termination_by structural w => w
def eqvL : List Wf → List Wf → Bool
  | [], [] => true
  | w :: ws, w' :: ws' => eqv w w' && eqvL ws ws'
  | _, _ => false
termination_by structural ws => ws
end

/-! ## Well-formedness: what the constructors do not check but sampling relies on -/

/-- the entry times start at 0 and never decrease, and there are at least two entries -/
def tableOk : List Entry → Bool
  | e1 :: e2 :: rest => decide (e1.t = 0) && mono (e1 :: e2 :: rest)
  | _ => false
where
  mono : List Entry → Bool
    | e1 :: e2 :: rest => decide (e1.t ≤ e2.t) && mono (e2 :: rest)
    | _ => true

def lookupAll {α} (fs : List (Chan × α)) (cs : List Chan) : Bool := cs.all (fun c => (fs.lookup c).isSome)

mutual
def wf : Wf → Bool
  | .table _ es => tableOk es
  | .const d _ _ => decide (0 ≤ d)
  | .func _ _ d _ => decide (0 ≤ d)
  | .seq ws => !ws.isEmpty && wfL ws && sameChans (chanHead ws) ws
  | .multi ws => !ws.isEmpty && wfL ws && sameDur (durHead ws) ws && disjointGo [] ws
  | .rep b n => wf b && decide (1 ≤ n)
  | .trans i tr => wf i && tr.okOn (channels i)
  | .subset i chs => wf i && subsetOf chs (channels i)
  | .arith l _ r => wf l && wf r && decide (duration l = duration r)
  | .functor i fs => wf i && lookupAll fs (channels i)
  | .reversed i => wf i
termination_by structural w => w
def wfL : List Wf → Bool
  | [] => true
  | w :: ws => wf w && wfL ws
termination_by structural ws => ws
def sameChans : List Chan → List Wf → Bool
  | _, [] => true
  | cs, w :: ws => sameSet (channels w) cs && sameChans cs ws
termination_by structural _ ws => ws
def sameDur : Rat → List Wf → Bool
  | _, [] => true
  | d, w :: ws => decide (duration w = d) && sameDur d ws
termination_by structural _ ws => ws
end

end Wf
end QP.C08

/-! ## Executable specification used as the judge of the implementation's outputs

The property relates observations of one waveform (or of a waveform and the one an optimising
constructor / `get_subset_for_channels` / `reversed` made from it) at the same sample times.  The
judge receives the *implementation's* numbers. -/
namespace QP.C08

/-- a reported constant value equals every sample -/
def ConstSpec (c : Rat) (vs : List (Option Rat)) : Prop := ∀ v ∈ vs, v = some c
def constSpecB (c : Rat) (vs : List (Option Rat)) : Bool := vs.all (fun v => decide (v = some c))

/-- two waveforms sample identically (smart vs plain constructor, subset vs original, reversed vs
original at mirrored times, equal waveforms, repeated calls) -/
def SameSpec (vs ws : List (Option Rat)) : Prop := vs = ws
def sameSpecB (vs ws : List (Option Rat)) : Bool := decide (vs = ws)

/-- every requested time yields a finite value -/
def TotalSpec (vs : List (Option Rat)) : Prop := ∀ v ∈ vs, v ≠ none
def totalSpecB (vs : List (Option Rat)) : Bool := vs.all (fun v => v.isSome)

/-- index of the first offending sample (for replay files) -/
def firstBad (p : Option Rat → Bool) (vs : List (Option Rat)) : Nat := (vs.takeWhile p).length

def firstDiff : List (Option Rat) → List (Option Rat) → Nat
  | v :: vs, w :: ws => if v = w then firstDiff vs ws + 1 else 0
  | _, _ => 0

end QP.C08

/-! ## Line protocol -/
namespace QP.C08
open Sexp

def errS : Err → Sexp
  | .valueError => .list [.atom "error", .atom "value_error"]
  | .keyError => .list [.atom "error", .atom "key_error"]
  | .assertionError => .list [.atom "error", .atom "assertion"]
  | .indexError => .list [.atom "error", .atom "index_error"]

def chan? : Sexp → Option Chan
  | .atom s => some s
  | _ => none

def Interp.toSexp : Interp → Sexp
  | .hold => .atom "hold"
  | .jump => .atom "jump"
  | .linear => .atom "linear"

def Interp.ofSexp : Sexp → Option Interp
  | .atom "hold" => some .hold
  | .atom "jump" => some .jump
  | .atom "linear" => some .linear
  | _ => none

def Entry.toSexp (e : Entry) : Sexp := .list [ofRat e.t, ofRat e.v, e.interp.toSexp]

def Entry.ofSexp : Sexp → Option Entry
  | .list [t, v, i] => do pure ⟨← rat? t, ← rat? v, ← Interp.ofSexp i⟩
  | _ => none

def TV.toSexp : TV → Sexp
  | .num c => .list [.atom "num", ofRat c]
  | .expr s i => .list [.atom "expr", ofRat s, ofRat i]

def TV.ofSexp : Sexp → Option TV
  | .list [.atom "num", c] => do pure (.num (← rat? c))
  | .list [.atom "expr", s, i] => do pure (.expr (← rat? s) (← rat? i))
  | _ => none

def tvMap? : Sexp → Option (List (Chan × TV))
  | .list xs => xs.mapM (fun
    | .list [c, tv] => do pure (← chan? c, ← TV.ofSexp tv)
    | _ => none)
  | _ => none

def tvMapS (m : List (Chan × TV)) : Sexp := .list (m.map (fun kv => .list [.atom kv.1, kv.2.toSexp]))

def chans? : Sexp → Option (List Chan) := listOf? chan?
def chansS (cs : List Chan) : Sexp := .list (cs.map .atom)

def TAtom.toSexp : TAtom → Sexp
  | .identity => .list [.atom "identity"]
  | .offset m => .list [.atom "offset", tvMapS m]
  | .scaling m => .list [.atom "scaling", tvMapS m]
  | .linear mat ins outs => .list [.atom "linear", .list (mat.map (fun r => .list (r.map ofRat))), chansS ins, chansS outs]
  | .parallel m => .list [.atom "parallel", tvMapS m]

def TAtom.ofSexp : Sexp → Option TAtom
  | .list [.atom "identity"] => some .identity
  | .list [.atom "offset", m] => do pure (.offset (← tvMap? m))
  | .list [.atom "scaling", m] => do pure (.scaling (← tvMap? m))
  | .list [.atom "linear", mat, ins, outs] => do
    pure (.linear (← listOf? (listOf? rat?) mat) (← chans? ins) (← chans? outs))
  | .list [.atom "parallel", m] => do pure (.parallel (← tvMap? m))
  | _ => none

def Trafo.toSexp : Trafo → Sexp
  | .atom a => a.toSexp
  | .chain as => .list (.atom "chain" :: as.map TAtom.toSexp)

def Trafo.ofSexp : Sexp → Option Trafo
  | .list (.atom "chain" :: as) => do pure (.chain (← as.mapM TAtom.ofSexp))
  | s => do pure (.atom (← TAtom.ofSexp s))

def Fn.toSexp : Fn → Sexp
  | .neg => .atom "neg"
  | .pos => .atom "pos"
  | .abs => .atom "abs"

def Fn.ofSexp : Sexp → Option Fn
  | .atom "neg" => some .neg
  | .atom "pos" => some .pos
  | .atom "abs" => some .abs
  | _ => none

def fnMap? : Sexp → Option (List (Chan × Fn))
  | .list xs => xs.mapM (fun
    | .list [c, f] => do pure (← chan? c, ← Fn.ofSexp f)
    | _ => none)
  | _ => none

def ArithOp.toSexp : ArithOp → Sexp
  | .plus => .atom "plus"
  | .minus => .atom "minus"

def ArithOp.ofSexp : Sexp → Option ArithOp
  | .atom "plus" => some .plus
  | .atom "minus" => some .minus
  | _ => none

partial def Wf.toSexp : Wf → Sexp
  | .table ch es => .list [.atom "table", .atom ch, .list (es.map Entry.toSexp)]
  | .const d a ch => .list [.atom "const", ofRat d, ofRat a, .atom ch]
  | .func s i d ch => .list [.atom "func", ofRat s, ofRat i, ofRat d, .atom ch]
  | .seq ws => .list (.atom "seq" :: ws.map Wf.toSexp)
  | .multi ws => .list (.atom "multi" :: ws.map Wf.toSexp)
  | .rep b n => .list [.atom "rep", b.toSexp, ofNat n]
  | .trans i tr => .list [.atom "trans", i.toSexp, tr.toSexp]
  | .subset i cs => .list [.atom "subset", i.toSexp, chansS cs]
  | .arith l op r => .list [.atom "arith", l.toSexp, op.toSexp, r.toSexp]
  | .functor i fs => .list [.atom "functor", i.toSexp, .list (fs.map (fun kv => .list [.atom kv.1, kv.2.toSexp]))]
  | .reversed i => .list [.atom "reversed", i.toSexp]

partial def Wf.ofSexp : Sexp → Option Wf
  | .list [.atom "table", ch, .list es] => do pure (.table (← chan? ch) (← es.mapM Entry.ofSexp))
  | .list [.atom "const", d, a, ch] => do pure (.const (← rat? d) (← rat? a) (← chan? ch))
  | .list [.atom "func", s, i, d, ch] => do pure (.func (← rat? s) (← rat? i) (← rat? d) (← chan? ch))
  | .list (.atom "seq" :: ws) => do pure (.seq (← ws.mapM Wf.ofSexp))
  | .list (.atom "multi" :: ws) => do pure (.multi (← ws.mapM Wf.ofSexp))
  | .list [.atom "rep", b, n] => do pure (.rep (← Wf.ofSexp b) (← nat? n))
  | .list [.atom "trans", i, tr] => do pure (.trans (← Wf.ofSexp i) (← Trafo.ofSexp tr))
  | .list [.atom "subset", i, cs] => do pure (.subset (← Wf.ofSexp i) (← chans? cs))
  | .list [.atom "arith", l, op, r] => do pure (.arith (← Wf.ofSexp l) (← ArithOp.ofSexp op) (← Wf.ofSexp r))
  | .list [.atom "functor", i, fs] => do pure (.functor (← Wf.ofSexp i) (← fnMap? fs))
  | .list [.atom "reversed", i] => do pure (.reversed (← Wf.ofSexp i))
  | _ => none

def valS : Option Rat → Sexp
  | some v => ofRat v
  | none => .atom "nan"

def val? : Sexp → Option (Option Rat)
  | .atom "nan" => some none
  | s => (rat? s).map some

def optS : Option Rat → Sexp
  | some v => ofRat v
  | none => .atom "none"

def dictS (d : List (Chan × Rat)) : Sexp := .list (d.map (fun kv => .list [.atom kv.1, ofRat kv.2]))

def dict? : Sexp → Option (List (Chan × Rat))
  | .list xs => xs.mapM (fun
    | .list [c, v] => do pure (← chan? c, ← rat? v)
    | _ => none)
  | _ => none

/-- everything observable about one waveform on a grid of times -/
def obs (w : Wf) (ts : List Rat) : List Sexp :=
  let cs := sortChans w.channels
  [ .list (.atom "chans" :: cs.map .atom),
    .list [.atom "dur", ofRat w.duration],
    .list [.atom "wf", ofBool w.wf],
    .list (.atom "cv" :: cs.map (fun c => .list [.atom c, optS (w.constantValue c)])),
    .list [.atom "cvd", match w.constantValueDict with
      | some d => dictS d
      | none => .atom "none"],
    .list (.atom "samples" :: cs.map (fun c => .list (.atom c :: ts.map (fun t => valS (w.sample c t))))) ]

def okWf (r : Except Err Wf) (ts : List Rat) : Sexp :=
  match r with
  | .error e => errS e
  | .ok w => .list (.atom "ok" :: w.toSexp :: obs w ts)

def wfs? : Sexp → Option (List Wf) := listOf? Wf.ofSexp
def rats? : Sexp → Option (List Rat) := listOf? rat?
def vals? : Sexp → Option (List (Option Rat)) := listOf? val?

def bad : Sexp := Sexp.err "bad-args"

def ctor (name : String) (args : List Sexp) (ts : List Rat) : Sexp :=
  match name, args with
  | "from_table", [ch, .list es] =>
    match chan? ch, es.mapM Entry.ofSexp with
    | some ch, some es => okWf (Wf.fromTable ch es) ts
    | _, _ => bad
  | "from_expression", [s, i, d, ch] =>
    match rat? s, rat? i, rat? d, chan? ch with
    | some s, some i, some d, some ch => okWf (.ok (Wf.fromExpression s i d ch)) ts
    | _, _, _, _ => bad
  | "seq", [ws] => match wfs? ws with
    | some ws => okWf (Wf.mkSeq ws) ts
    | none => bad
  | "from_sequence", [ws] => match wfs? ws with
    | some ws => okWf (Wf.fromSequence ws) ts
    | none => bad
  | "multi", [ws] => match wfs? ws with
    | some ws => okWf (Wf.mkMulti ws) ts
    | none => bad
  | "from_parallel", [ws] => match wfs? ws with
    | some ws => okWf (Wf.fromParallel ws) ts
    | none => bad
  | "rep", [b, n] => match Wf.ofSexp b, int? n with
    | some b, some n => okWf (Wf.mkRep b n) ts
    | _, _ => bad
  | "from_repetition_count", [b, n] => match Wf.ofSexp b, int? n with
    | some b, some n => okWf (Wf.fromRepetitionCount b n) ts
    | _, _ => bad
  | "trans", [i, tr] => match Wf.ofSexp i, Trafo.ofSexp tr with
    | some i, some tr => okWf (Wf.mkTrans i tr) ts
    | _, _ => bad
  | "from_transformation", [i, tr] => match Wf.ofSexp i, Trafo.ofSexp tr with
    | some i, some tr => okWf (Wf.fromTransformation i tr) ts
    | _, _ => bad
  | "arith", [l, op, r] => match Wf.ofSexp l, ArithOp.ofSexp op, Wf.ofSexp r with
    | some l, some op, some r => okWf (Wf.mkArith l op r) ts
    | _, _, _ => bad
  | "from_operator", [l, op, r] => match Wf.ofSexp l, ArithOp.ofSexp op, Wf.ofSexp r with
    | some l, some op, some r => okWf (Wf.fromOperator l op r) ts
    | _, _, _ => bad
  | "functor", [i, fs] => match Wf.ofSexp i, fnMap? fs with
    | some i, some fs => okWf (Wf.mkFunctor i (dnorm fs)) ts
    | _, _ => bad
  | "from_functor", [i, fs] => match Wf.ofSexp i, fnMap? fs with
    | some i, some fs => okWf (Wf.fromFunctor i (dnorm fs)) ts
    | _, _ => bad
  | "reversed", [i] => match Wf.ofSexp i with
    | some i => okWf (.ok (Wf.reversedM i)) ts
    | none => bad
  | "from_to_reverse", [i] => match Wf.ofSexp i with
    | some i => okWf (.ok (Wf.fromToReverse i)) ts
    | none => bad
  | "subset", [i, cs] => match Wf.ofSexp i, chans? cs with
    | some i, some cs => okWf (Wf.getSubset i cs) ts
    | _, _ => bad
  | "unsafe_subset", [i, cs] => match Wf.ofSexp i, chans? cs with
    | some i, some cs => okWf (Wf.unsafeSubset i cs) ts
    | _, _ => bad
  | "from_mapping", [d, m] => match rat? d, dict? m with
    | some d, some m => okWf (Wf.fromMapping d (dnorm m)) ts
    | _, _ => bad
  | _, _ => Sexp.err "c08-unknown-constructor"

/-- transformations in recipes: `(linear mat ins outs)` goes through `LinearTransformation.__init__`
(sorting), `(chain t…)` through `chain_transformations`, `(chain-plain a…)` is `ChainedTransformation(*a)` -/
partial def evalTrafo : Sexp → Except Sexp Trafo
  | .list [.atom "linear", mat, ins, outs] =>
    match listOf? (listOf? rat?) mat, chans? ins, chans? outs with
    | some mat, some ins, some outs => match mkLinear mat ins outs with
      | .error e => .error (errS e)
      | .ok a => .ok (.atom a)
    | _, _, _ => .error bad
  | .list (.atom "chain" :: ts) => do
    let ts ← ts.mapM evalTrafo
    pure (chainTransformations ts)
  | .list (.atom "chain-plain" :: ts) => do
    let ts ← ts.mapM evalTrafo
    let atoms ← ts.mapM (fun t => match t with
      | .atom a => .ok a
      | .chain _ => .error bad)
    pure (.chain atoms)
  | s => match Trafo.ofSexp s with
    | some (.atom a) => .ok (.atom a.norm)
    | some (.chain as) => .ok (.chain (as.map TAtom.norm))
    | none => .error bad

def liftE (r : Except Err Wf) : Except Sexp Wf :=
  match r with
  | .ok w => .ok w
  | .error e => .error (errS e)

/-- a recipe is the tree of constructor calls the harness performs on the real classes; children are
built first, left to right -/
partial def evalRecipe : Sexp → Except Sexp Wf
  | .list [.atom "table", smart, ch, .list es] =>
    match nat? smart, chan? ch, es.mapM Entry.ofSexp with
    | some 0, some ch, some es => liftE (Wf.mkTable ch es)
    | some _, some ch, some es => liftE (Wf.fromTable ch es)
    | _, _, _ => .error bad
  | .list [.atom "const", d, a, ch] =>
    match rat? d, rat? a, chan? ch with
    | some d, some a, some ch => .ok (.const d a ch)
    | _, _, _ => .error bad
  | .list [.atom "func", smart, s, i, d, ch] =>
    match nat? smart, rat? s, rat? i, rat? d, chan? ch with
    | some 0, some s, some i, some d, some ch => .ok (.func s i d ch)
    | some _, some s, some i, some d, some ch => .ok (Wf.fromExpression s i d ch)
    | _, _, _, _, _ => .error bad
  | .list (.atom "seq" :: smart :: rs) => do
    let ws ← rs.mapM evalRecipe
    match nat? smart with
    | some 0 => liftE (Wf.mkSeq ws)
    | some _ => liftE (Wf.fromSequence ws)
    | none => .error bad
  | .list (.atom "multi" :: smart :: rs) => do
    let ws ← rs.mapM evalRecipe
    match nat? smart with
    | some 0 => liftE (Wf.mkMulti ws)
    | some _ => liftE (Wf.fromParallel ws)
    | none => .error bad
  | .list [.atom "rep", smart, r, n] => do
    let b ← evalRecipe r
    match nat? smart, int? n with
    | some 0, some n => liftE (Wf.mkRep b n)
    | some _, some n => liftE (Wf.fromRepetitionCount b n)
    | _, _ => .error bad
  | .list [.atom "trans", smart, r, tr] => do
    let i ← evalRecipe r
    let tr ← evalTrafo tr
    match nat? smart with
    | some 0 => liftE (Wf.mkTrans i tr)
    | some _ => liftE (Wf.fromTransformation i tr)
    | none => .error bad
  | .list [.atom "arith", smart, l, op, r] => do
    let l ← evalRecipe l
    let r ← evalRecipe r
    match nat? smart, ArithOp.ofSexp op with
    | some 0, some op => liftE (Wf.mkArith l op r)
    | some _, some op => liftE (Wf.fromOperator l op r)
    | _, _ => .error bad
  | .list [.atom "functor", smart, r, fs] => do
    let i ← evalRecipe r
    match nat? smart, fnMap? fs with
    | some 0, some fs => liftE (Wf.mkFunctor i (dnorm fs))
    | some _, some fs => liftE (Wf.fromFunctor i (dnorm fs))
    | _, _ => .error bad
  | .list [.atom "reversed", mode, r] => do
    let i ← evalRecipe r
    match nat? mode with
    | some 0 => .ok (.reversed i)
    | some 1 => .ok (Wf.fromToReverse i)
    | some _ => .ok (Wf.reversedM i)
    | none => .error bad
  | .list [.atom "subset", mode, r, cs] => do
    let i ← evalRecipe r
    match nat? mode, chans? cs with
    | some 0, some cs => .ok (.subset i (sortChans cs))
    | some 1, some cs => liftE (Wf.getSubset i cs)
    | some _, some cs => liftE (Wf.unsafeSubset i cs)
    | _, _ => .error bad
  | .list [.atom "mapping", d, m] =>
    match rat? d, dict? m with
    | some d, some m => liftE (Wf.fromMapping d (dnorm m))
    | _, _ => .error bad
  | .list [.atom "lit", w] =>
    match Wf.ofSexp w with
    | some w => .ok w
    | none => .error bad
  | _ => .error bad

def handle : List Sexp → Sexp
  | [.atom "obs", w, ts] =>
    match Wf.ofSexp w, rats? ts with
    | some w, some ts => .list (.atom "ok" :: obs w ts)
    | _, _ => bad
  | .atom "ctor" :: .atom name :: rest =>
    match rest.getLast? with
    | some tsS => match rats? tsS with
      | some ts => ctor name rest.dropLast ts
      | none => bad
    | none => bad
  | [.atom "validate", .list es] =>
    match es.mapM Entry.ofSexp with
    | some es => match validateInput es with
      | .error e => errS e
      | .ok (.constant d c) => .list [.atom "constant", ofRat d, ofRat c]
      | .ok (.entries es) => .list (.atom "entries" :: es.map Entry.toSexp)
    | none => bad
  | [.atom "linear", mat, ins, outs] =>
    match listOf? (listOf? rat?) mat, chans? ins, chans? outs with
    | some mat, some ins, some outs => match mkLinear mat ins outs with
      | .error e => errS e
      | .ok a => .list [.atom "ok", a.toSexp]
    | _, _, _ => bad
  | [.atom "chain", .list ts] =>
    match ts.mapM Trafo.ofSexp with
    | some ts => .list [.atom "ok", (chainTransformations ts).toSexp]
    | none => bad
  | [.atom "case", r, ts] =>
    match rats? ts with
    | some ts => match evalRecipe r with
      | .ok w => .list (.atom "ok" :: w.toSexp :: obs w ts)
      | .error e => e
    | none => bad
  | [.atom "eq", a, b] =>
    match evalRecipe a, evalRecipe b with
    | .ok a, .ok b => ofBool (Wf.eqv a b)
    | _, _ => bad
  | [.atom "judge-const", c, vs] =>
    match rat? c, vals? vs with
    | some c, some vs =>
      if constSpecB c vs then .atom "ok"
      else .list [.atom "violates", .atom "constant-differs-from-sample", ofNat (firstBad (fun v => decide (v = some c)) vs)]
    | _, _ => bad
  | [.atom "judge-same", vs, ws] =>
    match vals? vs, vals? ws with
    | some vs, some ws =>
      if sameSpecB vs ws then .atom "ok"
      else .list [.atom "violates", .atom "samples-differ", ofNat (firstDiff vs ws)]
    | _, _ => bad
  | [.atom "judge-total", vs] =>
    match vals? vs with
    | some vs =>
      if totalSpecB vs then .atom "ok"
      else .list [.atom "violates", .atom "not-finite", ofNat (firstBad (fun v => v.isSome) vs)]
    | none => bad
  | _ => Sexp.err "c08-unknown-request"

end QP.C08
