import QP.Base
/-!
# C12 — expressions: the written formula, its value, substitution, three-valued comparison

Model of what `qupulse.expressions.sympy.ExpressionScalar / ExpressionVector` compute
(`evaluate_in_scope`, `evaluate_with_exact_rationals`, `evaluate_symbolic`, the arithmetic operators,
the ordering comparisons).  sympy's parser / simplifier / printer and numpy's ufuncs are *modelled*
by the denotational semantics `eval`; everything is exact rational arithmetic (`Rat`), which is what
the exact-rational mode is supposed to return and what float evaluation approximates.

The file is self-contained (other properties reuse `Expr`, `eval`, `subst`):

* `Sc`, `Val`, `Env`        scalars (rational | bool), values (scalar | 1-d array of scalars), scopes
* `Expr`                    the formula tree (6 constructors; operators are data: `ScUn`, `ScBin`, `UnOp`, `BinOp`)
* `eval`                    value of a formula in a scope, Python / numpy error classes as `Err`
* `fv`, `bv`, `subst`, `substNum`   free / bound names, simultaneous substitution, partial numeric substitution
* `cmp3`                    three-valued ordering comparison
* `PyOp`, `PyOp.build`      the formula an arithmetic operator of `ExpressionScalar` builds
* `Expr.ofSexp`, `handle`   line protocol
-/
namespace QP.C12

/-! ## Values -/

inductive Err where
  | unbound (x : String)   -- a variable of the expression is not in the scope
  | zeroDivision           -- `x / 0`, `x % 0`, `0 ** -n`
  | type                   -- operand of the wrong kind (bool where a number is needed, scalar indexed, …)
  | shape                  -- arrays of different length combined / broadcast to an incompatible length
  | index                  -- index out of range
  | notInteger             -- index or sum bound that is not an integer
  deriving Repr, BEq, DecidableEq

/-- a scalar: an exact rational or a truth value -/
inductive Sc where
  | q (r : Rat)
  | b (t : Bool)
  deriving Repr, BEq, DecidableEq

/-- a value: a scalar or a one-dimensional array of scalars (numpy array of sample times) -/
inductive Val where
  | sc (s : Sc)
  | vec (xs : List Sc)
  deriving Repr, BEq, DecidableEq

abbrev Val.num (r : Rat) : Val := .sc (.q r)
abbrev Val.bool (t : Bool) : Val := .sc (.b t)
def Val.nums (rs : List Rat) : Val := .vec (rs.map .q)

/-- a scope: name ↦ value -/
abbrev Env := String → Option Val

def Env.empty : Env := fun _ => none
/-- `ρ.set x v` : the scope `ρ` with `x` (re)bound to `v` -/
def Env.set (ρ : Env) (x : String) (v : Val) : Env := fun y => if y = x then some v else ρ y
/-- `ρ₁.over ρ₂` : the union of two scopes in which `ρ₁` wins -/
def Env.over (ρ₁ ρ₂ : Env) : Env := fun x => match ρ₁ x with | some v => some v | none => ρ₂ x
def Env.ofList (l : List (String × Val)) : Env := fun x => (l.find? (fun p => p.1 == x)).map (·.2)

/-! ## Operators on scalars -/

/-- unary operators that act on one scalar (and element-wise on arrays) -/
inductive ScUn where
  | neg | abs | floor | ceil | not
  | pow (n : Int)        -- integer power with a literal exponent
  deriving Repr, BEq, DecidableEq

/-- binary operators that act on two scalars (and element-wise, with broadcasting, on arrays) -/
inductive ScBin where
  | add | sub | mul | div | mod | min | max
  | lt | le | gt | ge | eq | ne
  | and | or
  deriving Repr, BEq, DecidableEq

/-- `a ** n` for an integer literal `n`; `0 ** negative` is Python's `ZeroDivisionError` -/
def powInt (a : Rat) (n : Int) : Except Err Rat :=
  if 0 ≤ n then .ok (a ^ n.toNat)
  else if a = 0 then .error .zeroDivision
  else .ok (1 / a ^ (-n).toNat)

/-- Python / numpy / sympy `%`: the result has the sign of the divisor -/
def pyMod (a b : Rat) : Rat := a - b * ((a / b).floor : Int)

def ScUn.eval : ScUn → Sc → Except Err Sc
  | .neg, .q a => .ok (.q (-a))
  | .abs, .q a => .ok (.q (if a < 0 then -a else a))
  | .floor, .q a => .ok (.q (a.floor : Int))
  | .ceil, .q a => .ok (.q (a.ceil : Int))
  | .pow n, .q a => match powInt a n with | .ok r => .ok (.q r) | .error e => .error e
  | .not, .b t => .ok (.b (!t))
  | _, _ => .error .type

def ScBin.eval : ScBin → Sc → Sc → Except Err Sc
  | .add, .q a, .q b => .ok (.q (a + b))
  | .sub, .q a, .q b => .ok (.q (a - b))
  | .mul, .q a, .q b => .ok (.q (a * b))
  | .div, .q a, .q b => if b = 0 then .error .zeroDivision else .ok (.q (a / b))
  | .mod, .q a, .q b => if b = 0 then .error .zeroDivision else .ok (.q (pyMod a b))
  | .min, .q a, .q b => .ok (.q (if a ≤ b then a else b))
  | .max, .q a, .q b => .ok (.q (if a ≤ b then b else a))
  | .lt, .q a, .q b => .ok (.b (decide (a < b)))
  | .le, .q a, .q b => .ok (.b (decide (a ≤ b)))
  | .gt, .q a, .q b => .ok (.b (decide (b < a)))
  | .ge, .q a, .q b => .ok (.b (decide (b ≤ a)))
  | .eq, .q a, .q b => .ok (.b (decide (a = b)))
  | .ne, .q a, .q b => .ok (.b (decide (a ≠ b)))
  | .and, .b s, .b t => .ok (.b (s && t))
  | .or, .b s, .b t => .ok (.b (s || t))
  | _, _, _ => .error .type

/-- `Piecewise((x, c), (y, True))` on scalars -/
def scIte : List Sc → Except Err Sc
  | [.b c, x, y] => .ok (if c then x else y)
  | _ => .error .type

/-! ## Element-wise lifting with numpy broadcasting (scalar against array, arrays of equal length) -/

/-- `List.mapM` for `Except`, by plain structural recursion -/
def mapE {α β : Type} (f : α → Except Err β) : List α → Except Err (List β)
  | [] => .ok []
  | x :: xs =>
    match f x with
    | .error e => .error e
    | .ok y =>
      match mapE f xs with
      | .error e => .error e
      | .ok ys => .ok (y :: ys)

def Val.len? : Val → Option Nat
  | .sc _ => none
  | .vec xs => some xs.length

/-- the `i`-th sample of a value; a scalar is the same at every sample -/
def Val.at (i : Nat) : Val → Option Sc
  | .sc s => some s
  | .vec xs => xs[i]?

/-- common length of the arrays among `vs` (`none`: all scalars); different lengths do not broadcast -/
def commonLen : List Val → Except Err (Option Nat)
  | [] => .ok none
  | v :: vs =>
    match commonLen vs with
    | .error e => .error e
    | .ok r =>
      match v.len?, r with
      | none, r => .ok r
      | some n, none => .ok (some n)
      | some n, some m => if n = m then .ok (some n) else .error .shape

/-- the operands' `j`-th samples -/
def row (vs : List Val) (j : Nat) : Except Err (List Sc) :=
  mapE (fun v => match v.at j with | some s => .ok s | none => .error .shape) vs

def rowApply (f : List Sc → Except Err Sc) (vs : List Val) (j : Nat) : Except Err Sc :=
  match row vs j with
  | .error e => .error e
  | .ok r => f r

/-- apply a scalar function sample by sample -/
def liftN (f : List Sc → Except Err Sc) (vs : List Val) : Except Err Val :=
  match commonLen vs with
  | .error e => .error e
  | .ok none => match rowApply f vs 0 with | .ok s => .ok (.sc s) | .error e => .error e
  | .ok (some n) =>
    match mapE (rowApply f vs) (List.range n) with
    | .ok ss => .ok (.vec ss)
    | .error e => .error e

def un1 (f : Sc → Except Err Sc) : List Sc → Except Err Sc
  | [a] => f a
  | _ => .error .type

def bin2 (f : Sc → Sc → Except Err Sc) : List Sc → Except Err Sc
  | [a, b] => f a b
  | _ => .error .type

/-! ## Operators on values -/

inductive UnOp where
  | sc (o : ScUn)
  | bcast (n : Nat)      -- `Broadcast(x, (n,))`
  deriving Repr, BEq, DecidableEq

inductive BinOp where
  | sc (o : ScBin)
  | index                -- `a[i]`
  | cons                 -- vector literal: first entry, remaining entries
  deriving Repr, BEq, DecidableEq

/-- integer value of a scalar value, if it is one -/
def Val.toInt : Val → Except Err Int
  | .sc (.q r) => if r.den = 1 then .ok r.num else .error .notInteger
  | _ => .error .type

def UnOp.eval : UnOp → Val → Except Err Val
  | .sc o, v => liftN (un1 o.eval) [v]
  | .bcast n, .sc s => .ok (.vec (List.replicate n s))
  | .bcast n, .vec xs =>
    if xs.length = n then .ok (.vec xs)
    else match xs with
      | [s] => .ok (.vec (List.replicate n s))
      | _ => .error .shape

def BinOp.eval : BinOp → Val → Val → Except Err Val
  | .sc o, a, b => liftN (bin2 o.eval) [a, b]
  | .index, .vec xs, i =>
    match i.toInt with
    | .error e => .error e
    | .ok k =>
      let k' : Int := if k < 0 then k + xs.length else k     -- Python: negative indices count from the end
      if k' < 0 then .error .index else
      match xs[k'.toNat]? with
      | some s => .ok (.sc s)
      | none => .error .index
  | .index, .sc _, _ => .error .type
  | .cons, .sc s, .vec xs => .ok (.vec (s :: xs))
  | .cons, _, _ => .error .type

/-! ## Formulas -/

inductive Expr where
  | lit (v : Val)                                  -- number, truth value or array constant
  | var (x : String)
  | un (op : UnOp) (a : Expr)
  | bin (op : BinOp) (a b : Expr)
  | ite (c a b : Expr)                             -- `Piecewise((a, c), (b, True))`
  | sum (i : String) (lo hi body : Expr)           -- `Sum(body, (i, lo, hi))`, both bounds included
  deriving Repr, BEq, DecidableEq

namespace Expr
abbrev num (r : Rat) : Expr := .lit (.num r)
abbrev neg (a : Expr) : Expr := .un (.sc .neg) a
abbrev abs (a : Expr) : Expr := .un (.sc .abs) a
abbrev floor (a : Expr) : Expr := .un (.sc .floor) a
abbrev ceil (a : Expr) : Expr := .un (.sc .ceil) a
abbrev not (a : Expr) : Expr := .un (.sc .not) a
abbrev pow (a : Expr) (n : Int) : Expr := .un (.sc (.pow n)) a
abbrev bcast (a : Expr) (n : Nat) : Expr := .un (.bcast n) a
abbrev add (a b : Expr) : Expr := .bin (.sc .add) a b
abbrev sub (a b : Expr) : Expr := .bin (.sc .sub) a b
abbrev mul (a b : Expr) : Expr := .bin (.sc .mul) a b
abbrev div (a b : Expr) : Expr := .bin (.sc .div) a b
abbrev mod (a b : Expr) : Expr := .bin (.sc .mod) a b
abbrev min (a b : Expr) : Expr := .bin (.sc .min) a b
abbrev max (a b : Expr) : Expr := .bin (.sc .max) a b
abbrev lt (a b : Expr) : Expr := .bin (.sc .lt) a b
abbrev le (a b : Expr) : Expr := .bin (.sc .le) a b
abbrev index (a i : Expr) : Expr := .bin .index a i
/-- vector literal `[e₀, e₁, …]` -/
def vec : List Expr → Expr
  | [] => .lit (.vec [])
  | e :: es => .bin .cons e (vec es)
end Expr

/-- `builtins.sum(f(k) for k in range(lo, lo + n))`, accumulating from the left starting at `acc` -/
def sumLoop (f : Int → Except Err Val) : Val → Int → Nat → Except Err Val
  | acc, _, 0 => .ok acc
  | acc, lo, n + 1 =>
    match f lo with
    | .error e => .error e
    | .ok v =>
      match BinOp.eval (.sc .add) acc v with
      | .error e => .error e
      | .ok acc' => sumLoop f acc' (lo + 1) n

/-- the value of a formula in a scope (all names are looked up in the *same* scope: simultaneous) -/
def eval (ρ : Env) : Expr → Except Err Val
  | .lit v => .ok v
  | .var x => match ρ x with | some v => .ok v | none => .error (.unbound x)
  | .un op a =>
    match eval ρ a with
    | .error e => .error e
    | .ok va => op.eval va
  | .bin op a b =>
    match eval ρ a with
    | .error e => .error e
    | .ok va =>
      match eval ρ b with
      | .error e => .error e
      | .ok vb => op.eval va vb
  | .ite c a b =>
    -- `numpy.select` evaluates every branch
    match eval ρ c with
    | .error e => .error e
    | .ok vc =>
      match eval ρ a with
      | .error e => .error e
      | .ok va =>
        match eval ρ b with
        | .error e => .error e
        | .ok vb => liftN scIte [vc, va, vb]
  | .sum i lo hi body =>
    match eval ρ lo with
    | .error e => .error e
    | .ok vlo =>
      match eval ρ hi with
      | .error e => .error e
      | .ok vhi =>
        match vlo.toInt with
        | .error e => .error e
        | .ok l =>
          match vhi.toInt with
          | .error e => .error e
          | .ok h => sumLoop (fun k => eval (ρ.set i (.num k)) body) (.num 0) l (h + 1 - l).toNat

/-- an `ExpressionVector`: every entry is evaluated in the same scope -/
def evalVector (ρ : Env) (es : List Expr) : Except Err (List Val) := mapE (eval ρ) es

/-! ## Names, substitution -/

def fv : Expr → List String
  | .lit _ => []
  | .var x => [x]
  | .un _ a => fv a
  | .bin _ a b => fv a ++ fv b
  | .ite c a b => fv c ++ (fv a ++ fv b)
  | .sum i lo hi body => fv lo ++ (fv hi ++ (fv body).filter (fun x => x ≠ i))

/-- names bound by a `Sum` somewhere in the formula -/
def bv : Expr → List String
  | .lit _ => []
  | .var _ => []
  | .un _ a => bv a
  | .bin _ a b => bv a ++ bv b
  | .ite c a b => bv c ++ (bv a ++ bv b)
  | .sum i lo hi body => i :: (bv lo ++ (bv hi ++ bv body))

abbrev Subst := String → Option Expr

/-- `σ` without an entry for `i` -/
def Subst.erase (σ : Subst) (i : String) : Subst := fun x => if x = i then none else σ x

/-- simultaneous substitution (`recursive_substitution`): every free occurrence of a name with an
entry in `σ` is replaced, replacements are not substituted again; a summation index shadows. No
renaming of summation indices takes place (as in the code). -/
def subst (σ : Subst) : Expr → Expr
  | .lit v => .lit v
  | .var x => match σ x with | some s => s | none => .var x
  | .un op a => .un op (subst σ a)
  | .bin op a b => .bin op (subst σ a) (subst σ b)
  | .ite c a b => .ite (subst σ c) (subst σ a) (subst σ b)
  | .sum i lo hi body => .sum i (subst σ lo) (subst σ hi) (subst (σ.erase i) body)

/-- the substitution that replaces the names bound in `ρ₁` by their values -/
def Subst.ofEnv (ρ₁ : Env) : Subst := fun x => (ρ₁ x).map Expr.lit

/-- partial numeric substitution: `evaluate_symbolic` with numbers / arrays -/
def substNum (ρ₁ : Env) (e : Expr) : Expr := subst (Subst.ofEnv ρ₁) e

/-- the scope in which `e` is evaluated after substituting `σ` and evaluating in `ρ` -/
def Env.after (ρ : Env) (σ : Subst) : Env := fun x =>
  match σ x with
  | none => ρ x
  | some s => match eval ρ s with | .ok v => some v | .error _ => none

/-! ## Three-valued ordering comparison -/

inductive Cmp where
  | lt | le | gt | ge
  deriving Repr, BEq, DecidableEq

def Cmp.holds : Cmp → Rat → Rat → Bool
  | .lt, a, b => decide (a < b)
  | .le, a, b => decide (a ≤ b)
  | .gt, a, b => decide (b < a)
  | .ge, a, b => decide (b ≤ a)

def Cmp.toBin : Cmp → ScBin
  | .lt => .lt | .le => .le | .gt => .gt | .ge => .ge

/-- `ExpressionScalar.__lt__` etc.: decided (`some`) exactly when both sides are numbers, i.e. contain
no free name and evaluate; `none` ("unknown") otherwise -/
def cmp3 (c : Cmp) (e₁ e₂ : Expr) : Option Bool :=
  if fv e₁ = [] ∧ fv e₂ = [] then
    match eval Env.empty e₁, eval Env.empty e₂ with
    | .ok (.sc (.q a)), .ok (.sc (.q b)) => some (c.holds a b)
    | _, _ => none
  else none

/-! ## Class of the open findings PF-C12e (b) / PF-C12f (`known_findings.jsonl`)

The model takes `Sum` as the lambdified python loop and `subst` never evaluates anything.  sympy itself
evaluates a `Sum` that has no free names left (by Karr's convention, or numerically) wherever a function
needs its sign or value.  For formulas in this class the correspondence between `subst`/`substNum` and
`evaluate_symbolic` is known not to hold; the harness skips them (same predicate, `closed_sum_inspected`). -/

def ScUn.inspects : ScUn → Bool
  | .floor | .ceil | .abs => true
  | _ => false

def ScBin.inspects : ScBin → Bool
  | .mod | .min | .max | .lt | .le | .gt | .ge | .eq | .ne => true
  | _ => false

/-- a `Sum` all of whose free names are in `known` (numbers for sympy: replaced by `evaluate_symbolic`, or
indices of enclosing sums) below Min / Max / Mod / floor / ceiling / Abs / a relation / a Piecewise condition -/
def closedSumInspected (known : List String) : Bool → Expr → Bool
  | _, .lit _ => false
  | _, .var _ => false
  | ins, .un (.sc o) a => closedSumInspected known (ins || o.inspects) a
  | ins, .un (.bcast _) a => closedSumInspected known ins a
  | ins, .bin (.sc o) a b =>
    closedSumInspected known (ins || o.inspects) a || closedSumInspected known (ins || o.inspects) b
  | ins, .bin _ a b => closedSumInspected known ins a || closedSumInspected known ins b
  | ins, .ite c a b =>
    closedSumInspected known true c || closedSumInspected known ins a || closedSumInspected known ins b
  | ins, .sum i lo hi body =>
    (ins && (fv (.sum i lo hi body)).all (fun x => known.contains x))
      || closedSumInspected known ins lo || closedSumInspected known ins hi
      || closedSumInspected (i :: known) ins body

def InKnownClassClosedSum (known : List String) (e : Expr) : Bool := closedSumInspected known false e

/-! ## The formula an arithmetic operator builds -/

/-- the Python operator methods of `ExpressionScalar` (`self` is the expression, `other` the operand) -/
inductive PyOp where
  | add | radd | sub | rsub | mul | rmul | truediv | rtruediv | floordiv | rfloordiv
  deriving Repr, BEq, DecidableEq

def PyOp.build : PyOp → Expr → Expr → Expr
  | .add, self, other => .add self other
  | .radd, self, other => .add other self
  | .sub, self, other => .sub self other
  | .rsub, self, other => .sub other self
  | .mul, self, other => .mul self other
  | .rmul, self, other => .mul other self
  | .truediv, self, other => .div self other
  | .rtruediv, self, other => .div other self
  | .floordiv, self, other => .floor (.div self other)
  | .rfloordiv, self, other => .floor (.div other self)

/-- what the operator means on numbers -/
def PyOp.sem : PyOp → Rat → Rat → Except Err Rat
  | .add, s, o => .ok (s + o)
  | .radd, s, o => .ok (o + s)
  | .sub, s, o => .ok (s - o)
  | .rsub, s, o => .ok (o - s)
  | .mul, s, o => .ok (s * o)
  | .rmul, s, o => .ok (o * s)
  | .truediv, s, o => if o = 0 then .error .zeroDivision else .ok (s / o)
  | .rtruediv, s, o => if s = 0 then .error .zeroDivision else .ok (o / s)
  | .floordiv, s, o => if o = 0 then .error .zeroDivision else .ok ((s / o).floor : Int)
  | .rfloordiv, s, o => if s = 0 then .error .zeroDivision else .ok ((o / s).floor : Int)

/-! ## Judge: does a value returned by the implementation agree with the formula's value? -/

def absR (r : Rat) : Rat := if r < 0 then -r else r

/-- two scalars agree up to the absolute tolerance `tol` (`tol = 0`: exactly) -/
def Sc.Close (tol : Rat) : Sc → Sc → Prop
  | .q x, .q y => absR (x - y) ≤ tol
  | .b s, .b t => s = t
  | _, _ => False

def Sc.closeB (tol : Rat) : Sc → Sc → Bool
  | .q x, .q y => decide (absR (x - y) ≤ tol)
  | .b s, .b t => s == t
  | _, _ => false

def allClose (tol : Rat) : List Sc → List Sc → Bool
  | [], [] => true
  | x :: xs, y :: ys => Sc.closeB tol x y && allClose tol xs ys
  | _, _ => false

/-- value agreement, sample by sample; a scalar stands for the array of that value at every sample
(sympy may simplify `t - t` to `0`, numpy broadcasts) -/
def Val.Close (tol : Rat) : Val → Val → Prop
  | .sc a, .sc b => Sc.Close tol a b
  | .vec xs, .vec ys => xs.length = ys.length ∧ ∀ (i : Nat) (x y : Sc), xs[i]? = some x → ys[i]? = some y → Sc.Close tol x y
  | .sc a, .vec ys => ∀ y ∈ ys, Sc.Close tol a y
  | .vec xs, .sc b => ∀ x ∈ xs, Sc.Close tol x b

def Val.closeB (tol : Rat) : Val → Val → Bool
  | .sc a, .sc b => Sc.closeB tol a b
  | .vec xs, .vec ys => allClose tol xs ys
  | .sc a, .vec ys => ys.all (fun y => Sc.closeB tol a y)
  | .vec xs, .sc b => xs.all (fun x => Sc.closeB tol x b)

/-- the property's core clause for one evaluation: the implementation returned `got` for `e` in `ρ` -/
def Agrees (tol : Rat) (ρ : Env) (e : Expr) (got : Val) : Prop :=
  ∃ v, eval ρ e = .ok v ∧ Val.Close tol v got

def agreesB (tol : Rat) (ρ : Env) (e : Expr) (got : Val) : Bool :=
  match eval ρ e with
  | .ok v => Val.closeB tol v got
  | .error _ => false

/-! ## Line protocol -/
open Sexp

def scS : Sc → Sexp
  | .q r => if r.den = 1 then ofInt r.num else ofRat r
  | .b t => ofBool t

def valS : Val → Sexp
  | .sc s => scS s
  | .vec xs => .list (.atom "vec" :: xs.map scS)

def errS : Err → Sexp
  | .unbound x => .list [.atom "error", .atom "unbound", .atom x]
  | .zeroDivision => .list [.atom "error", .atom "zero_division"]
  | .type => .list [.atom "error", .atom "type_error"]
  | .shape => .list [.atom "error", .atom "shape"]
  | .index => .list [.atom "error", .atom "index_error"]
  | .notInteger => .list [.atom "error", .atom "not_integer"]

def resS : Except Err Val → Sexp
  | .ok v => .list [.atom "ok", valS v]
  | .error e => errS e

def sc? : Sexp → Option Sc
  | .atom "true" => some (.b true)
  | .atom "false" => some (.b false)
  | s => (rat? s).map .q

def val? : Sexp → Option Val
  | .list (.atom "vec" :: xs) => (xs.mapM sc?).map .vec
  | s => (sc? s).map .sc

def scUn? : String → Option ScUn
  | "neg" => some .neg | "abs" => some .abs | "floor" => some .floor | "ceil" => some .ceil
  | "not" => some .not | _ => none

def scBin? : String → Option ScBin
  | "add" => some .add | "sub" => some .sub | "mul" => some .mul | "div" => some .div
  | "mod" => some .mod | "min" => some .min | "max" => some .max
  | "lt" => some .lt | "le" => some .le | "gt" => some .gt | "ge" => some .ge
  | "eq" => some .eq | "ne" => some .ne | "and" => some .and | "or" => some .or
  | _ => none

/-- decoder of the harness' "written formula".  Literals are `3`, `(q 1 2)`, `true`, `(vec …)`;
`(var x)`; `(neg a)` … `(pow a n)` `(bcast a n)`; `(add a b)` … `(index a i)`; `(vecx e…)`;
`(ite c a b)`; `(sum i lo hi body)`. -/
partial def Expr.ofSexp : Sexp → Option Expr
  | .list [.atom "var", .atom x] => some (.var x)
  | .list [.atom "pow", a, n] => do
      let a ← Expr.ofSexp a; let n ← int? n; some (.pow a n)
  | .list [.atom "bcast", a, n] => do
      let a ← Expr.ofSexp a; let n ← nat? n; some (.bcast a n)
  | .list [.atom "index", a, i] => do
      let a ← Expr.ofSexp a; let i ← Expr.ofSexp i; some (.index a i)
  | .list [.atom "ite", c, a, b] => do
      let c ← Expr.ofSexp c; let a ← Expr.ofSexp a; let b ← Expr.ofSexp b; some (.ite c a b)
  | .list [.atom "sum", .atom i, lo, hi, body] => do
      let lo ← Expr.ofSexp lo; let hi ← Expr.ofSexp hi; let body ← Expr.ofSexp body
      some (.sum i lo hi body)
  | .list (.atom "vecx" :: es) => do
      let es ← es.mapM Expr.ofSexp; some (Expr.vec es)
  | s@(.list [.atom op, a]) =>
      match scUn? op with
      | some o => do let a ← Expr.ofSexp a; some (.un (.sc o) a)
      | none => (val? s).map .lit
  | s@(.list [.atom op, a, b]) =>
      match scBin? op with
      | some o => do let a ← Expr.ofSexp a; let b ← Expr.ofSexp b; some (.bin (.sc o) a b)
      | none => (val? s).map .lit
  | s => (val? s).map .lit

def binding? : Sexp → Option (String × Val)
  | .list [.atom x, v] => (val? v).map (fun v => (x, v))
  | _ => none

def env? (s : Sexp) : Option Env := (listOf? binding? s).map Env.ofList

def sbinding? : Sexp → Option (String × Expr)
  | .list [.atom x, e] => (Expr.ofSexp e).map (fun e => (x, e))
  | _ => none

def subst? (s : Sexp) : Option Subst :=
  (listOf? sbinding? s).map (fun l x => (l.find? (fun p => p.1 == x)).map (·.2))

def cmp? : Sexp → Option Cmp
  | .atom "lt" => some .lt | .atom "le" => some .le | .atom "gt" => some .gt | .atom "ge" => some .ge
  | _ => none

def pyOp? : Sexp → Option PyOp
  | .atom "add" => some .add | .atom "radd" => some .radd | .atom "sub" => some .sub
  | .atom "rsub" => some .rsub | .atom "mul" => some .mul | .atom "rmul" => some .rmul
  | .atom "truediv" => some .truediv | .atom "rtruediv" => some .rtruediv
  | .atom "floordiv" => some .floordiv | .atom "rfloordiv" => some .rfloordiv
  | _ => none

/-- a formula given directly, or as the result of one of the modelled operations:
`(build op self other)` (operator of `ExpressionScalar`), `(subst σ e)` (`evaluate_symbolic` with
expressions), `(partial (ρ₁ ρ₂ …) e)` (successive `evaluate_symbolic` with numbers / arrays) -/
def formula? : Sexp → Option Expr
  | .list [.atom "build", op, self, other] => do
      let op ← pyOp? op; let s ← Expr.ofSexp self; let o ← Expr.ofSexp other
      some (op.build s o)
  | .list [.atom "subst", sigma, e] => do
      let σ ← subst? sigma; let e ← Expr.ofSexp e
      some (subst σ e)
  | .list [.atom "partial", .list envs, e] => do
      let ρs ← envs.mapM env?; let e ← Expr.ofSexp e
      some (ρs.foldl (fun e ρ => substNum ρ e) e)
  | s => Expr.ofSexp s

def handle : List Sexp → Sexp
  | [.atom "eval", env, e] =>
    match env? env, formula? e with
    | some ρ, some e => resS (eval ρ e)
    | _, _ => Sexp.err "bad-args"
  | [.atom "judge", env, e, got, tol] =>
    -- verdict on a value returned by the implementation
    match env? env, formula? e, val? got, rat? tol with
    | some ρ, some e, some got, some tol =>
      match eval ρ e with
      | .error err => .list [.atom "undefined", errS err]
      | .ok v => if agreesB tol ρ e got then .list [.atom "ok", valS v]
                 else .list [.atom "violates", .atom "value-differs", valS v]
    | _, _, _, _ => Sexp.err "bad-args"
  | [.atom "subst-eval", env, sigma, e] =>
    -- value after `evaluate_symbolic(sigma)`, and the value the substitution lemma predicts
    match env? env, subst? sigma, Expr.ofSexp e with
    | some ρ, some σ, some e => .list [.atom "subst", resS (eval ρ (subst σ e)), resS (eval (ρ.after σ) e)]
    | _, _, _ => Sexp.err "bad-args"
  | [.atom "cmp3", c, e₁, e₂] =>
    match cmp? c, Expr.ofSexp e₁, Expr.ofSexp e₂ with
    | some c, some e₁, some e₂ =>
      match cmp3 c e₁ e₂ with
      | some t => .list [.atom "some", ofBool t]
      | none => .atom "none"
    | _, _, _ => Sexp.err "bad-args"
  | [.atom "known-class", .list known, e] =>
    match known.mapM (fun | .atom x => some x | _ => none), formula? e with
    | some ks, some e => ofBool (InKnownClassClosedSum ks e)
    | _, _ => Sexp.err "bad-args"
  | [.atom "fv", e] =>
    match Expr.ofSexp e with
    | some e => .list ((fv e).eraseDups.map .atom)
    | none => Sexp.err "bad-args"
  | _ => Sexp.err "c12-unknown-request"

end QP.C12
