import QP.Base
namespace QP.C12
open Sexp

def handle : List Sexp → Sexp
  | _ => Sexp.err "c12-not-implemented"

end QP.C12
